(* REGENERATED on every run by harness/c04_skel.py -- do not edit. *)
From Coq Require Import List String.
Import ListNotations.
From Molli Require Import Common.Exc.
Open Scope string_scope.

(* observed on the real context managers: (calls made to raise, (call trace, exception propagated),
   lock free afterwards as seen from ANOTHER process, file closed afterwards) *)
Definition fault_row := (list string * (trace * bool) * bool * bool)%type.
Definition writing_rows : list fault_row := [
  ([], ([("guard:_readonly", false); ("acquire_write_lock", false); ("begin_write", false); ("update_keys", false); ("body", false); ("flush", false); ("end_write", false); ("release_write_lock", false)], false), true, true);
  (["guard:_readonly"], ([("guard:_readonly", true)], true), true, true);
  (["acquire_write_lock"], ([("guard:_readonly", false); ("acquire_write_lock", true)], true), true, true);
  (["begin_write"], ([("guard:_readonly", false); ("acquire_write_lock", false); ("begin_write", true); ("release_write_lock", false)], true), true, true);
  (["update_keys"], ([("guard:_readonly", false); ("acquire_write_lock", false); ("begin_write", false); ("update_keys", true); ("flush", false); ("end_write", false); ("release_write_lock", false)], true), true, true);
  (["body"], ([("guard:_readonly", false); ("acquire_write_lock", false); ("begin_write", false); ("update_keys", false); ("body", true); ("flush", false); ("end_write", false); ("release_write_lock", false)], true), true, true);
  (["flush"], ([("guard:_readonly", false); ("acquire_write_lock", false); ("begin_write", false); ("update_keys", false); ("body", false); ("flush", true); ("end_write", false); ("release_write_lock", false)], true), true, true);
  (["end_write"], ([("guard:_readonly", false); ("acquire_write_lock", false); ("begin_write", false); ("update_keys", false); ("body", false); ("flush", false); ("end_write", true); ("release_write_lock", false)], true), true, true);
  (["guard:_readonly"; "acquire_write_lock"], ([("guard:_readonly", true)], true), true, true);
  (["guard:_readonly"; "begin_write"], ([("guard:_readonly", true)], true), true, true);
  (["guard:_readonly"; "update_keys"], ([("guard:_readonly", true)], true), true, true);
  (["guard:_readonly"; "body"], ([("guard:_readonly", true)], true), true, true);
  (["guard:_readonly"; "flush"], ([("guard:_readonly", true)], true), true, true);
  (["guard:_readonly"; "end_write"], ([("guard:_readonly", true)], true), true, true);
  (["acquire_write_lock"; "begin_write"], ([("guard:_readonly", false); ("acquire_write_lock", true)], true), true, true);
  (["acquire_write_lock"; "update_keys"], ([("guard:_readonly", false); ("acquire_write_lock", true)], true), true, true);
  (["acquire_write_lock"; "body"], ([("guard:_readonly", false); ("acquire_write_lock", true)], true), true, true);
  (["acquire_write_lock"; "flush"], ([("guard:_readonly", false); ("acquire_write_lock", true)], true), true, true);
  (["acquire_write_lock"; "end_write"], ([("guard:_readonly", false); ("acquire_write_lock", true)], true), true, true);
  (["begin_write"; "update_keys"], ([("guard:_readonly", false); ("acquire_write_lock", false); ("begin_write", true); ("release_write_lock", false)], true), true, true);
  (["begin_write"; "body"], ([("guard:_readonly", false); ("acquire_write_lock", false); ("begin_write", true); ("release_write_lock", false)], true), true, true);
  (["begin_write"; "flush"], ([("guard:_readonly", false); ("acquire_write_lock", false); ("begin_write", true); ("release_write_lock", false)], true), true, true);
  (["begin_write"; "end_write"], ([("guard:_readonly", false); ("acquire_write_lock", false); ("begin_write", true); ("release_write_lock", false)], true), true, true);
  (["update_keys"; "body"], ([("guard:_readonly", false); ("acquire_write_lock", false); ("begin_write", false); ("update_keys", true); ("flush", false); ("end_write", false); ("release_write_lock", false)], true), true, true);
  (["update_keys"; "flush"], ([("guard:_readonly", false); ("acquire_write_lock", false); ("begin_write", false); ("update_keys", true); ("flush", true); ("end_write", false); ("release_write_lock", false)], true), true, true);
  (["update_keys"; "end_write"], ([("guard:_readonly", false); ("acquire_write_lock", false); ("begin_write", false); ("update_keys", true); ("flush", false); ("end_write", true); ("release_write_lock", false)], true), true, true);
  (["body"; "flush"], ([("guard:_readonly", false); ("acquire_write_lock", false); ("begin_write", false); ("update_keys", false); ("body", true); ("flush", true); ("end_write", false); ("release_write_lock", false)], true), true, true);
  (["body"; "end_write"], ([("guard:_readonly", false); ("acquire_write_lock", false); ("begin_write", false); ("update_keys", false); ("body", true); ("flush", false); ("end_write", true); ("release_write_lock", false)], true), true, true);
  (["flush"; "end_write"], ([("guard:_readonly", false); ("acquire_write_lock", false); ("begin_write", false); ("update_keys", false); ("body", false); ("flush", true); ("end_write", true); ("release_write_lock", false)], true), true, true);
  (["guard:_readonly"; "acquire_write_lock"; "begin_write"], ([("guard:_readonly", true)], true), true, true);
  (["guard:_readonly"; "acquire_write_lock"; "update_keys"], ([("guard:_readonly", true)], true), true, true);
  (["guard:_readonly"; "acquire_write_lock"; "body"], ([("guard:_readonly", true)], true), true, true);
  (["guard:_readonly"; "acquire_write_lock"; "flush"], ([("guard:_readonly", true)], true), true, true);
  (["guard:_readonly"; "acquire_write_lock"; "end_write"], ([("guard:_readonly", true)], true), true, true);
  (["guard:_readonly"; "begin_write"; "update_keys"], ([("guard:_readonly", true)], true), true, true);
  (["guard:_readonly"; "begin_write"; "body"], ([("guard:_readonly", true)], true), true, true);
  (["guard:_readonly"; "begin_write"; "flush"], ([("guard:_readonly", true)], true), true, true);
  (["guard:_readonly"; "begin_write"; "end_write"], ([("guard:_readonly", true)], true), true, true);
  (["guard:_readonly"; "update_keys"; "body"], ([("guard:_readonly", true)], true), true, true);
  (["guard:_readonly"; "update_keys"; "flush"], ([("guard:_readonly", true)], true), true, true);
  (["guard:_readonly"; "update_keys"; "end_write"], ([("guard:_readonly", true)], true), true, true);
  (["guard:_readonly"; "body"; "flush"], ([("guard:_readonly", true)], true), true, true);
  (["guard:_readonly"; "body"; "end_write"], ([("guard:_readonly", true)], true), true, true);
  (["guard:_readonly"; "flush"; "end_write"], ([("guard:_readonly", true)], true), true, true);
  (["acquire_write_lock"; "begin_write"; "update_keys"], ([("guard:_readonly", false); ("acquire_write_lock", true)], true), true, true);
  (["acquire_write_lock"; "begin_write"; "body"], ([("guard:_readonly", false); ("acquire_write_lock", true)], true), true, true);
  (["acquire_write_lock"; "begin_write"; "flush"], ([("guard:_readonly", false); ("acquire_write_lock", true)], true), true, true);
  (["acquire_write_lock"; "begin_write"; "end_write"], ([("guard:_readonly", false); ("acquire_write_lock", true)], true), true, true);
  (["acquire_write_lock"; "update_keys"; "body"], ([("guard:_readonly", false); ("acquire_write_lock", true)], true), true, true);
  (["acquire_write_lock"; "update_keys"; "flush"], ([("guard:_readonly", false); ("acquire_write_lock", true)], true), true, true);
  (["acquire_write_lock"; "update_keys"; "end_write"], ([("guard:_readonly", false); ("acquire_write_lock", true)], true), true, true);
  (["acquire_write_lock"; "body"; "flush"], ([("guard:_readonly", false); ("acquire_write_lock", true)], true), true, true);
  (["acquire_write_lock"; "body"; "end_write"], ([("guard:_readonly", false); ("acquire_write_lock", true)], true), true, true);
  (["acquire_write_lock"; "flush"; "end_write"], ([("guard:_readonly", false); ("acquire_write_lock", true)], true), true, true);
  (["begin_write"; "update_keys"; "body"], ([("guard:_readonly", false); ("acquire_write_lock", false); ("begin_write", true); ("release_write_lock", false)], true), true, true);
  (["begin_write"; "update_keys"; "flush"], ([("guard:_readonly", false); ("acquire_write_lock", false); ("begin_write", true); ("release_write_lock", false)], true), true, true);
  (["begin_write"; "update_keys"; "end_write"], ([("guard:_readonly", false); ("acquire_write_lock", false); ("begin_write", true); ("release_write_lock", false)], true), true, true);
  (["begin_write"; "body"; "flush"], ([("guard:_readonly", false); ("acquire_write_lock", false); ("begin_write", true); ("release_write_lock", false)], true), true, true);
  (["begin_write"; "body"; "end_write"], ([("guard:_readonly", false); ("acquire_write_lock", false); ("begin_write", true); ("release_write_lock", false)], true), true, true);
  (["begin_write"; "flush"; "end_write"], ([("guard:_readonly", false); ("acquire_write_lock", false); ("begin_write", true); ("release_write_lock", false)], true), true, true);
  (["update_keys"; "body"; "flush"], ([("guard:_readonly", false); ("acquire_write_lock", false); ("begin_write", false); ("update_keys", true); ("flush", true); ("end_write", false); ("release_write_lock", false)], true), true, true);
  (["update_keys"; "body"; "end_write"], ([("guard:_readonly", false); ("acquire_write_lock", false); ("begin_write", false); ("update_keys", true); ("flush", false); ("end_write", true); ("release_write_lock", false)], true), true, true);
  (["update_keys"; "flush"; "end_write"], ([("guard:_readonly", false); ("acquire_write_lock", false); ("begin_write", false); ("update_keys", true); ("flush", true); ("end_write", true); ("release_write_lock", false)], true), true, true);
  (["body"; "flush"; "end_write"], ([("guard:_readonly", false); ("acquire_write_lock", false); ("begin_write", false); ("update_keys", false); ("body", true); ("flush", true); ("end_write", true); ("release_write_lock", false)], true), true, true);
  (["guard:_readonly"; "acquire_write_lock"; "begin_write"; "update_keys"], ([("guard:_readonly", true)], true), true, true);
  (["guard:_readonly"; "acquire_write_lock"; "begin_write"; "body"], ([("guard:_readonly", true)], true), true, true);
  (["guard:_readonly"; "acquire_write_lock"; "begin_write"; "flush"], ([("guard:_readonly", true)], true), true, true);
  (["guard:_readonly"; "acquire_write_lock"; "begin_write"; "end_write"], ([("guard:_readonly", true)], true), true, true);
  (["guard:_readonly"; "acquire_write_lock"; "update_keys"; "body"], ([("guard:_readonly", true)], true), true, true);
  (["guard:_readonly"; "acquire_write_lock"; "update_keys"; "flush"], ([("guard:_readonly", true)], true), true, true);
  (["guard:_readonly"; "acquire_write_lock"; "update_keys"; "end_write"], ([("guard:_readonly", true)], true), true, true);
  (["guard:_readonly"; "acquire_write_lock"; "body"; "flush"], ([("guard:_readonly", true)], true), true, true);
  (["guard:_readonly"; "acquire_write_lock"; "body"; "end_write"], ([("guard:_readonly", true)], true), true, true);
  (["guard:_readonly"; "acquire_write_lock"; "flush"; "end_write"], ([("guard:_readonly", true)], true), true, true);
  (["guard:_readonly"; "begin_write"; "update_keys"; "body"], ([("guard:_readonly", true)], true), true, true);
  (["guard:_readonly"; "begin_write"; "update_keys"; "flush"], ([("guard:_readonly", true)], true), true, true);
  (["guard:_readonly"; "begin_write"; "update_keys"; "end_write"], ([("guard:_readonly", true)], true), true, true);
  (["guard:_readonly"; "begin_write"; "body"; "flush"], ([("guard:_readonly", true)], true), true, true);
  (["guard:_readonly"; "begin_write"; "body"; "end_write"], ([("guard:_readonly", true)], true), true, true);
  (["guard:_readonly"; "begin_write"; "flush"; "end_write"], ([("guard:_readonly", true)], true), true, true);
  (["guard:_readonly"; "update_keys"; "body"; "flush"], ([("guard:_readonly", true)], true), true, true);
  (["guard:_readonly"; "update_keys"; "body"; "end_write"], ([("guard:_readonly", true)], true), true, true);
  (["guard:_readonly"; "update_keys"; "flush"; "end_write"], ([("guard:_readonly", true)], true), true, true);
  (["guard:_readonly"; "body"; "flush"; "end_write"], ([("guard:_readonly", true)], true), true, true);
  (["acquire_write_lock"; "begin_write"; "update_keys"; "body"], ([("guard:_readonly", false); ("acquire_write_lock", true)], true), true, true);
  (["acquire_write_lock"; "begin_write"; "update_keys"; "flush"], ([("guard:_readonly", false); ("acquire_write_lock", true)], true), true, true);
  (["acquire_write_lock"; "begin_write"; "update_keys"; "end_write"], ([("guard:_readonly", false); ("acquire_write_lock", true)], true), true, true);
  (["acquire_write_lock"; "begin_write"; "body"; "flush"], ([("guard:_readonly", false); ("acquire_write_lock", true)], true), true, true);
  (["acquire_write_lock"; "begin_write"; "body"; "end_write"], ([("guard:_readonly", false); ("acquire_write_lock", true)], true), true, true);
  (["acquire_write_lock"; "begin_write"; "flush"; "end_write"], ([("guard:_readonly", false); ("acquire_write_lock", true)], true), true, true);
  (["acquire_write_lock"; "update_keys"; "body"; "flush"], ([("guard:_readonly", false); ("acquire_write_lock", true)], true), true, true);
  (["acquire_write_lock"; "update_keys"; "body"; "end_write"], ([("guard:_readonly", false); ("acquire_write_lock", true)], true), true, true);
  (["acquire_write_lock"; "update_keys"; "flush"; "end_write"], ([("guard:_readonly", false); ("acquire_write_lock", true)], true), true, true);
  (["acquire_write_lock"; "body"; "flush"; "end_write"], ([("guard:_readonly", false); ("acquire_write_lock", true)], true), true, true);
  (["begin_write"; "update_keys"; "body"; "flush"], ([("guard:_readonly", false); ("acquire_write_lock", false); ("begin_write", true); ("release_write_lock", false)], true), true, true);
  (["begin_write"; "update_keys"; "body"; "end_write"], ([("guard:_readonly", false); ("acquire_write_lock", false); ("begin_write", true); ("release_write_lock", false)], true), true, true);
  (["begin_write"; "update_keys"; "flush"; "end_write"], ([("guard:_readonly", false); ("acquire_write_lock", false); ("begin_write", true); ("release_write_lock", false)], true), true, true);
  (["begin_write"; "body"; "flush"; "end_write"], ([("guard:_readonly", false); ("acquire_write_lock", false); ("begin_write", true); ("release_write_lock", false)], true), true, true);
  (["update_keys"; "body"; "flush"; "end_write"], ([("guard:_readonly", false); ("acquire_write_lock", false); ("begin_write", false); ("update_keys", true); ("flush", true); ("end_write", true); ("release_write_lock", false)], true), true, true);
  (["guard:_readonly"; "acquire_write_lock"; "begin_write"; "update_keys"; "body"], ([("guard:_readonly", true)], true), true, true);
  (["guard:_readonly"; "acquire_write_lock"; "begin_write"; "update_keys"; "flush"], ([("guard:_readonly", true)], true), true, true);
  (["guard:_readonly"; "acquire_write_lock"; "begin_write"; "update_keys"; "end_write"], ([("guard:_readonly", true)], true), true, true);
  (["guard:_readonly"; "acquire_write_lock"; "begin_write"; "body"; "flush"], ([("guard:_readonly", true)], true), true, true);
  (["guard:_readonly"; "acquire_write_lock"; "begin_write"; "body"; "end_write"], ([("guard:_readonly", true)], true), true, true);
  (["guard:_readonly"; "acquire_write_lock"; "begin_write"; "flush"; "end_write"], ([("guard:_readonly", true)], true), true, true);
  (["guard:_readonly"; "acquire_write_lock"; "update_keys"; "body"; "flush"], ([("guard:_readonly", true)], true), true, true);
  (["guard:_readonly"; "acquire_write_lock"; "update_keys"; "body"; "end_write"], ([("guard:_readonly", true)], true), true, true);
  (["guard:_readonly"; "acquire_write_lock"; "update_keys"; "flush"; "end_write"], ([("guard:_readonly", true)], true), true, true);
  (["guard:_readonly"; "acquire_write_lock"; "body"; "flush"; "end_write"], ([("guard:_readonly", true)], true), true, true);
  (["guard:_readonly"; "begin_write"; "update_keys"; "body"; "flush"], ([("guard:_readonly", true)], true), true, true);
  (["guard:_readonly"; "begin_write"; "update_keys"; "body"; "end_write"], ([("guard:_readonly", true)], true), true, true);
  (["guard:_readonly"; "begin_write"; "update_keys"; "flush"; "end_write"], ([("guard:_readonly", true)], true), true, true);
  (["guard:_readonly"; "begin_write"; "body"; "flush"; "end_write"], ([("guard:_readonly", true)], true), true, true);
  (["guard:_readonly"; "update_keys"; "body"; "flush"; "end_write"], ([("guard:_readonly", true)], true), true, true);
  (["acquire_write_lock"; "begin_write"; "update_keys"; "body"; "flush"], ([("guard:_readonly", false); ("acquire_write_lock", true)], true), true, true);
  (["acquire_write_lock"; "begin_write"; "update_keys"; "body"; "end_write"], ([("guard:_readonly", false); ("acquire_write_lock", true)], true), true, true);
  (["acquire_write_lock"; "begin_write"; "update_keys"; "flush"; "end_write"], ([("guard:_readonly", false); ("acquire_write_lock", true)], true), true, true);
  (["acquire_write_lock"; "begin_write"; "body"; "flush"; "end_write"], ([("guard:_readonly", false); ("acquire_write_lock", true)], true), true, true);
  (["acquire_write_lock"; "update_keys"; "body"; "flush"; "end_write"], ([("guard:_readonly", false); ("acquire_write_lock", true)], true), true, true);
  (["begin_write"; "update_keys"; "body"; "flush"; "end_write"], ([("guard:_readonly", false); ("acquire_write_lock", false); ("begin_write", true); ("release_write_lock", false)], true), true, true);
  (["guard:_readonly"; "acquire_write_lock"; "begin_write"; "update_keys"; "body"; "flush"], ([("guard:_readonly", true)], true), true, true);
  (["guard:_readonly"; "acquire_write_lock"; "begin_write"; "update_keys"; "body"; "end_write"], ([("guard:_readonly", true)], true), true, true);
  (["guard:_readonly"; "acquire_write_lock"; "begin_write"; "update_keys"; "flush"; "end_write"], ([("guard:_readonly", true)], true), true, true);
  (["guard:_readonly"; "acquire_write_lock"; "begin_write"; "body"; "flush"; "end_write"], ([("guard:_readonly", true)], true), true, true);
  (["guard:_readonly"; "acquire_write_lock"; "update_keys"; "body"; "flush"; "end_write"], ([("guard:_readonly", true)], true), true, true);
  (["guard:_readonly"; "begin_write"; "update_keys"; "body"; "flush"; "end_write"], ([("guard:_readonly", true)], true), true, true);
  (["acquire_write_lock"; "begin_write"; "update_keys"; "body"; "flush"; "end_write"], ([("guard:_readonly", false); ("acquire_write_lock", true)], true), true, true);
  (["guard:_readonly"; "acquire_write_lock"; "begin_write"; "update_keys"; "body"; "flush"; "end_write"], ([("guard:_readonly", true)], true), true, true)
].
Definition reading_rows : list fault_row := [
  ([], ([("acquire_read_lock", false); ("begin_read", false); ("update_keys", false); ("body", false); ("end_read", false); ("release_read_lock", false)], false), true, true);
  (["acquire_read_lock"], ([("acquire_read_lock", true)], true), true, true);
  (["begin_read"], ([("acquire_read_lock", false); ("begin_read", true); ("release_read_lock", false)], true), true, true);
  (["update_keys"], ([("acquire_read_lock", false); ("begin_read", false); ("update_keys", true); ("end_read", false); ("release_read_lock", false)], true), true, true);
  (["body"], ([("acquire_read_lock", false); ("begin_read", false); ("update_keys", false); ("body", true); ("end_read", false); ("release_read_lock", false)], true), true, true);
  (["end_read"], ([("acquire_read_lock", false); ("begin_read", false); ("update_keys", false); ("body", false); ("end_read", true); ("release_read_lock", false)], true), true, true);
  (["acquire_read_lock"; "begin_read"], ([("acquire_read_lock", true)], true), true, true);
  (["acquire_read_lock"; "update_keys"], ([("acquire_read_lock", true)], true), true, true);
  (["acquire_read_lock"; "body"], ([("acquire_read_lock", true)], true), true, true);
  (["acquire_read_lock"; "end_read"], ([("acquire_read_lock", true)], true), true, true);
  (["begin_read"; "update_keys"], ([("acquire_read_lock", false); ("begin_read", true); ("release_read_lock", false)], true), true, true);
  (["begin_read"; "body"], ([("acquire_read_lock", false); ("begin_read", true); ("release_read_lock", false)], true), true, true);
  (["begin_read"; "end_read"], ([("acquire_read_lock", false); ("begin_read", true); ("release_read_lock", false)], true), true, true);
  (["update_keys"; "body"], ([("acquire_read_lock", false); ("begin_read", false); ("update_keys", true); ("end_read", false); ("release_read_lock", false)], true), true, true);
  (["update_keys"; "end_read"], ([("acquire_read_lock", false); ("begin_read", false); ("update_keys", true); ("end_read", true); ("release_read_lock", false)], true), true, true);
  (["body"; "end_read"], ([("acquire_read_lock", false); ("begin_read", false); ("update_keys", false); ("body", true); ("end_read", true); ("release_read_lock", false)], true), true, true);
  (["acquire_read_lock"; "begin_read"; "update_keys"], ([("acquire_read_lock", true)], true), true, true);
  (["acquire_read_lock"; "begin_read"; "body"], ([("acquire_read_lock", true)], true), true, true);
  (["acquire_read_lock"; "begin_read"; "end_read"], ([("acquire_read_lock", true)], true), true, true);
  (["acquire_read_lock"; "update_keys"; "body"], ([("acquire_read_lock", true)], true), true, true);
  (["acquire_read_lock"; "update_keys"; "end_read"], ([("acquire_read_lock", true)], true), true, true);
  (["acquire_read_lock"; "body"; "end_read"], ([("acquire_read_lock", true)], true), true, true);
  (["begin_read"; "update_keys"; "body"], ([("acquire_read_lock", false); ("begin_read", true); ("release_read_lock", false)], true), true, true);
  (["begin_read"; "update_keys"; "end_read"], ([("acquire_read_lock", false); ("begin_read", true); ("release_read_lock", false)], true), true, true);
  (["begin_read"; "body"; "end_read"], ([("acquire_read_lock", false); ("begin_read", true); ("release_read_lock", false)], true), true, true);
  (["update_keys"; "body"; "end_read"], ([("acquire_read_lock", false); ("begin_read", false); ("update_keys", true); ("end_read", true); ("release_read_lock", false)], true), true, true);
  (["acquire_read_lock"; "begin_read"; "update_keys"; "body"], ([("acquire_read_lock", true)], true), true, true);
  (["acquire_read_lock"; "begin_read"; "update_keys"; "end_read"], ([("acquire_read_lock", true)], true), true, true);
  (["acquire_read_lock"; "begin_read"; "body"; "end_read"], ([("acquire_read_lock", true)], true), true, true);
  (["acquire_read_lock"; "update_keys"; "body"; "end_read"], ([("acquire_read_lock", true)], true), true, true);
  (["begin_read"; "update_keys"; "body"; "end_read"], ([("acquire_read_lock", false); ("begin_read", true); ("release_read_lock", false)], true), true, true);
  (["acquire_read_lock"; "begin_read"; "update_keys"; "body"; "end_read"], ([("acquire_read_lock", true)], true), true, true)
].
(* UkvCollectionBackend(path, overwrite, readonly) observed from outside: (file existed, overwrite, readonly,
   order of: write lock acquired / released, looks whether the file exists, creations (open in mode x or w)) *)
Definition ctor_rows : list (bool * bool * bool * list string) := [
  (false, false, false, ["acquire"; "exists"; "create"; "release"]);
  (false, false, true, ["acquire"; "exists"; "create"; "release"]);
  (false, true, false, ["acquire"; "exists"; "create"; "release"]);
  (false, true, true, ["acquire"; "exists"; "create"; "release"]);
  (true, false, false, ["acquire"; "exists"; "release"]);
  (true, false, true, ["acquire"; "exists"; "release"]);
  (true, true, false, ["acquire"; "exists"; "create"; "release"]);
  (true, true, true, ["acquire"; "exists"; "create"; "release"])
].
