(* REGENERATED on every run by harness/c01.py from the behaviour of molli/chem/io.py on sentinel objects
   (position -> slot wiring of the four serialisers and the four deserialisers, array dtypes, constructor
   defaults, largest atomic number) -- do not edit. *)
From Coq Require Import ZArith NArith String List.
Import ListNotations.
From Molli Require Import Common.ParseStr Model.Codec.
Local Open Scope string_scope.

Definition gen_adflt : atom :=
  mk_atom (VInt 0%Z) VNone VNone (VInt 1%Z) (VInt 0%Z) (VInt 0%Z) (VInt 0%Z) (VInt 0%Z) (VMap []).
Definition gen_bdflt : bond :=
  mk_bond 0%N 0%N VNone (VInt 1%Z) (VInt 0%Z) (VF32 1065353216%Z) (VMap []).
Definition gen_max_element : Z := 118%Z.
Definition gen_obj_defaults : list val := [(VStr "unknown"); (VInt 0%Z); (VInt 1%Z); (VMap [])].

Definition mol_v2 : wiring :=
  mk_wiring false
    [OName; ONAtoms; ONBonds; OCharge; OMult; OAtoms; OBonds; OCoords; OCharges; OAttrib]
    [OName; ONAtoms; OSkip; OCharge; OMult; OAtoms; OBonds; OCoords; OCharges; OAttrib]
    [AElement; AIsotope; ALabel; AAtype; AStereo; AGeom; AFCharge; AFSpin; AAttrib]
    [AElement; AIsotope; ALabel; AAtype; AStereo; AGeom; AFCharge; AFSpin; AAttrib]
    [BA1; BA2; BLabel; BBtype; BStereo; BFOrder; BAttrib]
    [BA1; BA2; BLabel; BBtype; BStereo; BFOrder; BAttrib]
    [(OCharges, F4BE); (OCoords, F4BE)]
    [(OCharges, F4BE); (OCoords, F4BE)]
    gen_adflt gen_bdflt.

Definition ens_v2 : wiring :=
  mk_wiring true
    [OName; ONConf; ONAtoms; ONBonds; OCharge; OMult; OAtoms; OBonds; OCoords; OWeights; OCharges; OAttrib]
    [OName; ONConf; ONAtoms; OSkip; OCharge; OMult; OAtoms; OBonds; OCoords; OWeights; OCharges; OAttrib]
    [AElement; AIsotope; ALabel; AAtype; AStereo; AGeom; AFCharge; AFSpin; AAttrib]
    [AElement; AIsotope; ALabel; AAtype; AStereo; AGeom; AFCharge; AFSpin; AAttrib]
    [BA1; BA2; BLabel; BBtype; BStereo; BFOrder; BAttrib]
    [BA1; BA2; BLabel; BBtype; BStereo; BFOrder; BAttrib]
    [(OCharges, F4BE); (OCoords, F4BE); (OWeights, F4BE)]
    [(OCharges, F4BE); (OCoords, F4BE); (OWeights, F4BE)]
    gen_adflt gen_bdflt.

Definition mol_v1 : wiring :=
  mk_wiring false
    [OName; ONAtoms; OAtoms; OBonds; OCharge; OMult; OCoords; OCharges]
    [OName; ONAtoms; OAtoms; OBonds; OCharge; OMult; OCoords; OCharges]
    [AElement; AIsotope; ALabel; AAtype; AStereo; AGeom]
    [AElement; AIsotope; ALabel; AAtype; AStereo; AGeom]
    [BA1; BA2; BLabel; BBtype; BStereo; BFOrder]
    [BA1; BA2; BLabel; BBtype; BStereo; BFOrder]
    [(OCharges, F4BE); (OCoords, F4BE)]
    [(OCharges, F4BE); (OCoords, F4BE)]
    gen_adflt gen_bdflt.

Definition ens_v1 : wiring :=
  mk_wiring true
    [OName; ONConf; ONAtoms; OAtoms; OBonds; OCharge; OMult; OCoords; OWeights; OCharges]
    [OName; ONConf; ONAtoms; OAtoms; OBonds; OCharge; OMult; OCoords; OWeights; OCharges]
    [AElement; AIsotope; ALabel; AAtype; AStereo; AGeom]
    [AElement; AIsotope; ALabel; AAtype; AStereo; AGeom]
    [BA1; BA2; BLabel; BBtype; BStereo; BFOrder]
    [BA1; BA2; BLabel; BBtype; BStereo; BFOrder]
    [(OCharges, F4BE); (OCoords, F4BE); (OWeights, F4BE)]
    [(OCharges, F4BE); (OCoords, F4BE); (OWeights, F4BE)]
    gen_adflt gen_bdflt.

Inductive codec := MolV2 | EnsV2 | MolV1 | EnsV1.
Definition wiring_of (c : codec) : wiring :=
  match c with MolV2 => mol_v2 | EnsV2 => ens_v2 | MolV1 => mol_v1 | EnsV1 => ens_v1 end.
(* correspondence check of one stored object: (codec, object written, what was read back) *)
Definition check_case (c : codec * obj * outcome) : bool :=
  let '(k, i, s) := c in check_with (wiring_of k) i s.
