(* REGENERATED on every run by harness/c06.py: the alias row of every copy route of /repo,
   observed with `is` / shares_memory on instrumented sources -- do not edit. *)
From Coq Require Import List ZArith. Import ListNotations.
From Molli Require Import Model.Alias.

Definition table : list entry := [
  (KPromolecule, (RCtor KPromolecule), (mk_row Copied Copied Copied RSelf None AAbsent AAbsent AAbsent Copied true));
  (KPromolecule, (RCtor KConnectivity), (mk_row Copied Copied Copied RSelf (Some (mk_brow Copied Copied Copied RSelf ERemap)) AAbsent AAbsent AAbsent Copied true));
  (KPromolecule, (RCtor KGeometry), (mk_row Copied Copied Copied RSelf None AGiven AAbsent AAbsent Copied true));
  (KPromolecule, (RCtor KStructure), (mk_row Copied Copied Copied RSelf (Some (mk_brow Copied Copied Copied RSelf ERemap)) AGiven AAbsent AAbsent Copied true));
  (KPromolecule, (RCtor KMolecule), (mk_row Copied Copied Copied RSelf (Some (mk_brow Copied Copied Copied RSelf ERemap)) AGiven AGiven AAbsent Copied true));
  (KPromolecule, (RCtor KEnsemble), (mk_row Copied Copied Copied RSelf (Some (mk_brow Copied Copied Copied RSelf ERemap)) AGiven AGiven AGiven Copied true));
  (KPromolecule, RPickle, (mk_row Copied Copied Copied RSelf None AAbsent AAbsent AAbsent Copied true));
  (KPromolecule, RDeepcopy, (mk_row Copied Copied Copied RSelf None AAbsent AAbsent AAbsent Copied true));
  (KConnectivity, (RCtor KPromolecule), (mk_row Copied Copied Copied RSelf None AAbsent AAbsent AAbsent Copied true));
  (KConnectivity, (RCtor KConnectivity), (mk_row Copied Copied Copied RSelf (Some (mk_brow Copied Copied Copied RSelf ERemap)) AAbsent AAbsent AAbsent Copied true));
  (KConnectivity, (RCtor KGeometry), (mk_row Copied Copied Copied RSelf None AGiven AAbsent AAbsent Copied true));
  (KConnectivity, (RCtor KStructure), (mk_row Copied Copied Copied RSelf (Some (mk_brow Copied Copied Copied RSelf ERemap)) AGiven AAbsent AAbsent Copied true));
  (KConnectivity, (RCtor KMolecule), (mk_row Copied Copied Copied RSelf (Some (mk_brow Copied Copied Copied RSelf ERemap)) AGiven AGiven AAbsent Copied true));
  (KConnectivity, (RCtor KEnsemble), (mk_row Copied Copied Copied RSelf (Some (mk_brow Copied Copied Copied RSelf ERemap)) AGiven AGiven AGiven Copied true));
  (KConnectivity, RPickle, (mk_row Copied Copied Copied RSelf (Some (mk_brow Copied Copied Copied RSelf ERemap)) AAbsent AAbsent AAbsent Copied true));
  (KConnectivity, RDeepcopy, (mk_row Copied Copied Copied RSelf (Some (mk_brow Copied Copied Copied RSelf ERemap)) AAbsent AAbsent AAbsent Copied true));
  (KGeometry, (RCtor KPromolecule), (mk_row Copied Copied Copied RSelf None AAbsent AAbsent AAbsent Copied true));
  (KGeometry, (RCtor KConnectivity), (mk_row Copied Copied Copied RSelf (Some (mk_brow Copied Copied Copied RSelf ERemap)) AAbsent AAbsent AAbsent Copied true));
  (KGeometry, (RCtor KGeometry), (mk_row Copied Copied Copied RSelf None ACopied AAbsent AAbsent Copied true));
  (KGeometry, (RCtor KStructure), (mk_row Copied Copied Copied RSelf (Some (mk_brow Copied Copied Copied RSelf ERemap)) ACopied AAbsent AAbsent Copied true));
  (KGeometry, (RCtor KMolecule), (mk_row Copied Copied Copied RSelf (Some (mk_brow Copied Copied Copied RSelf ERemap)) ACopied AGiven AAbsent Copied true));
  (KGeometry, (RCtor KEnsemble), (mk_row Copied Copied Copied RSelf (Some (mk_brow Copied Copied Copied RSelf ERemap)) AGiven AGiven AGiven Copied true));
  (KGeometry, RPickle, (mk_row Copied Copied Copied RSelf None ACopied AAbsent AAbsent Copied true));
  (KGeometry, RDeepcopy, (mk_row Copied Copied Copied RSelf None ACopied AAbsent AAbsent Copied true));
  (KStructure, (RCtor KPromolecule), (mk_row Copied Copied Copied RSelf None AAbsent AAbsent AAbsent Copied true));
  (KStructure, (RCtor KConnectivity), (mk_row Copied Copied Copied RSelf (Some (mk_brow Copied Copied Copied RSelf ERemap)) AAbsent AAbsent AAbsent Copied true));
  (KStructure, (RCtor KGeometry), (mk_row Copied Copied Copied RSelf None ACopied AAbsent AAbsent Copied true));
  (KStructure, (RCtor KStructure), (mk_row Copied Copied Copied RSelf (Some (mk_brow Copied Copied Copied RSelf ERemap)) ACopied AAbsent AAbsent Copied true));
  (KStructure, (RCtor KMolecule), (mk_row Copied Copied Copied RSelf (Some (mk_brow Copied Copied Copied RSelf ERemap)) ACopied AGiven AAbsent Copied true));
  (KStructure, (RCtor KEnsemble), (mk_row Copied Copied Copied RSelf (Some (mk_brow Copied Copied Copied RSelf ERemap)) AGiven AGiven AGiven Copied true));
  (KStructure, RPickle, (mk_row Copied Copied Copied RSelf (Some (mk_brow Copied Copied Copied RSelf ERemap)) ACopied AAbsent AAbsent Copied true));
  (KStructure, RDeepcopy, (mk_row Copied Copied Copied RSelf (Some (mk_brow Copied Copied Copied RSelf ERemap)) ACopied AAbsent AAbsent Copied true));
  (KMolecule, (RCtor KPromolecule), (mk_row Copied Copied Copied RSelf None AAbsent AAbsent AAbsent Copied true));
  (KMolecule, (RCtor KConnectivity), (mk_row Copied Copied Copied RSelf (Some (mk_brow Copied Copied Copied RSelf ERemap)) AAbsent AAbsent AAbsent Copied true));
  (KMolecule, (RCtor KGeometry), (mk_row Copied Copied Copied RSelf None ACopied AAbsent AAbsent Copied true));
  (KMolecule, (RCtor KStructure), (mk_row Copied Copied Copied RSelf (Some (mk_brow Copied Copied Copied RSelf ERemap)) ACopied AAbsent AAbsent Copied true));
  (KMolecule, (RCtor KMolecule), (mk_row Copied Copied Copied RSelf (Some (mk_brow Copied Copied Copied RSelf ERemap)) ACopied ACopied AAbsent Copied true));
  (KMolecule, (RCtor KEnsemble), (mk_row Copied Copied Copied RSelf (Some (mk_brow Copied Copied Copied RSelf ERemap)) AGiven AGiven AGiven Copied true));
  (KMolecule, RPickle, (mk_row Copied Copied Copied RSelf (Some (mk_brow Copied Copied Copied RSelf ERemap)) ACopied ACopied AAbsent Copied true));
  (KMolecule, RDeepcopy, (mk_row Copied Copied Copied RSelf (Some (mk_brow Copied Copied Copied RSelf ERemap)) ACopied ACopied AAbsent Copied true));
  (KEnsemble, (RCtor KPromolecule), (mk_row Copied Copied Copied RSelf None AAbsent AAbsent AAbsent Copied true));
  (KEnsemble, (RCtor KConnectivity), (mk_row Copied Copied Copied RSelf (Some (mk_brow Copied Copied Copied RSelf ERemap)) AAbsent AAbsent AAbsent Copied true));
  (KEnsemble, (RCtor KGeometry), (mk_row Copied Copied Copied RSelf None AGiven AAbsent AAbsent Copied true));
  (KEnsemble, (RCtor KStructure), (mk_row Copied Copied Copied RSelf (Some (mk_brow Copied Copied Copied RSelf ERemap)) AGiven AAbsent AAbsent Copied true));
  (KEnsemble, (RCtor KMolecule), (mk_row Copied Copied Copied RSelf (Some (mk_brow Copied Copied Copied RSelf ERemap)) AGiven AGiven AAbsent Copied true));
  (KEnsemble, (RCtor KEnsemble), (mk_row Copied Copied Copied RSelf (Some (mk_brow Copied Copied Copied RSelf ERemap)) ACopied ACopied ACopied Copied true));
  (KEnsemble, RPickle, (mk_row Copied Copied Copied RSelf (Some (mk_brow Copied Copied Copied RSelf ERemap)) ACopied ACopied ACopied Copied true));
  (KEnsemble, RDeepcopy, (mk_row Copied Copied Copied RSelf (Some (mk_brow Copied Copied Copied RSelf ERemap)) ACopied ACopied ACopied Copied true));
  (KConformer, (RCtor KPromolecule), (mk_row Copied Copied Copied RSelf None AAbsent AAbsent AAbsent Copied true));
  (KConformer, (RCtor KConnectivity), (mk_row Copied Copied Copied RSelf (Some (mk_brow Copied Copied Copied RSelf ERemap)) AAbsent AAbsent AAbsent Copied true));
  (KConformer, (RCtor KGeometry), (mk_row Copied Copied Copied RSelf None ACopied AAbsent AAbsent Copied true));
  (KConformer, (RCtor KStructure), (mk_row Copied Copied Copied RSelf (Some (mk_brow Copied Copied Copied RSelf ERemap)) ACopied AAbsent AAbsent Copied true));
  (KConformer, (RCtor KMolecule), (mk_row Copied Copied Copied RSelf (Some (mk_brow Copied Copied Copied RSelf ERemap)) ACopied ACopied AAbsent Copied true));
  (KConformer, (RCtor KEnsemble), (mk_row Copied Copied Copied RSelf (Some (mk_brow Copied Copied Copied RSelf ERemap)) AGiven AGiven AGiven Copied true));
  (KConformer, RPickle, (mk_row Copied Copied Copied RSelf (Some (mk_brow Copied Copied Copied RSelf ERemap)) ACopied ACopied ACopied Copied true));
  (KConformer, RDeepcopy, (mk_row Copied Copied Copied RSelf (Some (mk_brow Copied Copied Copied RSelf ERemap)) ACopied ACopied ACopied Copied true));
  (KStructure, (RConcat KStructure 2), (mk_row Copied Copied Copied RSelf (Some (mk_brow Copied Copied Copied RSelf ERemap)) ACopied AAbsent AAbsent Reset false));
  (KMolecule, (RConcat KMolecule 2), (mk_row Copied Copied Copied RSelf (Some (mk_brow Copied Copied Copied RSelf ERemap)) ACopied ACopied AAbsent Reset false));
  (KMolecule, (RConcat KMolecule 1), (mk_row Copied Copied Copied RSelf (Some (mk_brow Copied Copied Copied RSelf ERemap)) ACopied ACopied AAbsent Reset false));
  (KMolecule, (RConcat KMolecule 3), (mk_row Copied Copied Copied RSelf (Some (mk_brow Copied Copied Copied RSelf ERemap)) ACopied ACopied AAbsent Reset false));
  (KStructure, (RJoin KStructure), (mk_row Copied Copied Copied RSelf (Some (mk_brow Copied Copied Copied RSelf ERemap)) AGiven AAbsent AAbsent Reset false));
  (KMolecule, (RJoin KMolecule), (mk_row Copied Copied Copied RSelf (Some (mk_brow Copied Copied Copied RSelf ERemap)) AGiven ACopied AAbsent Reset false));
  (KMolecule, REnsFromList, (mk_row Copied Copied Copied RSelf (Some (mk_brow Copied Copied Copied RSelf ERemap)) AGiven AGiven AGiven Copied true));
  (KConformer, REnsFromList, (mk_row Copied Copied Copied RSelf (Some (mk_brow Copied Copied Copied RSelf ERemap)) AGiven AGiven AGiven Copied true));
  (KAtom, REvolve, (mk_row Copied Copied Copied RKeep None AAbsent AAbsent AAbsent Copied true));
  (KAtom, RPickle, (mk_row Copied Copied Copied RNone None AAbsent AAbsent AAbsent Copied true));
  (KAtom, RDeepcopy, (mk_row Copied Copied Copied RNone None AAbsent AAbsent AAbsent Copied true));
  (KBond, REvolve, (mk_row Copied Copied Copied RSelf (Some (mk_brow Copied Copied Copied RKeep EKeep)) AAbsent AAbsent AAbsent Copied true));
  (KBond, RPickle, (mk_row Copied Copied Copied RSelf (Some (mk_brow Copied Copied Copied RNone ERemap)) AAbsent AAbsent AAbsent Copied true));
  (KBond, RDeepcopy, (mk_row Copied Copied Copied RSelf (Some (mk_brow Copied Copied Copied RNone ERemap)) AAbsent AAbsent AAbsent Copied true))
].

(* routes that raise on these sources (not copies):  *)
