(* REGENERATED on every run by harness/c04_skel.py -- do not edit. *)
From Coq Require Import List String.
Import ListNotations.
From Molli Require Import Common.Exc.
Open Scope string_scope.

(* the control skeleton of CollectionBackendBase.writing() / reading(), extracted from the AST of
   molli/storage/backends.py (fail-closed walker; refusal: none) *)
Definition writing_prog : cmd :=
  (Seq (Call "guard:_readonly") (Seq (Call "acquire_write_lock") (TryFin (Seq (Call "begin_write") (TryFin (Seq (Call "update_keys") (Call "body")) (TryFin (Call "flush") (Call "end_write")))) (Call "release_write_lock")))).

Definition reading_prog : cmd :=
  (Seq (Call "acquire_read_lock") (TryFin (Seq (Call "begin_read") (TryFin (Seq (Call "update_keys") (Call "body")) (Call "end_read"))) (Call "release_read_lock"))).
Definition extraction_refused : bool := false.
