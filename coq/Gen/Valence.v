(* regenerated from /repo on every run by harness/c16.py (tie T):
   elements          Element -> (atomic number, group, valence_electrons (None: KeyError), cov_radius_1,
                     selected by add_implicit_hydrogens() without arguments -- observed by running it)
   implicit_valence  atom.IMPLICIT_VALENCE      valence_electrons  atom.VALENCE_ELECTRONS   (group -> n)
   bond_orders       BondType member -> Bond.order (a constant, or the bond's own f_order)
   tetrahedron       molli.math.polyhedra.TETRAHEDRON, the doubles as exact rationals
   h_defaults        Atom("H"): (element, formal_charge, formal_spin, atype)
   newbond_defaults  Bond(a, h): (btype, f_order)      cc_atype  AtomType.CoordinationCenter *)
From Coq Require Import List ZArith NArith QArith.
From Molli Require Import Common.Field3 Common.HExpr.
Import ListNotations.
Definition elements : list (N * option Z * option Z * option Q * bool) := [
  (0%N, None, None, None, false);
  (1%N, (Some 1%Z), None, (Some (Qmake (5764607523034235)%Z 18014398509481984%positive)), false);
  (2%N, (Some 18%Z), (Some 8%Z), (Some (Qmake (8286623314361713)%Z 18014398509481984%positive)), false);
  (3%N, (Some 1%Z), None, (Some (Qmake (748723438050345)%Z 562949953421312%positive)), false);
  (4%N, (Some 2%Z), None, (Some (Qmake (2296835809958953)%Z 2251799813685248%positive)), false);
  (5%N, (Some 13%Z), (Some 3%Z), (Some (Qmake (7656119366529843)%Z 9007199254740992%positive)), true);
  (6%N, (Some 14%Z), (Some 4%Z), (Some (Qmake (3)%Z 4%positive)), true);
  (7%N, (Some 15%Z), (Some 5%Z), (Some (Qmake (799388933858263)%Z 1125899906842624%positive)), true);
  (8%N, (Some 16%Z), (Some 6%Z), (Some (Qmake (5674535530486825)%Z 9007199254740992%positive)), true);
  (9%N, (Some 17%Z), (Some 7%Z), (Some (Qmake (5764607523034235)%Z 9007199254740992%positive)), false);
  (10%N, (Some 18%Z), (Some 8%Z), (Some (Qmake (6034823500676465)%Z 9007199254740992%positive)), false);
  (11%N, (Some 1%Z), None, (Some (Qmake (6980579422424269)%Z 4503599627370496%positive)), false);
  (12%N, (Some 2%Z), None, (Some (Qmake (6260003482044989)%Z 4503599627370496%positive)), false);
  (13%N, (Some 13%Z), (Some 3%Z), (Some (Qmake (5674535530486825)%Z 4503599627370496%positive)), true);
  (14%N, (Some 14%Z), (Some 4%Z), (Some (Qmake (5224175567749775)%Z 4503599627370496%positive)), true);
  (15%N, (Some 15%Z), (Some 5%Z), (Some (Qmake (4998995586381251)%Z 4503599627370496%positive)), true);
  (16%N, (Some 16%Z), (Some 6%Z), (Some (Qmake (4638707616191611)%Z 4503599627370496%positive)), true);
  (17%N, (Some 17%Z), (Some 7%Z), (Some (Qmake (4458563631096791)%Z 4503599627370496%positive)), false);
  (18%N, (Some 18%Z), (Some 8%Z), (Some (Qmake (1080863910568919)%Z 1125899906842624%positive)), false);
  (19%N, (Some 1%Z), None, (Some (Qmake (2206763817411543)%Z 1125899906842624%positive)), false);
  (20%N, (Some 2%Z), None, (Some (Qmake (1925288840700887)%Z 1125899906842624%positive)), false);
  (21%N, (Some 3%Z), None, (Some (Qmake (3332663724254167)%Z 2251799813685248%positive)), false);
  (22%N, (Some 4%Z), None, (Some (Qmake (6124895493223875)%Z 4503599627370496%positive)), false);
  (23%N, (Some 5%Z), None, (Some (Qmake (6034823500676465)%Z 4503599627370496%positive)), false);
  (24%N, (Some 6%Z), None, (Some (Qmake (5494391545392005)%Z 4503599627370496%positive)), false);
  (25%N, (Some 7%Z), None, (Some (Qmake (2679641778285445)%Z 2251799813685248%positive)), false);
  (26%N, (Some 8%Z), None, (Some (Qmake (5224175567749775)%Z 4503599627370496%positive)), false);
  (27%N, (Some 9%Z), None, (Some (Qmake (4998995586381251)%Z 4503599627370496%positive)), false);
  (28%N, (Some 10%Z), None, (Some (Qmake (2476979795053773)%Z 2251799813685248%positive)), false);
  (29%N, (Some 11%Z), None, (Some (Qmake (1261007895663739)%Z 1125899906842624%positive)), false);
  (30%N, (Some 12%Z), None, (Some (Qmake (5314247560297185)%Z 4503599627370496%positive)), false);
  (31%N, (Some 13%Z), (Some 3%Z), (Some (Qmake (5584463537939415)%Z 4503599627370496%positive)), true);
  (32%N, (Some 14%Z), (Some 4%Z), (Some (Qmake (1362338887279575)%Z 1125899906842624%positive)), true);
  (33%N, (Some 15%Z), (Some 5%Z), (Some (Qmake (1362338887279575)%Z 1125899906842624%positive)), true);
  (34%N, (Some 16%Z), (Some 6%Z), (Some (Qmake (5224175567749775)%Z 4503599627370496%positive)), true);
  (35%N, (Some 17%Z), (Some 7%Z), (Some (Qmake (5134103575202365)%Z 4503599627370496%positive)), false);
  (36%N, (Some 18%Z), (Some 8%Z), (Some (Qmake (658651445502935)%Z 562949953421312%positive)), false);
  (37%N, (Some 1%Z), None, (Some (Qmake (4728779608739021)%Z 2251799813685248%positive)), false);
  (38%N, (Some 2%Z), None, (Some (Qmake (4165829655317709)%Z 2251799813685248%positive)), false);
  (39%N, (Some 3%Z), None, (Some (Qmake (1835216848153477)%Z 1125899906842624%positive)), false);
  (40%N, (Some 4%Z), None, (Some (Qmake (1733885856537641)%Z 1125899906842624%positive)), false);
  (41%N, (Some 5%Z), None, (Some (Qmake (6620291452234629)%Z 4503599627370496%positive)), false);
  (42%N, (Some 6%Z), None, (Some (Qmake (1553741871442821)%Z 1125899906842624%positive)), false);
  (43%N, (Some 7%Z), None, (Some (Qmake (5764607523034235)%Z 4503599627370496%positive)), false);
  (44%N, (Some 8%Z), None, (Some (Qmake (5)%Z 4%positive)), false);
  (45%N, (Some 9%Z), None, (Some (Qmake (5)%Z 4%positive)), false);
  (46%N, (Some 10%Z), None, (Some (Qmake (5404319552844595)%Z 4503599627370496%positive)), false);
  (47%N, (Some 11%Z), None, (Some (Qmake (5764607523034235)%Z 4503599627370496%positive)), false);
  (48%N, (Some 12%Z), None, (Some (Qmake (6124895493223875)%Z 4503599627370496%positive)), false);
  (49%N, (Some 13%Z), (Some 3%Z), (Some (Qmake (799388933858263)%Z 562949953421312%positive)), true);
  (50%N, (Some 14%Z), (Some 4%Z), (Some (Qmake (3152519739159347)%Z 2251799813685248%positive)), true);
  (51%N, (Some 15%Z), (Some 5%Z), (Some (Qmake (3152519739159347)%Z 2251799813685248%positive)), true);
  (52%N, (Some 16%Z), (Some 6%Z), (Some (Qmake (6124895493223875)%Z 4503599627370496%positive)), true);
  (53%N, (Some 17%Z), (Some 7%Z), (Some (Qmake (748723438050345)%Z 562949953421312%positive)), false);
  (54%N, (Some 18%Z), (Some 8%Z), (Some (Qmake (2949857755927675)%Z 2251799813685248%positive)), false);
  (55%N, (Some 1%Z), None, (Some (Qmake (5224175567749775)%Z 2251799813685248%positive)), false);
  (56%N, (Some 2%Z), None, (Some (Qmake (2206763817411543)%Z 1125899906842624%positive)), false);
  (57%N, (Some 3%Z), None, (Some (Qmake (8106479329266893)%Z 4503599627370496%positive)), false);
  (58%N, (Some 3%Z), None, (Some (Qmake (1835216848153477)%Z 1125899906842624%positive)), false);
  (59%N, (Some 3%Z), None, (Some (Qmake (7926335344172073)%Z 4503599627370496%positive)), false);
  (60%N, (Some 3%Z), None, (Some (Qmake (7836263351624663)%Z 4503599627370496%positive)), false);
  (61%N, (Some 3%Z), None, (Some (Qmake (3895613677675479)%Z 2251799813685248%positive)), false);
  (62%N, (Some 3%Z), None, (Some (Qmake (7746191359077253)%Z 4503599627370496%positive)), false);
  (63%N, (Some 3%Z), None, (Some (Qmake (7566047373982433)%Z 4503599627370496%positive)), false);
  (64%N, (Some 3%Z), None, (Some (Qmake (3805541685128069)%Z 2251799813685248%positive)), false);
  (65%N, (Some 3%Z), None, (Some (Qmake (7566047373982433)%Z 4503599627370496%positive)), false);
  (66%N, (Some 3%Z), None, (Some (Qmake (940126422213591)%Z 562949953421312%positive)), false);
  (67%N, (Some 3%Z), None, (Some (Qmake (7475975381435023)%Z 4503599627370496%positive)), false);
  (68%N, (Some 3%Z), None, (Some (Qmake (3715469692580659)%Z 2251799813685248%positive)), false);
  (69%N, (Some 3%Z), None, (Some (Qmake (7385903388887613)%Z 4503599627370496%positive)), false);
  (70%N, (Some 3%Z), None, (Some (Qmake (7656119366529843)%Z 4503599627370496%positive)), false);
  (71%N, (Some 3%Z), None, (Some (Qmake (1823957849085051)%Z 1125899906842624%positive)), false);
  (72%N, (Some 4%Z), None, (Some (Qmake (3422735716801577)%Z 2251799813685248%positive)), false);
  (73%N, (Some 5%Z), None, (Some (Qmake (1643813863990231)%Z 1125899906842624%positive)), false);
  (74%N, (Some 6%Z), None, (Some (Qmake (1542482872374395)%Z 1125899906842624%positive)), false);
  (75%N, (Some 7%Z), None, (Some (Qmake (2949857755927675)%Z 2251799813685248%positive)), false);
  (76%N, (Some 8%Z), None, (Some (Qmake (1452410879826985)%Z 1125899906842624%positive)), false);
  (77%N, (Some 9%Z), None, (Some (Qmake (5494391545392005)%Z 4503599627370496%positive)), false);
  (78%N, (Some 10%Z), None, (Some (Qmake (2769713770832855)%Z 2251799813685248%positive)), false);
  (79%N, (Some 11%Z), None, (Some (Qmake (5584463537939415)%Z 4503599627370496%positive)), false);
  (80%N, (Some 12%Z), None, (Some (Qmake (748723438050345)%Z 562949953421312%positive)), false);
  (81%N, (Some 13%Z), (Some 3%Z), (Some (Qmake (3242591731706757)%Z 2251799813685248%positive)), true);
  (82%N, (Some 14%Z), (Some 4%Z), (Some (Qmake (3242591731706757)%Z 2251799813685248%positive)), true);
  (83%N, (Some 15%Z), (Some 5%Z), (Some (Qmake (6800435437329449)%Z 4503599627370496%positive)), true);
  (84%N, (Some 16%Z), (Some 6%Z), (Some (Qmake (6530219459687219)%Z 4503599627370496%positive)), true);
  (85%N, (Some 17%Z), (Some 7%Z), (Some (Qmake (6620291452234629)%Z 4503599627370496%positive)), false);
  (86%N, (Some 18%Z), (Some 8%Z), (Some (Qmake (799388933858263)%Z 562949953421312%positive)), false);
  (87%N, (Some 1%Z), None, (Some (Qmake (5021513584518103)%Z 2251799813685248%positive)), false);
  (88%N, (Some 2%Z), None, (Some (Qmake (1131529406376837)%Z 562949953421312%positive)), false);
  (89%N, (Some 3%Z), None, (Some (Qmake (8376695306909123)%Z 4503599627370496%positive)), false);
  (90%N, (Some 3%Z), None, (Some (Qmake (7)%Z 4%positive)), false);
  (91%N, (Some 3%Z), None, (Some (Qmake (3805541685128069)%Z 2251799813685248%positive)), false);
  (92%N, (Some 3%Z), None, (Some (Qmake (7656119366529843)%Z 4503599627370496%positive)), false);
  (93%N, (Some 3%Z), None, (Some (Qmake (1925288840700887)%Z 1125899906842624%positive)), false);
  (94%N, (Some 3%Z), None, (Some (Qmake (7746191359077253)%Z 4503599627370496%positive)), false);
  (95%N, (Some 3%Z), None, (Some (Qmake (7475975381435023)%Z 4503599627370496%positive)), false);
  (96%N, (Some 3%Z), None, (Some (Qmake (7475975381435023)%Z 4503599627370496%positive)), false);
  (97%N, (Some 3%Z), None, (Some (Qmake (7566047373982433)%Z 4503599627370496%positive)), false);
  (98%N, (Some 3%Z), None, (Some (Qmake (7566047373982433)%Z 4503599627370496%positive)), false);
  (99%N, (Some 3%Z), None, (Some (Qmake (3715469692580659)%Z 2251799813685248%positive)), false);
  (100%N, (Some 3%Z), None, (Some (Qmake (940126422213591)%Z 562949953421312%positive)), false);
  (101%N, (Some 3%Z), None, (Some (Qmake (3895613677675479)%Z 2251799813685248%positive)), false);
  (102%N, (Some 3%Z), None, (Some (Qmake (176)%Z 1%positive)), false);
  (103%N, (Some 3%Z), None, (Some (Qmake (7250795400066499)%Z 4503599627370496%positive)), false);
  (104%N, (Some 4%Z), None, (Some (Qmake (7070651414971679)%Z 4503599627370496%positive)), false);
  (105%N, (Some 5%Z), None, (Some (Qmake (6710363444782039)%Z 4503599627370496%positive)), false);
  (106%N, (Some 6%Z), None, (Some (Qmake (6440147467139809)%Z 4503599627370496%positive)), false);
  (107%N, (Some 7%Z), None, (Some (Qmake (6350075474592399)%Z 4503599627370496%positive)), false);
  (108%N, (Some 8%Z), None, (Some (Qmake (6034823500676465)%Z 4503599627370496%positive)), false);
  (109%N, (Some 9%Z), None, (Some (Qmake (1452410879826985)%Z 1125899906842624%positive)), false);
  (110%N, (Some 10%Z), None, (Some (Qmake (5764607523034235)%Z 4503599627370496%positive)), false);
  (111%N, (Some 11%Z), None, (Some (Qmake (1362338887279575)%Z 1125899906842624%positive)), false);
  (112%N, (Some 12%Z), None, (Some (Qmake (5494391545392005)%Z 4503599627370496%positive)), false);
  (113%N, (Some 13%Z), (Some 3%Z), (Some (Qmake (6124895493223875)%Z 4503599627370496%positive)), true);
  (114%N, (Some 14%Z), (Some 4%Z), (Some (Qmake (6440147467139809)%Z 4503599627370496%positive)), true);
  (115%N, (Some 15%Z), (Some 5%Z), (Some (Qmake (1823957849085051)%Z 1125899906842624%positive)), true);
  (116%N, (Some 16%Z), (Some 6%Z), (Some (Qmake (7)%Z 4%positive)), true);
  (117%N, (Some 17%Z), (Some 7%Z), (Some (Qmake (3715469692580659)%Z 2251799813685248%positive)), false);
  (118%N, (Some 18%Z), (Some 8%Z), (Some (Qmake (7070651414971679)%Z 4503599627370496%positive)), false)
].
Definition implicit_valence : list (Z * Z) := [(1%Z, 1%Z); (2%Z, 2%Z); (3%Z, 0%Z); (4%Z, 0%Z); (5%Z, 0%Z); (6%Z, 0%Z); (7%Z, 0%Z); (8%Z, 0%Z); (9%Z, 0%Z); (10%Z, 0%Z); (11%Z, 0%Z); (12%Z, 0%Z); (13%Z, 3%Z); (14%Z, 4%Z); (15%Z, 3%Z); (16%Z, 2%Z); (17%Z, 1%Z); (18%Z, 0%Z)].
Definition valence_electrons : list (Z * Z) := [(13%Z, 3%Z); (14%Z, 4%Z); (15%Z, 5%Z); (16%Z, 6%Z); (17%Z, 7%Z); (18%Z, 8%Z)].
Definition bond_orders : list (N * ord) := [
  (0%N, (OConst (Qmake (0)%Z 1%positive)));
  (1%N, (OConst (Qmake (1)%Z 1%positive)));
  (2%N, (OConst (Qmake (2)%Z 1%positive)));
  (3%N, (OConst (Qmake (3)%Z 1%positive)));
  (4%N, (OConst (Qmake (4)%Z 1%positive)));
  (5%N, (OConst (Qmake (5)%Z 1%positive)));
  (6%N, (OConst (Qmake (6)%Z 1%positive)));
  (10%N, (OConst (Qmake (0)%Z 1%positive)));
  (11%N, (OConst (Qmake (0)%Z 1%positive)));
  (20%N, (OConst (Qmake (3)%Z 2%positive)));
  (21%N, (OConst (Qmake (1)%Z 1%positive)));
  (98%N, (OConst (Qmake (0)%Z 1%positive)));
  (99%N, OFrac);
  (100%N, (OConst (Qmake (1)%Z 1%positive)));
  (101%N, (OConst (Qmake (0)%Z 1%positive)))
].
Definition tetrahedron : list (vec Q) := [((Qmake (0)%Z 1%positive), (Qmake (0)%Z 1%positive), (Qmake (1)%Z 1%positive)); ((Qmake (4246034441225535)%Z 4503599627370496%positive), (Qmake (0)%Z 1%positive), (Qmake (-3002399721556333)%Z 9007199254740992%positive)); ((Qmake (-4246034441225535)%Z 9007199254740992%positive), (Qmake (7354347386874569)%Z 9007199254740992%positive), (Qmake (-3002399721556333)%Z 9007199254740992%positive)); ((Qmake (-4246034441225535)%Z 9007199254740992%positive), (Qmake (-7354347386874569)%Z 9007199254740992%positive), (Qmake (-3002399721556333)%Z 9007199254740992%positive))].
Definition h_defaults : N * Z * Z * N := (1%N, 0%Z, 0%Z, 1%N).
Definition newbond_defaults : N * Q := (1%N, (Qmake (1)%Z 1%positive)).
Definition cc_atype : N := 10%N.
