(* regenerated from molli.chem.geometry.DistanceUnit on every run (tie T): member name (aliases included),
   value, member-is-DistanceUnit.Angstrom *)
From Coq Require Import List ZArith QArith String.
Import ListNotations.
Local Open Scope string_scope.
Definition units : list (string * Q * bool) := [
  ("A", (Qmake (1)%Z 1%positive), true);
  ("Angstrom", (Qmake (1)%Z 1%positive), true);
  ("Bohr", (Qmake (8510587323830847)%Z 4503599627370496%positive), false);
  ("au", (Qmake (8510587323830847)%Z 4503599627370496%positive), false);
  ("fm", (Qmake (100000)%Z 1%positive), false);
  ("pm", (Qmake (100)%Z 1%positive), false);
  ("nm", (Qmake (3602879701896397)%Z 36028797018963968%positive), false)
].
