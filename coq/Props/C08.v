(* C08 -- xyz round trip and unit handling.  Property theorems only.
   Gen/XyzElements.v, Gen/Units.v (tie T) and Gen/ScaleExpr.v (tie S) are regenerated from /repo on every run,
   so the table obligations below are re-decided against the current code. *)
From Coq Require Import List Bool ZArith NArith QArith String Reals Qreals.
From Molli Require Import Common.ParseStr Model.Parse Model.XyzText Model.XyzEdit Model.XyzSize Model.XyzView Proofs.Parse Proofs.XyzText
                          Proofs.XyzEdit Proofs.XyzSize Proofs.XyzView.
From Molli Require Import Gen.XyzElements Gen.Units Gen.ScaleExpr.
Import ListNotations.
Local Open Scope list_scope.

Definition names := conv_names element_names.
Definition syms := conv_syms element_symbols.

(* T: every element symbol is one whitespace-free token, is not the dummy marker, and Element.get(symbol)
   returns the element it came from (all 119 members, by computation on the regenerated table) *)
Theorem C08_vocabulary : vocab_ok names syms = true.
Proof. vm_compute. reflexivity. Qed.
Print Assumptions C08_vocabulary.

(* Round trip: whatever list of geometries the writer accepts (every atom's element has a symbol), the text
   it produces is read back as the same atom counts, order, elements, and coordinates to the written precision
   (micro-units; "-0.000000" keeps its sign); names are arbitrary lines. *)
Theorem C08_roundtrip : forall gs ls, write_xyz syms gs = Some ls -> load_xyz names ls = Ok (map geom_mol gs).
Proof. intros gs ls. apply xyz_roundtrip. exact C08_vocabulary. Qed.
Print Assumptions C08_roundtrip.

(* Frames: an ensemble written conformer by conformer reads back as one molecule per conformer, in order, each
   with the ensemble's elements and that conformer's coordinates. *)
Theorem C08_frames : forall e ls, write_xyz syms (ens_geoms e) = Some ls ->
  exists ms, load_xyz names ls = Ok ms /\ List.length ms = List.length (we_frames e) /\
             ms = map (fun f => geom_mol (frame_geom e f)) (we_frames e).
Proof. intros e ls. apply xyz_frames. exact C08_vocabulary. Qed.
Print Assumptions C08_frames.
Theorem C08_frame_elements : forall e f, List.length f = List.length (we_elems e) ->
  m_elems (geom_mol (frame_geom e f)) = we_elems e.
Proof. exact frame_elems. Qed.

(* the writer is total on the element table: no hypothesis above is vacuous *)
Theorem C08_writer_total : forallb (fun p => match symbol_of syms (fst p) with Some _ => true | None => false end) syms = true.
Proof. vm_compute. reflexivity. Qed.
Example C08_roundtrip_nonvacuous :
  exists ls, write_xyz syms [mk_wgeom (s2l "w 1") [mk_watom 8 (true, 0%N) (false, 1234567%N) (true, 99999999999%N);
                                                   mk_watom 118 (false, 5%N) (false, 0%N) (false, 1%N)];
                             mk_wgeom (s2l "") []] = Some ls /\ List.length ls = 6%nat.
Proof. eexists. split; vm_compute; reflexivity. Qed.

(* Sessions on ONE object (write, edit in place, write again, ...): every write -- of the whole geometry / ensemble
   or of one conformer -- reads back as the state the object has at the time of THAT write, whatever was written or
   edited before.  The edits: an atom's element, two elements exchanged, a coordinate row, a whole frame, the name,
   an atom added or deleted, a frame appended. *)
Theorem C08_session : forall steps e,
  Forall2 (fun out exp => forall ls, out = Some ls -> exists ms, exp = Some ms /\ load_xyz names ls = Ok ms)
          (run_session syms e steps) (session_expect e steps).
Proof. exact (xyz_session_roundtrip names syms C08_vocabulary). Qed.
Print Assumptions C08_session.
(* in particular an element edit that keeps the atom count is visible in every frame of the next write *)
Theorem C08_edit_then_write : forall e i z ls, wf_ens e -> (i < List.length (we_elems e))%nat ->
  write_ens syms (apply_wop (WSetElem i z) e) = Some ls ->
  exists ms, load_xyz names ls = Ok ms /\ List.length ms = List.length (we_frames e) /\
             Forall (fun m => nth_error (m_elems m) i = Some z /\
                              forall j, j <> i -> nth_error (m_elems m) j = nth_error (we_elems e) j) ms.
Proof. intros e i z ls. apply xyz_edit_then_write. exact C08_vocabulary. Qed.
Print Assumptions C08_edit_then_write.
Example C08_session_nonvacuous :
  let e := mk_wens (s2l "e") [6%Z; 1%Z; 17%Z] [[((false, 0%N), (false, 0%N), (false, 0%N)); ((false, 1%N), (true, 2%N), (false, 3%N));
                                          ((true, 5%N), (false, 0%N), (false, 1000000%N))];
                                         [((false, 9%N), (false, 0%N), (false, 0%N)); ((false, 1%N), (true, 2%N), (false, 3%N));
                                          ((true, 5%N), (false, 0%N), (false, 2000000%N))]] in
  wf_ens e /\
  match run_session syms e [WWriteAll; WEdit (WSetElem 2 35%Z); WEdit (WSwapElem 0 1); WWriteAll; WWriteFrame 1] with
  | [Some a; Some b; Some c] =>
    (List.length a =? 10)%nat && (List.length b =? 10)%nat && (List.length c =? 5)%nat &&
    negb (list_eqb str_eqb a b) && str_eqb (firstn 2 (nth 4 b [])) (s2l "Br") && str_eqb (firstn 2 (nth 4 a [])) (s2l "Cl") &&
    str_eqb (firstn 1 (nth 2 b [])) (s2l "H") && str_eqb (firstn 2 (nth 4 c [])) (s2l "Br")
  | _ => false
  end = true.
Proof. split; [repeat constructor|vm_compute; reflexivity]. Qed.

(* Units (S + T): for EVERY member of the regenerated DistanceUnit table, a coordinate c (in Angstrom) written in
   that unit (c times units-per-Angstrom) is returned by the reader as c -- physical distances unchanged --
   over the reals, using the scale(...) argument extracted from the current source of each reader. *)
Definition rows_for (guarded : bool) : list unit_row := map (fun r => (fst r, snd r && guarded)) units.

Theorem C08_units_xyz : forall r, In r (rows_for xyz_scale_guarded) -> forall c : R,
  read_coordR xyz_scale_expr (snd r) (Q2R (snd (fst r))) (Q2R (snd (fst r)) * c)%R = c.
Proof.
  assert (H : forallb (row_ok xyz_scale_expr) (rows_for xyz_scale_guarded) = true) by (vm_compute; reflexivity).
  intros r Hr. apply units_law. rewrite forallb_forall in H. now apply H.
Qed.
Print Assumptions C08_units_xyz.
Theorem C08_units_mol2 : forall r, In r (rows_for mol2_scale_guarded) -> forall c : R,
  read_coordR mol2_scale_expr (snd r) (Q2R (snd (fst r))) (Q2R (snd (fst r)) * c)%R = c.
Proof.
  assert (H : forallb (row_ok mol2_scale_expr) (rows_for mol2_scale_guarded) = true) by (vm_compute; reflexivity).
  intros r Hr. apply units_law. rewrite forallb_forall in H. now apply H.
Qed.
Print Assumptions C08_units_mol2.

(* Units on EVERY path (S): the body of the block loop of each reader, in continuation form with its conditions
   left opaque (for the mol2 reader: the charge-type header, whether the target class keeps per-atom charges, ...),
   yields on every valuation of those conditions an object that has passed the scale statement exactly once; so
   whatever the header says and whichever class is loaded, the coordinate handed out is in Angstrom. *)
Theorem C08_units_xyz_paths : forall r, In r (rows_for xyz_scale_guarded) ->
  forall (env : nat -> bool) n, In n (run_tail env xyz_tail 0) -> forall c : R,
  read_coord_nR xyz_scale_expr (snd r) (Q2R (snd (fst r))) n (Q2R (snd (fst r)) * c)%R = c.
Proof.
  assert (H : forallb (row_ok xyz_scale_expr) (rows_for xyz_scale_guarded) = true) by (vm_compute; reflexivity).
  assert (T : tail_ok xyz_tail_conds xyz_tail = true) by (vm_compute; reflexivity).
  intros r Hr. eapply units_law_paths; [|exact T]. rewrite forallb_forall in H. now apply H.
Qed.
Print Assumptions C08_units_xyz_paths.
Theorem C08_units_mol2_paths : forall r, In r (rows_for mol2_scale_guarded) ->
  forall (env : nat -> bool) n, In n (run_tail env mol2_tail 0) -> forall c : R,
  read_coord_nR mol2_scale_expr (snd r) (Q2R (snd (fst r))) n (Q2R (snd (fst r)) * c)%R = c.
Proof.
  assert (H : forallb (row_ok mol2_scale_expr) (rows_for mol2_scale_guarded) = true) by (vm_compute; reflexivity).
  assert (T : tail_ok mol2_tail_conds mol2_tail = true) by (vm_compute; reflexivity).
  intros r Hr. eapply units_law_paths; [|exact T]. rewrite forallb_forall in H. now apply H.
Qed.
Print Assumptions C08_units_mol2_paths.
(* not vacuous: some path of each loop body does yield *)
Example C08_units_paths_nonvacuous :
  (exists env : nat -> bool, run_tail env xyz_tail 0 <> []) /\ (exists env : nat -> bool, run_tail env mol2_tail 0 <> []).
Proof.
  split; [apply (tail_ok_yields xyz_tail_conds)|apply (tail_ok_yields mol2_tail_conds)]; vm_compute; reflexivity.
Qed.
(* a yield placed before the scale statement on one branch (early exit for NO_CHARGES / charge-less classes) breaks it *)
Theorem C08_units_refuted_by_early_yield :
  let t := TIf 0 (TYield TStop) (TScale (TYield TEnd)) in
  tail_ok 1 t = false /\
  exists v c : R, v <> 0%R /\ In 0%nat (run_tail (fun _ => true) t 0) /\
                  read_coord_nR (SDiv (SConst 1) SVal) false v 0 (v * c)%R <> c.
Proof. exact units_law_refuted_by_early_yield. Qed.

(* the table itself: Bohr, pm, nm, fm and Angstrom are present, and every member whose physical value is known
   agrees with it to 1e-5 (values written from the definitions of the units, not from the code) *)
Theorem C08_unit_values : units_present units = true /\ forallb row_value_ok units = true.
Proof. vm_compute. split; reflexivity. Qed.

(* finding 3 (repaired): multiplying by units-per-Angstrom instead of dividing breaks the law *)
Theorem C08_units_refuted_by_multiplying : exists v c : R, v <> 0%R /\ read_coordR SVal false v (v * c)%R <> c.
Proof. exact units_law_refuted_by_multiplying. Qed.

(* finding 32 (recorded): the writer never emits the dummy marker "*" -- a dummy atom is written with its element
   symbol and therefore read back as a regular atom of that element (the element itself is preserved) *)
Theorem C08_known_dummy_marker_never_written : forallb (fun p => negb (str_eqb (snd p) star)) syms = true.
Proof. vm_compute. reflexivity. Qed.

(* SIZE.  Nothing in the writer or the reader depends on how many atoms or frames there are: for every list of
   geometries the writer accepts, the text has the frame structure the oracle reads (`text_frames`: count line,
   comment line, exactly that many records, until the text ends) -- one frame per geometry, in order, header count =
   number of records = number of atoms, comment = name, and no line outside the frames ... *)
Theorem C08_text_frames : forall gs ls, write_xyz syms gs = Some ls ->
  exists frs, text_frames (List.length ls) ls = Some frs /\
              Forall2 (fun fr g => fst (fst fr) = N.of_nat (List.length (wg_atoms g)) /\
                                   List.length (snd fr) = List.length (wg_atoms g) /\ snd (fst fr) = wg_name g) frs gs /\
              forallb frame_counts_ok frs = true /\
              ls = List.concat (map (fun fr => print_N (fst (fst fr)) :: snd (fst fr) :: snd fr) frs).
Proof. exact (written_text_counts syms). Qed.
Print Assumptions C08_text_frames.
(* ... every record line is exactly four tokens: the symbol of the atom's element and its three coordinates ... *)
Theorem C08_record_tokens : forall g rs, geom_records syms g = Some rs ->
  Forall2 (fun l a => exists sym, symbol_of syms (wa_elem a) = Some sym /\
                      split l = [sym; print_dec6 (fst (wa_x a)) (snd (wa_x a)); print_dec6 (fst (wa_y a)) (snd (wa_y a));
                                 print_dec6 (fst (wa_z a)) (snd (wa_z a))])
          rs (wg_atoms g).
Proof. intros g rs. apply (written_record_tokens names syms). exact C08_vocabulary. Qed.
Print Assumptions C08_record_tokens.
(* ... and the size family of the harness (the pattern of Model/XyzSize.v, which harness/c08.py expands identically)
   lies in the writer's domain at EVERY atom count n, seed and number of frames: written, read back as exactly those
   geometries, one frame of header count n and n records per geometry.  (The runs sample n and k at and around powers
   of two, decimal powers and multiples of them; the statement is for all of N.) *)
Theorem C08_size_elements : pat_elems_writable syms = true.
Proof. vm_compute. reflexivity. Qed.
Theorem C08_size_family : forall name fs,
  exists ls, write_xyz syms (pat_geoms name fs) = Some ls /\
             load_xyz names ls = Ok (map geom_mol (pat_geoms name fs)) /\
             exists frs, text_frames (List.length ls) ls = Some frs /\
                         map (fun fr => fst (fst fr)) frs = map (fun f => fst (fst f)) fs /\
                         forallb frame_counts_ok frs = true.
Proof. intros name fs. exact (size_family names syms name fs C08_vocabulary C08_size_elements). Qed.
Print Assumptions C08_size_family.
Example C08_size_nonvacuous :
  match write_xyz syms (pat_geoms (s2l "s") (pat_ens 256 3 [1; 2]%N)) with
  | Some ls => (List.length ls =? 516)%nat && str_eqb (nth 0 ls []) (s2l "256") && str_eqb (nth 258 ls []) (s2l "256") &&
               negb (list_eqb str_eqb (firstn 258 ls) (skipn 258 ls))
  | None => false
  end = true.
Proof. vm_compute. reflexivity. Qed.
(* a frame whose records are followed by surplus records under the same header (a block written twice) has no reading:
   the surplus record stands where the next count line must be *)
Theorem C08_surplus_records_refuted : forall fuel cm rs r rest, parse_int r = None ->
  text_frames (S fuel) (print_N (N.of_nat (List.length rs)) :: cm :: rs ++ r :: rest) = None.
Proof. exact text_frames_surplus. Qed.

(* VIEWS.  A written geometry need not own its atoms: a Substructure is a selection of a parent's atoms (a molecule, a
   structure, a conformer) in the order in which they were selected -- any order, an index possibly twice.  Every write
   of a view session (writes of the view and of the parent, edits of the parent's rows and elements, assignments
   through the view) reads back as the selection, in selection order, of the state the parent has at that moment ... *)
Theorem C08_view_session : forall vname sel steps g,
  Forall2 (fun out exp => forall ls, out = Some ls -> exists ms, exp = Some ms /\ load_xyz names ls = Ok ms)
          (run_view syms vname sel g steps) (view_expect vname sel g steps).
Proof. exact (xyz_view_session_roundtrip names syms C08_vocabulary). Qed.
Print Assumptions C08_view_session.
(* ... in particular atom j of what is read back is the parent's atom sel_j: its element and ITS OWN coordinate row *)
Theorem C08_view_order : forall vname sel g ls, write_view syms vname sel g = Some ls ->
  exists m, load_xyz names ls = Ok [m] /\ m_natoms m = Z.of_nat (List.length sel) /\
            List.length (m_elems m) = List.length sel /\ List.length (m_coords m) = List.length sel /\
            forall j i, nth_error sel j = Some i ->
              exists a, nth_error (wg_atoms g) i = Some a /\ nth_error (m_elems m) j = Some (wa_elem a) /\
                        nth_error (m_coords m) j = Some (dec_val (wa_x a), dec_val (wa_y a), dec_val (wa_z a)).
Proof. intros vname sel g ls. apply (xyz_view_order names syms). exact C08_vocabulary. Qed.
Print Assumptions C08_view_order.
Example C08_view_nonvacuous :
  let g := mk_wgeom (s2l "p") [mk_watom 6 (false, 0%N) (false, 0%N) (false, 0%N); mk_watom 8 (false, 1210000%N) (false, 0%N) (false, 0%N);
                               mk_watom 7 (true, 700000%N) (false, 1150000%N) (false, 0%N); mk_watom 1 (true, 5%N) (true, 6%N) (false, 7%N)] in
  match run_view syms (s2l "v") [3; 1; 1; 0]%nat g [VWriteView; VEdit (VAssign [((false, 1%N), (false, 2%N), (false, 3%N))]); VWriteView; VWriteParent] with
  | [Some a; Some b; Some c] =>
    (List.length a =? 6)%nat && (List.length c =? 6)%nat && str_eqb (firstn 1 (nth 2 a [])) (s2l "H") && str_eqb (firstn 1 (nth 3 a [])) (s2l "O") &&
    str_eqb (nth 3 a []) (nth 4 a []) && negb (str_eqb (nth 2 a []) (nth 2 b [])) && str_eqb (nth 2 b []) (nth 5 c [])
  | _ => false
  end = true.
Proof. vm_compute. reflexivity. Qed.
(* the rows taken in the PARENT's order (a membership mask, a sorted index list) under atoms kept in selection order:
   same elements, other atoms' coordinates, as soon as the selection is not ascending (and nothing to see when it is) *)
Theorem C08_view_parent_order_refuted :
  exists v w, view_geom [] [2; 0]%nat refute_parent = Some v /\ masked_geom [] [2; 0]%nat refute_parent = Some w /\
              m_elems (geom_mol v) = m_elems (geom_mol w) /\ m_coords (geom_mol v) <> m_coords (geom_mol w) /\
              view_geom [] [0; 2]%nat refute_parent = masked_geom [] [0; 2]%nat refute_parent.
Proof. exact view_parent_order_refuted. Qed.
