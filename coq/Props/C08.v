(* C08 -- xyz round trip and unit handling.  Property theorems only.
   Gen/XyzElements.v, Gen/Units.v (tie T) and Gen/ScaleExpr.v (tie S) are regenerated from /repo on every run,
   so the table obligations below are re-decided against the current code. *)
From Coq Require Import List Bool ZArith NArith QArith String Reals Qreals.
From Molli Require Import Common.ParseStr Model.Parse Model.XyzText Proofs.Parse Proofs.XyzText.
From Molli Require Import Gen.XyzElements Gen.Units Gen.ScaleExpr.
Import ListNotations.
Local Open Scope list_scope.

Definition names := conv_names element_names.
Definition syms := conv_syms element_symbols.

(* T: every element symbol is one whitespace-free token, is not the dummy marker, and Element.get(symbol)
   returns the element it came from (all 119 members, by computation on the regenerated table) *)
Theorem C08_vocabulary : vocab_ok names syms = true.
Proof. vm_compute. reflexivity. Qed.
Print Assumptions C08_vocabulary.

(* Round trip: whatever list of geometries the writer accepts (every atom's element has a symbol), the text
   it produces is read back as the same atom counts, order, elements, and coordinates to the written precision
   (micro-units; "-0.000000" keeps its sign); names are arbitrary lines. *)
Theorem C08_roundtrip : forall gs ls, write_xyz syms gs = Some ls -> load_xyz names ls = Ok (map geom_mol gs).
Proof. intros gs ls. apply xyz_roundtrip. exact C08_vocabulary. Qed.
Print Assumptions C08_roundtrip.

(* Frames: an ensemble written conformer by conformer reads back as one molecule per conformer, in order, each
   with the ensemble's elements and that conformer's coordinates. *)
Theorem C08_frames : forall e ls, write_xyz syms (ens_geoms e) = Some ls ->
  exists ms, load_xyz names ls = Ok ms /\ List.length ms = List.length (we_frames e) /\
             ms = map (fun f => geom_mol (frame_geom e f)) (we_frames e).
Proof. intros e ls. apply xyz_frames. exact C08_vocabulary. Qed.
Print Assumptions C08_frames.
Theorem C08_frame_elements : forall e f, List.length f = List.length (we_elems e) ->
  m_elems (geom_mol (frame_geom e f)) = we_elems e.
Proof. exact frame_elems. Qed.

(* the writer is total on the element table: no hypothesis above is vacuous *)
Theorem C08_writer_total : forallb (fun p => match symbol_of syms (fst p) with Some _ => true | None => false end) syms = true.
Proof. vm_compute. reflexivity. Qed.
Example C08_roundtrip_nonvacuous :
  exists ls, write_xyz syms [mk_wgeom (s2l "w 1") [mk_watom 8 (true, 0%N) (false, 1234567%N) (true, 99999999999%N);
                                                   mk_watom 118 (false, 5%N) (false, 0%N) (false, 1%N)];
                             mk_wgeom (s2l "") []] = Some ls /\ List.length ls = 6%nat.
Proof. eexists. split; vm_compute; reflexivity. Qed.

(* Units (S + T): for EVERY member of the regenerated DistanceUnit table, a coordinate c (in Angstrom) written in
   that unit (c times units-per-Angstrom) is returned by the reader as c -- physical distances unchanged --
   over the reals, using the scale(...) argument extracted from the current source of each reader. *)
Definition rows_for (guarded : bool) : list unit_row := map (fun r => (fst r, snd r && guarded)) units.

Theorem C08_units_xyz : forall r, In r (rows_for xyz_scale_guarded) -> forall c : R,
  read_coordR xyz_scale_expr (snd r) (Q2R (snd (fst r))) (Q2R (snd (fst r)) * c)%R = c.
Proof.
  assert (H : forallb (row_ok xyz_scale_expr) (rows_for xyz_scale_guarded) = true) by (vm_compute; reflexivity).
  intros r Hr. apply units_law. rewrite forallb_forall in H. now apply H.
Qed.
Print Assumptions C08_units_xyz.
Theorem C08_units_mol2 : forall r, In r (rows_for mol2_scale_guarded) -> forall c : R,
  read_coordR mol2_scale_expr (snd r) (Q2R (snd (fst r))) (Q2R (snd (fst r)) * c)%R = c.
Proof.
  assert (H : forallb (row_ok mol2_scale_expr) (rows_for mol2_scale_guarded) = true) by (vm_compute; reflexivity).
  intros r Hr. apply units_law. rewrite forallb_forall in H. now apply H.
Qed.
Print Assumptions C08_units_mol2.

(* the table itself: Bohr, pm, nm, fm and Angstrom are present, and every member whose physical value is known
   agrees with it to 1e-5 (values written from the definitions of the units, not from the code) *)
Theorem C08_unit_values : units_present units = true /\ forallb row_value_ok units = true.
Proof. vm_compute. split; reflexivity. Qed.

(* finding 3 (repaired): multiplying by units-per-Angstrom instead of dividing breaks the law *)
Theorem C08_units_refuted_by_multiplying : exists v c : R, v <> 0%R /\ read_coordR SVal false v (v * c)%R <> c.
Proof. exact units_law_refuted_by_multiplying. Qed.

(* finding 32 (recorded): the writer never emits the dummy marker "*" -- a dummy atom is written with its element
   symbol and therefore read back as a regular atom of that element (the element itself is preserved) *)
Theorem C08_known_dummy_marker_never_written : forallb (fun p => negb (str_eqb (snd p) star)) syms = true.
Proof. vm_compute. reflexivity. Qed.
