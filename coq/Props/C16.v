(* C16 -- adding implicit hydrogens only completes valences.

   Property theorems only.  Model: Model/Hadd.v (the definitions the correspondence shards evaluate on every
   run); proofs: Proofs/Hadd.v.  Ties: Gen/Valence.v (T: element table incl. the default selection observed by
   running the routine, IMPLICIT_VALENCE / VALENCE_ELECTRONS, Bond.order, TETRAHEDRON, defaults of Atom("H") and
   Bond(a, h)), Gen/HaddExpr.v (S: the count expression), harness/c16.py (H).

   The model describes the code AFTER three repairs made in this round (each one `fix:` commit in /repo):
     - an isolated atom (no neighbour): the mean of an empty set gave NaN positions       -> fixed direction
     - a count of four had no branch (methane carbon received nothing)                   -> all four vertices
     - two hydrogens on an atom whose only bond lies along z: zero cross product, NaN    -> least aligned axis

   Reading guide (hmol = atoms / bonds / coordinate rows; targets are positions of atoms):
     count_of bonds i a     hydrogens the routine decides to add to atom a at position i   (None: it raises)
     n_added k              hydrogens actually placed for a count k: k for 1..4, none otherwise
     place tet a nb L k w   their coordinates; w carries |vec|, |z|, the mean-plane normal, the vector used by
                            the antiparallel branch of rotation_matrix_from_vectors
     hadd m ts ws           the whole call on targets ts                                                     *)
From Coq Require Import String.
From Coq Require Import List ZArith NArith QArith Qround Bool Reals Lra.
From Molli Require Import Common.Field3 Common.Field3R Common.HExpr Gen.Valence Gen.HaddExpr Model.Hadd Proofs.Hadd.
From Molli Require Model.MolEdit Proofs.MolEdit.
Import ListNotations.
Local Open Scope nat_scope.

(* ====================================================================== the count *)
(* tie S: the arithmetic extracted from the source denotes the formula of the property for ALL integer
   valence-electron counts, charges and spins and ALL rational bonded valences *)
Theorem C16_count_expr : forall v : henv,
  denote v hs_expr
  = Z.max 0 (4 - Z.abs (4 - (v_ve v - v_fc v - Z.abs (v_spin v))) - Qceiling (v_bv v))%Z.
Proof. exact hs_expr_is_spec. Qed.
Print Assumptions C16_count_expr.

(* ... and the loop body has the shape `hs = hint if there is one else <that expression>; if hs > 0: place` *)
Theorem C16_hint_structure : hint_overrides = true /\ guard_positive = true /\ hint_key = "__implicit_hydrogens"%string.
Proof. repeat split. Qed.
Print Assumptions C16_hint_structure.

(* tie T, decided by the kernel on the regenerated tables *)
Theorem C16_table_elements : elements_ok = true.
Proof. vm_compute. reflexivity. Qed.
Print Assumptions C16_table_elements.
Theorem C16_table_implicit_valence : iv_ok = true.
Proof. vm_compute. reflexivity. Qed.
Print Assumptions C16_table_implicit_valence.
Theorem C16_table_orders : orders_ok = true.
Proof. vm_compute. reflexivity. Qed.
Print Assumptions C16_table_orders.
Theorem C16_table_tetrahedron : tet_ok tetrahedron = true.
Proof. vm_compute. reflexivity. Qed.
Print Assumptions C16_table_tetrahedron.
(* a new hydrogen is a plain H (no charge, no spin, no hint), its bond a single bond of order 1 *)
Theorem C16_new_hydrogen_is_plain :
  h_atom = mkHA 1%N 0%Z 0%Z None 1%N /\ forall i j, new_bond i j = mkHB i j 1%N 1%Q /\ order_of (new_bond i j) = 1%Q.
Proof. split; [reflexivity | intros; split; reflexivity]. Qed.
Print Assumptions C16_new_hydrogen_is_plain.

(* the default selection is exactly the main-group elements of groups 13-16 *)
Theorem C16_default_selection : forall z,
  el_sel z = true <-> exists gz, el_group z = Some gz /\ (13 <= gz <= 16)%Z /\ el_row z <> None.
Proof. intro z. exact (selected_iff_main_group z C16_table_elements). Qed.
Print Assumptions C16_default_selection.

(* every such atom receives exactly the number its hint states or, without a hint,
   max(0, 4 - |4 - (valence electrons - formal charge - |spin|)| - ceil(bonded valence)), valence electrons = group - 10 *)
Theorem C16_count : forall bonds i a, el_sel (ha_el a) = true ->
  exists gz, el_group (ha_el a) = Some gz /\ (13 <= gz <= 16)%Z /\
    count_of bonds i a =
      Some (match ha_hint a with
            | Some h => h
            | None => Z.max 0 (4 - Z.abs (4 - ((gz - 10) - ha_fc a - Z.abs (ha_spin a))) - Qceiling (bonded_valence bonds i))
            end).
Proof. intros bonds i a. exact (count_is_spec bonds i a C16_table_elements). Qed.
Print Assumptions C16_count.

(* ====================================================================== only adds; number added = count *)
(* For every molecule, every list of distinct targets and every choice of witnesses: the old atoms stay (only the
   hints of the targets are consumed), the old bonds and coordinate rows are prefixes of the new lists, every new
   atom is a plain hydrogen, new bond number j joins a TARGET to new hydrogen number j (so each new hydrogen is
   bonded exactly once), and each target receives n_added (its count in the molecule as it was before the call). *)
Theorem C16_only_adds_number_added : forall (F : Type) (o : Fops F) (m m' : hmol F) ts ws,
  (forall t, In t ts -> t < length (hm_atoms m)) -> NoDup ts ->
  hadd o m ts ws = Some m' ->
  exists A' nbs ps,
    hm_atoms m' = A' ++ repeat h_atom (length nbs) /\
    length A' = length (hm_atoms m) /\ map clear_hint A' = map clear_hint (hm_atoms m) /\
    (forall j, ~ In j ts -> nth_error A' j = nth_error (hm_atoms m) j) /\
    (forall j, In j ts -> nth_error A' j = option_map clear_hint (nth_error (hm_atoms m) j)) /\
    hm_bonds m' = hm_bonds m ++ nbs /\
    map hb_a2 nbs = seq (length (hm_atoms m)) (length nbs) /\
    Forall (fun b => In (hb_a1 b) ts /\ b = new_bond (hb_a1 b) (hb_a2 b)) nbs /\
    hm_xyz m' = hm_xyz m ++ ps /\ length ps = length nbs /\
    (forall t a, In t ts -> nth_error (hm_atoms m) t = Some a ->
       exists k, count_of (hm_bonds m) t a = Some k /\ added_to t nbs = n_added k).
Proof. exact @hadd_main. Qed.
Print Assumptions C16_only_adds_number_added.

(* n_added k = k exactly on 0..4.  For k >= 5 (reachable only through a hint; the formula is <= 4 when no bond
   order is negative) nothing is placed: outside the property's domain "hints 0..4", stated here. *)
Theorem C16_n_added : forall k, (0 <= k <= 4)%Z -> Z.of_nat (n_added k) = k.
Proof. exact n_added_exact. Qed.
Print Assumptions C16_n_added.
Example C16_hint_above_four_places_nothing : n_added 5 = 0%nat.
Proof. reflexivity. Qed.

(* ====================================================================== idempotence *)
(* hint-free molecule, no negative bond order, default selection: after the call the default selection is the
   same set of atoms and every one of them has count 0 -- a second call adds nothing *)
Theorem C16_idempotent : forall (F : Type) (o : Fops F) (m m' : hmol F) ws,
  (forall a, In a (hm_atoms m) -> ha_hint a = None) ->
  (forall b, In b (hm_bonds m) -> (0 <= order_of b)%Q) ->
  hadd o m (default_targets (hm_atoms m)) ws = Some m' ->
  default_targets (hm_atoms m') = default_targets (hm_atoms m) /\
  forall t a', In t (default_targets (hm_atoms m')) -> nth_error (hm_atoms m') t = Some a' ->
    count_of (hm_bonds m') t a' = Some 0%Z.
Proof. exact @hadd_idempotent. Qed.
Print Assumptions C16_idempotent.
(* the hypothesis on bond orders holds whenever no FractionalOrder bond has a negative f_order *)
Theorem C16_order_nonneg : forall b : hbond, (0 <= hb_fo b)%Q -> (0 <= order_of b)%Q.
Proof. intro b. exact (order_nonneg b C16_table_orders). Qed.
Print Assumptions C16_order_nonneg.

(* ====================================================================== the same object, called again *)
(* A session = calls on one object with the caller's in-place edits in between (an edit is "the molecule is now
   this": element, charge, spin, hint, atom type, bond type/order, coordinates, atoms/bonds deleted or added).
   run_session returns (molecule before, targets, molecule after) for every call.  For EVERY session and every call
   in it: only plain hydrogens are appended to the molecule b the call found, and each target receives
   n_added (count_of ... computed from b) -- from the element, charge, spin, hint and bonds the atom has at THAT
   moment, not from what they were at an earlier call or before the edits.  (call_ok spells this out.) *)
Theorem C16_session_counts : forall (F : Type) (o : Fops F) (steps : list (sstep F)) (m : hmol F) tr,
  run_session o m steps = Some tr -> Forall call_ok tr.
Proof. exact @session_counts. Qed.
Print Assumptions C16_session_counts.
(* ... where the molecule a call finds is exactly what the preceding step left *)
Theorem C16_session_chained : forall (F : Type) (o : Fops F) (steps : list (sstep F)) (m : hmol F) tr,
  run_session o m steps = Some tr -> chained o m steps tr.
Proof. exact @run_session_chained. Qed.
Print Assumptions C16_session_chained.

(* hint-free, no negative bond order: the whole-molecule call, repeated, returns the very same molecule *)
Theorem C16_second_call_same : forall (F : Type) (o : Fops F) (m m' : hmol F) ws ws',
  (forall a, In a (hm_atoms m) -> ha_hint a = None) ->
  (forall b, In b (hm_bonds m) -> (0 <= order_of b)%Q) ->
  hadd o m (default_targets (hm_atoms m)) ws = Some m' ->
  length ws' = length (default_targets (hm_atoms m')) ->
  hadd o m' (default_targets (hm_atoms m')) ws' = Some m'.
Proof. exact @hadd_again_same. Qed.
Print Assumptions C16_second_call_same.
(* a first call restricted to some atoms, then the whole molecule: a third call changes nothing *)
Theorem C16_subset_then_all : forall (F : Type) (o : Fops F) (m m1 m2 : hmol F) ts ws1 ws2 ws3,
  (forall t, In t ts -> t < length (hm_atoms m)) -> NoDup ts ->
  (forall a, In a (hm_atoms m) -> ha_hint a = None) ->
  (forall b, In b (hm_bonds m) -> (0 <= order_of b)%Q) ->
  hadd o m ts ws1 = Some m1 ->
  hadd o m1 (default_targets (hm_atoms m1)) ws2 = Some m2 ->
  length ws3 = length (default_targets (hm_atoms m2)) ->
  hadd o m2 (default_targets (hm_atoms m2)) ws3 = Some m2.
Proof. exact @subset_then_all_settles. Qed.
Print Assumptions C16_subset_then_all.

(* the session  C -> call (CH4) -> the caller strips the hydrogens and turns the atom into N -> call (NH3) -> call:
   the second call counts with nitrogen's five electrons, the third adds nothing *)
Example C16_session_nonvacuous :
  let w := @mkWit Q true 1%Q 1%Q (0, 1, 0)%Q (0, 0, 1)%Q in
  let c := mkHM [mkHA 6 0 0 None 1] [] [(0, 0, 0)%Q] in
  let n := mkHM [mkHA 7 0 0 None 1] [] [(0, 0, 0)%Q] in
  match run_session QOps c [SCall None [w]; SEdit n; SCall None [w]; SCall None [w]] with
  | Some [(b1, t1, a1); (b2, t2, a2); (b3, t3, a3)] =>
      b1 = c /\ t1 = [0] /\ length (hm_atoms a1) = 5 /\
      b2 = n /\ t2 = [0] /\ length (hm_atoms a2) = 4 /\ length (hm_bonds a2) = 3 /\
      b3 = a2 /\ a3 = a2
  | _ => False
  end.
Proof. vm_compute. repeat split. Qed.

(* ====================================================================== geometry over R *)
Local Open Scope R_scope.

(* one hydrogen, any number of neighbours: exactly at distance L; with v the (un-normalised) direction towards
   the neighbours and n = |v|:  (h - a) . c = - L n  for every c with v . c = |v|^2  (c = centroid - atom, below) *)
Theorem C16_dist1 : forall (tet : list vecR) (a : vecR) (nb : list vecR) (L : R) (w : wit R),
  let v := hvec_raw ROps a nb (w_nrm w) in
  0 < w_n w -> w_n w * w_n w = norm2 ROps v ->
  exists h, place ROps tet a nb L 1 w = [h] /\ dist2 ROps h a = L * L /\
            forall c, towards v c -> dot ROps (vsub ROps h a) c = - L * w_n w.
Proof. exact place_one. Qed.
Print Assumptions C16_dist1.

(* two hydrogens: NOT at L.  |h - a|^2 = L^2 (0.5736^2 + 0.8192^2) = 1.0001056 L^2, i.e. |h - a| = 1.0000528 L:
   the two constants are cos/sin of 55 degrees rounded to four digits.  Decision against the property text
   ("at the sum of covalent radii"): accepted, the deviation is 5.3e-5 relative (0.06 mA for a C-H bond), below
   the 1e-4 the oracle allows; C16_dist2_tolerance states the bound. *)
Theorem C16_dist2 : forall (tet : list vecR) (a : vecR) (nb : list vecR) (L : R) (w : wit R),
  let v := hvec_raw ROps a nb (w_nrm w) in
  let z := zdir ROps a nb (vdiv ROps v (w_n w)) in
  0 < w_n w -> w_n w * w_n w = norm2 ROps v -> 0 < w_nz w -> w_nz w * w_nz w = norm2 ROps z ->
  exists h1 h2, place ROps tet a nb L 2 w = [h1; h2] /\
    forall h, h = h1 \/ h = h2 ->
      dist2 ROps h a = L * L * (10001056 / 10000000) /\ dot ROps (vsub ROps h a) v = - L * (5736 / 10000) * w_n w.
Proof. exact place_two. Qed.
Print Assumptions C16_dist2.
Theorem C16_dist2_tolerance : forall d2 L : R, 0 < L -> d2 = L * L * (10001056 / 10000000) ->
  L * L < d2 /\ d2 < (L * (1 + 6 / 100000)) * (L * (1 + 6 / 100000)).
Proof. exact two_h_distance_tolerance. Qed.
Print Assumptions C16_dist2_tolerance.

(* three / four hydrogens on the TABULATED tetrahedron: the rotation is proper (Proofs/Rot.v), so distances are
   L |row|, rows are unit to 1e-8; for three hydrogens (rows 1-3) the component along v is <= -0.33 L *)
Theorem C16_dist3 : forall (a : vecR) (nb : list vecR) (L : R) (hs : Z) (w : wit R),
  let v := hvec_raw ROps a nb (w_nrm w) in
  (hs = 3 \/ hs = 4)%Z -> 0 <= L ->
  0 < w_n w -> w_n w * w_n w = norm2 ROps v ->
  unit (w_ov w) -> dot ROps (w_ov w) (vdiv ROps v (w_n w)) = 0 ->
  length (place ROps (tetF ROps) a nb L hs w) = Z.to_nat hs /\
  Forall (fun h => L * L * (1 - 1 / 100000000) <= dist2 ROps h a <= L * L * (1 + 1 / 100000000))
         (place ROps (tetF ROps) a nb L hs w) /\
  (hs = 3%Z -> Forall (fun h => dot ROps (vsub ROps h a) v <= - (33 / 100) * L * w_n w)
                      (place ROps (tetF ROps) a nb L hs w)).
Proof. intros a nb L hs w. exact (place_tet_table a nb L hs w C16_table_tetrahedron). Qed.
Print Assumptions C16_dist3.

(* pointing away from the centroid of the existing neighbours: 1, 2 or >= 4 neighbours (the direction is the mean
   of the neighbour vectors), 1-3 hydrogens ... *)
Theorem C16_away : forall (a : vecR) (nb : list vecR) (L : R) (k : Z) (w : wit R),
  avg_branch nb -> 0 < L -> (k = 1 \/ k = 2 \/ k = 3)%Z ->
  let c := vsub ROps (centroid ROps nb) a in
  0 < w_n w -> w_n w * w_n w = norm2 ROps c ->
  (k = 2%Z -> 0 < w_nz w /\ w_nz w * w_nz w = norm2 ROps (zdir ROps a nb (vdiv ROps c (w_n w)))) ->
  (k = 3%Z -> unit (w_ov w) /\ dot ROps (w_ov w) (vdiv ROps c (w_n w)) = 0) ->
  Forall (fun h => dot ROps (vsub ROps h a) c < 0) (place ROps (tetF ROps) a nb L k w).
Proof. intros a nb L k w. exact (placement_away_avg a nb L k w C16_table_tetrahedron). Qed.
Print Assumptions C16_away.

(* ... and three neighbours with the atom off their plane (|align| > 0.05; mean_plane enters through its unit
   normal only).  In the plane (|align| <= 0.05) the hydrogen is put along the normal, whose sign is the SVD's:
   that case is outside "non-degenerate geometry" and no direction is claimed. *)
Theorem C16_away_three : forall (a p1 p2 p3 : vecR) (L : R) (w : wit R),
  0 < L -> unit (w_nrm w) ->
  let c := vsub ROps (centroid ROps [p1; p2; p3]) a in
  abs_le ROps (dot ROps (w_nrm w) c) (c_align ROps) = false ->
  let v := hvec_raw ROps a [p1; p2; p3] (w_nrm w) in
  0 < w_n w -> w_n w * w_n w = norm2 ROps v ->
  forall tet, exists h, place ROps tet a [p1; p2; p3] L 1 w = [h] /\ dist2 ROps h a = L * L /\ dot ROps (vsub ROps h a) c < 0.
Proof. exact placement_away_three. Qed.
Print Assumptions C16_away_three.

(* finite coordinates = nothing is divided by zero: the norms the routine divides by are positive exactly when
   the geometry is not degenerate (centroid of the neighbours off the atom; two neighbours not collinear with it).
   The isolated atom and the single bond along a coordinate axis -- the two NaN defects -- are covered. *)
Theorem C16_defined_direction : forall (a nrm : vecR) (nb : list vecR), unit nrm ->
  (avg_branch nb -> centroid ROps nb <> a) ->
  exists n, 0 < n /\ n * n = norm2 ROps (hvec_raw ROps a nb nrm).
Proof. intros a nrm nb U H. apply witness_exists. exact (hvec_nonzero a nrm nb U H). Qed.
Print Assumptions C16_defined_direction.
Theorem C16_defined_second_direction : forall (a : vecR) (nb : list vecR) (u : vecR), unit u ->
  (forall p1 p2, nb = [p1; p2] -> cross ROps (vsub ROps p1 a) (vsub ROps p2 a) <> vzero ROps) ->
  exists nz, 0 < nz /\ nz * nz = norm2 ROps (zdir ROps a nb u).
Proof. intros a nb u U H. apply witness_exists. exact (zdir_nonzero a nb u U H). Qed.
Print Assumptions C16_defined_second_direction.
Theorem C16_least_axis : forall u : vecR, unit u -> 2 / 3 <= norm2 ROps (cross ROps u (least_axis ROps u)).
Proof. exact least_axis_cross_nonzero. Qed.
Print Assumptions C16_least_axis.

(* ====================================================================== "only adds" on C05's model of the same routine *)
(* C05's theorems, instantiated (not re-proved) at its AddHs operation: invariant kept, old atoms keep row and charge *)
Theorem C16_only_adds_c05_frame : forall s l s', Proofs.MolEdit.Inv s ->
  (MolEdit.step s (MolEdit.AddHs l) = MolEdit.Ok s' \/ MolEdit.step s (MolEdit.AddHs l) = MolEdit.Err s') ->
  Proofs.MolEdit.Inv s' /\
  (forall y, In y (MolEdit.ids s) -> In y (MolEdit.ids s') -> MolEdit.row_of s' y = MolEdit.row_of s y) /\
  (forall y, In y (MolEdit.ids s') -> In y (MolEdit.ids s) \/ (MolEdit.next_a s <= y)%positive).
Proof. exact C05link.add_hs_c05_frame. Qed.
Print Assumptions C16_only_adds_c05_frame.
(* ... and what they leave open: the old lists are prefixes, new atoms are H with fresh names, new bonds join a
   target to a new hydrogen, new charges are 0 -- also when the call raises half-way *)
Theorem C16_only_adds_c05_shape : forall s l s',
  (MolEdit.step s (MolEdit.AddHs l) = MolEdit.Ok s' \/ MolEdit.step s (MolEdit.AddHs l) = MolEdit.Err s') ->
  C05link.OnlyAdds (map fst l) s s'.
Proof. exact C05link.add_hs_only_adds. Qed.
Print Assumptions C16_only_adds_c05_shape.

(* ====================================================================== non-vacuity *)
Local Open Scope Q_scope.
(* ethanol skeleton C-C-O with exact coordinates and a lone silicon: 3 + 2 + 1 + 4 hydrogens; the
   hypotheses of C16_only_adds_number_added and C16_idempotent hold and the model runs *)
Definition ex_atoms : list hatom :=
  [mkHA 6 0 0 None 1; mkHA 6 0 0 None 1; mkHA 8 0 0 None 1; mkHA 14 0 0 None 1; mkHA 26 0 0 None 1].
Definition ex_bonds : list hbond := [mkHB 0 1 1 1; mkHB 1 2 1 1].
Definition ex_xyz : list vecQ := [(0, 0, 0); (3 # 2, 0, 0); (2, 5 # 4, 0); (5, 5, 5); (9, 9, 9)].
Definition ex_w (n nz : Q) : wit Q := @mkWit Q true n nz (0, 1, 0) (0, 0, 1).
Definition ex_ws : list (wit Q) :=
  [ex_w (3 # 2) 1; ex_w (33 # 32) (33 # 32); ex_w (29 # 20) 1; ex_w 1 1].     (* rough witnesses: only counts matter here *)
Example C16_nonvacuous :
  default_targets ex_atoms = [0; 1; 2; 3]%nat /\
  map (fun t => match nth_error ex_atoms t with Some a => count_of ex_bonds t a | None => None end) [0; 1; 2; 3; 4]%nat
    = [Some 3; Some 2; Some 1; Some 4; None]%Z /\
  match hadd QOps (mkHM ex_atoms ex_bonds ex_xyz) (default_targets ex_atoms) ex_ws with
  | Some m' => length (hm_atoms m') = 15%nat /\ length (hm_bonds m') = 12%nat /\ length (hm_xyz m') = 15%nat /\
               default_targets (hm_atoms m') = [0; 1; 2; 3]%nat /\
               map (fun t => match nth_error (hm_atoms m') t with Some a => count_of (hm_bonds m') t a | None => None end)
                   [0; 1; 2; 3]%nat = [Some 0; Some 0; Some 0; Some 0]%Z
  | None => False
  end.
Proof. vm_compute. repeat split. Qed.

(* the geometric hypotheses are satisfiable: one neighbour at distance 3/2 along x *)
Local Open Scope R_scope.
Example C16_geometry_nonvacuous :
  let a : vecR := (0, 0, 0) in let nb : list vecR := [(3 / 2, 0, 0)] in
  let w := @mkWit R true (3 / 2) 1 (0, 1, 0) (0, 0, 1) in
  avg_branch nb /\ 0 < w_n w /\ w_n w * w_n w = norm2 ROps (vsub ROps (centroid ROps nb) a) /\
  unit (w_ov w) /\ dot ROps (w_ov w) (vdiv ROps (vsub ROps (centroid ROps nb) a) (w_n w)) = 0.
Proof.
  cbv zeta. split; [split; [discriminate | cbn; discriminate]|].
  cbv [w_n w_ov centroid vsum fold_right length fnat unit]. f3. cbn [fofZ ROps Z.of_nat Pos.of_succ_nat].
  repeat split; lra.
Qed.
