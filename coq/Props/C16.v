(* C16 -- adding implicit hydrogens only completes valences (work in progress) *)
From Coq Require Import List ZArith NArith QArith Qround Bool.
From Molli Require Import Common.HExpr Gen.Valence Gen.HaddExpr Model.Hadd Proofs.Hadd.

Theorem C16_count_expr : forall v : henv, denote v hs_expr = count_spec v.
Proof. exact hs_expr_is_spec. Qed.
Print Assumptions C16_count_expr.
