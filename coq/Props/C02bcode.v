(* C02 / C04 -- the tie between Model/Backend.v and molli/storage/backends.py by TRANSLATION (second layer).
   Gen/BackendCode.v is regenerated on every run from CollectionBackendBase.put / get / flush and
   UkvCollectionBackend._write / _read / update_keys (harness/ukv_translate.py -> terms of Model/MiniPyB.v); calls on
   self._ukvfile carry the translated UKVFile methods of Gen/UKVCode.v.  For EVERY state of the backend object, of its
   UKVFile and of the file, running the translated bodies is what b_put / b_get / flush of Model/Backend.v compute:
   the functions C02_listed_readable, C02_collection_put, C02_flush_fails_atomically and the collection-level
   correspondence are about.  Property theorems only; proofs in Proofs/BackendCode.v. *)
From Coq Require Import NArith ZArith List Bool String.
Import ListNotations.
From Molli Require Import Model.UKV Model.MiniPy Model.Backend Model.MiniPyB Gen.UKVCode Gen.BackendCode
  Proofs.UKVBase Proofs.UKVCode Proofs.BackendCode Proofs.BackendMode Proofs.BackendSession Proofs.BackendWhole.
Local Open Scope string_scope.
Local Open Scope N_scope.

(* flush(): the queue is written out in order through the translated UKVFile.put; the first failing write stops it, drops
   that item, repairs the key listing from the file's keys and the still-queued keys, and propagates; the buffer
   accounting is reset only when everything was written *)
Theorem C02_code_flush : forall fuel s f b,
  (List.length (queue b) < fuel)%nat -> BRep s f b ->
  let '(s', o) := bexec fuel flush_prog s in
  let '(f', b', e) := flush f b in
  o = bout_of e /\ BRep s' f' b' /\ bloc s' "key" = bloc s' "key".
Proof. exact flush_code. Qed.
Print Assumptions C02_code_flush.

(* put(key, value): refused on a read-only collection; else queued, listed, accounted, and flushed when over budget --
   for every buffer size (incl. negative = write through) *)
Theorem C02_code_bput : forall fuel s f b k v,
  (S (List.length (queue b)) < fuel)%nat -> BRep s f b -> bloc s "key" = Some k -> bloc s "value" = Some v ->
  let '(s', o) := bexec fuel bput_prog s in
  let '(f', b', r) := b_put f b k v in
  BRep s' f' b' /\ o = bout_of_res r.
Proof. exact bput_code. Qed.
Print Assumptions C02_code_bput.

(* get(key): a key that is still buffered is flushed first; then the translated UKVFile.get *)
Theorem C02_code_bget : forall fuel s f b k,
  (List.length (queue b) < fuel)%nat -> BRep s f b -> bloc s "key" = Some k ->
  let '(s', o) := bexec fuel bget_prog s in
  let '(f', b', r) := b_get f b k in
  BRep s' f' b' /\ o = bout_of_res r.
Proof. exact bget_code. Qed.
Print Assumptions C02_code_bget.

(* the loop of flush() alone, for any amount of fuel beyond the queue length *)
Theorem C02_code_flush_loop : forall fuel n s f b,
  (List.length (bq s) < n)%nat -> BRep s f b ->
  let '(s', o) := bwloop (bexec fuel loop_body) "key" "value" n s in
  let '(f', b', e) := flush_loop n f b in
  o = bout_of e /\ BRep s' f' (match e with None => set_used b' (used b) | Some _ => b' end).
Proof. exact flush_loop_code. Qed.
Print Assumptions C02_code_flush_loop.

(* begin_read() / begin_write(): the first session constructs the UKVFile (the translated __init__), later ones reopen it; the
   handle becomes Model.UKV.open_ of the backend's handle (h0 before the first session) -- so a stale cached table is refreshed
   and, in a writing session, a torn tail is cut.  end_read() / end_write(): the handle is closed. *)
Theorem C04_code_begin_read : forall fuel s f b hh1 hh2 bb0 rest,
  (List.length f < fuel)%nat -> BRep s f b ->
  f = (mk_header hh1 hh2 bb0 ++ rest)%list -> List.length hh1 = 16%nat -> len hh2 < 65536 -> len bb0 < 4294967296 ->
  (has_uk b = false -> uk b = h0) -> (forall k, last (uk b) = Some k -> lookup (toc (uk b)) k <> None) ->
  let '(s', o) := bexec fuel begin_read_prog s in
  let '(f', h') := open_ f (uk b) MR in
  o = BONormal /\ BRep s' f' (opened b h').
Proof. exact begin_read_code. Qed.
Print Assumptions C04_code_begin_read.

Theorem C04_code_begin_write : forall fuel s f b hh1 hh2 bb0 rest,
  (List.length f < fuel)%nat -> BRep s f b ->
  f = (mk_header hh1 hh2 bb0 ++ rest)%list -> List.length hh1 = 16%nat -> len hh2 < 65536 -> len bb0 < 4294967296 ->
  (has_uk b = false -> uk b = h0) -> (forall k, last (uk b) = Some k -> lookup (toc (uk b)) k <> None) ->
  let '(s', o) := bexec fuel begin_write_prog s in
  let '(f', h') := open_ f (uk b) MA in
  o = BONormal /\ BRep s' f' (opened b h').
Proof. exact begin_write_code. Qed.
Print Assumptions C04_code_begin_write.

Theorem C04_code_end_session : forall fuel prog s f b,
  prog = BUkvCall close_prog [] -> BRep s f b -> has_uk b = true ->
  (lookup_env (attrs (inner s)) "mode" = Some (VStr "r") \/ lookup_env (attrs (inner s)) "mode" = Some (VStr "a")) ->
  let '(s', o) := bexec fuel prog s in
  o = BONormal /\ BRep s' f (with_uk b (close_ (uk b))).
Proof. exact end_code. Qed.
Print Assumptions C04_code_end_session.

Example C04_code_end_progs : end_read_prog = BUkvCall close_prog [] /\ end_write_prog = BUkvCall close_prog [].
Proof. split; reflexivity. Qed.

(* ---------- the session context managers themselves (Proofs/BackendSession.v) ----------
   reading() / writing() are generator functions; the translator splits each at its single `yield self` into the part that runs
   on entry and the part that runs when the with-block ends.  For EVERY state: the entry part is b_begin_r / b_begin_w of
   Model/Backend.v (lock taken, file (re)opened and mapped, _state set, listing refreshed -- or, for a read-only backend asked
   to write, UnsupportedOperation with nothing changed and no lock taken); the exit part is b_end_r / b_end_w (flush, close,
   _state idle) and the lock is released on EVERY path, also when the final flush of a writing session raises. *)
Theorem C04_code_reading_enter : forall fuel s f b hh1 hh2 bb0 rest,
  (List.length f < fuel)%nat -> BRep s f b ->
  f = (mk_header hh1 hh2 bb0 ++ rest)%list -> List.length hh1 = 16%nat -> len hh2 < 65536 -> len bb0 < 4294967296 ->
  (has_uk b = false -> uk b = h0) -> (forall k, last (uk b) = Some k -> lookup (toc (uk b)) k <> None) ->
  bheld s = None ->
  let '(s', o) := bexec fuel reading_enter_prog s in
  let '(f', b', r) := b_begin_r f b in
  o = BONormal /\ r = BOk /\ BRep s' f' b' /\ bheld s' = Some false /\ ((has_inner s = true -> has_mode s) -> has_mode s').
Proof. exact reading_enter_code. Qed.
Print Assumptions C04_code_reading_enter.

Theorem C04_code_writing_enter : forall fuel s f b hh1 hh2 bb0 rest,
  (List.length f < fuel)%nat -> BRep s f b ->
  f = (mk_header hh1 hh2 bb0 ++ rest)%list -> List.length hh1 = 16%nat -> len hh2 < 65536 -> len bb0 < 4294967296 ->
  (has_uk b = false -> uk b = h0) -> (forall k, last (uk b) = Some k -> lookup (toc (uk b)) k <> None) ->
  bheld s = None ->
  let '(s', o) := bexec fuel writing_enter_prog s in
  let '(f', b', r) := b_begin_w f b in
  o = bout_of_res r /\ BRep s' f' b' /\ bheld s' = (if ro b then None else Some true) /\
  ((has_inner s = true -> has_mode s) -> has_inner s' = true -> has_mode s').
Proof. exact writing_enter_code. Qed.
Print Assumptions C04_code_writing_enter.

Theorem C04_code_reading_exit : forall fuel s f b,
  BRep s f b -> has_uk b = true -> has_mode s -> bheld s = Some false ->
  let '(s', o) := bexec fuel reading_exit_prog s in
  let '(f', b', r) := b_end_r f b in
  o = BONormal /\ r = BOk /\ f' = f /\ BRep s' f b' /\ bheld s' = None.
Proof. exact reading_exit_code. Qed.
Print Assumptions C04_code_reading_exit.

Theorem C04_code_writing_exit : forall fuel s f b,
  (List.length (queue b) < fuel)%nat -> BRep s f b -> has_uk b = true -> has_mode s -> bheld s = Some true ->
  let '(s', o) := bexec fuel writing_exit_prog s in
  let '(f', b', r) := b_end_w f b in
  o = bout_of_res r /\ BRep s' f' b' /\ bheld s' = None.
Proof. exact writing_exit_code. Qed.
Print Assumptions C04_code_writing_exit.

(* Entry and exit compose -- a whole reading session on ANY backend state whose UKVFile (if it has one) carries a mode "r"/"a":
   what the exit part needs is what the entry part leaves (Proofs/BackendMode.v: begin_read / begin_write establish the mode
   attribute: the constructor assigns it, a reopen assigns `mode or self.mode`, nothing else on the way does). *)
Theorem C04_code_reading_session : forall fuel s f b hh1 hh2 bb0 rest,
  (List.length f < fuel)%nat -> BRep s f b ->
  f = (mk_header hh1 hh2 bb0 ++ rest)%list -> List.length hh1 = 16%nat -> len hh2 < 65536 -> len bb0 < 4294967296 ->
  (has_uk b = false -> uk b = h0) -> (forall k, last (uk b) = Some k -> lookup (toc (uk b)) k <> None) ->
  bheld s = None -> (has_inner s = true -> has_mode s) ->
  let '(s1, o1) := bexec fuel reading_enter_prog s in
  let '(s2, o2) := bexec fuel reading_exit_prog s1 in
  let '(f1, b1, _) := b_begin_r f b in
  let '(f2, b2, _) := b_end_r f1 b1 in
  o1 = BONormal /\ o2 = BONormal /\ BRep s2 f2 b2 /\ bheld s2 = None /\ st b2 = SIdle.
Proof. exact reading_session_code. Qed.
Print Assumptions C04_code_reading_session.

(* A whole writing session through the translated code -- writing().__enter__, one put, writing().__exit__ -- is the model's
   b_begin_w ; b_put ; b_end_w for every backend state, file, key and value and ANY buffer size (the put may reach the file at
   once, at the end of the session, or fail there), and ends with the lock released and the state idle. *)
Theorem C04_code_writing_session_put : forall fuel s f b hh1 hh2 bb0 rest k v,
  (List.length f < fuel)%nat -> (S (S (List.length (queue b))) < fuel)%nat -> BRep s f b -> ro b = false ->
  f = (mk_header hh1 hh2 bb0 ++ rest)%list -> List.length hh1 = 16%nat -> len hh2 < 65536 -> len bb0 < 4294967296 ->
  (has_uk b = false -> uk b = h0) -> (forall k0, last (uk b) = Some k0 -> lookup (toc (uk b)) k0 <> None) ->
  bheld s = None -> (has_inner s = true -> has_mode s) ->
  bloc s "key" = Some k -> bloc s "value" = Some v ->
  let '(s1, o1) := bexec fuel writing_enter_prog s in
  let '(s2, o2) := bexec fuel bput_prog s1 in
  let '(s3, o3) := bexec fuel writing_exit_prog s2 in
  let '(f1, b1, _) := b_begin_w f b in
  let '(f2, b2, r2) := b_put f1 b1 k v in
  let '(f3, b3, r3) := b_end_w f2 b2 in
  o1 = BONormal /\ o2 = bout_of_res r2 /\ o3 = bout_of_res r3 /\ BRep s3 f3 b3 /\ bheld s3 = None /\ st b3 = SIdle.
Proof. exact writing_session_put_code. Qed.
Print Assumptions C04_code_writing_session_put.

(* put / get / flush and everything they call leave the UKVFile's mode attribute and the lock alone (decided on the
   translated terms, so re-established from the source on every run) *)
Example C04_code_frames :
  bsets_attr "mode" flush_prog = false /\ bsets_attr "mode" bput_prog = false /\ bsets_attr "mode" bget_prog = false /\
  no_lock flush_prog = true /\ no_lock bput_prog = true /\ no_lock bget_prog = true /\
  no_lock begin_read_prog = true /\ no_lock begin_write_prog = true /\ no_lock end_read_prog = true /\ no_lock end_write_prog = true.
Proof. repeat split; reflexivity. Qed.

(* Non-vacuity: the translated layers RUN together on a concrete state: a buffered put, then a get that flushes it. *)
Definition ex_inner : state :=
  mkst (repeat 0 32) (mks 0 true false)
       (env_of [("_toc", VToc []); ("_last", VNone); ("_eof", VInt 32); ("_closed", VBool false); ("mode", VStr "a")]) empty_env.
Definition ex_b : bstate := mkbs ex_inner true [] [] 0%Z 1000%Z false SWriting (Some true) (fun x => if String.eqb x "key" then Some [7] else if String.eqb x "value" then Some [1; 2] else None).
Example C02_code_backend_runs :
  let '(s1, o1) := bexec 10 bput_prog ex_b in
  o1 = BONormal /\ bq s1 = [([7], [1; 2])] /\ file (inner s1) = repeat 0 32 /\
  let '(s2, o2) := bexec 10 bget_prog s1 in
  o2 = BOReturn (Some [1; 2]) /\ bq s2 = [] /\ file (inner s2) = (repeat 0 32 ++ [1; 0; 0; 0; 2; 7; 1; 2])%list.
Proof. vm_compute. repeat split; reflexivity. Qed.

(* ... and a whole writing session on it: enter (reopen in mode a), a buffered put, exit (flush, close, idle, lock released) *)
Definition ex_closed : state :=
  mkst (mk_header (repeat 77 16) [1; 2] [9]) (mks 0 false true)
       (env_of [("_toc", VToc []); ("_last", VNone); ("_eof", VNone); ("_closed", VBool true); ("mode", VStr "a")]) empty_env.
Definition ex_bs : bstate := mkbs ex_closed true [] [] 0%Z 1000%Z false SIdle None
  (fun x => if String.eqb x "key" then Some [7] else if String.eqb x "value" then Some [1; 2] else None).
Example C04_code_session_runs :
  let '(s1, o1) := bexec 100 writing_enter_prog ex_bs in
  o1 = BONormal /\ bsess s1 = SWriting /\ bheld s1 = Some true /\
  let '(s2, o2) := bexec 100 bput_prog s1 in
  o2 = BONormal /\ bq s2 = [([7], [1; 2])] /\
  let '(s3, o3) := bexec 100 writing_exit_prog s2 in
  o3 = BONormal /\ bq s3 = [] /\ bsess s3 = SIdle /\ bheld s3 = None /\
  file (inner s3) = (mk_header (repeat 77 16) [1; 2] [9] ++ [1; 0; 0; 0; 2; 7; 1; 2])%list.
Proof. vm_compute. repeat split; reflexivity. Qed.
