(* C04 -- concurrent library sessions are serialised and survive failing sessions.
   Property theorems only.  Gen/SessionSkel.v (control skeleton of reading()/writing(), from the AST) and
   Gen/SessionFaults.v (the real context managers run under every fault vector) are regenerated each run. *)
From Coq Require Import NArith List Bool String.
Import ListNotations.
From Molli Require Import Common.Exc Proofs.Exc Model.UKV Proofs.UKVBase Proofs.UKV
     Model.Session Proofs.Session Proofs.SessionTop Gen.SessionSkel Gen.SessionFaults.
Open Scope string_scope.

(* ---- a session that ends with an exception still releases the lock and closes the file ---- *)
(* For EVERY assignment of faults to the steps of writing() -- the readonly guard, the acquire, begin_write,
   update_keys, the user's body (incl. a raising value encoder), the flush at exit, end_write, in any combination:
   no exception is swallowed; if the lock was acquired then release is executed and is the last step, and it
   is never released otherwise; if begin_write succeeded then flush and end_write are executed before the
   release; the body only runs with the lock held and the file open. *)
Theorem C04_writing_session_contract : forall faults, wsess_ok (exec faults writing_prog) = true.
Proof. apply (forall_faults_sound writing_prog (fun _ r => wsess_ok r)); [reflexivity|vm_compute; reflexivity]. Qed.
Print Assumptions C04_writing_session_contract.

Theorem C04_reading_session_contract : forall faults, rsess_ok (exec faults reading_prog) = true.
Proof. apply (forall_faults_sound reading_prog (fun _ r => rsess_ok r)); [reflexivity|vm_compute; reflexivity]. Qed.
Print Assumptions C04_reading_session_contract.

(* The skeleton is the code's: on every fault vector (2^7 for writing, 2^5 for reading) the trace of the REAL
   context manager equals the denotation of the extracted program, the lock was observed free from another
   process afterwards, and the file was closed.  The extractor did not refuse anything. *)
Theorem C04_skeleton_is_the_code :
  table_ok writing_prog "release_write_lock" writing_rows = true /\
  table_ok reading_prog "release_read_lock" reading_rows = true /\
  extraction_refused = false.
Proof. vm_compute. repeat split; reflexivity. Qed.
Print Assumptions C04_skeleton_is_the_code.

(* Opening a handle is a session of its own: on every configuration (file exists?, overwrite?, readonly?) the real
   constructor creates / re-creates the library file only with the inter-process write lock held and, unless
   overwrite was requested, only after having looked for the file INSIDE that lock hold; a missing library is
   created, an existing one is re-created iff overwrite; the lock is released at the end. *)
Theorem C04_constructor_critical_section : ctor_table_ok ctor_rows = true.
Proof. vm_compute. reflexivity. Qed.
Print Assumptions C04_constructor_critical_section.

(* why the look must be inside the lock: the same creation with the look taken before the lock is rejected *)
Example C04_stale_look_refuted :
  ctor_scan false false false ["exists"; "acquire"; "create"; "release"] = false /\
  ctor_scan false false false ["acquire"; "exists"; "create"; "release"] = true.
Proof. vm_compute. split; reflexivity. Qed.

(* ---- any number of processes, handles and sessions, in any interleaving ---- *)
(* One transition of the lock/process system: the UKV operation it performs is allowed by the session
   discipline assumed in C02 (so the lock is what establishes that assumption), and the invariant
   (writer excludes everybody; an open handle belongs to the current session of a lock holder) is kept. *)
Theorem C04_lock_implies_discipline : forall s l s' r,
  J s -> lstep s l = Some (s', r) ->
  J s' /\
  match label_op s l with
  | Some o => ok_op (lw s) o /\ step (lw s) o = (lw s', r)
  | None => lw s' = lw s
  end.
Proof. exact lstep_sound. Qed.
Print Assumptions C04_lock_implies_discipline.

(* Serialisability: along EVERY schedule (labels that are not enabled are refused = the caller blocks or times
   out) the file stays header ++ complete records of an insert-only map, and every outcome is the one the
   abstract map gives at that point of the trace: no record of any session is lost or altered, a reader's get
   returns the exact bytes of a complete record. *)
Theorem C04_serialised : forall H ls s rs,
  J s -> Inv H rs (lw s) ->
  exists rs', J (snd (lrun s ls)) /\ Inv H rs' (lw (snd (lrun s ls))) /\ lrun_spec rs s ls (fst (lrun s ls)) rs'.
Proof. exact lrun_refines. Qed.
Print Assumptions C04_serialised.

Theorem C04_mutex : forall ls s, J s ->
  forall p q, p <> q -> plock (pnth (procs (snd (lrun s ls))) p) = LWrite ->
              plock (pnth (procs (snd (lrun s ls))) q) = LFree.
Proof. exact mutex_reachable. Qed.
Print Assumptions C04_mutex.

Theorem C04_writer_alone : forall s i, J s ->
  closed (hnth (snd (lw s)) i) = false -> md (hnth (snd (lw s)) i) = MA ->
  forall j, j <> i -> closed (hnth (snd (lw s)) j) = true.
Proof. exact writer_alone. Qed.
Print Assumptions C04_writer_alone.

Theorem C04_initial : forall f n m ow, J (mkl (f, repeat h0 n) (repeat p0 m) ow).
Proof. exact J_init. Qed.
Print Assumptions C04_initial.

(* no lock leak in the model: once every process has released, anybody can acquire in either mode *)
Theorem C04_progress : forall s p w,
  (p < List.length (procs s))%nat -> (forall q, plock (pnth (procs s) q) = LFree) ->
  exists s', lstep s (LAcq p w) = Some (s', ROk) /\ plock (pnth (procs s') p) = (if w then LWrite else LRead).
Proof. exact acquire_enabled_when_free. Qed.
Print Assumptions C04_progress.

(* Non-vacuity: two processes, three handles; the second writer is refused while the first is inside its
   session, proceeds after the release, and the reader then sees both records. *)
Example C04_nonvacuous :
  let H := mk_header (repeat 77%N 16) [] [] in
  fst (lrun (mkl (H, repeat h0 3) (repeat p0 2) [0; 1; 1]%nat)
        [LAcq 0 true; LOpen 0 0; LDo 0 (Put 0 [1%N] [2%N]); LAcq 1 true; LAcq 1 false; LClose 0; LRel 0;
         LAcq 1 true; LOpen 1 1; LDo 1 (Put 1 [3%N] [4%N]); LClose 1; LRel 1;
         LAcq 1 false; LOpen 1 2; LDo 1 (Keys 2); LDo 1 (Get 2 [1%N])])
  = [Done ROk; Done ROk; Done ROk; Refused; Refused; Done ROk; Done ROk;
     Done ROk; Done ROk; Done ROk; Done ROk; Done ROk;
     Done ROk; Done ROk; Done (RKeys [[1%N]; [3%N]]); Done (RVal [2%N])].
Proof. vm_compute. reflexivity. Qed.

(* ====================================================================== Part 4: processes that DIE *)
(* The schedule may kill any process at any point (DDie p n): its lock is released (assumed fcntl semantics), its
   handle is gone, and if it was inside a writing session the file keeps max(base, n) bytes for ANY n -- C03's
   crash model inside C04's transition system.  JD H cm rs s: the lock invariant J, the file is
   H ++ blocks rs ++ (a torn tail no open handle ever shows), cm = the committed records, rs = cm ++ what the
   writing session in progress appended so far. *)
From Molli Require Import Proofs.UKVTorn Model.SessionDeath Proofs.SessionDeath.
Open Scope list_scope.

(* one step, death included: the invariant is kept, COMMITTED RECORDS ONLY GROW (cm' = cm ++ qs), a living
   process's step has exactly the abstract map's outcome on the complete records (so a reader never sees a torn
   or partial record), and a death keeps every committed record and a prefix of the dying session's records *)
Theorem C04_death_step : forall H cm rs s l s' r,
  JD H cm rs s -> dstep s l = Some (s', r) ->
  exists cm' rs', JD H cm' rs' s' /\ (exists qs, cm' = cm ++ qs) /\ dstep_spec cm rs s l r rs'.
Proof. exact dstep_sound. Qed.
Print Assumptions C04_death_step.

(* every schedule over any number of processes, with any number of deaths at any points *)
Theorem C04_death_safe : forall H ls s cm rs,
  JD H cm rs s ->
  (exists cm' rs', JD H cm' rs' (snd (drun s ls)) /\ exists qs, cm' = cm ++ qs) /\
  drun_spec cm rs s ls (fst (drun s ls)).
Proof. exact drun_safe. Qed.
Print Assumptions C04_death_safe.

(* it starts from any well-formed library, also one that still carries the torn tail of an earlier death *)
Theorem C04_death_initial : forall H rs tl n m ow,
  hdr_ok H -> Forall wfkv rs -> NoDup (map fst rs) -> torn tl ->
  JD H rs rs (mkd (mkl (H ++ blocks rs ++ tl, repeat h0 n) (repeat p0 m) ow) None).
Proof. exact JD_init. Qed.
Print Assumptions C04_death_initial.

(* what JD says about the file and the handles: while a torn tail is present nobody is inside a writing session,
   and the first writer that opens cuts it (the C02 invariant Inv holds again: tl = []) *)
Theorem C04_death_file : forall H cm rs s, JD H cm rs s ->
  exists tl, fst (lw (dl s)) = H ++ blocks rs ++ tl /\ torn tl /\
             (forall i, closed (hnth (snd (lw (dl s))) i) = false -> full H rs (hnth (snd (lw (dl s))) i)) /\
             (tl <> [] -> forall i, closed (hnth (snd (lw (dl s))) i) = false -> md (hnth (snd (lw (dl s))) i) = MR) /\
             (dbase s <> None -> tl = [] /\ Inv H rs (lw (dl s))).
Proof.
  intros H cm rs s D. destruct (jd_inv _ _ _ _ D) as [tl [I Ht]]. exists tl.
  split; [apply (it_file _ _ _ _ I)|]. split; [apply (it_torn _ _ _ _ I)|]. split; [apply (it_open _ _ _ _ I)|].
  split; [apply (it_nowriter _ _ _ _ I)|]. intros Hb. pose proof (Ht Hb) as E. split; [exact E|].
  subst tl. apply invT_inv. exact I.
Qed.
Print Assumptions C04_death_file.

(* the dead process's lock is free: if nobody else holds it, anybody can acquire in either mode *)
Theorem C04_death_releases_lock : forall s p n s' r,
  dstep s (DDie p n) = Some (s', r) ->
  plock (pnth (procs (dl s')) p) = LFree /\
  (forall q, q <> p -> pnth (procs (dl s')) q = pnth (procs (dl s)) q) /\
  ((forall q, q <> p -> plock (pnth (procs (dl s)) q) = LFree) ->
   forall q w, (q < List.length (procs (dl s')))%nat ->
     exists s'', lstep (dl s') (LAcq q w) = Some (s'', ROk) /\ plock (pnth (procs s'') q) = (if w then LWrite else LRead)).
Proof. exact death_releases. Qed.
Print Assumptions C04_death_releases_lock.

(* Non-vacuity: a writer puts two records and dies when only 9 bytes of its session reached the file (the first
   record, 7 bytes, and 2 bytes of the second): a reader in another process sees exactly the first record, the
   next writer appends behind it (the torn bytes are cut), and the final reader sees both complete records. *)
Example C04_death_nonvacuous :
  let H := mk_header (repeat 77%N 16) [] [] in
  let base := N.of_nat (List.length H) in
  let out := drun (mkd (mkl (H, repeat h0 3) (repeat p0 3) [0; 1; 2]%nat) None)
        [DL (LAcq 0 true); DL (LOpen 0 0); DL (LDo 0 (Put 0 [1%N] [2%N])); DL (LDo 0 (Put 0 [3%N] [4%N; 5%N]));
         DL (LAcq 1 false);                      (* refused: the writer holds the lock *)
         DDie 0 (base + 9);
         DL (LAcq 1 false); DL (LOpen 1 1); DL (LDo 1 (Keys 1)); DL (LDo 1 (Get 1 [3%N])); DL (LClose 1); DL (LRel 1);
         DL (LAcq 2 true); DL (LOpen 2 2); DL (LDo 2 (Put 2 [3%N] [6%N])); DL (LClose 2); DL (LRel 2);
         DL (LAcq 1 false); DL (LOpen 1 1); DL (LDo 1 (Keys 1)); DL (LDo 1 (Get 1 [3%N]))] in
  fst out = [Done ROk; Done ROk; Done ROk; Done ROk; Refused; Done ROk;
             Done ROk; Done ROk; Done (RKeys [[1%N]]); Done (RErr EKey); Done ROk; Done ROk;
             Done ROk; Done ROk; Done ROk; Done ROk; Done ROk;
             Done ROk; Done ROk; Done (RKeys [[1%N]; [3%N]]); Done (RVal [6%N])]
  /\ fst (lw (dl (snd out))) = H ++ encb [1%N] [2%N] ++ encb [3%N] [6%N].
Proof. vm_compute. split; reflexivity. Qed.
