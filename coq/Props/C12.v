(* C12 -- Joining fragments at attachment points builds exactly the intended molecule.
   Property theorems only (each is `exact <lemma>` from Proofs/Join.v).  They are about the SAME Gallina
   definitions (Model/Join.v on top of C11's Model/Rot.v, parametric in the field operations) that the
   correspondence shards execute over Q against Structure.join and molli.scripts.combine._ml_assemble.

   Reading guide.  `join o A B s1 s2 op w = Some P` : the call returns P (None = it raises).  Atoms carry names
   (a_id); the product atom that is the copy of source atom u is again called u; `rows f` pairs each atom name with
   its coordinate row.  a1 / a2 are the attachment atoms, a1r / a2r their (unique) neighbours, r1 / p1 / r2 / p2 the
   rows of a1r / a1 / a2r / a2, v1 = p1 - r1 and v2 = p2 - r2 the attachment vectors, d = bond_len op the length
   asked for.  w holds what is not an argument of join in the property's sense: |v1|, |v2|, the unit vector ov
   orthogonal to v1 used when v2 and -v1 are opposite, and the rotamer rotation (sin, cos) about the new bond.

   What is NOT proved here (label: partial):
   - IEEE rounding: implementation and exact model are compared within 1e-8 only;
   - WHICH rotamer the scan picks (argmin of a float32 steric loss): the theorems hold for EVERY rotation about
     the new bond, the choice is not modelled;
   - "A and B are left untouched" and "the product is made of new objects": a functional model cannot express
     mutation; this is judged on every generated case by the Python oracle (deep snapshots incl. object identities
     and parents) -- statement kept here:
       C12_sources_untouched : after join(A, B, ..) every observable of A and B (atoms, parents, bonds, rows,
       charge, multiplicity) is what it was before, and no atom / bond object of the product belongs to A or B;
   - A and B are assumed to be two different molecules with unique atom names (NoDup (ids A ++ ids B)); join(A, A, ..)
     is outside the theorems;
   - a requested length of exactly 0 counts as "not requested" (Python truthiness), see C12_requested_length;
   - known finding C12:mult:zero-becomes-one (Promolecule.__init__ stores `mult or 1`): C12_charge_mult carries the
     exclusion as a hypothesis, C12_mult_zero_known characterises the excluded region exactly. *)
From Coq Require Import Reals Lra List ZArith QArith Lia Sorted.
From Molli Require Import Common.Field3 Common.Field3R Model.Rot Proofs.Rot Proofs.RotMotion Model.Join Proofs.Join.
Import ListNotations.

(* ---- exactly the atoms and bonds the property lists -------------------------------------------------- *)
(* For any field of coordinates.  Atoms: the records of A then of B (element, isotope, label, type, stereo,
   geometry, formal charge/spin, attrib all inside the record), minus the two attachment atoms, names still unique.
   Bonds: those of A and B that do not touch an attachment atom (exactly one was removed on each side), plus one new
   bond between the former neighbours, which is the ONLY bond between them; every bond joins atoms of the product;
   one coordinate row per atom. *)
Theorem C12_atoms_bonds {F : Type} (o : Fops F) (A B : frag F) (s1 s2 : asel) (op : jopts F) (w : jwit F) (P : frag F) :
  join o A B s1 s2 op w = Some P ->
  NoDup (ids (fr_atoms A) ++ ids (fr_atoms B)) -> wf_bonds A -> wf_bonds B ->
  exists a1 a2 a1r a2r,
    get_atom (fr_atoms A) s1 = Some a1 /\ get_atom (fr_atoms B) s2 = Some a2 /\
    first_neighbour (fr_bonds A) a1 = Some a1r /\ first_neighbour (fr_bonds B) a2 = Some a2r /\
    (fr_atoms P = filter (id_not a1) (fr_atoms A) ++ filter (id_not a2) (fr_atoms B) /\
     (forall a, In a (fr_atoms P) <-> (In a (fr_atoms A) \/ In a (fr_atoms B)) /\ a_id a <> a1 /\ a_id a <> a2) /\
     S (S (length (fr_atoms P))) = (length (fr_atoms A) + length (fr_atoms B))%nat /\
     NoDup (ids (fr_atoms P))) /\
    (fr_bonds P = filter (fun b => negb (incident a1 b)) (fr_bonds A) ++ filter (fun b => negb (incident a2 b)) (fr_bonds B)
                  ++ [mkBond a1r a2r (o_nb op)] /\
     (forall b, In b (fr_bonds P) <->
        ((In b (fr_bonds A) \/ In b (fr_bonds B)) /\ incident a1 b = false /\ incident a2 b = false) \/ b = mkBond a1r a2r (o_nb op)) /\
     S (length (fr_bonds P)) = (length (fr_bonds A) + length (fr_bonds B))%nat /\
     length (filter (same_ends a1r a2r) (fr_bonds P)) = 1%nat /\
     (forall b, In b (fr_bonds A) -> incident a1 b = true -> other_end a1 b = a1r) /\
     (forall b, In b (fr_bonds B) -> incident a2 b = true -> other_end a2 b = a2r)) /\
    (forall b, In b (fr_bonds P) -> In (b_a1 b) (ids (fr_atoms P)) /\ In (b_a2 b) (ids (fr_atoms P))) /\
    length (fr_coords P) = length (fr_atoms P).
Proof. exact (join_atoms_bonds o A B s1 s2 op w P). Qed.
Print Assumptions C12_atoms_bonds.

Local Open Scope R_scope.

(* ---- each fragment is moved rigidly, never mirrored; the new bond ----------------------------------- *)
(* There are maps gA, gB of space that keep every distance and every signed volume (rigid_map, Proofs/RotMotion.v:
   built from C11's proper-rotation theorems) such that every atom of A other than a1 sits at gA(its old row) and
   every atom of B other than a2 at gB(its old row).  A's former neighbour is at the origin, B's at (d/|v1|) v1:
   the new bond vector has length |d| and the direction of A's former attachment vector.  B's former attachment
   vector ends up pointing the opposite way (B faces A).  All of it for EVERY valid ov and with or without ANY
   rotamer rotation about the new bond (w_twist): neither appears in the bond vector. *)
Theorem C12_rigid_each_and_new_bond (A B : frag R) (s1 s2 : asel) (op : jopts R) (w : jwit R) (P : frag R) :
  join ROps A B s1 s2 op w = Some P ->
  NoDup (ids (fr_atoms A) ++ ids (fr_atoms B)) ->
  exists a1 a2 a1r a2r r1 p1 r2 p2,
    resolved A B s1 s2 a1 a2 a1r a2r r1 p1 r2 p2 /\
    let v1 := vsub ROps p1 r1 in let v2 := vsub ROps p2 r2 in let d := bond_len ROps op in
    (geom_ok v1 v2 w ->
     exists gA gB : vecR -> vecR,
       rigid_map gA /\ rigid_map gB /\
       rows P = map (fun q => (fst q, gA (snd q))) (filter (key_not a1) (rows A))
             ++ map (fun q => (fst q, gB (snd q))) (filter (key_not a2) (rows B)) /\
       In (a1r, vzero ROps) (rows P) /\
       In (a2r, vscale ROps (d / w_n1 w) v1) (rows P) /\
       norm2 ROps (vsub ROps (vscale ROps (d / w_n1 w) v1) (vzero ROps)) = d * d /\
       vsub ROps (gB p2) (gB r2) = vscale ROps (- (w_n2 w / w_n1 w)) v1).
Proof. exact (join_rigid A B s1 s2 op w P). Qed.
Print Assumptions C12_rigid_each_and_new_bond.

(* what `rigid_map` gives on the rows: any four atoms of one fragment are found in the product with the same
   mutual distance and the same signed volume (handedness) *)
Theorem C12_fragment_shape (g : vecR -> vecR) (ap : positive) (LX LP pre post : list (positive * vecR)) :
  rigid_map g -> LP = pre ++ map (fun q => (fst q, g (snd q))) (filter (key_not ap) LX) ++ post ->
  forall u0 u1 u2 u3 x0 x1 x2 x3,
    In (u0, x0) LX -> In (u1, x1) LX -> In (u2, x2) LX -> In (u3, x3) LX ->
    u0 <> ap -> u1 <> ap -> u2 <> ap -> u3 <> ap ->
    exists y0 y1 y2 y3,
      In (u0, y0) LP /\ In (u1, y1) LP /\ In (u2, y2) LP /\ In (u3, y3) LP /\
      dist2 ROps y0 y1 = dist2 ROps x0 x1 /\
      signed_volume ROps y0 y1 y2 y3 = signed_volume ROps x0 x1 x2 x3.
Proof. exact (moved_fragment_shape g ap LX LP pre post). Qed.
Print Assumptions C12_fragment_shape.

(* the maps themselves, independently of any structure: join's rotation is proper and takes v2/|v2| to -v1/|v1| *)
Theorem C12_join_rotation (v1 v2 ov : vecR) (n1 n2 : R) :
  0 < n1 -> n1 * n1 = norm2 ROps v1 -> 0 < n2 -> n2 * n2 = norm2 ROps v2 -> unit ov -> dot ROps ov v1 = 0 ->
  proper (join_rot ROps v1 n1 v2 n2 ov) /\
  vm ROps (vdiv ROps v2 n2) (join_rot ROps v1 n1 v2 n2 ov) = vdiv ROps (vopp ROps v1) n1.
Proof. exact (join_rot_correct v1 v2 ov n1 n2). Qed.
Print Assumptions C12_join_rotation.

(* the length asked for: dist when given (and not 0), else the sum of the two covalent radii *)
Theorem C12_requested_length (op : jopts R) :
  (forall d, o_dist op = Some d -> d <> 0 -> bond_len ROps op = d) /\
  (o_dist op = None -> expected_length ROps (o_rcov1 op) (o_rcov2 op) (o_rcovC op) <> 0 ->
   bond_len ROps op = expected_length ROps (o_rcov1 op) (o_rcov2 op) (o_rcovC op)) /\
  (forall ra rb, ra <> 0 -> rb <> 0 -> expected_length ROps (Some ra) (Some rb) (o_rcovC op) = ra + rb).
Proof.
  exact (conj (bond_len_requested op) (conj (bond_len_default op) (fun ra rb => expected_length_radii ra rb (o_rcovC op)))).
Qed.
Print Assumptions C12_requested_length.

(* ---- charge and multiplicity ----------------------------------------------------------------------- *)
(* qA + qB and mA + mB - 1 unless overridden -- an override of 0 charge included (finding 24, repaired).
   Hypothesis: the resulting multiplicity is not 0 (known finding C12:mult:zero-becomes-one). *)
Theorem C12_charge_mult {F : Type} (o : Fops F) (A B : frag F) (s1 s2 : asel) (op : jopts F) (w : jwit F) (P : frag F) :
  join o A B s1 s2 op w = Some P ->
  fr_charge P = match o_charge op with Some q => q | None => (fr_charge A + fr_charge B)%Z end /\
  (override (o_mult op) (fr_mult A + fr_mult B - 1) <> 0%Z ->
   fr_mult P = match o_mult op with Some m => m | None => (fr_mult A + fr_mult B - 1)%Z end) /\
  (override (o_mult op) (fr_mult A + fr_mult B - 1) = 0%Z -> fr_mult P = 1%Z).
Proof. exact (join_charge_mult o A B s1 s2 op w P). Qed.
Print Assumptions C12_charge_mult.

(* the excluded region, exactly: a combined (or overriding) multiplicity of 0 is reported as 1 *)
Theorem C12_mult_zero_known (m : option Z) (mA mB : Z) :
  override m (mA + mB - 1) = 0%Z -> join_mult m mA mB = 1%Z.
Proof. exact (join_mult_zero m mA mB). Qed.

(* finding 24 as it was: `charge or (qA + qB)` drops an override of 0; the repaired expression keeps it *)
Theorem C12_charge_override_or_refuted (dflt : Z) :
  override_or (Some 0%Z) dflt = dflt /\ override (Some 0%Z) dflt = 0%Z.
Proof. exact (override_or_drops_zero dflt). Qed.
Print Assumptions C12_charge_override_or_refuted.

(* ---- the result does not depend on hidden state ---------------------------------------------------- *)
(* (a) outside the antiparallel branch the rotation does not look at ov *)
Theorem C12_general_branch_ignores_ov (v1 v2 ov ov' : vecR) (n1 n2 : R) :
  Rleb (dot ROps (vdiv ROps v2 n2) (vdiv ROps (vopp ROps v1) n1)) (- (1) + join_tol ROps) = false ->
  join_rot ROps v1 n1 v2 n2 ov = join_rot ROps v1 n1 v2 n2 ov'.
Proof. exact (join_rot_general_ignores_ov v1 v2 ov ov' n1 n2). Qed.
(* (b) inside it the choice matters: two valid choices give different rotations, so with ov drawn from np.random
       (the code before the repair, finding 23) the product was not a function of join's arguments *)
Theorem C12_no_hidden_state_refuted_before_repair :
  let a : vecR := (1, 0, 0) in let b : vecR := (-1, 0, 0) in let ov : vecR := (0, 1, 0) in let ov' : vecR := (0, 0, 1) in
  unit a /\ unit b /\ unit ov /\ unit ov' /\ dot ROps ov b = 0 /\ dot ROps ov' b = 0 /\
  antiparallel ROps a b ov <> antiparallel ROps a b ov'.
Proof. exact antiparallel_depends_on_ov. Qed.
(* (c) the repaired choice det_ov is a function of v1 (and of the square roots n1, nort) and satisfies every
       hypothesis the theorems above put on ov: with it the model has no free choice left besides the rotamer angle *)
Theorem C12_no_hidden_state (v1 v2 : vecR) (n1 n2 nort : R) (tw : option (R * R)) :
  0 < n1 -> n1 * n1 = norm2 ROps v1 -> 0 < n2 -> n2 * n2 = norm2 ROps v2 ->
  0 < nort -> nort * nort = norm2 ROps (det_ort ROps (vdiv ROps (vopp ROps v1) n1)) -> twist_ok tw ->
  geom_ok v1 v2 (mkWit n1 n2 (det_ov ROps v1 n1 nort) tw).
Proof. exact (geom_ok_det v1 v2 n1 n2 nort tw). Qed.
Print Assumptions C12_no_hidden_state.
(* the square root nort exists: |det_ort b|^2 >= 2/3 for every unit b *)
Theorem C12_det_ort_nonzero (b : vecR) : unit b ->
  dot ROps (det_ort ROps b) b = 0 /\ 2 / 3 <= norm2 ROps (det_ort ROps b).
Proof. exact (det_ort_spec b). Qed.
Print Assumptions C12_det_ort_nonzero.

(* ---- iterated joins of `molli combine` -------------------------------------------------------------- *)
(* The loop of _ml_assemble (as repaired: index ap_i minus the number of already consumed attachment points that
   preceded ap_i) addresses at every step the atom that was at position ap_i of the ORIGINAL core, for ANY order of
   core_aps: it equals the loop that names the attachment points directly.  Any field, any substituents that do not
   share their attachment atom's name with the core. *)
Theorem C12_iterated {F : Type} (o : Fops F) (nb : list Z) (rC : F) (core : frag F) (aps : list Z) (subs : list (cstep (F:=F))) :
  NoDup (ids (fr_atoms core)) ->
  NoDup aps ->
  (forall ap, In ap aps -> (0 <= ap < Z.of_nat (length (fr_atoms core)))%Z) ->
  (forall st a2, In st subs -> first_ap (fr_atoms (fst (fst st))) = Some a2 -> ~ In a2 (ids (fr_atoms core))) ->
  assemble o nb rC core [] aps subs = assemble_named o nb rC core (map (name_at core) aps) subs.
Proof. intros ND. exact (assemble_addresses o nb rC core ND aps subs). Qed.
Print Assumptions C12_iterated.

(* The loop before the repair (`ap_i - i`) is right exactly under the extra hypothesis that core_aps is ascending
   (C12_ex_iterated below shows it failing on a descending list). *)
Theorem C12_iterated_before_repair {F : Type} (o : Fops F) (nb : list Z) (rC : F) (core : frag F) (aps : list Z) (subs : list (cstep (F:=F))) :
  NoDup (ids (fr_atoms core)) ->
  StronglySorted Z.lt aps ->
  (forall ap, In ap aps -> (0 <= ap < Z.of_nat (length (fr_atoms core)))%Z) ->
  (forall st a2, In st subs -> first_ap (fr_atoms (fst (fst st))) = Some a2 -> ~ In a2 (ids (fr_atoms core))) ->
  assemble_minus_i o nb rC core 0 aps subs = assemble_named o nb rC core (map (name_at core) aps) subs.
Proof. intros ND. exact (assemble_minus_i_addresses o nb rC core ND aps subs). Qed.
Print Assumptions C12_iterated_before_repair.

(* ==== the hypotheses are satisfiable by non-trivial data; the model runs ================================= *)
Local Open Scope Q_scope.
Definition exA : frag Q := mkFrag [mkAtom 1 false [6%Z]; mkAtom 2 true [0%Z]; mkAtom 3 false [1%Z]; mkAtom 4 true [0%Z]]
                                 [mkBond 1 2 [1%Z]; mkBond 3 1 [1%Z]; mkBond 1 4 [1%Z]]
                                 [(0, 0, 0); (2, 0, 0); (0, 1, 0); (0, 0, 3)] 0 1.
Definition exB : frag Q := mkFrag [mkAtom 11 true [0%Z]; mkAtom 12 false [7%Z]; mkAtom 13 false [1%Z]]
                                 [mkBond 12 11 [1%Z]; mkBond 12 13 [2%Z]]
                                 [(5, 5, 8); (5, 5, 5); (6, 5, 5)] 1 2.
Definition exOp : jopts Q := mkOpts (Some 2) (Some 0%Z) None [1%Z; 0%Z] (Some (3 # 4)) (Some (71 # 100)) (3 # 4).
(* v1 = (2,0,0), v2 = (0,0,3): general branch; the product has atoms 1,3,4,12,13, the new bond 1-12 of length 2 *)
Example C12_ex_join :
  NoDup (ids (fr_atoms exA) ++ ids (fr_atoms exB)) /\
  match join QOps exA exB (ByIdx 1) (ById 11) exOp (mkWit 2 3 (0, 1, 0) None) with
  | Some P => ids (fr_atoms P) = [1; 3; 4; 12; 13]%positive /\
              fr_bonds P = [mkBond 3 1 [1%Z]; mkBond 1 4 [1%Z]; mkBond 12 13 [2%Z]; mkBond 1 12 [1%Z; 0%Z]] /\
              fr_charge P = 0%Z /\ fr_mult P = 2%Z /\
              nth 3 (fr_coords P) (vzero QOps) = (2, 0, 0)
  | None => False
  end.
Proof.
  split.
  - repeat constructor; simpl; intuition discriminate.
  - vm_compute. repeat split; reflexivity.
Qed.

(* iterated join on the two-attachment core exA (attachment atoms at positions 1 and 3): both orders satisfy the
   hypotheses of C12_iterated and run; the loop before the repair, given the DESCENDING order, addresses position
   1 - 1 = 0, which is not an attachment point (the call raises), while naming the atoms directly works *)
Definition exS (k : positive) : cstep (F:=Q) :=
  (mkFrag [mkAtom k true [0%Z]; mkAtom (k + 1) false [8%Z]] [mkBond k (k + 1) [1%Z]] [(1, 1, 1); (1, 1, 2)] 0%Z 1%Z,
   (Some (3 # 4), Some (63 # 100)), mkWit 2 1 (0, 1, 0) (Some (0, 1))).
Example C12_ex_iterated :
  NoDup (ids (fr_atoms exA)) /\ NoDup [3%Z; 1%Z] /\ StronglySorted Z.lt [1%Z; 3%Z] /\
  (exists P, assemble QOps [1%Z] (3 # 4) exA [] [1%Z; 3%Z] [exS 21; exS 31] = Some P) /\
  (exists P, assemble QOps [1%Z] (3 # 4) exA [] [3%Z; 1%Z] [exS 21; exS 31] = Some P /\
             assemble_named QOps [1%Z] (3 # 4) exA [4; 2]%positive [exS 21; exS 31] = Some P) /\
  assemble_minus_i QOps [1%Z] (3 # 4) exA 0 [3%Z; 1%Z] [exS 21; exS 31] = None.
Proof.
  split; [repeat constructor; simpl; intuition discriminate|].
  split; [repeat constructor; simpl; intuition discriminate|].
  split; [repeat constructor|].
  split; [eexists; vm_compute; reflexivity|].
  split; [eexists; split; vm_compute; reflexivity|].
  vm_compute; reflexivity.
Qed.

Local Open Scope R_scope.
Definition exAR : frag R := mkFrag [mkAtom 1 false [6%Z]; mkAtom 2 true [0%Z]; mkAtom 3 false [1%Z]; mkAtom 4 true [0%Z]]
                                 [mkBond 1 2 [1%Z]; mkBond 3 1 [1%Z]; mkBond 1 4 [1%Z]]
                                 [(0, 0, 0); (2, 0, 0); (0, 1, 0); (0, 0, 3)] 0 1.
Definition exBR : frag R := mkFrag [mkAtom 11 true [0%Z]; mkAtom 12 false [7%Z]; mkAtom 13 false [1%Z]]
                                 [mkBond 12 11 [1%Z]; mkBond 12 13 [2%Z]]
                                 [(5, 5, 8); (5, 5, 5); (6, 5, 5)] 1 2.
Definition exOpR : jopts R := mkOpts (Some 2) (Some 0%Z) None [1%Z; 0%Z] (Some (3/4)) (Some (71/100)) (3/4).
Definition exWR : jwit R := mkWit 2 3 (0, 1, 0) (Some (3/5, 4/5)).
(* the hypotheses of C12_atoms_bonds and C12_rigid_each_and_new_bond hold together on a concrete pair of fragments over R
   (attachment vectors (2,0,0) and (0,0,3), requested length 2, a rotamer rotation (3/5, 4/5)) *)
Example C12_ex_join_R :
  (exists P, join ROps exAR exBR (ByIdx 1) (ById 11) exOpR exWR = Some P) /\
  NoDup (ids (fr_atoms exAR) ++ ids (fr_atoms exBR)) /\ wf_bonds exAR /\ wf_bonds exBR /\
  resolved exAR exBR (ByIdx 1) (ById 11) 2 11 1 12 (0, 0, 0) (2, 0, 0) (5, 5, 5) (5, 5, 8) /\
  geom_ok (vsub ROps (2, 0, 0) (0, 0, 0)) (vsub ROps (5, 5, 8) (5, 5, 5)) exWR.
Proof.
  split; [eexists; unfold join; simpl; reflexivity|].
  split; [repeat constructor; simpl; intuition discriminate|].
  split; [intros b [<-|[<-|[<-|[]]]]; simpl; intuition|].
  split; [intros b [<-|[<-|[]]]; simpl; intuition|].
  split; [constructor; reflexivity|].
  unfold geom_ok, unit, twist_ok, exWR. simpl. f3. repeat split; lra.
Qed.

(* the geometric hypotheses: attachment vectors (2,0,0) and (0,3,4), ov = (0,1,0), a rotamer rotation (3/5, 4/5) *)
Example C12_ex_geom_ok :
  geom_ok (2, 0, 0) (0, 3, 4) (mkWit 2 5 (0, 1, 0) (Some (3/5, 4/5))) /\
  geom_ok (2, 0, 0) (0, 3, 4) (mkWit 2 5 (0, 1, 0) None).
Proof. unfold geom_ok, unit, twist_ok. simpl. f3. repeat split; lra. Qed.
