(* C12 -- skeleton *)
From Coq Require Import List ZArith.
From Molli Require Import Model.Join Proofs.Join.
Theorem C12_charge (q : option Z) (qA qB : Z) :
  join_charge q qA qB = match q with Some v => v | None => (qA + qB)%Z end.
Proof. exact (join_charge_spec q qA qB). Qed.
Print Assumptions C12_charge.
