(* C05 -- atoms, bonds, coordinates and charges stay aligned under every edit history.
   Property theorems only; the model is Model/MolEdit.v (the definitions evaluated by the
   correspondence shards of every run), the proofs are in Proofs/MolEdit.v.

   Inv s  :=  one coordinate row per atom /\ (Molecule: one charge per atom, every charge numeric;
              Structure: no charge array) /\ no atom twice /\ every atom reports this molecule as
              parent and has a name below the fresh-name supply /\ no bond twice /\ every bond
              reports this molecule as parent and joins two atoms OF THIS MOLECULE.
   row_of s x = (coordinate row, charge) found at the index of atom x -- the abstract map
              atom -> (coordinate, charge).                                                    *)
From Coq Require Import List Bool ZArith NArith PArith.
Import ListNotations.
From Molli Require Import Model.MolEdit Proofs.MolEdit.

(* ---- the invariant is decidable: `inv_b init = true` evaluated by the kernel on every initial state
        observed from the implementation (loaded, cloned, empty) establishes Inv for it *)
Theorem C05_inv_decidable : forall s, inv_b s = true <-> Inv s.
Proof. exact inv_b_iff. Qed.
Print Assumptions C05_inv_decidable.

(* ---- holds initially: empty, file-loaded, cloned *)
Theorem C05_inv_init_empty : forall q, Inv (empty q).
Proof. exact Inv_empty. Qed.
Print Assumptions C05_inv_init_empty.

Theorem C05_inv_init_loaded : forall q rows bs,
  (forall x y, In (x, y) bs ->
     (x < pos_add_nat 1 (length rows))%positive /\ (y < pos_add_nat 1 (length rows))%positive) ->
  Inv (load q rows bs).
Proof. exact Inv_load. Qed.
Print Assumptions C05_inv_init_loaded.

Theorem C05_inv_init_cloned : forall k s, Inv s ->
  Inv (clone k s) /\ forall y, row_of (clone k s) (y + k)%positive = row_of s y.
Proof. intros k s H. split; [exact (Inv_clone k s H)|exact (clone_row k s)]. Qed.
Print Assumptions C05_inv_init_cloned.

(* ---- preserved by EVERY operation, whether it returns or raises ... *)
Theorem C05_inv_step : forall s o s', Inv s -> (step s o = Ok s' \/ step s o = Err s') -> Inv s'.
Proof. exact inv_step. Qed.
Print Assumptions C05_inv_step.

(* ---- ... hence after EVERY history (a failed operation is followed by the next one) *)
Theorem C05_inv_history : forall s h s', Inv s -> run s h = Some s' -> Inv s'.
Proof. exact inv_history. Qed.
Print Assumptions C05_inv_history.

(* ---- every surviving atom keeps the coordinate row and the charge it had; the atoms present
        afterwards are old ones or carry fresh names *)
Theorem C05_keeps_step : forall s o s', Inv s -> (step s o = Ok s' \/ step s o = Err s') ->
  (forall y, In y (ids s) -> In y (ids s') -> row_of s' y = row_of s y) /\
  (forall y, In y (ids s') -> In y (ids s) \/ (next_a s <= y)%positive).
Proof. exact keeps_step. Qed.
Print Assumptions C05_keeps_step.

Theorem C05_keeps_history : forall s h s', Inv s -> run s h = Some s' ->
  (forall y, In y (ids s) -> In y (ids s') -> row_of s' y = row_of s y) /\
  (forall y, In y (ids s') -> In y (ids s) \/ (next_a s <= y)%positive).
Proof. exact keeps_history. Qed.
Print Assumptions C05_keeps_history.

(* ---- a new atom gets exactly the row and the charge it was given (0 when none was given) *)
Theorem C05_new_atom_row : forall s e l c q, Inv s ->
  exists s', step s (AddAtom e l (Some c) q) = Ok s' /\
    ids s' = ids s ++ [next_a s] /\
    row_of s' (next_a s)
    = Some (c, if has_q s then Some (CNum (match q with Some t => t | None => 0%Z end)) else None).
Proof. exact add_atom_row. Qed.
Print Assumptions C05_new_atom_row.

(* ---- the row an atom shows is the row at its index; idx / get_atom_index are its position *)
Theorem C05_idx_correct : forall s i a, Inv s -> nth_error (atoms s) i = Some a ->
  idx_of s (a_id a) = Z.of_nat i /\
  get_atom_index s (ByObj (a_id a)) = Some i /\
  exists c, nth_error (coords s) i = Some c /\ row_of s (a_id a) = Some (c, nth_error (charges s) i).
Proof. exact idx_correct. Qed.
Print Assumptions C05_idx_correct.

(* ---- deleting an atom (however designated) removes that atom, exactly its bonds, nothing else *)
Theorem C05_del_exact : forall s sl s', Inv s -> del_atom s sl = Ok s' ->
  exists a, get_atom s sl = Some a /\ In a (atoms s) /\
    bonds s' = filter (fun b => negb (incident (a_id a) b)) (bonds s) /\
    (forall y, In y (ids s') <-> In y (ids s) /\ y <> a_id a) /\
    S (length (atoms s')) = length (atoms s).
Proof. exact del_atom_exact. Qed.
Print Assumptions C05_del_exact.

(* ---- a failed operation changes nothing.
   FULL statement (DESIGN.md C05_err_unchanged): for every op, step s o = Err s' -> s' = s.
   Proved (1) for the atomic operations (add_atom incl. a malformed coordinate, new_atom, del_atom,
   connect, append_bond(s), del_bond) and (2) for remove_substituent(a1, a2) whenever the two
   designators -- Atom, position, label or element -- name different atoms: once the checks at its
   beginning have passed, none of the deletions, the add_atom or the connect can raise (uses the BFS
   invariant: every yielded atom is an atom of the molecule, none is yielded twice, a1 is never
   yielded; and the repair that resolves a1 and a2 once before anything is deleted).
   NOT proved, because false for the code as it is: remove_substituent(a, a) on a self-loop deletes a
   and then fails to connect; add_implicit_hydrogens with several targets raises at a later target that
   is not an atom of the molecule after the earlier ones were completed.  For those C05_inv_step and
   C05_keeps_step still cover the state that is left behind. *)
Theorem C05_err_unchanged_partial : forall s o s', Inv s -> atomic o = true -> step s o = Err s' -> s' = s.
Proof. exact err_unchanged. Qed.
Print Assumptions C05_err_unchanged_partial.

Theorem C05_err_unchanged_remove_substituent_partial : forall s s1 s2 l s', Inv s ->
  (forall a1 a2, get_atom s s1 = Some a1 -> get_atom s s2 = Some a2 -> a_id a2 <> a_id a1) ->
  step s (RemoveSubst s1 s2 l) = Err s' -> s' = s.
Proof. exact rs_err_unchanged. Qed.
Print Assumptions C05_err_unchanged_remove_substituent_partial.

(* ---- every correspondence case the kernel accepts is an instance of the theorems above *)
Theorem C05_check_case_sound : forall c, check_case c = true ->
  Inv (fst c) /\ exists s', run (fst c) (map fst (snd c)) = Some s' /\ Inv s' /\ Keeps (fst c) s'.
Proof. exact check_case_sound. Qed.
Print Assumptions C05_check_case_sound.

(* ---- recorded finding (append_bond with an atom that is not in the molecule): what the code does
        today -- the atom is adopted without a coordinate row -- breaks the invariant; this is why
        `step` leaves that region unspecified (Unspec) and `run` stops there *)
Theorem C05_known_foreign_refuted : forall s x y e l, Inv s -> ~ Inv (append_bond_foreign_as_coded s x y e l).
Proof. exact foreign_as_coded_breaks. Qed.
Print Assumptions C05_known_foreign_refuted.

(* ---- non-vacuity: a molecule with three atoms, a ring-closing set of bonds, and a history that
        adds, connects, deletes by element / index / label, removes a substituent and adds hydrogens *)
Definition ex_s0 : st := load true [(6%N, Some 1%N, 11%Z, 101%Z); (8%N, Some 2%N, 12%Z, 102%Z); (1%N, None, 13%Z, 103%Z)]
                              [(1%positive, 2%positive); (1%positive, 3%positive)].
Definition ex_h : list op :=
  [ AddAtom 7%N (Some 3%N) (Some 14%Z) (Some 104%Z); Connect (ByIdx 0) (ByObj 4%positive);
    AddAtom 6%N None None None;                       (* malformed coordinate: raises, nothing changes *)
    DelAtom (ByElem 8%N); AppendBonds [(3%positive, 4%positive)]; DelBond 4%positive 3%positive;
    RemoveSubst (ByIdx 0) (ByLabel 3%N) None; AddHs [(1%positive, [21%Z; 22%Z])];
    DelAtom (ByIdx (-1)%Z) ].
Example C05_nonvacuous :
  inv_b ex_s0 = true /\
  (exists s', run ex_s0 ex_h = Some s' /\ ids s' = [1; 3; 5; 6; 7]%positive
              /\ row_of s' 3%positive = Some (13%Z, Some (CNum 103%Z))
              /\ row_of s' 5%positive = Some (14%Z, Some (CNum 0%Z))) /\
  step ex_s0 (AppendBond 1%positive 9%positive) = Unspec.
Proof. vm_compute. repeat split. eexists. repeat split. Qed.

(* ---- the fuel of the model's private breadth-first search (remove_substituent) always suffices: each iteration
        pops one queue element, each pushed element is a bond endpoint that was not visited before, so
        |queue| + |unvisited endpoints| drops by one per iteration and starts at most at 1 + 2 * |bonds|.
        Hence NO operation ever returns OutOfFuel: the exclusion in the theorems above costs nothing, and a
        history stops (`run` = None) only at the recorded finding (Unspec). *)
From Molli Require Import Proofs.MolEditFuel.
Theorem C05_bfs_fuel_sufficient : forall s vis out a, bfs_loop (bfs_fuel s) s vis [a] out <> None.
Proof. exact bfs_fuel_sufficient. Qed.
Print Assumptions C05_bfs_fuel_sufficient.

Theorem C05_never_out_of_fuel : forall s o, step s o <> OutOfFuel.
Proof. exact step_never_out_of_fuel. Qed.
Print Assumptions C05_never_out_of_fuel.
