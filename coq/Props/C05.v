(* C05 -- atoms, bonds, coordinates and charges stay aligned under every edit history.
   Property theorems only; the model is Model/MolEdit.v (the definitions evaluated by the
   correspondence shards of every run), the proofs are in Proofs/MolEdit.v.

   Inv s  :=  one coordinate row per atom /\ (Molecule: one charge per atom, every charge numeric;
              Structure: no charge array) /\ no atom twice /\ every atom reports this molecule as
              parent and has a name below the fresh-name supply /\ no bond twice /\ every bond
              reports this molecule as parent and joins two atoms OF THIS MOLECULE.
   row_of s x = (coordinate row, charge) found at the index of atom x -- the abstract map
              atom -> (coordinate, charge).                                                    *)
From Coq Require Import List Bool ZArith NArith PArith.
Import ListNotations.
From Molli Require Import Model.MolEdit Proofs.MolEdit.

(* ---- the invariant is decidable: `inv_b init = true` evaluated by the kernel on every initial state
        observed from the implementation (loaded, cloned, empty) establishes Inv for it *)
Theorem C05_inv_decidable : forall s, inv_b s = true <-> Inv s.
Proof. exact inv_b_iff. Qed.
Print Assumptions C05_inv_decidable.

(* ---- holds initially: empty, file-loaded, cloned *)
Theorem C05_inv_init_empty : forall q, Inv (empty q).
Proof. exact Inv_empty. Qed.
Print Assumptions C05_inv_init_empty.

Theorem C05_inv_init_loaded : forall q rows bs,
  (forall x y, In (x, y) bs ->
     (x < pos_add_nat 1 (length rows))%positive /\ (y < pos_add_nat 1 (length rows))%positive) ->
  Inv (load q rows bs).
Proof. exact Inv_load. Qed.
Print Assumptions C05_inv_init_loaded.

Theorem C05_inv_init_cloned : forall k s, Inv s ->
  Inv (clone k s) /\ forall y, row_of (clone k s) (y + k)%positive = row_of s y.
Proof. intros k s H. split; [exact (Inv_clone k s H)|exact (clone_row k s)]. Qed.
Print Assumptions C05_inv_init_cloned.

(* ---- preserved by EVERY operation, whether it returns or raises ... *)
Theorem C05_inv_step : forall s o s', Inv s -> (step s o = Ok s' \/ step s o = Err s') -> Inv s'.
Proof. exact inv_step. Qed.
Print Assumptions C05_inv_step.

(* ---- ... hence after EVERY history (a failed operation is followed by the next one) *)
Theorem C05_inv_history : forall s h s', Inv s -> run s h = Some s' -> Inv s'.
Proof. exact inv_history. Qed.
Print Assumptions C05_inv_history.

(* ---- every surviving atom keeps the coordinate row and the charge it had; the atoms present
        afterwards are old ones or carry fresh names *)
Theorem C05_keeps_step : forall s o s', Inv s -> (step s o = Ok s' \/ step s o = Err s') ->
  (forall y, In y (ids s) -> In y (ids s') -> row_of s' y = row_of s y) /\
  (forall y, In y (ids s') -> In y (ids s) \/ (next_a s <= y)%positive).
Proof. exact keeps_step. Qed.
Print Assumptions C05_keeps_step.

Theorem C05_keeps_history : forall s h s', Inv s -> run s h = Some s' ->
  (forall y, In y (ids s) -> In y (ids s') -> row_of s' y = row_of s y) /\
  (forall y, In y (ids s') -> In y (ids s) \/ (next_a s <= y)%positive).
Proof. exact keeps_history. Qed.
Print Assumptions C05_keeps_history.

(* ---- a new atom gets exactly the row and the charge it was given (0 when none was given) *)
Theorem C05_new_atom_row : forall s e l c q, Inv s ->
  exists s', step s (AddAtom e l (Some c) q) = Ok s' /\
    ids s' = ids s ++ [next_a s] /\
    row_of s' (next_a s)
    = Some (c, if has_q s then Some (CNum (match q with Some t => t | None => 0%Z end)) else None).
Proof. exact add_atom_row. Qed.
Print Assumptions C05_new_atom_row.

(* ---- the SPELLING of optional arguments (Model/MolEditCall.v: `call` records how the arguments were written,
        `elab` is what the call means).  The optional charge of add_atom omitted / an explicit None (positional or
        keyword) are one operation; a number as float / int / numpy scalar / 0-d array, a coordinate as list / tuple /
        ndarray of any dtype / view of a caller's buffer, keyword or positional, likewise; new_atom without a
        coordinate is new_atom at the origin; label / ap_label left out is label None. *)
From Molli Require Import Model.MolEditCall Proofs.MolEditCall.

Theorem C05_spelling_irrelevant :
  (forall e l c kw, elab (CallAddAtom e l c (QNone kw)) = elab (CallAddAtom e l c QOmitted)) /\
  (forall e l f f' c nf nf' kw kw' t,
     elab (CallAddAtom e l (CGiven f c) (QNum nf kw t)) = elab (CallAddAtom e l (CGiven f' c) (QNum nf' kw' t))) /\
  (forall ef ef' e i i' l f f' kw kw' c,
     elab (CallNewAtom ef e i l (NCGiven f kw c)) = elab (CallNewAtom ef' e i' l (NCGiven f' kw' c))) /\
  (forall ef e i f kw c,
     elab (CallNewAtom ef e i LOmitted (NCGiven f kw c)) = elab (CallNewAtom ef e i (LGiven None) (NCGiven f kw c))) /\
  (forall ef e i l f kw,
     elab (CallNewAtom ef e i l NCOmitted) = elab (CallNewAtom ef e i l (NCGiven f kw origin_row))) /\
  (forall s1 s2, elab (CallRemoveSubst s1 s2 LOmitted) = elab (CallRemoveSubst s1 s2 (LGiven None))).
Proof. exact spelling_irrelevant. Qed.
Print Assumptions C05_spelling_irrelevant.

(* however the optional charge is spelled, the new atom is the last one, has the row it was given and a NUMERIC
   charge (the number given, 0 when none was), and the invariant -- every charge a number -- still holds *)
Theorem C05_optional_charge_numeric : forall s e l f c q, Inv s ->
  exists s', step s (elab (CallAddAtom e l (CGiven f c) q)) = Ok s' /\ Inv s' /\
    ids s' = ids s ++ [next_a s] /\
    row_of s' (next_a s) = Some (c, if has_q s then Some (CNum (q_or_0 q)) else None).
Proof. exact call_add_atom_row. Qed.
Print Assumptions C05_optional_charge_numeric.

Theorem C05_new_atom_default_row : forall s ef e i l c, Inv s ->
  exists s', step s (elab (CallNewAtom ef e i l c)) = Ok s' /\ Inv s' /\
    ids s' = ids s ++ [next_a s] /\
    row_of s' (next_a s) = Some (ncval c, if has_q s then Some (CNum 0%Z) else None).
Proof. exact call_new_atom_row. Qed.
Print Assumptions C05_new_atom_default_row.

Theorem C05_call_inv_step : forall s c s', Inv s -> (step s (elab c) = Ok s' \/ step s (elab c) = Err s') -> Inv s'.
Proof. exact call_inv_step. Qed.
Print Assumptions C05_call_inv_step.

(* what appending the argument as it arrives does: an explicit None leaves a non-number in the charge array
   WHATEVER default the signature declares (None, or 0.0 "moved into the signature"); with the default None an
   omitted charge does too (the defect repaired by fa20a13) *)
Theorem C05_charge_as_is_refuted : forall dflt s e l c kw s', has_q s = true ->
  add_atom_charge_as_is dflt s e l c (QNone kw) = Ok s' -> ~ Inv s'.
Proof. exact charge_as_is_breaks. Qed.
Print Assumptions C05_charge_as_is_refuted.

Theorem C05_charge_as_is_omitted_refuted : forall s e l c s', has_q s = true ->
  add_atom_charge_as_is None s e l c QOmitted = Ok s' -> ~ Inv s'.
Proof. exact charge_as_is_omitted_breaks. Qed.
Print Assumptions C05_charge_as_is_omitted_refuted.

(* non-vacuity: an explicit None after a keyword float32 charge, new_atom with everything left out; the as-is
   variant with the default 0.0 in the signature does return, with a None in the array *)
Example C05_spelling_nonvacuous :
  (exists s', run (empty true)
                  [ elab (CallAddAtom 6%N (Some 1%N) (CGiven CTuple 11%Z) (QNum NNp32 true 7%Z));
                    elab (CallAddAtom 8%N None (CGiven CView 12%Z) (QNone false));
                    elab (CallNewAtom ESym 1%N IOmitted LOmitted NCOmitted);
                    elab (CallRemoveSubst (ByIdx 0) (ByIdx 1) LOmitted) ] = Some s'
              /\ inv_b s' = true
              /\ charges s' = [CNum 7%Z; CNum 0%Z; CNum 0%Z]
              /\ row_of s' 3%positive = Some (origin_row, Some (CNum 0%Z))) /\
  (exists s', add_atom_charge_as_is (Some 0%Z) (empty true) 8%N None (CGiven CList 12%Z) (QNone true) = Ok s'
              /\ charges s' = [CNone] /\ inv_b s' = false).
Proof. vm_compute. split; eexists; repeat split. Qed.

(* ---- the row an atom shows is the row at its index; idx / get_atom_index are its position *)
Theorem C05_idx_correct : forall s i a, Inv s -> nth_error (atoms s) i = Some a ->
  idx_of s (a_id a) = Z.of_nat i /\
  get_atom_index s (ByObj (a_id a)) = Some i /\
  exists c, nth_error (coords s) i = Some c /\ row_of s (a_id a) = Some (c, nth_error (charges s) i).
Proof. exact idx_correct. Qed.
Print Assumptions C05_idx_correct.

(* ---- deleting an atom (however designated) removes that atom, exactly its bonds, nothing else *)
Theorem C05_del_exact : forall s sl s', Inv s -> del_atom s sl = Ok s' ->
  exists a, get_atom s sl = Some a /\ In a (atoms s) /\
    bonds s' = filter (fun b => negb (incident (a_id a) b)) (bonds s) /\
    (forall y, In y (ids s') <-> In y (ids s) /\ y <> a_id a) /\
    S (length (atoms s')) = length (atoms s).
Proof. exact del_atom_exact. Qed.
Print Assumptions C05_del_exact.

(* ---- a failed operation changes nothing.
   FULL statement (DESIGN.md C05_err_unchanged): for every op, step s o = Err s' -> s' = s.
   Proved (1) for the atomic operations (add_atom incl. a malformed coordinate, new_atom, del_atom,
   connect, append_bond(s), del_bond) and (2) for remove_substituent(a1, a2) whenever the two
   designators -- Atom, position, label or element -- name different atoms: once the checks at its
   beginning have passed, none of the deletions, the add_atom or the connect can raise (uses the BFS
   invariant: every yielded atom is an atom of the molecule, none is yielded twice, a1 is never
   yielded; and the repair that resolves a1 and a2 once before anything is deleted).
   NOT proved, because false for the code as it is: remove_substituent(a, a) on a self-loop deletes a
   and then fails to connect; add_implicit_hydrogens with several targets raises at a later target that
   is not an atom of the molecule after the earlier ones were completed.  For those C05_inv_step and
   C05_keeps_step still cover the state that is left behind. *)
Theorem C05_err_unchanged_partial : forall s o s', Inv s -> atomic o = true -> step s o = Err s' -> s' = s.
Proof. exact err_unchanged. Qed.
Print Assumptions C05_err_unchanged_partial.

Theorem C05_err_unchanged_remove_substituent_partial : forall s s1 s2 l s', Inv s ->
  (forall a1 a2, get_atom s s1 = Some a1 -> get_atom s s2 = Some a2 -> a_id a2 <> a_id a1) ->
  step s (RemoveSubst s1 s2 l) = Err s' -> s' = s.
Proof. exact rs_err_unchanged. Qed.
Print Assumptions C05_err_unchanged_remove_substituent_partial.

(* ---- shared Atom objects.  The Atom objects of a molecule can be listed by other containers too: a
        Substructure view (bond operations are defined on it), a Conformer of an ensemble, or any container
        that was built from / handed the same objects without copying and thereby ADOPTED them (their parent
        pointer now names that container, or nothing once it is gone).  Whether an atom belongs to the
        molecule is a question about the molecule's atom LIST, never about that pointer:
          own_all s  =  s with every atom's parent pointer reset to "this molecule";
          AInv s     =  Inv (own_all s): everything Inv says except the atoms' parent pointers. *)
From Molli Require Import Proofs.MolEditView.

(* no operation decides anything from an atom's parent pointer ... *)
Theorem C05_membership_not_by_parent : forall s o, step (own_all s) o = rmap own_all (step s o).
Proof. exact step_parent_blind. Qed.
Print Assumptions C05_membership_not_by_parent.

(* ... and no operation re-points an atom that is already there *)
Theorem C05_no_op_repoints_atoms : forall s o s', (step s o = Ok s' \/ step s o = Err s') ->
  forall a, In a (atoms s') -> In a (atoms s) \/ a_par a = OThis.
Proof. exact step_atoms_frame. Qed.
Print Assumptions C05_no_op_repoints_atoms.

(* a bond operation through a Substructure view leaves the molecule exactly as it was *)
Theorem C05_view_op_frame : forall s va o s',
  (xstep s (ViaSub va o) = Ok s' \/ xstep s (ViaSub va o) = Err s') -> s' = s.
Proof. exact via_sub_same. Qed.
Print Assumptions C05_view_op_frame.

Theorem C05_aligned_spelled : forall s, AInv s ->
  length (coords s) = length (atoms s) /\
  (if has_q s then length (charges s) = length (atoms s) /\ Forall numeric (charges s) else charges s = []) /\
  NoDup (ids s) /\
  (forall a, In a (atoms s) -> (a_id a < next_a s)%positive) /\
  NoDup (bids s) /\
  (forall b, In b (bonds s) ->
     b_par b = OThis /\ (b_id b < next_b s)%positive /\ In (b_a1 b) (ids s) /\ In (b_a2 b) (ids s)).
Proof. exact AInv_spelled. Qed.
Print Assumptions C05_aligned_spelled.

(* alignment is preserved by every step of the extended alphabet (edit of the molecule / bond operation
   through a view / adoption of some of its atoms by another container), whether it returns or raises,
   hence after every interleaved history; surviving atoms keep their row and charge *)
Theorem C05_aligned_xstep : forall s x s', AInv s -> (xstep s x = Ok s' \/ xstep s x = Err s') -> AInv s'.
Proof. exact ainv_xstep. Qed.
Print Assumptions C05_aligned_xstep.

Theorem C05_aligned_xhistory : forall s h s', AInv s -> xrun s h = Some s' ->
  AInv s' /\
  (forall y, In y (ids s) -> In y (ids s') -> row_of s' y = row_of s y) /\
  (forall y, In y (ids s') -> In y (ids s) \/ (next_a s <= y)%positive).
Proof. exact ainv_xhistory. Qed.
Print Assumptions C05_aligned_xhistory.

(* an atom reports another parent only if some container adopted it during the history; with no adoption the
   FULL invariant holds after every history, view operations included *)
Theorem C05_parents_xhistory : forall s h s', Inv s -> xrun s h = Some s' ->
  forall a, In a (atoms s') -> a_par a = OThis \/ In (a_id a) (adopted h).
Proof. exact xrun_parents. Qed.
Print Assumptions C05_parents_xhistory.

Theorem C05_inv_xhistory_no_adoption : forall s h s', Inv s -> xrun s h = Some s' -> adopted h = [] -> Inv s'.
Proof. exact xrun_no_adoption. Qed.
Print Assumptions C05_inv_xhistory_no_adoption.

Theorem C05_xrun_own : forall h s, xrun s (map Own h) = run s h.
Proof. exact xrun_own. Qed.
Print Assumptions C05_xrun_own.

(* what `atom.parent is not self` in place of `atom not in self.atoms` does in append_bond: after an adoption
   the adopted end is listed twice *)
Theorem C05_membership_by_parent_refuted : forall s x y w, Inv s -> In x (ids s) -> w <> OThis ->
  ~ AInv (append_bond_by_parent (adopt s [x] w) x y).
Proof. exact by_parent_breaks. Qed.
Print Assumptions C05_membership_by_parent_refuted.

(* ---- every correspondence case the kernel accepts is an instance of the theorems above (the cases run
        over the extended alphabet) *)
Theorem C05_check_case_sound : forall c, check_case c = true ->
  Inv (fst c) /\ exists s', xrun (fst c) (map fst (snd c)) = Some s' /\ AInv s' /\ Keeps (fst c) (own_all s') /\
    (forall a, In a (atoms s') -> a_par a = OThis \/ In (a_id a) (adopted (map fst (snd c)))).
Proof. exact check_case_sound. Qed.
Print Assumptions C05_check_case_sound.

(* ---- recorded finding (append_bond with an atom that is not in the molecule): what the code does
        today -- the atom is adopted without a coordinate row -- breaks the invariant; this is why
        `step` leaves that region unspecified (Unspec) and `run` stops there *)
Theorem C05_known_foreign_refuted : forall s x y e l, Inv s -> ~ Inv (append_bond_foreign_as_coded s x y e l).
Proof. exact foreign_as_coded_breaks. Qed.
Print Assumptions C05_known_foreign_refuted.

(* ---- non-vacuity: a molecule with three atoms, a ring-closing set of bonds, and a history that
        adds, connects, deletes by element / index / label, removes a substituent and adds hydrogens *)
Definition ex_s0 : st := load true [(6%N, Some 1%N, 11%Z, 101%Z); (8%N, Some 2%N, 12%Z, 102%Z); (1%N, None, 13%Z, 103%Z)]
                              [(1%positive, 2%positive); (1%positive, 3%positive)].
Definition ex_h : list op :=
  [ AddAtom 7%N (Some 3%N) (Some 14%Z) (Some 104%Z); Connect (ByIdx 0) (ByObj 4%positive);
    AddAtom 6%N None None None;                       (* malformed coordinate: raises, nothing changes *)
    DelAtom (ByElem 8%N); AppendBonds [(3%positive, 4%positive)]; DelBond 4%positive 3%positive;
    RemoveSubst (ByIdx 0) (ByLabel 3%N) None; AddHs [(1%positive, [21%Z; 22%Z])];
    DelAtom (ByIdx (-1)%Z) ].
Example C05_nonvacuous :
  inv_b ex_s0 = true /\
  (exists s', run ex_s0 ex_h = Some s' /\ ids s' = [1; 3; 5; 6; 7]%positive
              /\ row_of s' 3%positive = Some (13%Z, Some (CNum 103%Z))
              /\ row_of s' 5%positive = Some (14%Z, Some (CNum 0%Z))) /\
  step ex_s0 (AppendBond 1%positive 9%positive) = Unspec.
Proof. vm_compute. repeat split. eexists. repeat split. Qed.

(* a view edit, an adoption of atoms 1 and 3 by a container that is then dropped, and ordinary edits touching
   the adopted atoms: the molecule stays aligned, the adopted atoms keep reporting no parent, nothing is
   listed twice; the parent-pointer test would list atom 1 twice *)
Definition ex_xh : list xop :=
  [ ViaSub [1%positive; 3%positive] (VConnect (ByIdx 0) (ByIdx 1));
    ViaSub [1%positive; 2%positive] (VDelBond 2%positive 1%positive);
    ViaSub [2%positive] (VConnect (ByIdx 0) (ByObj 1%positive));      (* atom 1 is not in this view: raises *)
    Adopt [1%positive; 3%positive] ONone;
    Own (Connect (ByObj 1%positive) (ByIdx 2)); Own (AppendBonds [(3%positive, 1%positive)]);
    Own (AddAtom 7%N None (Some 14%Z) None); Own (DelAtom (ByObj 3%positive));
    Own (AddHs [(1%positive, [21%Z])]) ].
Example C05_shared_nonvacuous :
  (exists s', xrun ex_s0 ex_xh = Some s' /\ ids s' = [1; 2; 4; 5]%positive
              /\ map a_par (atoms s') = [ONone; OThis; OThis; OThis]
              /\ inv_b (own_all s') = true /\ inv_b s' = false
              /\ row_of s' 1%positive = Some (11%Z, Some (CNum 101%Z))) /\
  xstep ex_s0 (ViaSub [1%positive] (VAppendBond 1%positive 2%positive)) = Unspec /\
  inv_b (own_all (append_bond_by_parent (adopt ex_s0 [1%positive] ONone) 1%positive 2%positive)) = false.
Proof. vm_compute. repeat split. eexists. repeat split. Qed.

(* ---- the fuel of the model's private breadth-first search (remove_substituent) always suffices: each iteration
        pops one queue element, each pushed element is a bond endpoint that was not visited before, so
        |queue| + |unvisited endpoints| drops by one per iteration and starts at most at 1 + 2 * |bonds|.
        Hence NO operation ever returns OutOfFuel: the exclusion in the theorems above costs nothing, and a
        history stops (`run` = None) only at the recorded finding (Unspec). *)
From Molli Require Import Proofs.MolEditFuel.
Theorem C05_bfs_fuel_sufficient : forall s vis out a, bfs_loop (bfs_fuel s) s vis [a] out <> None.
Proof. exact bfs_fuel_sufficient. Qed.
Print Assumptions C05_bfs_fuel_sufficient.

Theorem C05_never_out_of_fuel : forall s o, step s o <> OutOfFuel.
Proof. exact step_never_out_of_fuel. Qed.
Print Assumptions C05_never_out_of_fuel.
