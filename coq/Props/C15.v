(* C15 -- Graph queries agree with graph theory: property theorems only.
   The functions are the executable models of Model/Graph.v (mirrors of Connectivity.yield_bfsd,
   yield_bfs, is_bond_in_ring, connected_atoms, bonds_with_atom, bonded_valence in molli/chem/bond.py);
   the same definitions are evaluated against the implementation by the correspondence shards of
   harness/c15.py on every run. `reach`, `is_dist`, `walk` are defined independently of the algorithm
   (Proofs/Graph.v: inductive walks over the bond list). *)
From Coq Require Import Arith List Bool Sorted Lia.
From Coq Require Import NArith QArith.
From Molli Require Import Model.Graph Model.Match Proofs.Graph Proofs.GraphTop Proofs.GraphAdj Proofs.Match Gen.MatchPreds.
From Molli Require Import Model.GraphSession Proofs.GraphSession.
Open Scope nat_scope.
Import ListNotations.

(* ---- 1. breadth-first traversal: for EVERY bond list and start atom ---- *)
(* it terminates within the model's fuel: the out-of-fuel result is impossible *)
Theorem C15_bfs_total : forall g s, exists out, yield_bfsd g s None = BOk out.
Proof. exact yield_bfsd_total. Qed.
Print Assumptions C15_bfs_total.

(* every other atom of the component exactly once, non-decreasing labels, label = graph distance *)
Theorem C15_bfs_sound_complete : forall g s out, yield_bfsd g s None = BOk out ->
  NoDup (map fst out) /\ ~ In s (map fst out) /\
  StronglySorted le (map snd out) /\
  (forall v, In v (map fst out) <-> reach g s v /\ v <> s) /\
  (forall v d, In (v, d) out -> is_dist g s v d).
Proof. exact yield_bfsd_correct. Qed.
Print Assumptions C15_bfs_sound_complete.

(* ---- 2. with a direction ---- *)
(* the call succeeds exactly when the direction is bonded to the start; otherwise the assertion fires *)
Theorem C15_bfs_directed_defined : forall g s d,
  ((exists out, yield_bfsd g s (Some d) = BOk out) <-> adj g s d) /\
  (yield_bfsd g s (Some d) = BAssert <-> ~ adj g s d).
Proof. intros g s d. split; [apply yield_bfsd_dir_total|apply yield_bfsd_dir_assert]. Qed.
Print Assumptions C15_bfs_directed_defined.

(* exactly the atoms reachable through d without passing the start *)
Theorem C15_bfs_directed : forall g s d out, d <> s -> yield_bfsd g s (Some d) = BOk out ->
  exists rest, out = (d, 1) :: rest /\
  NoDup (map fst out) /\ ~ In s (map fst out) /\
  StronglySorted le (map snd out) /\
  (forall v, In v (map fst out) <-> reach (remove_vertex g s) d v) /\
  (forall v k, In (v, k) out -> exists k0, k = S k0 /\ is_dist (remove_vertex g s) d v k0).
Proof. exact yield_bfsd_dir_correct. Qed.
Print Assumptions C15_bfs_directed.

(* yield_bfs (a second copy of the loop in the code) is yield_bfsd with the labels dropped *)
Theorem C15_bfs_nodist : forall g s dir,
  yield_bfs g s dir = match yield_bfsd g s dir with
                      | BOk l => BOk (map fst l) | BAssert => BAssert | BFuel => BFuel end.
Proof. exact yield_bfs_erases. Qed.
Print Assumptions C15_bfs_nodist.

(* ---- 3. ring perception ---- *)
Theorem C15_ring_iff_not_bridge : forall g x y, x <> y -> adj g x y ->
  (exists r, is_bond_in_ring g (x, y) = Some r) /\
  (is_bond_in_ring g (x, y) = Some true <-> reach (remove_bond g x y) x y) /\
  (is_bond_in_ring g (x, y) = Some false <-> ~ reach (remove_bond g x y) x y).
Proof.
  intros g x y Hxy Ha. split; [now apply is_bond_in_ring_total|].
  split; [now apply ring_iff_not_bridge|now apply not_ring_iff_bridge].
Qed.
Print Assumptions C15_ring_iff_not_bridge.

(* in a simple graph (no self loops, at most one bond per pair -- the molecular graphs of the property)
   `remove_bond g x y` is g minus exactly that one bond, so the clause above reads: in a ring <-> not a bridge *)
Theorem C15_remove_bond_simple : forall g x y, simple g -> adj g x y -> S (length (remove_bond g x y)) = length g.
Proof. exact remove_bond_simple. Qed.
Print Assumptions C15_remove_bond_simple.

(* ---- 4. adjacency accessors = folds over the bond list ---- *)
Theorem C15_adjacency_agrees : forall g a,
  bonds_with_atom g a = filter (incident g a) (seq 0 (length g)) /\
  (forall i, In i (bonds_with_atom g a) <-> exists b, nth_error g i = Some b /\ (fst b = a \/ snd b = a)) /\
  connected_atoms g a = map (fun i => bond_other (bond_at g i) a) (bonds_with_atom g a) /\
  (forall b, In b (connected_atoms g a) <-> adj g a b) /\
  n_bonds_with_atom g a = length (filter (fun b => bond_has b a) g) /\
  (forall ord, (bonded_valence g ord a ==
     fold_left Qplus (map (fun i => if incident g a i then ord i else 0) (seq 0 (length g))) 0)%Q).
Proof.
  intros g a. split; [apply bonds_with_atom_filter|]. split; [apply bonds_with_atom_spec|].
  split; [apply connected_atoms_bonds|]. split; [apply connected_atoms_spec|].
  split; [apply n_bonds_with_atom_count|]. intros ord. apply bonded_valence_sum.
Qed.
Print Assumptions C15_adjacency_agrees.

(* in a simple graph no neighbour is listed twice *)
Theorem C15_connected_atoms_nodup : forall g a, simple g -> NoDup (connected_atoms g a).
Proof. exact connected_atoms_nodup. Qed.
Print Assumptions C15_connected_atoms_nodup.

(* degree sum: on atoms 0..n-1 without self loops the bond counts add up to twice the number of bonds *)
Theorem C15_handshake : forall n g,
  (forall b, In b g -> fst b < n /\ snd b < n /\ fst b <> snd b) ->
  list_sum (map (n_bonds_with_atom g) (seq 0 n)) = 2 * length g.
Proof. exact handshake. Qed.
Print Assumptions C15_handshake.

(* Bond.order, regenerated table (all 15 bond types x 3 fractional orders): the model's bond_order is the code's *)
Theorem C15_bond_order_table :
  forall bt f o, In (bt, f, o) order_rows -> (bond_order bt f == o)%Q.
Proof.
  assert (H : forallb (fun r => Qeq_bool (bond_order (fst (fst r)) (snd (fst r))) (snd r)) order_rows = true)
    by (vm_compute; reflexivity).
  intros bt f o Hin. rewrite forallb_forall in H. apply Qeq_bool_iff. exact (H _ Hin).
Qed.
Print Assumptions C15_bond_order_table.

(* ---- 5. substructure matching ---- *)
(* The model predicates ARE the code's _node_match / _edge_match on the whole regenerated grid
   (3 elements x 3 isotopes x 4 stereo x 3 atom types, squared; 15 bond types x 3 stereo x 3 labels, squared) *)
Theorem C15_node_match_table : node_table (atom_grid el_axis iso_axis ast_axis aty_axis) = node_obs.
Proof. vm_compute. reflexivity. Qed.
Print Assumptions C15_node_match_table.

(* edge predicate: agreement on every grid cell whose PATTERN bond type is one _edge_match implements
   (Unknown, Single, Double, Triple, Aromatic, Amide, NotConnected).  For the other pattern types the code
   raises NotImplementedError -- recorded finding C15:match:raises-NotImplementedError; that region is left
   unspecified here so that a repair does not disturb this theorem. *)
Theorem C15_edge_match_table :
  let ps := edge_pairs (bond_grid bt_axis bst_axis lab_axis) in
  length edge_obs = length ps /\
  forall k e1 e2, nth_error ps k = Some (e1, e2) -> supported_bt (mb_btype e2) = true ->
                  nth_error edge_obs k = Some (code_of_edge (edge_match e1 e2)).
Proof. apply edge_agree_nth. vm_compute. reflexivity. Qed.
Print Assumptions C15_edge_match_table.

(* with a supported pattern no edge comparison raises *)
Theorem C15_match_defined : forall P, supported_pattern P = true ->
  forall e1 e2, In e2 (mg_bonds P) -> exists r, edge_match e1 e2 = Some r.
Proof.
  intros P HP e1 e2 H2. unfold supported_pattern in HP. rewrite forallb_forall in HP.
  apply edge_match_defined. now apply HP.
Qed.
Print Assumptions C15_match_defined.

(* reference semantics: the enumerator that molli's match()/get_substr_indices() are compared with returns
   exactly the induced embeddings -- none invalid, none missed, none twice.
   PARTIAL w.r.t. the implementation: the search itself is networkx VF2, which is not modelled; agreement of
   molli's output with `enum` is established differentially (kernel-checked shards, supported patterns on
   simple graphs), not by proof.  The full statement would be
     forall H P, simple H -> simple P -> supported_pattern P = true ->
       Permutation (molli_get_substr_indices H P) (enum H P)
   and needs a model of networkx.GraphMatcher. *)
Theorem C15_match_reference_partial : forall H P,
  (forall f, In f (enum H P) <-> embedding H P f) /\ NoDup (enum H P).
Proof. intros H P. split; [intros f; apply enum_sound_complete|apply enum_nodup]. Qed.
Print Assumptions C15_match_reference_partial.

(* for plain patterns the embeddings are the property's wording verbatim: injective, elements respected
   (Unknown matches any), bonded <-> bonded *)
Theorem C15_match_plain : forall H P f,
  (forall i, i < length (mg_atoms P) -> plain_atom (atom_at P i)) ->
  (forall e, In e (mg_bonds P) -> plain_bond e) -> typed_host H ->
  (In f (enum H P) <-> plain_embedding H P f).
Proof. exact enum_plain. Qed.
Print Assumptions C15_match_plain.

(* ---- 6. "any molecular graph" = the graph the object holds NOW: sessions of queries and in-place edits ---- *)
(* Model/GraphSession.v: one host object and some pattern objects are edited in place (attribute assignment on an
   atom / a bond, connect, del_bond, add atom, del_atom) and asked the queries above at any point in between.
   A session accepted by the checker (the function the correspondence shards evaluate on what molli answered)
   certifies: EVERY answer recorded ANYWHERE in it is the model's answer on the state produced by the edits made
   before it -- no answer depends on what was asked earlier.  So clauses 1-5 hold of every answer given at any
   point of the object's history, with g := the bond list as edited so far. *)
Theorem C15_session_sound : forall c, check_scase c = true ->
  forall pre x post, sc_steps c = pre ++ x :: post ->
  step_holds (world_after (sc_host c, sc_pats c) pre) x.
Proof. exact session_sound. Qed.
Print Assumptions C15_session_sound.

Theorem C15_session_bfs_now : forall c, check_scase c = true ->
  forall pre post qs, sc_steps c = pre ++ SQuery qs :: post ->
  forall s out, In (QBfsd s None (BOk out)) qs ->
  let g := ss_graph (fst (world_after (sc_host c, sc_pats c) pre)) in
  NoDup (map fst out) /\ ~ In s (map fst out) /\ StronglySorted le (map snd out) /\
  (forall v, In v (map fst out) <-> reach g s v /\ v <> s) /\
  (forall v d, In (v, d) out -> is_dist g s v d).
Proof. exact session_bfs_now. Qed.
Print Assumptions C15_session_bfs_now.

Theorem C15_session_bfs_dir_now : forall c, check_scase c = true ->
  forall pre post qs, sc_steps c = pre ++ SQuery qs :: post ->
  forall s d out, d <> s -> In (QBfsd s (Some d) (BOk out)) qs ->
  let g := ss_graph (fst (world_after (sc_host c, sc_pats c) pre)) in
  adj g s d /\ NoDup (map fst out) /\ (forall v, In v (map fst out) <-> reach (remove_vertex g s) d v).
Proof. exact session_bfs_dir_now. Qed.
Print Assumptions C15_session_bfs_dir_now.

Theorem C15_session_ring_now : forall c, check_scase c = true ->
  forall pre post qs, sc_steps c = pre ++ SQuery qs :: post ->
  forall bi x y r, In (QRing bi (Some r)) qs ->
  let g := ss_graph (fst (world_after (sc_host c, sc_pats c) pre)) in
  nth_error g bi = Some (x, y) -> x <> y -> (r = true <-> reach (remove_bond g x y) x y).
Proof. exact session_ring_now. Qed.
Print Assumptions C15_session_ring_now.

Theorem C15_session_adjacency_now : forall c, check_scase c = true ->
  forall pre post qs, sc_steps c = pre ++ SQuery qs :: post ->
  forall a, let g := ss_graph (fst (world_after (sc_host c, sc_pats c) pre)) in
  (forall obs, In (QConn a obs) qs -> forall b, In b obs <-> adj g a b) /\
  (forall obs, In (QBonds a obs) qs -> forall i, In i obs <-> exists b, nth_error g i = Some b /\ (fst b = a \/ snd b = a)) /\
  (forall n, In (QNb a n) qs -> n = length (filter (fun b => bond_has b a) g)).
Proof. exact session_adjacency_now. Qed.
Print Assumptions C15_session_adjacency_now.

(* matching: host AND pattern as they are now (reference semantics; PARTIAL w.r.t. VF2 exactly as clause 5) *)
Theorem C15_session_match_now : forall c, check_scase c = true ->
  forall pre k obs post, sc_steps c = pre ++ SMatch k obs :: post ->
  let w := world_after (sc_host c, sc_pats c) pre in
  NoDup obs /\ forall f, In f obs <-> embedding (ss_mgraph (fst w)) (ss_mgraph (pat_at w k)) f.
Proof. exact session_match_now. Qed.
Print Assumptions C15_session_match_now.

(* what the edits do to the graph the clauses speak of: attribute assignments and a new unbonded atom leave the
   topology (hence every BFS / ring / adjacency answer) alone and keep both counts; connect adds exactly one
   adjacency; del_bond on a simple graph is `remove_bond` of its end points *)
Theorem C15_edit_keeps_topology : forall s,
  (forall i a, ss_graph (apply_edit (ESetAtom i a) s) = ss_graph s) /\
  (forall i bt st lab f, ss_graph (apply_edit (ESetBond i bt st lab f) s) = ss_graph s) /\
  (forall a, ss_graph (apply_edit (EAddAtom a) s) = ss_graph s).
Proof. exact edit_keeps_topology. Qed.
Print Assumptions C15_edit_keeps_topology.

Theorem C15_edit_keeps_counts : forall s,
  (forall i a, counts (apply_edit (ESetAtom i a) s) = counts s) /\
  (forall i bt st lab f, counts (apply_edit (ESetBond i bt st lab f) s) = counts s).
Proof. exact edit_keeps_counts. Qed.
Print Assumptions C15_edit_keeps_counts.

Theorem C15_edit_connect_adj : forall s b f x y,
  adj (ss_graph (apply_edit (EConnect b f) s)) x y <-> adj (ss_graph s) x y \/ joins (mb_a1 b, mb_a2 b) x y = true.
Proof. exact edit_connect_adj. Qed.
Print Assumptions C15_edit_connect_adj.

Theorem C15_edit_del_bond : forall s i a b, simple (ss_graph s) -> nth_error (ss_graph s) i = Some (a, b) ->
  ss_graph (apply_edit (EDelBond i) s) = remove_bond (ss_graph s) a b /\
  (forall x y, adj (ss_graph (apply_edit (EDelBond i) s)) x y <->
               adj (ss_graph s) x y /\ ~ (x = a /\ y = b) /\ ~ (x = b /\ y = a)).
Proof. exact edit_del_bond. Qed.
Print Assumptions C15_edit_del_bond.

(* (number of atoms, number of bonds) does not identify the graph: halogen exchange in place, moving a substituent
   (del_bond + connect) and an edited pattern keep both counts and change what matching / BFS must answer *)
Theorem C15_count_stamp_insufficient :
  counts (apply_edit ex_halex ex_host) = counts ex_host /\
  enum (ss_mgraph ex_host) (ss_mgraph ex_ccl) = [[1; 0]] /\
  enum (ss_mgraph (apply_edit ex_halex ex_host)) (ss_mgraph ex_ccl) = [] /\
  counts (ex_move ex_host) = counts ex_host /\
  yield_bfsd (ss_graph ex_host) 5 None = BOk [(4,1); (3,2); (2,3); (1,4); (0,5)] /\
  yield_bfsd (ss_graph (ex_move ex_host)) 5 None = BOk [(2,1); (1,2); (3,2); (0,3); (4,3)] /\
  counts (apply_edit (ESetAtom 1 (mk_matom 8 None 0 1)) ex_ccl) = counts ex_ccl /\
  enum (ss_mgraph ex_host) (ss_mgraph (apply_edit (ESetAtom 1 (mk_matom 8 None 0 1)) ex_ccl)) = [[4; 5]].
Proof. exact count_stamp_insufficient. Qed.
Print Assumptions C15_count_stamp_insufficient.

(* non-vacuity: a session with every kind of step is accepted, and the same session with a stale answer is not *)
Example C15_session_example :
  check_scase ex_session = true /\
  check_scase (mk_scase ex_host [ex_ccl] [SMatch 0 [[1; 0]]; SHost ex_halex; SMatch 0 [[1; 0]]]) = false /\
  simple (ss_graph ex_host) /\ nth_error (ss_graph ex_host) 4 = Some (4, 5).
Proof.
  split; [exact ex_session_accepted|]. split; [exact (proj1 ex_session_stale_rejected)|].
  split; [apply simple_b_sound; vm_compute; reflexivity|reflexivity].
Qed.

(* ---- non-vacuity: the hypotheses are met by real molecules-as-graphs and every branch is reached ---- *)
Example C15_examples :
  (* a 4-ring with a pendant atom and a separate fragment *)
  let g := [(0,1); (2,1); (2,3); (3,0); (3,4); (5,6)] in
  yield_bfsd g 0 None = BOk [(1,1); (3,1); (2,2); (4,2)] /\
  yield_bfsd g 3 (Some 4) = BOk [(4,1)] /\
  yield_bfsd g 3 (Some 2) = BOk [(2,1); (1,2); (0,3)] /\
  yield_bfsd g 0 (Some 2) = BAssert /\
  yield_bfs g 5 None = BOk [6] /\
  is_bond_in_ring g (2,1) = Some true /\ is_bond_in_ring g (3,4) = Some false /\
  is_bond_in_ring g (5,6) = Some false /\
  simple g /\ adj g 2 1 /\ 2 <> 1.
Proof.
  cbv zeta. repeat (split; [vm_compute; reflexivity|]). split; [|split; [left; simpl; tauto|discriminate]].
  apply simple_b_sound. vm_compute. reflexivity.
Qed.

Example C15_match_examples :
  let c := mk_matom 6 None 0 1 in let n := mk_matom 7 None 0 1 in let x := mk_matom 0 None 0 1 in
  let sb a b := mk_mbond a b 1 0 None in
  let tri := mk_mgraph [c; c; n] [sb 0 1; sb 1 2; sb 2 0] in
  let path := mk_mgraph [c; x; c] [sb 0 1; sb 1 2] in
  let edge := mk_mgraph [c; x] [sb 0 1] in
  enum tri path = [] /\                                   (* a path is not an INDUCED subgraph of a triangle *)
  enum tri edge = [[0; 1]; [0; 2]; [1; 0]; [1; 2]] /\
  enum path tri = [] /\
  (forall i, i < 2 -> plain_atom (atom_at edge i)) /\ (forall e, In e (mg_bonds edge) -> plain_bond e) /\ typed_host tri.
Proof.
  cbv zeta. split; [vm_compute; reflexivity|]. split; [vm_compute; reflexivity|]. split; [vm_compute; reflexivity|].
  split; [|split].
  - intros i Hi. destruct i as [|[|i]]; [split; reflexivity|split; reflexivity|exfalso; inversion Hi as [|? H1]; inversion H1 as [|? H2]; inversion H2].
  - intros e [<-|[]]. repeat split; auto.
  - intros e [<-|[<-|[<-|[]]]]; vm_compute; discriminate.
Qed.
