(* C09 -- property theorems only. `table` is regenerated from /repo on every run. *)
From Coq Require Import List Bool.
From Molli Require Import Model.Dispatch Proofs.Dispatch Gen.DispatchTable.

(* On EVERY valid configuration (verb x format class x explicit/suffix x output type x name x
   source/target kind x parser spelling) the entry point does exactly what the specification
   written from the property says, and the observed table contains nothing else. *)
Theorem C09_matrix :
  (forall c, valid c = true -> exists a, lookup table c = Some a /\ a = spec c) /\
  (forall c a, In (c, a) table -> a = spec c).
Proof. apply table_ok_sound. vm_compute. reflexivity. Qed.
Print Assumptions C09_matrix.

(* the enumeration the theorem quantifies over is the whole product, not a sample *)
Theorem C09_all_cells_complete : forall c, valid c = true -> In c all_cells.
Proof. exact all_cells_complete. Qed.
Print Assumptions C09_all_cells_complete.

(* non-vacuity: the matrix is large and reaches every kind of action *)
Example C09_matrix_nonvacuous :
  length all_cells = 2490 /\
  existsb (fun c => match spec c with ARet (RCall _ _ _ _) => true | _ => false end) all_cells = true /\
  existsb (fun c => match spec c with AWrote _ SGivenStream true => true | _ => false end) all_cells = true /\
  existsb (fun c => match spec c with ARaise _ => true | _ => false end) all_cells = true.
Proof. vm_compute. repeat split; reflexivity. Qed.
