(* C09 -- property theorems only. `table` is regenerated from /repo on every run. *)
From Coq Require Import List Bool.
From Coq Require Import Arith.
Import ListNotations.
From Molli Require Import Model.Dispatch Proofs.Dispatch Gen.DispatchTable Model.DispatchSeq Proofs.DispatchSeq.

(* On EVERY valid configuration (verb x format class x explicit/suffix x output type x name x
   source/target kind x parser spelling) the entry point does exactly what the specification
   written from the property says, and the observed table contains nothing else. *)
Theorem C09_matrix :
  (forall c, valid c = true -> exists a, lookup table c = Some a /\ a = spec c) /\
  (forall c a, In (c, a) table -> a = spec c).
Proof. apply table_ok_sound. vm_compute. reflexivity. Qed.
Print Assumptions C09_matrix.

(* the enumeration the theorem quantifies over is the whole product, not a sample *)
Theorem C09_all_cells_complete : forall c, valid c = true -> In c all_cells.
Proof. exact all_cells_complete. Qed.
Print Assumptions C09_all_cells_complete.

(* non-vacuity: the matrix is large and reaches every kind of action *)
Example C09_matrix_nonvacuous :
  length all_cells = 2490 /\
  existsb (fun c => match spec c with ARet (RCall _ _ _ _) => true | _ => false end) all_cells = true /\
  existsb (fun c => match spec c with AWrote _ SGivenStream true => true | _ => false end) all_cells = true /\
  existsb (fun c => match spec c with ARaise _ => true | _ => false end) all_cells = true.
Proof. vm_compute. repeat split; reflexivity. Qed.

(* ------------------------------------------------------------------------------------------
   Histories: the entry points called one after another in one process while the file / the
   string / the object / the stream change in between (Model/DispatchSeq.v).  The recorded
   histories of the implementation are compared with `run` by the correspondence shards
   (`check_seq`, sound by C09_seq_check_sound); the theorems below say what `run` guarantees. *)

(* in EVERY history, at EVERY position, a call does what the one-shot matrix says for its cell *)
Theorem C09_seq_action_is_spec : forall w p i c slot o v md,
  nth_error p i = Some (OCall c slot o v md) ->
  exists ob, nth_error (run w p) i = Some ob /\ fst (ob_res ob) = spec c.
Proof. exact run_action_is_spec. Qed.
Print Assumptions C09_seq_action_is_spec.

(* NO HIDDEN STATE: two arbitrary histories (from arbitrary worlds) that leave the addressed file
   with the same content cannot be told apart by the next call: same action, same text handed to
   the class-level codec. *)
Theorem C09_seq_no_hidden_state : forall w1 w2 p1 p2 c slot o v md,
  get_file (final w1 p1) (fkey_of c slot) = get_file (final w2 p2) (fkey_of c slot) ->
  snd (step (final w1 p1) (OCall c slot o v md)) = snd (step (final w2 p2) (OCall c slot o v md)).
Proof. exact history_independence. Qed.
Print Assumptions C09_seq_no_hidden_state.

(* call, rewrite the file, call again: the class-level reader is handed the NEW document *)
Theorem C09_seq_load_after_rewrite : forall w pre c slot o v md d r,
  is_load c = true -> spec c = ARet r ->
  snd (step (final w (pre ++ [ORewrite (fkey_of c slot) d])) (OCall c slot o v md)) = (ARet r, Some [TDoc d]).
Proof. exact load_after_rewrite. Qed.
Print Assumptions C09_seq_load_after_rewrite.

(* the string loaders are handed the string given NOW; dumps renders the object as it is NOW *)
Theorem C09_seq_loads_dumps_current : forall w c slot o v md,
  (forall r, is_loads c = true -> spec c = ARet r ->
     snd (step w (OCall c slot o v md)) = (ARet r, Some [TDoc slot])) /\
  (forall m, c_verb c = VDumps -> spec c = ARet (RDumps m) ->
     snd (step w (OCall c slot o v md)) = (ARet (RDumps m), Some [TW m o v])).
Proof. intros; split; intros; [apply loads_sees_given_string | apply dumps_renders_current_object]; assumption. Qed.
Print Assumptions C09_seq_loads_dumps_current.

(* dump to a path then load that path, after any history *)
Theorem C09_seq_load_after_dump : forall w pre cd cl slot o v md o' v' md' m r,
  c_verb cd = VDump -> spec cd = AWrote m SOpenedPath true ->
  is_load cl = true -> spec cl = ARet r -> fkey_of cl slot = fkey_of cd slot ->
  snd (step (final w (pre ++ [OCall cd slot o v md])) (OCall cl slot o' v' md'))
  = (ARet r, Some ((match md with MAppend => get_file (final w pre) (fkey_of cd slot) | MTrunc => [] end) ++ [TW m o v])).
Proof. exact load_after_dump. Qed.
Print Assumptions C09_seq_load_after_dump.

(* dump after dump to the same path: appending keeps the first record, mode="w" drops it;
   a stream target is appended to *)
Theorem C09_seq_dump_after_dump : forall w c slot o v o' v' md' m,
  c_verb c = VDump -> spec c = AWrote m SOpenedPath true ->
  get_file (final w [OCall c slot o v MTrunc; OCall c slot o' v' md']) (fkey_of c slot)
  = match md' with MAppend => [TW m o v; TW m o' v'] | MTrunc => [TW m o' v'] end.
Proof. exact dump_after_dump. Qed.
Print Assumptions C09_seq_dump_after_dump.

(* a stream target is written AT ITS POSITION -- where the class-level writer handed the same stream writes --
   and left right behind the record: a stream positioned behind its text is appended to (and stays behind its
   text); one that already holds text and is positioned inside it (built from a string, rewound, opened "r+")
   keeps what lies before the position and what lies behind the record, which replaces exactly one record *)
Theorem C09_seq_dump_stream : forall w c slot o v md m p,
  c_verb c = VDump -> spec c = AWrote m SGivenStream true -> get_sstate w slot = SOpenAt p ->
  get_stream (fst (step w (OCall c slot o v md))) slot = write_at (get_stream w slot) p [TW m o v] /\
  get_sstate (fst (step w (OCall c slot o v md))) slot = SOpenAt (S p).
Proof. exact dump_stream_effect. Qed.
Print Assumptions C09_seq_dump_stream.

Theorem C09_seq_dump_stream_at_end : forall w c slot o v md m,
  c_verb c = VDump -> spec c = AWrote m SGivenStream true ->
  get_sstate w slot = SOpenAt (length (get_stream w slot)) ->
  let w' := fst (step w (OCall c slot o v md)) in
  get_stream w' slot = get_stream w slot ++ [TW m o v] /\
  get_sstate w' slot = SOpenAt (length (get_stream w' slot)).
Proof. exact dump_stream_at_end. Qed.
Print Assumptions C09_seq_dump_stream_at_end.

Theorem C09_seq_dump_stream_position : forall w c slot o v md m p,
  c_verb c = VDump -> spec c = AWrote m SGivenStream true -> get_sstate w slot = SOpenAt p ->
  p <= length (get_stream w slot) ->
  let t' := get_stream (fst (step w (OCall c slot o v md))) slot in
  firstn p t' = firstn p (get_stream w slot) /\ nth_error t' p = Some (TW m o v) /\
  skipn (S p) t' = skipn (S p) (get_stream w slot) /\
  length t' = Nat.max (length (get_stream w slot)) (S p).
Proof. exact dump_stream_keeps_rest. Qed.
Print Assumptions C09_seq_dump_stream_position.

(* the hypotheses are met: a stream holding two documents, positioned at its start (a StringIO built from a
   string), is overwritten record by record; rewound by its owner it is overwritten again; moved to its end
   it is appended to.  Jumping to the end before writing would give three other texts. *)
Example C09_seq_position_nonvacuous :
  let cs := mk_cell VDump FMol2 FsExplicit OEns false TStream PMolli false in
  let w := mk_world [] [(0, [TDoc 70; TDoc 71]); (1, [TDoc 72])] [(0, SOpenAt 0); (1, SOpenAt 1)] in
  streams_ready w = true /\ spec cs = AWrote (VDump, FMol2) SGivenStream true /\
  map (fun ob => (ob_streams ob, ob_sstate ob))
      (run w [OCall cs 0 0 0 MAppend; OSeek 0 0; OCall cs 0 0 1 MAppend; OSeek 0 9; OCall cs 0 1 0 MAppend;
              OCall cs 1 1 0 MAppend])
  = [([[TW (VDump, FMol2) 0 0; TDoc 71]; [TDoc 72]], [SOpenAt 1; SOpenAt 1]);
     ([[TW (VDump, FMol2) 0 0; TDoc 71]; [TDoc 72]], [SOpenAt 0; SOpenAt 1]);
     ([[TW (VDump, FMol2) 0 1; TDoc 71]; [TDoc 72]], [SOpenAt 1; SOpenAt 1]);
     ([[TW (VDump, FMol2) 0 1; TDoc 71]; [TDoc 72]], [SOpenAt 2; SOpenAt 1]);
     ([[TW (VDump, FMol2) 0 1; TDoc 71; TW (VDump, FMol2) 1 0]; [TDoc 72]], [SOpenAt 3; SOpenAt 1]);
     ([[TW (VDump, FMol2) 0 1; TDoc 71; TW (VDump, FMol2) 1 0]; [TDoc 72; TW (VDump, FMol2) 1 0]], [SOpenAt 3; SOpenAt 2])].
Proof. vm_compute. repeat split; reflexivity. Qed.

(* frame: a call touches no file and no stream other than the one it addresses; only dump writes *)
Theorem C09_seq_frame : forall w c slot o v md,
  (forall k, k <> fkey_of c slot -> get_file (fst (step w (OCall c slot o v md))) k = get_file w k) /\
  (forall s, s <> slot -> get_stream (fst (step w (OCall c slot o v md))) s = get_stream w s) /\
  (c_verb c <> VDump -> fst (step w (OCall c slot o v md)) = w).
Proof.
  intros; split; [|split]; intros;
    [apply call_frame_files | apply call_frame_streams | apply non_dump_leaves_world]; assumption.
Qed.
Print Assumptions C09_seq_frame.

(* WHAT THE CALLER OWNS.  In every history, from every world: a stream that no operation addresses (no dump
   INTO it, no seek by its owner) holds what it held and stays where it was -- across any number of calls,
   successful or REFUSED, readers or writers; the streams the caller handed over stay usable (open, on a record
   boundary); every observation of `run` reports exactly that and no file handle left open by the library; a
   refused call (spec = ARaise: unsupported format, unknown parser, no format at all) leaves the whole world as
   it was, so the stream it was given holds what it held, where it was. *)
Theorem C09_seq_streams_stay_open : forall w p,
  (forall s, existsb (touches_stream s) p = false ->
             get_stream (final w p) s = get_stream w s /\ get_sstate (final w p) s = get_sstate w s) /\
  (streams_ready w = true -> streams_ready (final w p) = true) /\
  (streams_ready w = true -> forall ob, In ob (run w p) -> forallb is_open (ob_sstate ob) = true /\ ob_left_open ob = 0).
Proof.
  intros; split; [|split]; intros;
    [apply stream_state_preserved | apply streams_stay_ready | apply (run_obs_owned w p)]; assumption.
Qed.
Print Assumptions C09_seq_streams_stay_open.

Theorem C09_seq_refused_leaves_world : forall w pre c slot o v md e,
  spec c = ARaise e ->
  step (final w pre) (OCall c slot o v md) = (final w pre, (ARaise e, None)) /\
  (forall s, get_stream (final w (pre ++ [OCall c slot o v md])) s = get_stream (final w pre) s /\
             get_sstate (final w (pre ++ [OCall c slot o v md])) s = get_sstate (final w pre) s).
Proof.
  intros w pre c slot o v md e H. split; [apply refused_leaves_world; exact H|].
  intros s. destruct (refused_dump_keeps_stream w pre c slot o v md e s H) as [H1 [H2 _]]. split; assumption.
Qed.
Print Assumptions C09_seq_refused_leaves_world.

(* the hypotheses are met: a dump into a stream without a format, with an unknown format and with an unknown
   writer are all refused, between two dumps that succeed into the same stream *)
Example C09_seq_owned_nonvacuous :
  let cs := mk_cell VDump FXyz FsExplicit OMol false TStream PMolli false in
  let cn := mk_cell VDump FXyz FsSuffix OMol false TStream PMolli false in
  let cu := mk_cell VDump FUnknown FsExplicit OEns false TStream PMolli false in
  let cp := mk_cell VDump FMol2 FsExplicit OMol false TStream PUnknown false in
  let w := mk_world [] [(0, []); (1, [])] [(0, SOpenAt 0); (1, SOpenAt 0)] in
  streams_ready w = true /\ spec cn = ARaise XUnsupported /\ spec cu = ARaise XUnsupported /\
  spec cp = ARaise XUnsupported /\
  map (fun ob => (ob_streams ob, ob_sstate ob, ob_left_open ob))
      (run w [OCall cs 0 0 0 MAppend; OCall cn 0 0 0 MAppend; OCall cu 0 1 0 MAppend; OCall cp 0 0 0 MAppend;
              OCall cs 0 0 1 MAppend])
  = [([[TW (VDump, FXyz) 0 0]; []], [SOpenAt 1; SOpenAt 0], 0);
     ([[TW (VDump, FXyz) 0 0]; []], [SOpenAt 1; SOpenAt 0], 0);
     ([[TW (VDump, FXyz) 0 0]; []], [SOpenAt 1; SOpenAt 0], 0);
     ([[TW (VDump, FXyz) 0 0]; []], [SOpenAt 1; SOpenAt 0], 0);
     ([[TW (VDump, FXyz) 0 0; TW (VDump, FXyz) 0 1]; []], [SOpenAt 2; SOpenAt 0], 0)].
Proof. vm_compute. repeat split; reflexivity. Qed.

Theorem C09_seq_check_sound : forall sc, check_seq sc = true -> run (sc_init sc) (sc_prog sc) = sc_obs sc.
Proof. exact check_seq_sound. Qed.
Print Assumptions C09_seq_check_sound.

(* non-vacuity: load / rewrite / load_all / dump (append) / load on one file; the hypotheses of the
   theorems above are met by concrete cells *)
Example C09_seq_nonvacuous :
  let cl := mk_cell VLoad FCdxml FsSuffix OMol false TPath PMolli false in
  let ca := mk_cell VLoadAll FXyz FsSuffix OMol true TPathObj PMolli false in
  let cd := mk_cell VDump FXyz FsSuffix OMol false TPath PMolli false in
  let k := fkey_of cl 0 in
  let w := mk_world [(k, [TDoc 1]); (fkey_of cd 0, [TDoc 5])] [(0, [])] [(0, SOpenAt 0)] in
  is_load cl = true /\ spec cl = ARet (RCtor KMol 0 NNone) /\
  spec cd = AWrote (VDump, FXyz) SOpenedPath true /\ fkey_of ca 0 = fkey_of cd 0 /\
  map (fun ob => snd (ob_res ob))
      (run w [OCall cl 0 0 0 MAppend; ORewrite k 2; OCall cl 0 0 0 MAppend;
              OCall cd 0 7 3 MAppend; OCall ca 0 0 0 MAppend])
  = [Some [TDoc 1]; None; Some [TDoc 2]; None; Some [TDoc 5; TW (VDump, FXyz) 7 3]].
Proof. vm_compute. repeat split; reflexivity. Qed.
