(* C06 -- property theorems only. `table` is regenerated from /repo on every run. *)
From Coq Require Import List Bool ZArith.
Import ListNotations.
From Molli Require Import Model.Alias Gen.CopyRoutes.

(* recorded finding, excluded by name: Molecule.join resets the partial charges *)
Definition known : known_t := [(KMolecule, RJoin KMolecule, FCharges)].

Theorem C06_table_ok : table_ok known table = true.
Proof. vm_compute. reflexivity. Qed.
Print Assumptions C06_table_ok.
