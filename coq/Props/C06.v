(* C06 -- copies are faithful and independent; derived molecules never alter their sources.
   Property theorems only.  `table` (Gen/CopyRoutes.v) is regenerated from /repo on every run:
   the alias row of every copy route, observed with `is` / shares_memory on the real objects. *)
From Coq Require Import List Bool ZArith.
Import ListNotations.
From Molli Require Import Model.Alias Model.AliasChain Proofs.Alias Proofs.AliasVal Proofs.AliasChain Gen.CopyRoutes.

(* Recorded findings are excluded BY NAME (class, route, field), e.g.
   [(KMolecule, RJoin KMolecule, FCharges)]; everything else the specification asks of such a route
   stays enforced, and a repair keeps this file green.  Every C06 defect found so far has been
   repaired in /repo, so nothing is excluded today. *)
Definition known : known_t := [].

(* (1) kernel computation over the regenerated table: every route the property names is present and
   its alias row meets the specification written from the property text (Model/Alias.v need_of /
   row_ok / lone_ok / vals_ok): nothing shared, every field both classes have copied, parents re-pointed; the mutable
   VALUES held by the attrib dictionaries are fresh objects at every level on the routes whose contract is a deep copy
   (pickle, deepcopy) and have the source's content on every route. *)
Theorem C06_table_ok : table_ok known table = true.
Proof. vm_compute. reflexivity. Qed.
Print Assumptions C06_table_ok.

Theorem C06_required_routes_present : forall k r, In (k, r) required -> exists x, lookup_row table k r = Some x.
Proof. exact (table_routes_present known table C06_table_ok). Qed.
Print Assumptions C06_required_routes_present.

(* (2) for EVERY heap and EVERY source object: a copy made along any tabulated route of a
   molecule-like class is independent (the copy and the source are separated by disjoint closed
   regions; their reach sets are disjoint), leaves the source as it was, and is faithful (equal
   observation on every field the specification requires; atoms and bonds of the result point to
   the result as parent). *)
Theorem C06_copy_faithful_independent : forall k r x,
  lookup_row table k r = Some x -> lone k = false ->
  forall g h o h' o', heap_wf h -> copy_row x g (kls_code (dst_of k r)) h o = Some (h', o') ->
  separated h' o' o
  /\ (forall l, In l (reach h' o') -> ~ In l (reach h' o))
  /\ exists ob ob', obs h o = Some ob /\ obs h' o = Some ob /\ obs h' o' = Some ob'
                    /\ o_cls ob' = kls_code (dst_of k r) /\ faithful_on (need_known known k r) ob ob'.
Proof. exact (table_routes_sound known table C06_table_ok). Qed.
Print Assumptions C06_copy_faithful_independent.

(* the same for any row whatsoever that meets the specification (not only today's table) *)
Theorem C06_row_sound : forall nd r g d h o h' o',
  heap_wf h -> row_ok nd r = true -> copy_row r g d h o = Some (h', o') ->
  separated h' o' o
  /\ (forall l, In l (reach h' o') -> ~ In l (reach h' o))
  /\ exists ob ob', obs h o = Some ob /\ obs h' o = Some ob /\ obs h' o' = Some ob'
                    /\ o_cls ob' = d /\ faithful_on nd ob ob'.
Proof. exact copy_row_sound. Qed.
Print Assumptions C06_row_sound.

(* (2b) copy-constructor calls WITH keyword overrides, dst(source, name= / charge= / mult= / coords= /
   atomic_charges= / weights=): for EVERY heap, source and argument values, along any tabulated route the
   construction leaves the source as it was, the result is separated from the source (a replaced array is a
   fresh one, never the source's), every field the call does not name is the source's -- arrays, bonds and
   attributes under the masked need, name / charge / mult position by position -- and the named scalars are
   the call's.  `copy_route` is `copy_row` with the call's values as `given`, so (2), (3), (4) apply as well. *)
Theorem C06_override_copy : forall k d v x,
  lookup_row table k (RCtorWith d v) = Some x -> lone k = false ->
  forall g h o h' o', heap_wf h -> copy_route (RCtorWith d v) x g (kls_code d) h o = Some (h', o') ->
  separated h' o' o
  /\ (forall l, In l (reach h' o') -> ~ In l (reach h' o))
  /\ exists ob ob', obs h o = Some ob /\ obs h' o = Some ob /\ obs h' o' = Some ob'
        /\ o_cls ob' = kls_code d /\ faithful_on (need_known known k (RCtorWith d v)) ob ob'
        /\ length (o_scal ob') = length (o_scal ob)
        /\ (forall i, nth i (ovr_mask v) false = false -> nth_error (o_scal ob') i = nth_error (o_scal ob) i)
        /\ (r_scal x = false -> forall i, nth i (ovr_mask v) false = true -> i < length (o_scal ob) -> i < length (g_scal g) ->
               nth_error (o_scal ob') i = nth_error (g_scal g) i).
Proof. exact (table_override_sound known table C06_table_ok). Qed.
Print Assumptions C06_override_copy.

Theorem C06_override_is_copy_row : forall rt r g d h o x,
  copy_route rt r g d h o = Some x -> exists g', copy_row r g' d h o = Some x.
Proof. exact copy_route_row. Qed.
Print Assumptions C06_override_is_copy_row.

(* (3) the frame rule, for EVERY mutation: any sequence of writes / allocations confined to what the
   mutated object reaches leaves the observation of an object with a disjoint region unchanged *)
Theorem C06_mutation_frame : forall h (SA SB : loc -> Prop) a b ps,
  closed h SA -> closed h SB -> (forall l, SA l -> ~ SB l) -> SA a -> SB b ->
  prims_okb (reach h a) h ps = true ->
  obs (apply_prims h ps) b = obs h b.
Proof. exact frame_rule. Qed.
Print Assumptions C06_mutation_frame.

(* the design's formulation: disjoint reach sets imply the frame rule *)
Theorem C06_disjoint_reach_frame : forall h a b ps,
  ranked h -> a < length h -> b < length h ->
  (forall l, In l (reach h a) -> ~ In l (reach h b)) ->
  prims_okb (reach h a) h ps = true ->
  obs (apply_prims h ps) b = obs h b.
Proof. exact disjoint_reach_frame. Qed.
Print Assumptions C06_disjoint_reach_frame.

(* (4) histories: after a copy along any tabulated route, in ANY interleaved history of mutations
   through the copy and through the source, no step changes what the other side observes *)
Theorem C06_copy_then_any_history : forall k r x,
  lookup_row table k r = Some x -> lone k = false ->
  forall g h o h' o', heap_wf h -> copy_row x g (kls_code (dst_of k r)) h o = Some (h', o') ->
  forall hist, hist_okb h' o' o hist = true ->
  forall pre s ps post, hist = pre ++ (s, ps) :: post ->
    obs (apply_prims (run_hist h' pre) ps) (pick (other_side s) o' o)
    = obs (run_hist h' pre) (pick (other_side s) o' o).
Proof. exact (copy_then_history known table C06_table_ok). Qed.
Print Assumptions C06_copy_then_any_history.

(* the elementary edits of the menu (atom / bond field, coords[i], atomic_charges[i], weights[i],
   attrib[k], atoms[j].attrib[k], bonds[j].attrib[k], name/charge/mult) only write what the object
   they go through reaches -- so the frame rule applies to each of them *)
Theorem C06_menu_edits_confined : forall h o x ps,
  compile_op h o x = Some ps -> prims_okb (reach h o) h ps = true.
Proof. exact compile_op_ok. Qed.
Print Assumptions C06_menu_edits_confined.

(* observation only depends on the cells of a closed region containing the object *)
Theorem C06_observation_local : forall h1 h2 S o, closed h1 S -> S o -> agree S h1 h2 -> obs h2 o = obs h1 o.
Proof. exact obs_local. Qed.
Print Assumptions C06_observation_local.

(* (5) attribute VALUES.  The mutable values an attrib dictionary holds (lists, dicts, arrays, nested ones) are one
   more container: `CDict kv (Some l)`, `get h l = CVal content`; `vptrs` / `vreach` / `vclosed` / `vseparated` follow
   that edge, `stores` observes the content.  (5a) the regenerated table: every route whose contract is a DEEP copy
   hands out values of its own -- of the object, of its atoms and of its bonds; no route changes their content. *)
Theorem C06_deep_routes_separate_values : forall k r x,
  lookup_row table k r = Some x -> deep_route r = true -> vals_ok true x = true.
Proof. exact (table_deep_routes known table C06_table_ok). Qed.
Print Assumptions C06_deep_routes_separate_values.

Theorem C06_no_route_changes_values : forall k r x, lookup_row table k r = Some x -> vals_ok false x = true.
Proof. exact (table_no_route_changes_values known table C06_table_ok). Qed.
Print Assumptions C06_no_route_changes_values.

(* (5b) for EVERY heap and source: a pickle round trip / deepcopy along a tabulated route is separated from its source
   even through the attribute values (disjoint deep-closed regions, disjoint deep reach), leaves the source's values
   as they were, and reproduces them *)
Theorem C06_deep_copy_independent : forall k r x,
  lookup_row table k r = Some x -> lone k = false -> deep_route r = true ->
  forall g h o h' o', vheap_wf h -> copy_row x g (kls_code (dst_of k r)) h o = Some (h', o') ->
  vseparated h' o' o
  /\ (forall l, In l (vreach h' o') -> ~ In l (vreach h' o))
  /\ exists sb sb', stores h o = Some sb /\ stores h' o = Some sb /\ stores h' o' = Some sb'
                    /\ vfaithful_on (need_known known k r) sb sb'.
Proof. exact (table_deep_sound known table C06_table_ok). Qed.
Print Assumptions C06_deep_copy_independent.

Theorem C06_deep_row_sound : forall nd r g d h o h' o',
  vheap_wf h -> row_ok nd r = true -> vals_ok true r = true -> copy_row r g d h o = Some (h', o') ->
  vseparated h' o' o
  /\ (forall l, In l (vreach h' o') -> ~ In l (vreach h' o))
  /\ exists sb sb', stores h o = Some sb /\ stores h' o = Some sb /\ stores h' o' = Some sb' /\ vfaithful_on nd sb sb'.
Proof. exact copy_row_vsound. Qed.
Print Assumptions C06_deep_row_sound.

(* (5c) the deep frame rule: EVERY mutation confined to what the mutated object reaches -- in-place edits of its
   attribute values included -- leaves what a deep-separated object shows unchanged, attribute values included *)
Theorem C06_deep_mutation_frame : forall h (SA SB : loc -> Prop) a b ps,
  vclosed h SA -> vclosed h SB -> (forall l, SA l -> ~ SB l) -> SA a -> SB b ->
  vprims_okb (vreach h a) h ps = true ->
  obs (apply_prims h ps) b = obs h b /\ stores (apply_prims h ps) b = stores h b.
Proof. exact vframe_rule. Qed.
Print Assumptions C06_deep_mutation_frame.

Theorem C06_deep_disjoint_reach_frame : forall h a b ps,
  vranked h -> a < length h -> b < length h ->
  (forall l, In l (vreach h a) -> ~ In l (vreach h b)) ->
  vprims_okb (vreach h a) h ps = true ->
  obs (apply_prims h ps) b = obs h b /\ stores (apply_prims h ps) b = stores h b.
Proof. exact vdisjoint_reach_frame. Qed.
Print Assumptions C06_deep_disjoint_reach_frame.

(* (5d) after a pickle round trip / deepcopy, in ANY interleaved history of mutations through the copy and through the
   source (value edits included), no step changes what the other side shows *)
Theorem C06_deep_copy_then_any_history : forall k r x,
  lookup_row table k r = Some x -> lone k = false -> deep_route r = true ->
  forall g h o h' o', vheap_wf h -> copy_row x g (kls_code (dst_of k r)) h o = Some (h', o') ->
  forall hist, vhist_okb h' o' o hist = true ->
  forall pre s ps post, hist = pre ++ (s, ps) :: post ->
    obs (apply_prims (run_hist h' pre) ps) (pick (other_side s) o' o) = obs (run_hist h' pre) (pick (other_side s) o' o)
    /\ stores (apply_prims (run_hist h' pre) ps) (pick (other_side s) o' o)
       = stores (run_hist h' pre) (pick (other_side s) o' o).
Proof. exact (deep_copy_then_history known table C06_table_ok). Qed.
Print Assumptions C06_deep_copy_then_any_history.

(* (5e) the in-place edit of an attribute value (object / atom j / bond j level) writes the store of the dictionary
   that holds the value, which the object deep-reaches; the container edits of the menu are deep-confined too *)
Theorem C06_value_edits_confined : forall h o e ps,
  compile_vedit h o e = Some ps -> vprims_okb (vreach h o) h ps = true.
Proof. exact compile_vedit_ok. Qed.
Print Assumptions C06_value_edits_confined.

Theorem C06_menu_edits_deep_confined : forall h o x ps,
  compile_op h o x = Some ps -> vprims_okb (vreach h o) h ps = true.
Proof. exact compile_op_vok. Qed.
Print Assumptions C06_menu_edits_deep_confined.

Theorem C06_deep_observation_local : forall h1 h2 (S : loc -> Prop) o,
  vclosed h1 S -> S o -> agree S h1 h2 -> stores h2 o = stores h1 o.
Proof. exact stores_local. Qed.
Print Assumptions C06_deep_observation_local.

(* (5f) the converse, why (5a) is needed: a copy that is only one level deep (the dictionary is copied, its values are the
   source's objects -- row status VShared) DOES leak: for every heap, source and edit, the in-place edit made through
   the copy is what the source shows afterwards.  (The copy constructors of /repo are such routes: see DESIGN.) *)
Theorem C06_one_level_copy_shares_values : forall r g d h o h' o' cls sc al bl co ch we at_ kv l c0 c,
  vheap_wf h -> o < length h ->
  r_attrib r = Copied -> r_vals r = VShared ->
  copy_row r g d h o = Some (h', o') ->
  get h o = CMol cls sc al bl co ch we at_ -> get h at_ = CDict kv (Some l) -> get h l = CVal c0 ->
  exists ps, compile_vedit h' o' (VEdit WObj c) = Some ps
    /\ option_map s_obj (stores h' o) = Some (Some c0)
    /\ option_map s_obj (stores (apply_prims h' ps) o) = Some (Some c).
Proof. exact one_level_copy_leaks. Qed.
Print Assumptions C06_one_level_copy_shares_values.

(* (6) CHAINS of copy routes -- a copy of a copy (of a copy ...), e.g. a cross-class constructor applied to an unpickled
   object.  For EVERY heap, source and non-empty chain of rows that meet the specification: no step changes what ANY object
   that existed before the chain shows (the source included), the final result is separated from every one of them, and it
   is faithful to the object the chain started from on every field that all steps have to reproduce. *)
Theorem C06_copy_chain : forall steps nds h o h' o',
  steps <> [] -> steps_ok nds steps -> heap_wf h -> copy_chain steps h o = Some (h', o') ->
  heap_wf h' /\ length h <= length h'
  /\ (forall x, x < length h -> obs h' x = obs h x /\ separated h' o' x)
  /\ exists ob ob', obs h o = Some ob /\ obs h' o' = Some ob' /\ faithful_on (meet_all nds) ob ob'.
Proof. exact chain_sound. Qed.
Print Assumptions C06_copy_chain.

(* ... in particular every chain of routes of the regenerated table, k0 -r1-> dst_of k0 r1 -r2-> ... *)
Theorem C06_chain_of_tabulated_routes : forall k rs ss ns,
  rs <> [] -> route_chain table known k rs = Some (ss, ns) ->
  forall h o h' o', heap_wf h -> copy_chain ss h o = Some (h', o') ->
  heap_wf h' /\ length h <= length h'
  /\ (forall x, x < length h -> obs h' x = obs h x /\ separated h' o' x)
  /\ exists ob ob', obs h o = Some ob /\ obs h' o' = Some ob' /\ faithful_on (meet_all ns) ob ob'.
Proof. exact (table_chain_sound known table C06_table_ok). Qed.
Print Assumptions C06_chain_of_tabulated_routes.

(* ---- non-vacuity: a two-atom, one-bond molecule with attributes, charges and coordinates *)
Definition ex_heap : heap :=
  [ CMol 5 [1; 0; 1]%Z 1 (Some 2) (Some 3) (Some 4) None 5;
    CList [6; 8]; CList [10]; CArr [1; 2; 3; 4; 5; 6]%Z; CArr [7; 8]%Z; CDict [(1, 2)]%Z None;
    CAtom [6; 0]%Z 7 (PTo 0); CDict [(3, 4)]%Z None; CAtom [8; 1]%Z 9 (PTo 0); CDict [] None;
    CBond 6 8 [1; 2]%Z 11 (PTo 0); CDict [(5, 6)]%Z None ].
Definition ex_given := mk_given [] [] [] [].

Example C06_hypotheses_satisfiable :
  rankedb ex_heap = true /\ heap_wfb ex_heap = true /\
  match lookup_row table KMolecule (RCtor KMolecule) with
  | Some x =>
      match copy_row x ex_given 5 ex_heap 0 with
      | Some (h', o') =>
          o' = 12 /\ rankedb h' = true /\ disjointb (reach h' o') (reach h' 0) = true
          /\ obs_eqb (option_map (fun ob => mk_obs (o_cls ob) (o_scal ob) (o_atoms ob) (o_bonds ob) (o_coords ob)
                                                   (o_charges ob) (o_weights ob) (o_attrib ob)) (obs h' 0))
                     (obs ex_heap 0) = true
          /\ length (reach h' o') = 16 /\ length h' = 29
          /\ match compile_op h' o' (OAtomAttrib 1 [(9, 9)]%Z) with
             | Some ps => prims_okb (reach h' o') h' ps = true
                          /\ hist_okb h' o' 0 [(SideA, ps); (SideB, [PWrite 3 (CArr [0; 0; 0; 4; 5; 6]%Z)])] = true
                          /\ obs_eqb (obs (apply_prims h' ps) 0) (obs h' 0) = true
                          /\ obs_eqb (obs (apply_prims h' ps) o') (obs h' o') = false
             | None => False
             end
      | None => False
      end
  | None => False
  end.
Proof. vm_compute. repeat split; reflexivity. Qed.

(* the same molecule copied with coords= (a required route): the result has the call's coordinates in an
   array of its own, the source's name / charge / multiplicity and partial charges; the source is as it was.
   With name=: the call's name, the source's charge and multiplicity. *)
Example C06_override_hypotheses_satisfiable :
  let v := mk_ovr false false false true false false in
  let w := mk_ovr true false false false false false in
  existsb (fun kr => kls_eqb (fst kr) KMolecule && route_eqb (snd kr) (RCtorWith KMolecule v)) required = true /\
  match lookup_row table KMolecule (RCtorWith KMolecule v), lookup_row table KMolecule (RCtorWith KMolecule w) with
  | Some x, Some y =>
      match copy_route (RCtorWith KMolecule v) x (mk_given [9; 8; 7]%Z [0; 0; 0; 0; 0; 0]%Z [] []) 5 ex_heap 0,
            copy_route (RCtorWith KMolecule w) y (mk_given [9; 8; 7]%Z [] [] []) 5 ex_heap 0 with
      | Some (h', o'), Some (h'', o'') =>
          o' = 12 /\ disjointb (reach h' o') (reach h' 0) = true
          /\ obs_eqb (obs h' 0) (obs ex_heap 0) = true
          /\ option_map o_scal (obs h' o') = Some [1; 0; 1]%Z
          /\ option_map o_coords (obs h' o') = Some (Some [0; 0; 0; 0; 0; 0]%Z)
          /\ option_map o_charges (obs h' o') = Some (Some [7; 8]%Z)
          /\ r_scal y = false /\ option_map o_scal (obs h'' o'') = Some [9; 0; 1]%Z
          /\ option_map o_coords (obs h'' o'') = Some (Some [1; 2; 3; 4; 5; 6]%Z)
      | _, _ => False
      end
  | _, _ => False
  end.
Proof. vm_compute. repeat split; reflexivity. Qed.

(* the same molecule with MUTABLE attribute values at every level: an energy array on the object, a list on atom 0,
   a dictionary on the bond.  A deep copy (the RDeepcopy row of the table) is deep-separated and shows equal values; an
   in-place edit of the copy's array / of the bond's dictionary leaves the source's values alone and changes the copy's.
   The same edit after a one-level copy (the RCtor row, if the table says VShared) reaches the source. *)
Definition ex_vheap : heap :=
  [ CMol 5 [1; 0; 1]%Z 1 (Some 2) (Some 3) (Some 4) None 5;
    CList [6; 8]; CList [10]; CArr [1; 2; 3; 4; 5; 6]%Z; CArr [7; 8]%Z; CDict [(1, 2); (20, 21)]%Z (Some 12);
    CAtom [6; 0]%Z 7 (PTo 0); CDict [(3, 4); (22, 23)]%Z (Some 13); CAtom [8; 1]%Z 9 (PTo 0); CDict [] None;
    CBond 6 8 [1; 2]%Z 11 (PTo 0); CDict [(5, 6); (24, 25)]%Z (Some 14);
    CVal [30; 31; 32]%Z; CVal [40; 41]%Z; CVal [50; 51; 52; 53]%Z ].

Example C06_deep_hypotheses_satisfiable :
  vrankedb ex_vheap = true /\ vheap_wfb ex_vheap = true /\ rankedb ex_vheap = true /\
  match lookup_row table KMolecule RDeepcopy, lookup_row table KMolecule (RCtor KMolecule) with
  | Some x, Some y =>
      deep_route RDeepcopy = true /\ vals_ok true x = true /\
      match copy_row x ex_given 5 ex_vheap 0, copy_row y ex_given 5 ex_vheap 0 with
      | Some (h', o'), Some (h'', o'') =>
          o' = 15 /\ vrankedb h' = true /\ disjointb (vreach h' o') (vreach h' 0) = true
          /\ stores_eqb (stores h' o') (stores ex_vheap 0) = true
          /\ stores_eqb (stores h' 0) (stores ex_vheap 0) = true
          /\ stores_eqb (stores ex_vheap 0)
                        (Some (mk_stores (Some [30; 31; 32]%Z) [Some [40; 41]%Z; None] [Some [50; 51; 52; 53]%Z])) = true
          /\ match compile_vedit h' o' (VEdit WObj [0; 0; 0]%Z), compile_vedit h' o' (VEdit (WBond 0) [9]%Z) with
             | Some ps, Some qs =>
                 vprims_okb (vreach h' o') h' ps = true
                 /\ vhist_okb h' o' 0 [(SideA, ps); (SideB, [PWrite 13 (CVal [7; 7]%Z)]); (SideA, qs)] = true
                 /\ stores_eqb (stores (apply_prims h' (ps ++ qs)) 0) (stores h' 0) = true
                 /\ stores_eqb (stores (apply_prims h' (ps ++ qs)) o') (stores h' o') = false
             | _, _ => False
             end
          /\ match r_vals y with
             | VShared =>
                 match compile_vedit h'' o'' (VEdit WObj [0; 0; 0]%Z) with
                 | Some ps => option_map s_obj (stores (apply_prims h'' ps) 0) = Some (Some [0; 0; 0]%Z)
                              /\ disjointb (reach h'' o'') (reach h'' 0) = true
                              /\ disjointb (vreach h'' o'') (vreach h'' 0) = false
                 | None => False
                 end
             | _ => True
             end
      | _, _ => False
      end
  | _, _ => False
  end.
Proof. vm_compute. repeat split; reflexivity. Qed.

(* a chain on the example molecule: pickle round trip, then Structure(...) of the restored object, then deepcopy of that.
   The source shows what it showed, the result (a Structure: code 4) has the source's atoms, bond and coordinates, and
   reaches nothing the source or either intermediate object reaches. *)
Example C06_chain_hypotheses_satisfiable :
  match route_chain table known KMolecule [(RPickle, ex_given); (RCtor KStructure, ex_given); (RDeepcopy, ex_given)] with
  | Some (ss, ns) =>
      length ss = 3 /\ n_bonds (meet_all ns) = true /\ n_coords (meet_all ns) = true /\ n_charges (meet_all ns) = false /\
      match copy_chain ss ex_heap 0, copy_chain (firstn 1 ss) ex_heap 0, copy_chain (firstn 2 ss) ex_heap 0 with
      | Some (h', o'), Some (_, o1), Some (_, o2) =>
          obs_eqb (obs h' 0) (obs ex_heap 0) = true
          /\ option_map o_cls (obs h' o') = Some 4%Z
          /\ option_map o_coords (obs h' o') = option_map o_coords (obs ex_heap 0)
          /\ option_map (fun ob => map strip_a (o_atoms ob)) (obs h' o') = option_map (fun ob => map strip_a (o_atoms ob)) (obs ex_heap 0)
          /\ disjointb (reach h' o') (reach h' 0) = true /\ disjointb (reach h' o') (reach h' o1) = true
          /\ disjointb (reach h' o') (reach h' o2) = true /\ rankedb h' = true
      | _, _, _ => False
      end
  | None => False
  end.
Proof. vm_compute. repeat split; reflexivity. Qed.
