(* C13 -- CDXML parsing reproduces the drawing: constitution, charges, and handedness.   LABEL: PARTIAL.

   Full statement (properties.jsonl):  each labelled fragment of a CDXML file parses to a molecule with one atom per
   drawn node, one bond per drawn bond with the drawn order, the drawn isotopes, formal charges and radical counts
   (total charge and multiplicity follow), and attachment points where drawn.  Mirroring the stereo marks (wedge <->
   hash) leaves the constitution unchanged and inverts the handedness of every non-planar centre of the model,
   parsing is deterministic, and a label always resolves to the same fragment.

   What is PROVED here, about the executable model Model/Cdx.v (the same definitions the correspondence shards run
   against CDXMLFile on every bundled fragment and on generated variants):
     T  the decision tables of the RUNNING parser (regenerated into Gen/CdxTables.v on every run) equal the model on
        the whole probe product, and the probe product is complete                      (the C13_..._table_... theorems);
     1  per-node / per-bond decisions for ALL attribute values                          (C13_node_decisions and following);
     2  fragment assembly for ALL node / bond lists: one atom per node, one bond per bond (hapto bonds: one Ligand
        bond per attached atom), charge = sum, multiplicity = sum + 1, nested joins     (C13_one_atom_per_node and following);
     3  wedge <-> hash: the constitution is unchanged (also through nested fragments), the sign of every stereo
        action is negated and nothing else; on a planar drawing whose stereo bonds take the out-of-plane ROTATION
        branch (plane normal +ez), the ring branch or the Bold/Hash translation branch, the 3-D model of the mirrored drawing is the
        mirror image, so every signed volume changes sign                               (the C13_mirror_... theorems);
     4  __getitem__ is a function of (file, key): the cache only memoises              (C13_label_deterministic).
   What is NOT proved (covered by the differential run / the oracle only):
     - XML text -> element tree; the KD-tree query (modelled as "5 nearest in L1", compared differentially);
     - mean_plane (SVD): the normal is an argument; "+ez on coplanar neighbours" is a hypothesis of the mirror
       theorems, checked differentially wherever the geometric model applies;
     - stereo bonds whose centre's neighbours already left the plane z = const (accumulated displacements);
     - (the ring branch was not mirror-odd before fix 5477cee; see C13_ring_branch_refuted_before_repair)
     - hapto centres (z of the centre is set from max - min of its neighbours: even under the mirror), excluded by
       the property;  Structure.join's geometry (C12). *)
From Coq Require Import List ZArith NArith QArith String Bool Reals.
From Molli Require Import Common.Field3 Common.Field3R Model.Rot Model.Cdx Proofs.Cdx Gen.CdxTables.
Import ListNotations.

(* ====================================================================== T: the running parser's decision tables *)
(* every probe node (NodeType x Element x Isotope x Charge x Radical x NumHydrogens x AtomNumber x
   ExternalConnectionNum x GenericNickname/label text) was turned by the parser into exactly the model's atom
   (or refused exactly when the model refuses), and the rows are the whole product *)
Theorem C13_node_table_agrees : forallb (forallb node_row_ok) node_tables = true.
Proof. vm_compute. reflexivity. Qed.
Print Assumptions C13_node_table_agrees.
Theorem C13_node_table_complete : map fst (List.concat node_tables) = node_domain.
Proof. vm_compute. reflexivity. Qed.
Print Assumptions C13_node_table_complete.

(* Order x Display -> bond type and Bond.order *)
Theorem C13_bond_table_agrees :
  forallb bond_row_ok bond_table = true /\ map (fun r => (fst (fst r), snd (fst r))) bond_table = bond_domain.
Proof. vm_compute. split; reflexivity. Qed.
Print Assumptions C13_bond_table_agrees.

(* Display -> which end is the stereo centre, and the sign, read off the parsed geometry of a ring probe and of a
   star probe for every Display value *)
Theorem C13_display_table_agrees :
  forallb display_row_ok display_table = true /\ map (fun r => fst (fst r)) display_table = all_displays.
Proof. vm_compute. split; reflexivity. Qed.
Print Assumptions C13_display_table_agrees.

(* mirror antisymmetry ON THE OBSERVED TABLE: swapping wedge <-> hash negates every sign of the observed pattern and
   keeps which atoms move / which end is lifted more *)
Theorem C13_mirror_table : forall d,
  exists r r', row_of display_table d = Some r /\ row_of display_table (mirror_display d) = Some r' /\
               (snd (fst r'), snd r') = neg_row r.
Proof. intros d. apply mirror_table_sound; [vm_compute; reflexivity | apply all_displays_complete]. Qed.
Print Assumptions C13_mirror_table.

(* ====================================================================== 1: decisions, for all attribute values *)
Theorem C13_node_decisions (n : xnode) (a : atom) : parse_atom_node n = Ok a ->
  a_iso a = n_iso n /\ a_charge a = odflt 0%Z (n_charge n) /\ a_spin a = rad_code (n_rad n) /\ a_implh a = n_numh n /\
  (if is_special (n_type n) then a_atype a = ATAttachment /\ a_elem a = 0%Z
   else a_atype a = ATRegular /\ a_elem a = odflt 6%Z (n_elem n) /\ a_label a = n_anum n).
Proof. exact (parse_atom_node_spec n a). Qed.
Print Assumptions C13_node_decisions.

(* the parser refuses a node only for an element number outside 0..118 or an Unspecified node without label text *)
Theorem C13_node_accepted (n : xnode) :
  (is_special (n_type n) = false -> valid_element (odflt 6%Z (n_elem n)) = true) ->
  (n_type n = NTUnspecified -> n_text n <> None) ->
  exists a, parse_atom_node n = Ok a.
Proof. exact (parse_atom_node_total n). Qed.
Print Assumptions C13_node_accepted.

(* a drawn order (absent = 1, 1..6, 1.5) on a bond that is not dashed gives a bond type whose Bond.order is it *)
Theorem C13_drawn_order (o : xorder) (d : display) (q : Q) :
  drawn_order o = Some q -> d <> DDash -> exists t, parse_bond_type o d = Ok t /\ Qeq (order_of_btype t) q.
Proof. exact (parse_bond_type_drawn o d q). Qed.
Print Assumptions C13_drawn_order.
Theorem C13_dash_is_ligand (o : xorder) (t : N) : parse_bond_type o DDash = Ok t -> t = BT_Ligand.
Proof. exact (parse_bond_type_dash o t). Qed.
Print Assumptions C13_dash_is_ligand.

(* ====================================================================== 2: assembly, for all node / bond lists *)
(* one atom per drawn node (multi-attachment pseudo-nodes aside), in drawing order, each the parsed node (hapto
   centres re-typed); total charge = sum of drawn formal charges; multiplicity = sum of drawn radical codes + 1 *)
Theorem C13_one_atom_per_node (ns : list xnode) (xbs : list xbond) (m : mol) : assemble ns xbs = Ok m ->
  List.length (m_atoms m) = List.length (plain ns) /\
  Forall2 (fun n a => exists a0, parse_atom_node n = Ok a0 /\ (a = a0 \/ a = set_atype ATCoord a0)) (plain ns) (m_atoms m) /\
  m_charge m = zsum (map drawn_charge (plain ns)) /\
  m_mult m = (zsum (map drawn_spin (plain ns)) + 1)%Z.
Proof. exact (assemble_atoms ns xbs m). Qed.
Print Assumptions C13_one_atom_per_node.

(* without multi-attachment nodes: exactly one bond per drawn bond, in drawing order, between the atoms of the
   drawn ends, with the drawn type; and every atom is exactly the parsed node *)
Theorem C13_one_bond_per_bond (ns : list xnode) (xbs : list xbond) (m : mol) :
  filter is_multi ns = [] -> assemble ns xbs = Ok m ->
  Forall2 (bond_of_drawn (map n_id ns)) xbs (m_bonds m) /\
  Forall2 (fun n a => parse_atom_node n = Ok a) ns (m_atoms m).
Proof. exact (assemble_bonds_plain ns xbs m). Qed.
Print Assumptions C13_one_bond_per_bond.

(* in general: the bond list is the concatenation, in drawing order, of each drawn bond's contribution ... *)
Theorem C13_bonds_in_drawing_order (ns : list xnode) (xbs : list xbond) (m : mol) : assemble ns xbs = Ok m ->
  let ma := map (fun n => (n_id n, n_attach n)) (filter is_multi ns) in
  let ids := map n_id (plain ns) in
  exists groups, m_bonds m = List.concat groups /\
                 Forall2 (fun xb g => exists c, bonds_of ma ids xb = Ok (g, c)) xbs groups.
Proof. exact (assemble_bonds_groups ns xbs m). Qed.
Print Assumptions C13_bonds_in_drawing_order.
(* ... which is ONE bond for a bond between two ordinary nodes ... *)
Theorem C13_plain_bond ma ids xb g c :
  dict_get (xb_B xb) ma = None -> dict_get (xb_E xb) ma = None -> bonds_of ma ids xb = Ok (g, c) ->
  c = None /\ exists b, g = b :: nil /\ bond_of_drawn ids xb b.
Proof. exact (bonds_of_plain ma ids xb g c). Qed.
Print Assumptions C13_plain_bond.
(* ... and one Ligand bond of fractional order 1/n per attached atom for a bond to a multi-attachment node *)
Theorem C13_hapto_bond ma ids xb g c center att :
  (dict_get (xb_B xb) ma = Some att /\ center = xb_E xb) \/
  (dict_get (xb_B xb) ma = None /\ dict_get (xb_E xb) ma = Some att /\ center = xb_B xb) ->
  bonds_of ma ids xb = Ok (g, c) ->
  att <> [] /\ (exists ci, atom_index ids center = Ok ci /\ c = Some ci) /\
  Forall2 (hapto_bond ids center (List.length att)) att g.
Proof. exact (bonds_of_hapto ma ids xb g c center att). Qed.
Print Assumptions C13_hapto_bond.

(* an expanded (nested) node: the two attachment points disappear, every other atom is carried over unchanged,
   the two bonds to the attachment points become one *)
Theorem C13_join_counts (r s m : mol) (key : string) : join_sub r key s = Ok m ->
  exists i j, find_label key (m_atoms r) 0 = Some i /\ find_ap (m_atoms s) 0 = Some j /\
    m_atoms m = remove_nth i (m_atoms r) ++ remove_nth j (m_atoms s) /\
    (List.length (m_atoms m) + 2 = List.length (m_atoms r) + List.length (m_atoms s))%nat /\
    (List.length (m_bonds m) + 1 = List.length (m_bonds r) + List.length (m_bonds s))%nat.
Proof. exact (join_sub_counts r s m key). Qed.
Print Assumptions C13_join_counts.

(* whatever the nesting: charge = sum of the atoms' formal charges, multiplicity = sum of radical codes + 1 *)
Theorem C13_charge_mult (f : xfrag) (m : mol) : expand f = Ok m ->
  m_charge m = zsum (map a_charge (m_atoms m)) /\ m_mult m = (zsum (map a_spin (m_atoms m)) + 1)%Z.
Proof. exact (expand_charge_mult f m). Qed.
Print Assumptions C13_charge_mult.

(* ====================================================================== 3: wedge <-> hash *)
(* decision level: the sign of the stereo action is negated, the end that is the centre is kept, the bond type is
   untouched, unmarked bonds are untouched, and mirroring twice is the identity *)
Theorem C13_mirror_decisions (o : xorder) (d : display) :
  display_action (mirror_display d) = neg_action (display_action d) /\
  parse_bond_type o (mirror_display d) = parse_bond_type o d /\
  mirror_display (mirror_display d) = d /\
  (display_action d = None -> mirror_display d = d) /\
  (display_action d <> None -> mirror_display d <> d).
Proof.
  exact (conj (display_action_mirror d) (conj (parse_bond_type_mirror o d) (conj (mirror_display_invol d)
        (conj (mirror_fixes_unmarked d) (mirror_marked d))))).
Qed.
Print Assumptions C13_mirror_decisions.

(* the constitution of the mirrored drawing is the constitution of the drawing, nested fragments included *)
Theorem C13_mirror_constitution (f : xfrag) : expand (mirror_frag f) = expand f.
Proof. exact (expand_mirror f). Qed.
Print Assumptions C13_mirror_constitution.

Local Open Scope R_scope.
(* one out-of-plane rotation (the non-ring branch) with plane normal +ez: rotating the mirrored coordinates by the
   opposite angle gives the mirror image -- for ANY coordinates, selection, pivot and angle.
   (M . R(theta) . M = R(-theta) for an axis in the drawing plane.) *)
Theorem C13_mirror_acyclic (X : list vecR) sel i1 i2 (s c nz nax : R) (ov ov' : vecR) : 0 < nz ->
  step_acyclic ROps (map (mirror ROps) X) sel i1 i2 (- s) c (0, 0, nz) nz ov' nax
  = map (mirror ROps) (step_acyclic ROps X sel i1 i2 s c (0, 0, nz) nz ov nax).
Proof. exact (step_acyclic_mirror X sel i1 i2 s c nz nax ov ov'). Qed.
Print Assumptions C13_mirror_acyclic.

(* a whole drawing: stereo bonds taken in order, each through the rotation branch (normal +ez) or the Bold/Hash
   branch: the mirrored marks on the mirrored start give the mirror image *)
Theorem C13_mirror_equivariant (p : plan R) : Forall (fun q => good_kind (snd q)) p -> forall X : list vecR,
  run_plan ROps (map (mirror ROps) X) (mirror_plan ROps p) = map (mirror ROps) (run_plan ROps X p).
Proof. exact (run_plan_mirror p). Qed.
Print Assumptions C13_mirror_equivariant.

(* ... hence, starting from the planar drawing: every signed volume (every centre, every neighbour triple) changes sign *)
Theorem C13_mirror_inverts_handedness (p : plan R) (X : list vecR) :
  planar X -> Forall (fun q => good_kind (snd q)) p ->
  run_plan ROps X (mirror_plan ROps p) = map (mirror ROps) (run_plan ROps X p) /\
  forall i j k l,
    let Y := run_plan ROps X p in let Y' := run_plan ROps X (mirror_plan ROps p) in
    signed_volume ROps (List.nth i Y' (vzero ROps)) (List.nth j Y' (vzero ROps)) (List.nth k Y' (vzero ROps)) (List.nth l Y' (vzero ROps))
    = - signed_volume ROps (List.nth i Y (vzero ROps)) (List.nth j Y (vzero ROps)) (List.nth k Y (vzero ROps)) (List.nth l Y (vzero ROps)).
Proof. exact (mirror_inverts_handedness p X). Qed.
Print Assumptions C13_mirror_inverts_handedness.

(* the hypotheses are satisfiable by a non-trivial drawing: a centre with three neighbours, one wedge bond
   (quarter turn), and the resulting signed volume is not zero *)
Example C13_mirror_nonvacuous :
  let X : list vecR := [(0, 0, 0); (1, 0, 0); (- (1/2), 4/5, 0); (- (1/2), - (4/5), 0)] in
  let p : plan R := ((1, KAcyc [1%nat] 0%nat 1%nat 1 0 (0, 0, 1) 1 (1, 0, 0) 1) :: nil) in
  planar X /\ Forall (fun q => good_kind (snd q)) p /\
  let Y := run_plan ROps X p in
  signed_volume ROps (List.nth 0 Y (vzero ROps)) (List.nth 1 Y (vzero ROps)) (List.nth 2 Y (vzero ROps)) (List.nth 3 Y (vzero ROps)) <> 0.
Proof. exact mirror_nonvacuous. Qed.

(* the ring branch.  BEFORE the repair (fix: commit in /repo) it displaced by sign * (0, 0.5, 0.75 | 1.5): the y part
   was odd in the sign too, so the hash model was not the mirror image of the wedge model and a ring stereo
   centre came out with the same handedness for both marks.  The repaired branch displaces by
   (0, 0.5, sign * 0.75 | 1.5): it is covered by C13_mirror_equivariant (good_kind holds for KRing), and on the
   same witness the two models now have opposite, non-zero handedness. *)
Theorem C13_ring_branch_refuted_before_repair :
  (forall a1 a2 s1 s2, ring_moves_before_repair ROps (- (1)) a1 a2 s1 s2 <> shift_mirror ROps (ring_moves_before_repair ROps 1 a1 a2 s1 s2)) /\
  (planar ring_witness /\
   let Y s := step_shift ROps ring_witness (ring_moves_before_repair ROps s 0%nat 1%nat ((3%nat :: nil) :: nil) nil) in
   let vol Y := signed_volume ROps (List.nth 0 Y (vzero ROps)) (List.nth 1 Y (vzero ROps)) (List.nth 2 Y (vzero ROps)) (List.nth 3 Y (vzero ROps)) in
   vol (Y 1) = - (3 / 16) /\ vol (Y (- (1))) = - (3 / 16)).
Proof. exact (conj ring_moves_before_repair_not_mirror ring_branch_same_handedness_before_repair). Qed.
Print Assumptions C13_ring_branch_refuted_before_repair.
Theorem C13_ring_branch_mirror (x : R) a1 a2 s1 s2 :
  ring_moves ROps (- x) a1 a2 s1 s2 = shift_mirror ROps (ring_moves ROps x a1 a2 s1 s2) /\
  good_kind (KRing a1 a2 s1 s2).
Proof. exact (conj (ring_moves_mirror x a1 a2 s1 s2) I). Qed.
Print Assumptions C13_ring_branch_mirror.
Example C13_ring_branch_nonvacuous :
  let Y s := run_plan ROps ring_witness ((s, KRing 0%nat 1%nat ((3%nat :: nil) :: nil) nil) :: nil) in
  let vol Y := signed_volume ROps (List.nth 0 Y (vzero ROps)) (List.nth 1 Y (vzero ROps)) (List.nth 2 Y (vzero ROps)) (List.nth 3 Y (vzero ROps)) in
  vol (Y (- (1))) = - vol (Y 1) /\ vol (Y 1) <> 0.
Proof. exact ring_branch_opposite_handedness. Qed.
Local Close Scope R_scope.

(* ====================================================================== 4: determinism of label resolution *)
(* whatever was accessed before, in whatever order, every access to `key` answers `resolve key`:
   the cache only memoises *)
Theorem C13_label_deterministic (f : string -> option nat) (keys : list string) :
  run_gets f [] keys = map f keys.
Proof. exact (run_gets_spec f keys [] (cache_ok_nil f)). Qed.
Print Assumptions C13_label_deterministic.

(* sessions: whatever the caller did before -- lookups of any labels on any CDXMLFile object of the file, through any
   accessor, direct parses, IN-PLACE EDITS of molecules handed out earlier -- every lookup answers what the drawing says
   (the only state a CDXMLFile object keeps is the label -> fragment cache, which only memoises) *)
Theorem C13_session_lookup_describes_drawing (f : string -> option nat) (parse : option nat -> res mol) (evs : list sev) :
  session_answers f parse s_init evs = somes (map (lookup_spec f parse) evs).
Proof. exact (session_answers_spec f parse evs s_init (caches_ok_init f)). Qed.
Print Assumptions C13_session_lookup_describes_drawing.
(* ... and a molecule handed out belongs to the caller: it changes only through the caller's own edits of it *)
Theorem C13_session_result_belongs_to_caller (f : string -> option nat) (parse : option nat -> res mol) (evs : list sev)
  (st : sstate) (h : nat) (m : mol) :
  nth_error (s_heap st) h = Some m -> forallb (fun e => negb (edits_of h e)) evs = true ->
  nth_error (s_heap (session_end f parse st evs)) h = Some m.
Proof. exact (session_frame f parse evs st h m). Qed.
Print Assumptions C13_session_result_belongs_to_caller.
(* non-vacuity: look "a" up, edit the result (it becomes the empty molecule), look "a" up again, parse drawing 0 directly:
   three answers, all the drawing; the first molecule holds the edit, the second one is untouched *)
Example C13_session_nonvacuous :
  let nd i := mkNode i NTAbsent None None None RadAbsent None None None None None [] in
  let fr := (XFrag [(nd "1", None); (nd "2", None)] [mkXBond "1" "2" OAbsent DAbsent])%string in
  let f := fun k => cache_get k [("a", 0%nat)]%string in
  let evs := [EGet 0 "a" Raise; EEdit 0 (mkMol [] [] 0 1); EGet 0 "a" Raise; EParse 0 Raise]%string in
  session_answers f (parse_at [fr]) s_init evs = [expand fr; expand fr; expand fr]
  /\ (exists m, expand fr = Ok m /\ List.length (m_atoms m) = 2%nat
        /\ s_heap (session_end f (parse_at [fr]) s_init evs) = [mkMol [] [] 0 1; m; m]).
Proof. vm_compute. split; [reflexivity|]. eexists. repeat split; reflexivity. Qed.

(* non-vacuity of the assembly theorems: a hapto drawing (centre bonded to a multi-attachment node over three
   atoms, one charged radical) assembles, with 4 atoms, 3 Ligand bonds, charge -1, multiplicity 2 *)
Example C13_assemble_nonvacuous :
  let nd i t q r att := mkNode i t None None q r None None None None None att in
  let ns := [nd "1" NTAbsent None RadAbsent []; nd "2" NTAbsent (Some (-1)%Z) RadDoublet []; nd "3" NTAbsent None RadAbsent [];
             nd "4" NTAbsent None RadAbsent []; nd "9" NTMulti None RadAbsent ["1"; "2"; "3"]]%string in
  match assemble ns [mkXBond "9" "4" OAbsent DAbsent]%string with
  | Ok m => List.length (m_atoms m) = 4%nat /\ List.length (m_bonds m) = 3%nat /\ m_charge m = (-1)%Z /\ m_mult m = 2%Z
  | Raise => False
  end.
Proof. vm_compute. repeat split; reflexivity. Qed.
