(* C10 -- damaged or truncated input is rejected, never returned as a partial molecule.  Property theorems only.

   Readers: Model/Parse.v (one line per step, folded over the lines).  `load_xyz_lines` / `load_mol2_lines` are
   read_xyz / read_mol2 followed by the block -> molecule conversion of yield_from_xyz / yield_from_mol2; `Err`
   stands for "an exception".  A text is WELL FORMED in the readers' own terms (xwf_text / m2wf_text: count
   lines that int() accepts, record lines the record parsers accept), so the theorems cover bundled files as
   well as what molli writes; C10_written_* instantiate them with the xyz writer model (Gen tables, tie T).
   The correspondence shards (tie H) evaluate exactly these definitions against the implementation. *)
From Coq Require Import List Bool ZArith NArith String Lia.
From Molli Require Import Common.ParseStr Common.ParseStrFacts Model.Parse Model.XyzText Proofs.Parse Proofs.XyzText Proofs.ParseRecords
  Proofs.ParseSections Proofs.ParseAttr.
From Molli Require Import Gen.XyzElements.
Import ListNotations.
Local Open Scope list_scope.

Definition names := conv_names element_names.
Definition syms := conv_syms element_symbols.

(* ---------------------------------------------------------------- totality / progress *)
(* the model readers are total functions and consume exactly one line per step: this IS their definition *)
Theorem C10_total_xyz : forall ls, read_xyz ls = xfinish (fold_left xstep ls xinit).
Proof. reflexivity. Qed.
Theorem C10_total_mol2 : forall ls, read_mol2 true ls = m2finish true (fold_left (m2step true) ls (m2init)).
Proof. reflexivity. Qed.

(* ---------------------------------------------------------------- counts, for EVERY input text *)
(* every molecule the xyz reader returns has exactly the atoms its own count line declares *)
Theorem C10_counts_xyz : forall zero_ok vocab ls ms, load_xyz_lines zero_ok vocab ls = Ok ms -> Forall mol_ok ms.
Proof. exact load_xyz_counts. Qed.
Print Assumptions C10_counts_xyz.
(* every block / molecule the (repaired) mol2 reader returns has exactly the atom and bond records its own header declares *)
Theorem C10_counts_mol2_blocks : forall ls bs, read_mol2 true ls = Ok bs -> Forall m2block_ok bs.
Proof. exact read_mol2_counts. Qed.
Theorem C10_counts_mol2 : forall atype btype ls ms, load_mol2_lines true atype btype ls = Ok ms -> Forall mol2_ok ms.
Proof. exact load_mol2_counts. Qed.
Print Assumptions C10_counts_mol2.

(* finding 22 (repaired in /repo): the reader that neither resets the records per molecule nor checks the counts
   returns the second molecule (3 atoms, 2 bonds declared, BOND section missing) with the ONE bond of the first *)
Definition f22_text : list str := map s2l
  ["@<TRIPOS>MOLECULE"; "two"; "2 1 0 0 0"; "SMALL"; "NO_CHARGES"; "";
   "@<TRIPOS>ATOM"; "1 C 0.0 0.0 0.0 C 1 U"; "2 C 1.0 0.0 0.0 C 1 U"; "@<TRIPOS>BOND"; "1 1 2 1";
   "@<TRIPOS>MOLECULE"; "three"; "3 2 0 0 0"; "SMALL"; "NO_CHARGES"; "";
   "@<TRIPOS>ATOM"; "1 C 0.0 0.0 0.0 C 1 U"; "2 C 1.0 0.0 0.0 C 1 U"; "3 C 2.0 0.0 0.0 C 1 U"]%string.
Theorem C10_counts_refuted_before_repair :
  match read_mol2 false f22_text with
  | Ok [_; b] => mh_nbonds (mk_hdr b) = Some 2%Z /\ List.length (mk_bonds b) = 1%nat
  | _ => False
  end /\ match read_mol2 true f22_text with Err _ => True | Ok _ => False end.
Proof. vm_compute. repeat split. Qed.

(* ---------------------------------------------------------------- truncation at every line boundary *)
Theorem C10_truncate_lines_xyz : forall P zero_ok vocab bs ls ms,
  xwf_text P bs ls -> load_xyz_lines zero_ok vocab ls = Ok ms -> forall k,
  (exists e, load_xyz_lines zero_ok vocab (firstn k ls) = Err e) \/
  (exists j, load_xyz_lines zero_ok vocab (firstn k ls) = Ok (firstn j ms)).
Proof. exact load_xyz_truncated. Qed.
Print Assumptions C10_truncate_lines_xyz.
Theorem C10_truncate_lines_mol2 : forall atype btype bs ls ms,
  m2wf_text bs ls -> load_mol2_lines true atype btype ls = Ok ms -> forall k,
  (exists e, load_mol2_lines true atype btype (firstn k ls) = Err e) \/
  (exists j, load_mol2_lines true atype btype (firstn k ls) = Ok (firstn j ms)).
Proof. exact load_mol2_truncated. Qed.
Print Assumptions C10_truncate_lines_mol2.
(* and the undamaged well-formed text reads as its blocks *)
Theorem C10_wf_reads_xyz : forall P bs ls, xwf_text P bs ls -> read_xyz ls = Ok bs.
Proof. exact read_xyz_wf. Qed.
Theorem C10_wf_reads_mol2 : forall bs ls, m2wf_text bs ls -> bs <> [] -> read_mol2 true ls = Ok bs.
Proof. exact read_mol2_wf. Qed.

(* the mol2 hypotheses are satisfiable: the text molli writes for a 2-atom molecule, twice *)
Definition ex_mol2 : list str := map s2l
  ["# Produced with molli package"; "@<TRIPOS>MOLECULE"; "two"; "2 1 0 0 0"; "SMALL"; "USER_CHARGES"; "";
   "@<TRIPOS>ATOM"; "     1 C       0.000000     0.000000     0.000000 C          1 UNL1 0.000";
   "     2 C       1.000000     0.000000     0.000000 C          1 UNL1 0.000"; "@<TRIPOS>BOND"; "     1      1      2   1"]%string.
Example C10_mol2_wf_nonvacuous : exists bs, m2wf_text bs (ex_mol2 ++ ex_mol2) /\ List.length bs = 2%nat.
Proof.
  assert (H : exists b, m2wf b ex_mol2).
  { eexists. unfold ex_mol2. cbn [map].
    eapply (m2wf_intro [_] _ _ _ _ _ _ _ [_; _] _ [_]).
    - constructor; [right; eexists; vm_compute; reflexivity|constructor].
    - do 2 eexists. repeat split; vm_compute; reflexivity.
    - vm_compute. reflexivity.
    - split; vm_compute; reflexivity.
    - do 2 eexists. repeat split; vm_compute; reflexivity.
    - instantiate (1 := [_; _]). reflexivity.
    - constructor; [split; [reflexivity|vm_compute; lia]|constructor; [split; [reflexivity|vm_compute; lia]|constructor]].
    - do 2 eexists. repeat split; vm_compute; reflexivity.
    - instantiate (1 := [_]). reflexivity.
    - constructor; [split; [reflexivity|vm_compute; lia]|constructor]. }
  destruct H as [b Hb]. exists [b; b]. split; [|reflexivity].
  rewrite <- (app_nil_r (ex_mol2 ++ ex_mol2)), <- app_assoc. repeat constructor; assumption.
Qed.

(* ---------------------------------------------------------------- one line deleted / duplicated (xyz) *)
(* comment_ok: the comment (name) line is not itself an integer -- see C10_comment_hypothesis_needed *)
Theorem C10_delete_line_xyz : forall zero_ok vocab bs ls i, xwf_text comment_ok bs ls -> (i < List.length ls)%nat ->
  exists e, load_xyz_lines zero_ok vocab (del_nth i ls) = Err e.
Proof. exact load_xyz_deleted. Qed.
Print Assumptions C10_delete_line_xyz.
Theorem C10_dup_line_xyz : forall zero_ok vocab bs ls i, xwf_text comment_ok bs ls -> (i < List.length ls)%nat ->
  exists e, load_xyz_lines zero_ok vocab (dup_nth i ls) = Err e.
Proof. exact load_xyz_duplicated. Qed.
Print Assumptions C10_dup_line_xyz.
(* why the hypothesis: with the name "2", deleting the count line of [3; 2; a1; a2; a3] leaves the well-formed text
   [2; a1; a2; a3], a DIFFERENT complete molecule -- no reader can notice (format limit, like finding 36) *)
Example C10_comment_hypothesis_needed :
  let t := map s2l ["3"; "2"; "C 0 0 0"; "H 1 0 0"; "H 2 0 0"]%string in
  match load_xyz names (del_nth 0 t) with Ok [m] => m_natoms m = 2%Z | _ => False end.
Proof. vm_compute. reflexivity. Qed.

(* ---------------------------------------------------------------- texts written by molli (tie T for the vocabulary) *)
Theorem C10_vocabulary : vocab_ok names syms = true.
Proof. vm_compute. reflexivity. Qed.
Theorem C10_written_truncated : forall gs ls, write_xyz syms gs = Some ls -> forall k,
  (exists e, load_xyz names (firstn k ls) = Err e) \/ (exists j, load_xyz names (firstn k ls) = Ok (firstn j (map geom_mol gs))).
Proof. intros gs ls. apply written_xyz_truncated. exact C10_vocabulary. Qed.
Theorem C10_written_deleted : forall gs ls i, Forall name_ok gs -> write_xyz syms gs = Some ls -> (i < List.length ls)%nat ->
  exists e, load_xyz names (del_nth i ls) = Err e.
Proof. intros gs ls i. apply written_xyz_deleted. exact C10_vocabulary. Qed.
Theorem C10_written_duplicated : forall gs ls i, Forall name_ok gs -> write_xyz syms gs = Some ls -> (i < List.length ls)%nat ->
  exists e, load_xyz names (dup_nth i ls) = Err e.
Proof. intros gs ls i. apply written_xyz_duplicated. exact C10_vocabulary. Qed.
Print Assumptions C10_written_deleted.
Example C10_written_nonvacuous :
  let gs := [mk_wgeom (s2l "w 1") [mk_watom 8 (true, 0%N) (false, 1234567%N) (true, 99999999999%N);
                                   mk_watom 17 (false, 5%N) (false, 0%N) (false, 1%N)];
             mk_wgeom (s2l "second") []] in
  Forall name_ok gs /\ match write_xyz syms gs with Some ls => List.length ls = 6%nat | None => False end.
Proof. split; [repeat (constructor; [vm_compute; reflexivity|]); constructor|vm_compute; reflexivity]. Qed.

(* ---------------------------------------------------------------- the last record cut anywhere (xyz) *)
(* the last line replaced by ANY line l' (in particular by each of its prefixes): an error, or the same molecules
   with the last atom replaced by what l' parses to *)
Theorem C10_last_line_xyz : forall P bs0 pre0 cl cm als ats n a last l',
  xwf_text P bs0 pre0 -> parse_int cl = Some n -> n = Z.of_nat (S (List.length ats)) ->
  Forall2 (fun l a => xyz_atom l = Some a) als ats -> xyz_atom last = Some a ->
  read_xyz (pre0 ++ cl :: cm :: als ++ [last]) = Ok (bs0 ++ [mk_xblock n (strip cm) (ats ++ [a])]) /\
  match xyz_atom l' with
  | None => exists e, read_xyz (pre0 ++ cl :: cm :: als ++ [l']) = Err e
  | Some a' => read_xyz (pre0 ++ cl :: cm :: als ++ [l']) = Ok (bs0 ++ [mk_xblock n (strip cm) (ats ++ [a'])])
  end.
Proof. exact read_xyz_last_line. Qed.
(* a cut at a token boundary of the last line: an error, or exactly the undamaged result *)
Theorem C10_truncate_tokens_xyz : forall P bs0 pre0 cl cm als ats n a last l' j,
  xwf_text P bs0 pre0 -> parse_int cl = Some n -> n = Z.of_nat (S (List.length ats)) ->
  Forall2 (fun l a => xyz_atom l = Some a) als ats -> xyz_atom last = Some a ->
  split l' = firstn j (split last) ->
  (exists e, read_xyz (pre0 ++ cl :: cm :: als ++ [l']) = Err e) \/
  read_xyz (pre0 ++ cl :: cm :: als ++ [l']) = read_xyz (pre0 ++ cl :: cm :: als ++ [last]).
Proof. exact read_xyz_cut_token_boundary. Qed.
(* finding 36 (format limit, recorded): a cut at ANY byte offset b of the last record that is still accepted yields
   an atom that differs from the original at most in its LAST token, which is then a proper prefix of the
   original token (3.456700 -> 3.4): symbol, x and y are untouched *)
Theorem C10_last_token_only : forall last a b a', xyz_atom last = Some a -> xyz_atom (firstn b last) = Some a' ->
  xa_sym a' = xa_sym a /\ xa_x a' = xa_x a /\ xa_y a' = xa_y a /\
  (a' = a \/ exists t zt, nth 3 (split last) [] = zt /\ nprefix t zt /\ parse_float t = Some (xa_z a')).
Proof. exact xyz_atom_cut. Qed.
Print Assumptions C10_last_token_only.
Example C10_known_last_token_witness :
  let last := s2l "C     1.000000     2.000000     3.456700" in
  match xyz_atom last, xyz_atom (firstn 35 last) with
  | Some a, Some a' => xa_z a = FNum false 3456700 (-6) /\ xa_z a' = FNum false 34 (-1)
  | _, _ => False
  end.
Proof. vm_compute. split; reflexivity. Qed.

(* ---------------------------------------------------------------- one line deleted / duplicated (mol2) *)
(* m2wfs_text = m2wf_text plus what makes a shifted line unmistakable: the name line is not a TRIPOS record and
   not a list of integers, mol_type is not a list of integers, the charge-type line is neither a record nor "****",
   record lines are not blank/comment/TRIPOS lines, section records have fewer than 4 tokens, and a blank/comment
   line in front of a molecule can never be taken for a bond record (see C10_mol2_wfs_nonvacuous: all of this holds
   for the text molli writes).  Result: an exception, or exactly the molecules of the undamaged text. *)
Theorem C10_delete_line_mol2 : forall atype btype bs ls ms i,
  m2wfs_text bs ls -> load_mol2_lines true atype btype ls = Ok ms -> (i < List.length ls)%nat ->
  (exists e, load_mol2_lines true atype btype (del_nth i ls) = Err e) \/ load_mol2_lines true atype btype (del_nth i ls) = Ok ms.
Proof. exact load_mol2_deleted. Qed.
Print Assumptions C10_delete_line_mol2.
Theorem C10_dup_line_mol2 : forall atype btype bs ls ms i,
  m2wfs_text bs ls -> load_mol2_lines true atype btype ls = Ok ms -> (i < List.length ls)%nat ->
  (exists e, load_mol2_lines true atype btype (dup_nth i ls) = Err e) \/ load_mol2_lines true atype btype (dup_nth i ls) = Ok ms.
Proof. exact load_mol2_duplicated. Qed.
Print Assumptions C10_dup_line_mol2.
(* at block level the three possible outcomes are: exception / the same blocks up to the (unobserved) charge-type
   field / a block holding a record that the conversion layer is bound to refuse *)
Theorem C10_delete_line_mol2_blocks : forall bs ls i, m2wfs_text bs ls -> (i < List.length ls)%nat ->
  damaged_result (read_mol2 true (del_nth i ls)) bs.
Proof. exact read_mol2_deleted. Qed.

Example C10_mol2_wfs_nonvacuous : exists bs, m2wfs_text bs (ex_mol2 ++ ex_mol2) /\ List.length bs = 2%nat.
Proof.
  assert (H : exists b, m2wfs b ex_mol2).
  { eexists. unfold ex_mol2. cbn [map].
    eapply (m2wfs_intro [_] _ _ _ _ _ _ _ [_; _] _ [_]).
    - constructor; [right; eexists; vm_compute; reflexivity|constructor].
    - do 2 eexists. repeat split; vm_compute; reflexivity.
    - vm_compute. reflexivity.
    - split; vm_compute; reflexivity.
    - do 2 eexists. repeat split; vm_compute; reflexivity.
    - instantiate (1 := [_; _]). reflexivity.
    - constructor; [split; [reflexivity|vm_compute; lia]|constructor; [split; [reflexivity|vm_compute; lia]|constructor]].
    - do 2 eexists. repeat split; vm_compute; reflexivity.
    - instantiate (1 := [_]). reflexivity.
    - constructor; [split; [reflexivity|vm_compute; lia]|constructor].
    - constructor; [right; intros btype n; eexists; vm_compute; reflexivity|constructor].
    - vm_compute. lia.
    - vm_compute. reflexivity.
    - intros n c. eexists. vm_compute. reflexivity.
    - do 2 eexists. repeat split; vm_compute; reflexivity.
    - intros n c. eexists. vm_compute. reflexivity.
    - split; vm_compute; reflexivity.
    - vm_compute. lia.
    - vm_compute. lia.
    - repeat (constructor; [do 2 eexists; repeat split; vm_compute; reflexivity|]). constructor.
    - repeat (constructor; [do 2 eexists; repeat split; vm_compute; reflexivity|]). constructor. }
  destruct H as [b Hb]. exists [b; b]. split; [|reflexivity].
  rewrite <- (app_nil_r (ex_mol2 ++ ex_mol2)), <- app_assoc. repeat constructor; assumption.
Qed.

(* ---------------------------------------------------------------- a record damaged in place (mol2) *)
(* The count check cannot see a record that was cut mid-line or lost a token (the NUMBER of records is unchanged); what
   rejects it is the column count of the record parser.  The hypotheses are the components of m2wf (a well-formed text
   pre0 of blocks bs0 followed by one more molecule: blank/comment lines, the MOLECULE record, five header lines, the
   ATOM section); the damaged line l' is ARBITRARY, so each prefix of the original record and the record with any token
   dropped are covered, and so is anything that follows the line (post). *)
Theorem C10_short_atom_record_mol2 : forall bs0 pre0 ign lm name counts mtype ctype status la als h atoms,
  m2wf_text bs0 pre0 -> Forall ignorable ign -> is_sec lm SMolecule ->
  m2header (strip name) (strip counts) (strip ctype) = Ok h -> plain_status status -> is_sec la SAtom ->
  mh_natoms h = Z.of_nat (List.length atoms) -> Forall2 atom_line_of als atoms ->
  forall j l' post, (j < List.length als)%nat -> few_tokens 5 l' ->
  exists e, read_mol2 true (pre0 ++ ign ++ lm :: name :: counts :: mtype :: ctype :: status ::
                            la :: firstn j als ++ l' :: post) = Err e.
Proof. exact read_mol2_short_atom. Qed.
Print Assumptions C10_short_atom_record_mol2.
(* bls0: the bond records in front of the damaged one; the header declares more than these *)
Theorem C10_short_bond_record_mol2 : forall bs0 pre0 ign lm name counts mtype ctype status la lb als h atoms,
  m2wf_text bs0 pre0 -> Forall ignorable ign -> is_sec lm SMolecule ->
  m2header (strip name) (strip counts) (strip ctype) = Ok h -> plain_status status -> is_sec la SAtom ->
  mh_natoms h = Z.of_nat (List.length atoms) -> Forall2 atom_line_of als atoms ->
  forall bls0 bonds0, is_sec lb SBond ->
  forall nb l' post, mh_nbonds h = Some nb -> (Z.of_nat (List.length bls0) < nb)%Z ->
  Forall2 bond_line_of bls0 bonds0 -> few_tokens 4 l' ->
  exists e, read_mol2 true (pre0 ++ ign ++ lm :: name :: counts :: mtype :: ctype :: status ::
                            la :: als ++ lb :: bls0 ++ l' :: post) = Err e.
Proof. exact read_mol2_short_bond. Qed.
Print Assumptions C10_short_bond_record_mol2.
(* the last bond record of a text replaced by ANY line (mol2 counterpart of C10_last_line_xyz): an exception, or the same
   blocks with exactly that record replaced by the tokens of l' *)
Theorem C10_last_bond_line_mol2 : forall bs0 pre0 ign lm name counts mtype ctype status la lb als h atoms,
  m2wf_text bs0 pre0 -> Forall ignorable ign -> is_sec lm SMolecule ->
  m2header (strip name) (strip counts) (strip ctype) = Ok h -> plain_status status -> is_sec la SAtom ->
  mh_natoms h = Z.of_nat (List.length atoms) -> Forall2 atom_line_of als atoms ->
  forall bls0 bonds0, is_sec lb SBond -> mh_nbonds h = Some (Z.of_nat (S (List.length bonds0))) ->
  Forall2 bond_line_of bls0 bonds0 -> forall l',
  let text := pre0 ++ ign ++ lm :: name :: counts :: mtype :: ctype :: status :: la :: als ++ lb :: bls0 ++ [l'] in
  (few_tokens 4 l' -> exists e, read_mol2 true text = Err e) /\
  (~ few_tokens 4 l' -> read_mol2 true text = Ok (bs0 ++ [mk_m2block h atoms (bonds0 ++ [mk_m2bond (split (strip l'))])])).
Proof. exact read_mol2_last_bond_line. Qed.
Print Assumptions C10_last_bond_line_mol2.
(* a cut at a token boundary of the last bond record: an exception, or exactly the molecules of the undamaged text
   (mol2 counterpart of C10_truncate_tokens_xyz; `last` is the undamaged record) *)
Theorem C10_truncate_tokens_mol2 : forall bs0 pre0 ign lm name counts mtype ctype status la lb als h atoms,
  m2wf_text bs0 pre0 -> Forall ignorable ign -> is_sec lm SMolecule ->
  m2header (strip name) (strip counts) (strip ctype) = Ok h -> plain_status status -> is_sec la SAtom ->
  mh_natoms h = Z.of_nat (List.length atoms) -> Forall2 atom_line_of als atoms ->
  forall bls0 bonds0, is_sec lb SBond -> mh_nbonds h = Some (Z.of_nat (S (List.length bonds0))) ->
  Forall2 bond_line_of bls0 bonds0 -> forall atype btype last l' j,
  ~ few_tokens 4 last -> split (strip l') = firstn j (split (strip last)) ->
  let text x := pre0 ++ ign ++ lm :: name :: counts :: mtype :: ctype :: status :: la :: als ++ lb :: bls0 ++ [x] in
  (exists e, load_mol2_lines true atype btype (text l') = Err e) \/
  load_mol2_lines true atype btype (text l') = load_mol2_lines true atype btype (text last).
Proof. exact load_mol2_cut_token_boundary. Qed.
Print Assumptions C10_truncate_tokens_mol2.

(* the hypotheses are satisfiable: the second molecule of ex_mol2 ++ ex_mol2 with its only bond record `1 1 2 1` cut to
   `1 1 2` (and, with a default for the type column, that line would read as a complete bond) *)
Example C10_short_bond_nonvacuous :
  exists e, read_mol2 true (ex_mol2 ++ removelast ex_mol2 ++ [s2l "     1      1      2"]) = Err e.
Proof.
  assert (H : exists b, m2wf b ex_mol2).
  { eexists. unfold ex_mol2. cbn [map].
    eapply (m2wf_intro [_] _ _ _ _ _ _ _ [_; _] _ [_]).
    - constructor; [right; eexists; vm_compute; reflexivity|constructor].
    - do 2 eexists. repeat split; vm_compute; reflexivity.
    - vm_compute. reflexivity.
    - split; vm_compute; reflexivity.
    - do 2 eexists. repeat split; vm_compute; reflexivity.
    - instantiate (1 := [_; _]). reflexivity.
    - constructor; [split; [reflexivity|vm_compute; lia]|constructor; [split; [reflexivity|vm_compute; lia]|constructor]].
    - do 2 eexists. repeat split; vm_compute; reflexivity.
    - instantiate (1 := [_]). reflexivity.
    - constructor; [split; [reflexivity|vm_compute; lia]|constructor]. }
  destruct H as [b Hb].
  assert (Ht : m2wf_text [b] ex_mol2).
  { rewrite <- (app_nil_r ex_mol2). repeat constructor. exact Hb. }
  unfold ex_mol2 at 2. cbn [map removelast app].
  eapply C10_short_bond_record_mol2 with (bs0 := [b]) (pre0 := ex_mol2) (ign := [_]) (als := [_; _]) (atoms := [_; _])
    (bls0 := []) (bonds0 := []) (nb := 1%Z) (post := []).
  all: try exact Ht.
  - constructor; [right; eexists; vm_compute; reflexivity|constructor].
  - do 2 eexists. repeat split; vm_compute; reflexivity.
  - vm_compute. reflexivity.
  - split; vm_compute; reflexivity.
  - do 2 eexists. repeat split; vm_compute; reflexivity.
  - reflexivity.
  - constructor; [split; [reflexivity|vm_compute; lia]|constructor; [split; [reflexivity|vm_compute; lia]|constructor]].
  - do 2 eexists. repeat split; vm_compute; reflexivity.
  - reflexivity.
  - reflexivity.
  - constructor.
  - vm_compute. lia.
Qed.

(* ---------------------------------------------------------------- section layouts (mol2): order and kind of the TRIPOS sections *)
(* The theorems above speak about texts in the layout molli writes (MOLECULE, ATOM, BOND).  A mol2 text may carry any other
   TRIPOS sections, anywhere; the reader skips the lines of those it does not know, and while it skips, the "unexpected
   syntax" guard of its main loop -- the only thing that refuses a surplus line after a complete ATOM / BOND section -- is
   off.  Below, the prefix `pre` of the text is ARBITRARY (any sections, any order, damaged or not): it only has to leave
   the reader in its main loop (state v, whatever its skip flag). *)
(* a TRIPOS record is dispatched the same whatever the skip flag, and every supported one leaves the flag cleared *)
Theorem C10_tag_any_skip_mol2 : forall v b l, is_tag l ->
  m2step true (MRun MMain (set_skip b v)) l = m2step true (MRun MMain v) l.
Proof. exact tag_any_skip. Qed.
Theorem C10_tag_clears_skip_mol2 : forall v l s m v', is_sec l s -> s <> SOther ->
  m2step true (MRun MMain v) l = MRun m v' -> v_skip v' = false.
Proof. exact tag_clears_skip. Qed.
(* unsupported blocks (and blank / comment lines) in front of a TRIPOS record, or at the end of the text, carry nothing *)
Theorem C10_unsupported_erasable_mol2 : forall pre X t rest v, m2run true m2init pre = MRun MMain v -> skippable X -> is_tag t ->
  read_mol2 true (pre ++ X ++ t :: rest) = read_mol2 true (pre ++ t :: rest).
Proof. exact unsupported_erasable. Qed.
Theorem C10_unsupported_erasable_end_mol2 : forall pre X v, m2run true m2init pre = MRun MMain v -> skippable X ->
  read_mol2 true (pre ++ X) = read_mol2 true pre.
Proof. exact unsupported_erasable_end. Qed.
Print Assumptions C10_unsupported_erasable_mol2.
(* a complete ATOM / BOND section followed by a line that is not blank, not a comment and not a TRIPOS record: refused *)
Theorem C10_surplus_after_atoms_mol2 : forall pre v h la als atoms x post,
  m2run true m2init pre = MRun MMain v -> v_hdr v = Some h -> is_sec la SAtom ->
  mh_natoms h = Z.of_nat (List.length atoms) -> Forall2 atom_line_of als atoms -> other_line x ->
  exists e, read_mol2 true (pre ++ la :: als ++ x :: post) = Err e.
Proof. exact surplus_after_atoms. Qed.
Print Assumptions C10_surplus_after_atoms_mol2.
Theorem C10_surplus_after_bonds_mol2 : forall pre v h lb bls bonds x post,
  m2run true m2init pre = MRun MMain v -> v_hdr v = Some h -> is_sec lb SBond ->
  mh_nbonds h = Some (Z.of_nat (List.length bonds)) -> Forall2 bond_line_of bls bonds -> other_line x ->
  exists e, read_mol2 true (pre ++ lb :: bls ++ x :: post) = Err e.
Proof. exact surplus_after_bonds. Qed.
Print Assumptions C10_surplus_after_bonds_mol2.
(* more record lines than the header declares / one record duplicated: refused, never "first n records, rest dropped" *)
Theorem C10_too_many_atom_records_mol2 : forall pre v h la als atoms n post,
  m2run true m2init pre = MRun MMain v -> v_hdr v = Some h -> is_sec la SAtom ->
  mh_natoms h = Z.of_nat n -> Forall2 atom_line_of als atoms -> Forall other_line als -> (n < List.length als)%nat ->
  exists e, read_mol2 true (pre ++ la :: als ++ post) = Err e.
Proof. exact too_many_atom_records. Qed.
Theorem C10_too_many_bond_records_mol2 : forall pre v h lb bls bonds n post,
  m2run true m2init pre = MRun MMain v -> v_hdr v = Some h -> is_sec lb SBond ->
  mh_nbonds h = Some (Z.of_nat n) -> Forall2 bond_line_of bls bonds -> Forall other_line bls -> (n < List.length bls)%nat ->
  exists e, read_mol2 true (pre ++ lb :: bls ++ post) = Err e.
Proof. exact too_many_bond_records. Qed.
Theorem C10_dup_atom_record_sectioned_mol2 : forall pre v h la als atoms j post,
  m2run true m2init pre = MRun MMain v -> v_hdr v = Some h -> is_sec la SAtom ->
  mh_natoms h = Z.of_nat (List.length atoms) -> Forall2 atom_line_of als atoms -> Forall other_line als ->
  (j < List.length als)%nat ->
  exists e, read_mol2 true (pre ++ la :: dup_nth j als ++ post) = Err e.
Proof. exact dup_atom_record. Qed.
Print Assumptions C10_dup_atom_record_sectioned_mol2.
Theorem C10_dup_bond_record_sectioned_mol2 : forall pre v h lb bls bonds j post,
  m2run true m2init pre = MRun MMain v -> v_hdr v = Some h -> is_sec lb SBond ->
  mh_nbonds h = Some (Z.of_nat (List.length bonds)) -> Forall2 bond_line_of bls bonds -> Forall other_line bls ->
  (j < List.length bls)%nat ->
  exists e, read_mol2 true (pre ++ lb :: dup_nth j bls ++ post) = Err e.
Proof. exact dup_bond_record. Qed.
Print Assumptions C10_dup_bond_record_sectioned_mol2.

(* the hypotheses are satisfiable with the skip state ENTERED: a molecule whose header is followed by an unsupported COMMENT
   block leaves the reader in its main loop with the flag set; its ATOM section with either record duplicated is refused,
   whatever follows; and the block in front of the ATOM record can be erased *)
Definition ex_sect_pre : list str := map s2l
  ["@<TRIPOS>MOLECULE"; "two"; "2 1 0 0 0"; "SMALL"; "USER_CHARGES"; ""; "@<TRIPOS>COMMENT"; "written by another program"]%string.
Definition ex_sect_la : str := s2l "@<TRIPOS>ATOM".
Definition ex_sect_atoms : list str := map s2l
  ["     1 C       0.000000     0.000000     0.000000 C          1 UNL1 0.000";
   "     2 C       1.000000     0.000000     0.000000 C          1 UNL1 0.000"]%string.
Example C10_sectioned_nonvacuous :
  (exists v h, m2run true m2init ex_sect_pre = MRun MMain v /\ v_skip v = true /\ v_hdr v = Some h /\ mh_natoms h = 2%Z) /\
  (forall j post, (j < 2)%nat -> exists e, read_mol2 true (ex_sect_pre ++ ex_sect_la :: dup_nth j ex_sect_atoms ++ post) = Err e) /\
  (forall rest, read_mol2 true (firstn 6 ex_sect_pre ++ skipn 6 ex_sect_pre ++ ex_sect_la :: rest)
                = read_mol2 true (firstn 6 ex_sect_pre ++ ex_sect_la :: rest)).
Proof.
  split; [|split].
  - do 2 eexists. repeat split; vm_compute; reflexivity.
  - intros j post Hj.
    eapply C10_dup_atom_record_sectioned_mol2 with (atoms := [_; _]).
    + vm_compute. reflexivity.
    + reflexivity.
    + do 2 eexists. repeat split; vm_compute; reflexivity.
    + reflexivity.
    + constructor; [split; [reflexivity|vm_compute; lia]|constructor; [split; [reflexivity|vm_compute; lia]|constructor]].
    + repeat (constructor; [do 2 eexists; repeat split; vm_compute; reflexivity|]). constructor.
    + exact Hj.
  - intros rest. eapply C10_unsupported_erasable_mol2.
    + vm_compute. reflexivity.
    + cbn [skipn ex_sect_pre map]. apply (sk_sec _ [_] []).
      * do 2 eexists. repeat split; vm_compute; reflexivity.
      * constructor; [vm_compute; reflexivity|constructor].
      * constructor.
    + do 2 eexists. split; vm_compute; reflexivity.
Qed.

(* ---------------------------------------------------------------- sections whose length a count of their own declares *)
(* UNITY_ATOM_ATTR / UNITY_BOND_ATTR: `<id> <n_attr>` followed by exactly n_attr `<name> <value>` lines.  The ATOM / BOND counts
   of the header are met whatever happens in there.  `pre` is ANY prefix that leaves the reader inside such a section. *)
Theorem C10_unity_atom_group_short_mol2 : forall pre v hd idx n als tl, m2run true m2init pre = MRun MUAtom v ->
  tripos_name (strip hd) = None -> two_ints (strip hd) = Some (idx, n) -> Forall two_tok als ->
  (Z.of_nat (List.length als) < n)%Z -> closes tl ->
  exists e, read_mol2 true (pre ++ hd :: als ++ tl) = Err e.
Proof. exact unity_atom_group_short_read. Qed.
Theorem C10_unity_atom_attr_deleted_mol2 : forall pre v hd idx n als i tl, m2run true m2init pre = MRun MUAtom v ->
  tripos_name (strip hd) = None -> two_ints (strip hd) = Some (idx, n) -> Forall two_tok als ->
  Z.of_nat (List.length als) = n -> (i < List.length als)%nat -> closes tl ->
  exists e, read_mol2 true (pre ++ hd :: del_nth i als ++ tl) = Err e.
Proof. exact unity_atom_attr_deleted_read. Qed.
Print Assumptions C10_unity_atom_attr_deleted_mol2.
Theorem C10_unity_atom_attr_deleted_before_group_mol2 : forall pre v hd idx n als i g y rest, m2run true m2init pre = MRun MUAtom v ->
  tripos_name (strip hd) = None -> two_ints (strip hd) = Some (idx, n) -> Forall two_tok als ->
  Z.of_nat (List.length als) = n -> (i < List.length als)%nat ->
  two_tok g -> tripos_name (strip y) = None -> two_ints (strip y) = None ->
  exists e, read_mol2 true (pre ++ hd :: del_nth i als ++ g :: y :: rest) = Err e.
Proof. exact unity_atom_attr_deleted_before_group_read. Qed.
Print Assumptions C10_unity_atom_attr_deleted_before_group_mol2.
Theorem C10_unity_atom_header_bad_mol2 : forall pre v l rest, m2run true m2init pre = MRun MUAtom v ->
  tripos_name (strip l) = None -> two_ints (strip l) = None ->
  exists e, read_mol2 true (pre ++ l :: rest) = Err e.
Proof. exact unity_atom_header_bad_read. Qed.
Theorem C10_unity_bond_group_short_mol2 : forall pre v hd idx n als tl, m2run true m2init pre = MRun MUBond v ->
  tripos_name (strip hd) = None -> two_ints (strip hd) = Some (idx, n) -> Forall two_tok als ->
  (Z.of_nat (List.length als) < n)%Z -> closes tl ->
  exists e, read_mol2 true (pre ++ hd :: als ++ tl) = Err e.
Proof. exact unity_bond_group_short_read. Qed.
Theorem C10_unity_bond_attr_deleted_mol2 : forall pre v hd idx n als i tl, m2run true m2init pre = MRun MUBond v ->
  tripos_name (strip hd) = None -> two_ints (strip hd) = Some (idx, n) -> Forall two_tok als ->
  Z.of_nat (List.length als) = n -> (i < List.length als)%nat -> closes tl ->
  exists e, read_mol2 true (pre ++ hd :: del_nth i als ++ tl) = Err e.
Proof. exact unity_bond_attr_deleted_read. Qed.
Print Assumptions C10_unity_bond_attr_deleted_mol2.
Theorem C10_unity_bond_attr_deleted_before_group_mol2 : forall pre v hd idx n als i g y rest, m2run true m2init pre = MRun MUBond v ->
  tripos_name (strip hd) = None -> two_ints (strip hd) = Some (idx, n) -> Forall two_tok als ->
  Z.of_nat (List.length als) = n -> (i < List.length als)%nat ->
  two_tok g -> tripos_name (strip y) = None -> two_ints (strip y) = None ->
  exists e, read_mol2 true (pre ++ hd :: del_nth i als ++ g :: y :: rest) = Err e.
Proof. exact unity_bond_attr_deleted_before_group_read. Qed.
Theorem C10_unity_bond_header_bad_mol2 : forall pre v l rest, m2run true m2init pre = MRun MUBond v ->
  tripos_name (strip l) = None -> two_ints (strip l) = None ->
  exists e, read_mol2 true (pre ++ l :: rest) = Err e.
Proof. exact unity_bond_header_bad_read. Qed.

(* the hypotheses are satisfiable: a molecule up to its UNITY_ATOM_ATTR record leaves the reader inside the section; the group
   `1 2` / `charge 1` / `tag x9` with either attribute line deleted is refused in front of the closing TRIPOS record, at the end
   of the text, and in front of another group with an attribute.  What is NOT refused is the format limit: an attribute line
   deleted in front of a group that declares no attribute, followed by a further well-formed group -- the damaged text is a
   well-formed section itself (recorded known finding optional-section:damaged-text-still-well-formed). *)
Definition ex_unity_pre : list str := map s2l
  ["@<TRIPOS>MOLECULE"; "two"; "2 1 0 0 0"; "SMALL"; "NO_CHARGES"; ""; "@<TRIPOS>ATOM";
   "     1 N       0.000000     0.000000     0.000000 N.4        1 UNL1";
   "     2 C       1.000000     0.000000     0.000000 C.3        1 UNL1"; "@<TRIPOS>UNITY_ATOM_ATTR"]%string.
Definition ex_unity_hd : str := s2l "1 2".
Definition ex_unity_attrs : list str := map s2l ["charge 1"; "tag x9"]%string.
Definition ex_unity_bond : list str := map s2l ["@<TRIPOS>BOND"; "     1      1      2   1"]%string.
Example C10_unity_nonvacuous :
  (exists v, m2run true m2init ex_unity_pre = MRun MUAtom v) /\
  (exists bs, read_mol2 true (ex_unity_pre ++ ex_unity_hd :: ex_unity_attrs ++ ex_unity_bond) = Ok bs) /\
  (forall i, (i < 2)%nat -> exists e, read_mol2 true (ex_unity_pre ++ ex_unity_hd :: del_nth i ex_unity_attrs ++ ex_unity_bond) = Err e) /\
  (forall i, (i < 2)%nat -> exists e, read_mol2 true (ex_unity_pre ++ ex_unity_hd :: del_nth i ex_unity_attrs ++ []) = Err e) /\
  (forall i rest, (i < 2)%nat ->
     exists e, read_mol2 true (ex_unity_pre ++ ex_unity_hd :: del_nth i ex_unity_attrs ++ s2l "2 1" :: s2l "color red" :: rest) = Err e).
Proof.
  assert (HF : Forall two_tok ex_unity_attrs) by (repeat constructor).
  split; [|split; [|split; [|split]]].
  - eexists. vm_compute. reflexivity.
  - eexists. vm_compute. reflexivity.
  - intros i Hi. eapply C10_unity_atom_attr_deleted_mol2 with (n := 2%Z); try reflexivity; try exact HF; try exact Hi.
    right. do 2 eexists. split; [reflexivity|]. vm_compute. discriminate.
  - intros i Hi. eapply C10_unity_atom_attr_deleted_mol2 with (n := 2%Z); try reflexivity; try exact HF; try exact Hi.
    left. reflexivity.
  - intros i rest Hi. eapply C10_unity_atom_attr_deleted_before_group_mol2 with (n := 2%Z); try reflexivity; try exact HF; exact Hi.
Qed.
Example C10_unity_format_limit : exists bs,
  read_mol2 true (ex_unity_pre ++ del_nth 1 (map s2l ["1 1"; "charge 1"; "2 0"; "2 1"; "tag x9"]%string) ++ ex_unity_bond) = Ok bs.
Proof. eexists. vm_compute. reflexivity. Qed.

(* ---------------------------------------------------------------- records of one size: nothing of a record reaches the next *)
(* the molecules of a multi-record text are the molecules of its records read one by one, in order -- whatever their sizes *)
Theorem C10_records_one_by_one_xyz : forall P zero_ok vocab bs1 ls1 bs2 ls2 ms1 ms2,
  xwf_text P bs1 ls1 -> xwf_text P bs2 ls2 ->
  load_xyz_lines zero_ok vocab ls1 = Ok ms1 -> load_xyz_lines zero_ok vocab ls2 = Ok ms2 ->
  load_xyz_lines zero_ok vocab (ls1 ++ ls2) = Ok (ms1 ++ ms2).
Proof. exact load_xyz_concat. Qed.
Print Assumptions C10_records_one_by_one_xyz.
Theorem C10_records_one_by_one_mol2 : forall atype btype bs1 ls1 bs2 ls2 ms1 ms2,
  m2wf_text bs1 ls1 -> m2wf_text bs2 ls2 -> bs1 <> [] -> bs2 <> [] ->
  load_mol2_lines true atype btype ls1 = Ok ms1 -> load_mol2_lines true atype btype ls2 = Ok ms2 ->
  load_mol2_lines true atype btype (ls1 ++ ls2) = Ok (ms1 ++ ms2).
Proof. exact load_mol2_concat. Qed.
Print Assumptions C10_records_one_by_one_mol2.
