(* C10 -- stub while the harness is being brought up *)
From Molli Require Import Common.ParseStr Model.Parse Model.XyzText Gen.XyzElements.
Example C10_stub : True. Proof. exact I. Qed.
