(* C18 -- "jobmap computes each item once, reuses only valid results, resumes cleanly": property theorems only.
   Model: Model/Jobmap.v (source keys, destination map, cache directory, execution counters; the outcome of the n-th
   execution of an item is an arbitrary oracle).  Tie: harness/c18.py replays sequences of real jobmap runs in the
   model (check_jcase evaluated by the kernel).
   Hypotheses used throughout: the source keys are distinct (a library is a map) and the cache file names of different
   sub-items are distinct (all_names; proved below from the key hypothesis for single jobs and for vectorised jobs
   with at most 10 sub-items). *)
From Coq Require Import List Bool NArith ZArith String.
Import ListNotations.
From Molli Require Import Model.Job Model.Jobmap Proofs.Jobmap.
Local Open Scope string_scope.

(* One run, pointwise.  Executed = to_be_done minus valid cache: the counter of a name advances by exactly one iff the
   name is on the run list, its cache entry then is the output of that execution, everything else is untouched; an
   entry of the destination never changes; a work item's new entry is the processed outputs iff all of them are good. *)
Theorem C18_run : forall outcome p st, NoDup (map fst (js_src st)) -> NoDup (runlist p st) ->
  let st' := jobmap outcome p st in
  js_src st' = js_src st
  /\ (forall nm, cnt st' nm = if mem nm (runlist p st) then (cnt st nm + 1)%N else cnt st nm)
  /\ (forall nm, dget nm (js_cache st') =
                 if mem nm (runlist p st) then Some (COut (fresh outcome p st nm)) else dget nm (js_cache st))
  /\ (forall k, dget k (js_dst st') =
        match dget k (js_dst st) with
        | Some v => Some v
        | None => match find (key_is k) (js_src st) with
                  | Some kl => all_good (js_cache st') (names p kl)
                  | None => None
                  end
        end).
Proof. exact jobmap_spec. Qed.
Print Assumptions C18_run.

(* the run list: sub-items of source keys that are not in the destination and have no valid cached output *)
Theorem C18_executed : forall p st nm, In nm (runlist p st) <->
  exists kl, In kl (js_src st) /\ dget (fst kl) (js_dst st) = None /\ In nm (names p kl)
             /\ valid p (dget nm (js_cache st)) = false.
Proof. exact in_runlist. Qed.
Print Assumptions C18_executed.

(* a cached output of a different input (strict_hash), of a failed run, a damaged or a missing one is not reused *)
Theorem C18_no_reuse_stale : forall p st kl nm,
  In kl (js_src st) -> dget (fst kl) (js_dst st) = None -> In nm (names p kl) ->
  (dget nm (js_cache st) = None \/ dget nm (js_cache st) = Some CCorrupt
   \/ (exists o, dget nm (js_cache st) = Some (COut o) /\ (o_code o <> 0%Z \/ (jp_strict p = true /\ o_arg o <> jp_arg p)))) ->
  In nm (runlist p st).
Proof. exact stale_recomputed. Qed.
Print Assumptions C18_no_reuse_stale.

(* destination: existing entries (of source keys or of keys present only there) are left alone, no foreign key appears,
   a work item is stored iff every output is good *)
Theorem C18_dest_preserved : forall outcome p st k v, NoDup (map fst (js_src st)) -> NoDup (runlist p st) ->
  dget k (js_dst st) = Some v -> dget k (js_dst (jobmap outcome p st)) = Some v.
Proof. exact dst_preserved. Qed.
Print Assumptions C18_dest_preserved.

Theorem C18_dest_no_foreign : forall outcome p st k, NoDup (map fst (js_src st)) -> NoDup (runlist p st) ->
  dget k (js_dst st) = None -> ~ In k (map fst (js_src st)) -> dget k (js_dst (jobmap outcome p st)) = None.
Proof. exact dst_no_foreign. Qed.
Print Assumptions C18_dest_no_foreign.

Theorem C18_dest_new : forall outcome p st kl, NoDup (map fst (js_src st)) -> NoDup (runlist p st) ->
  In kl (js_src st) -> dget (fst kl) (js_dst st) = None ->
  dget (fst kl) (js_dst (jobmap outcome p st)) = all_good (js_cache (jobmap outcome p st)) (names p kl).
Proof. exact dst_new. Qed.
Print Assumptions C18_dest_new.

(* resume: a rerun with the same arguments executes exactly what failed in the previous run *)
Theorem C18_resume : forall outcome p st nm, NoDup (map fst (js_src st)) -> NoDup (all_names p st) ->
  In nm (runlist p (jobmap outcome p st)) <-> In nm (runlist p st) /\ failed (outcome nm (cnt st nm)).
Proof. exact resume. Qed.
Print Assumptions C18_resume.

(* computed once: an item that is in the destination or completely and validly cached is never executed again, however
   many times jobmap is rerun with these arguments; an item all of whose executions succeed becomes such an item, and
   (cached successes carrying their return file, which run_local guarantees) lands in the destination *)
Theorem C18_computed_once : forall outcome p n st kl, NoDup (map fst (js_src st)) -> NoDup (all_names p st) ->
  In kl (js_src st) -> settled p st kl -> forall nm, In nm (names p kl) -> cnt (rerun outcome p n st) nm = cnt st nm.
Proof. exact computed_once. Qed.
Print Assumptions C18_computed_once.

Theorem C18_success_settles : forall outcome p st kl, NoDup (map fst (js_src st)) -> NoDup (all_names p st) ->
  In kl (js_src st) ->
  (forall nm, In nm (names p kl) -> In nm (runlist p st) -> outcome nm (cnt st nm) = OSucceed) ->
  settled p (jobmap outcome p st) kl.
Proof. exact success_settles. Qed.
Print Assumptions C18_success_settles.

Theorem C18_success_completes : forall outcome p st kl, NoDup (map fst (js_src st)) -> NoDup (all_names p st) ->
  In kl (js_src st) -> cache_wf st ->
  (forall nm, In nm (names p kl) -> In nm (runlist p st) -> outcome nm (cnt st nm) = OSucceed) ->
  dget (fst kl) (js_dst (jobmap outcome p st)) <> None.
Proof. exact success_completes. Qed.
Print Assumptions C18_success_completes.

Theorem C18_cache_wf_kept : forall outcome p st, NoDup (map fst (js_src st)) -> NoDup (all_names p st) ->
  cache_wf st -> cache_wf (jobmap outcome p st).
Proof. exact cache_wf_jobmap. Qed.
Print Assumptions C18_cache_wf_kept.

(* ---- "the items whose commands succeeded": an execution has a LIST of commands (named or not).  It counts as a
   success exactly when every command succeeded and the return file was produced; a failing command at any position,
   named or not, makes it a failure whatever the later commands would have done; and that summary is what the
   run_local model of C17 (Model/Job.v, tied to runner.py by C17's runs) leaves in the output file jobmap reads. *)
Theorem C18_commands_succeed_iff : forall l file,
  run_cmds file l = OSucceed <->
  (forall c, In c l -> cs_code c = None) /\ (file = true \/ exists c, In c l /\ cs_write c = true).
Proof. exact run_cmds_succeed_iff. Qed.
Print Assumptions C18_commands_succeed_iff.

Theorem C18_commands_stop_at_failure : forall file a c k b, (forall x, In x a -> cs_code x = None) -> cs_code c = Some k ->
  forall b', run_cmds file (a ++ c :: b) = run_cmds file (a ++ c :: b').
Proof. exact run_cmds_stops. Qed.

Theorem C18_commands_naming_irrelevant : forall l file, run_cmds file (map unname l) = run_cmds file l.
Proof. exact run_cmds_naming_irrelevant. Qed.

Theorem C18_commands_run_local : forall rf payload hash base (inp : jobinput cstep) arg n,
  ji_cmds inp <> [] -> ji_ret inp = Some [rf] -> NoDup (cmd_names (ji_cmds inp)) -> rf_free rf (ji_cmds inp) ->
  let k := run_cmds (dhas rf (materialise (ji_files inp))) (map fst (ji_cmds inp)) in
  exists st out, fst (body cstep (step_exec rf payload) hash base inp) = Done st out
                 /\ jo_exitcode out = o_code (out_of arg k n)
                 /\ dhas rf (jo_files out) = o_file (out_of arg k n)
                 /\ jo_hash out = hash inp
                 /\ (st = 0%Z <-> k = OSucceed).
Proof. exact run_cmds_refines_run_local. Qed.
Print Assumptions C18_commands_run_local.

(* an item one of whose commands failed in this run is not in the destination afterwards and is executed again by the
   next run with these arguments ("a failed run is not reused") *)
Theorem C18_failed_command_not_stored : forall script p st kl nm c,
  NoDup (map fst (js_src st)) -> NoDup (all_names p st) ->
  In kl (js_src st) -> In nm (names p kl) -> In nm (runlist p st) ->
  In c (script nm (cnt st nm)) -> cs_code c <> None ->
  let st' := jobmap (cmd_outcome script) p st in
  dget (fst kl) (js_dst st') = None /\ In nm (runlist p st').
Proof. exact failed_command_not_stored. Qed.
Print Assumptions C18_failed_command_not_stored.

(* hypotheses satisfiable: two commands, the unnamed first one fails, the named second one would write the return file *)
Example C18_commands_nonvacuous :
  let cs := [(mk_cs false false (Some (Exit 3%positive)) false, None); (mk_cs true true None false, Some "c1")] in
  let inp := mk_ji "b" cs None (Some ["o.txt"]) None in
  NoDup (cmd_names cs) /\ rf_free "o.txt" cs
  /\ run_cmds false (map fst cs) = OFail (Exit 3%positive)
  /\ fst (body cstep (step_exec "o.txt" "x") (fun _ => "h") [] inp) = Done 1 (mk_jo [] [] 3 [] "h")
  /\ run_cmds false (map fst (rev cs)) = OFailFile (Exit 3%positive).
Proof.
  cbv zeta. repeat split; try reflexivity.
  - repeat constructor; simpl; intuition discriminate.
  - destruct H as [<-|[<-|[]]]; simpl in H0; [discriminate|]. injection H0 as <-. discriminate.
  - destruct H as [<-|[<-|[]]]; simpl in H0; [discriminate|]. injection H0 as <-. discriminate.
Qed.

(* the name hypotheses follow from distinct source keys *)
Theorem C18_names_distinct_single : forall st arg strict,
  NoDup (map fst (js_src st)) -> NoDup (all_names (mk_jp arg strict false) st).
Proof. exact names_single_nodup. Qed.
Theorem C18_names_distinct_vectorised : forall st arg strict,
  NoDup (map fst (js_src st)) -> (forall kl, In kl (js_src st) -> snd kl <= 10) ->
  NoDup (all_names (mk_jp arg strict true) st).
Proof. exact names_vec_nodup. Qed.
Theorem C18_runlist_distinct : forall p st, NoDup (all_names p st) -> NoDup (runlist p st).
Proof. exact (runlist_nodup (fun _ _ => OSucceed)). Qed.
Print Assumptions C18_names_distinct_vectorised.

(* ---- non-vacuity: a vectorised library, one pre-populated key, a destination-only key, a stale and a damaged cache
   entry; b.1 fails once.  Run 1 executes a.0, a.1, b.0, b.1 (not c, not zz), stores a; run 2 executes only b.1 and
   stores b; run 3 executes nothing. *)
Definition ex_plans : list (string * list (list cstep)) :=
  [("b.1", [[mk_cs false false (Some (Exit 3%positive)) false; mk_cs true true None false]])].   (* unnamed command fails, the named one after it would write *)
Definition ex_state : jstate :=
  mk_js [("a", 2%nat); ("b", 2%nat); ("c", 1%nat)] [("c", [("pre", 9%N)]); ("zz", [("pre", 1%N)])]
        [("a.0", COut (mk_out "B" 0 true 5%N)); ("b.0", CCorrupt); ("c.0", COut (mk_out "A" 7 false 0%N))] [("a.0", 6%N)].
Definition ex_p : jparams := mk_jp "A" true true.

Example C18_nonvacuous :
  let o := plan_outcome ex_plans in
  let s1 := jobmap o ex_p ex_state in
  let s2 := jobmap o ex_p s1 in
  let s3 := jobmap o ex_p s2 in
  NoDup (map fst (js_src ex_state)) /\ NoDup (all_names ex_p ex_state) /\ cache_wf ex_state
  /\ runlist ex_p ex_state = ["a.0"; "a.1"; "b.0"; "b.1"]
  /\ map fst (js_dst s1) = ["c"; "zz"; "a"] /\ dget "a" (js_dst s1) = Some [("A", 6%N); ("A", 0%N)]
  /\ runlist ex_p s1 = ["b.1"]
  /\ dget "b" (js_dst s2) = Some [("A", 0%N); ("A", 1%N)]
  /\ runlist ex_p s2 = [] /\ js_count s3 = js_count s2 /\ js_dst s3 = js_dst s2
  /\ settled ex_p s1 ("a", 2%nat).
Proof.
  cbv zeta. repeat split; try reflexivity.
  - repeat constructor; simpl; intuition discriminate.
  - repeat constructor; simpl; intuition discriminate.
  - intros nm o H. simpl in H.
    repeat match type of H with (if ?c then _ else _) = _ => destruct c end; try discriminate;
    injection H as <-; simpl; intros; try reflexivity; discriminate.
  - left. vm_compute. discriminate.
Qed.

(* ================================================================== round 3 *)
(* ---- "items already in the destination are not executed again", whoever put them there and through whichever handle:
   Collection.keys() is the key set held by the HANDLE; jobmap takes it inside destination.reading(), where it is the
   key set of the file, so the work list does not depend on what the handle knew before.  A view that is not
   refreshed (fresh handle on a pre-populated file) sends a stored item to be executed again. *)
Theorem C18_handle_view_refreshed : forall p st,
  todo_seen (map fst (js_dst st)) st = todo st /\ runlist_seen p (map fst (js_dst st)) st = runlist p st.
Proof. exact (fun p st => conj (todo_seen_refreshed st) (runlist_seen_refreshed p st)). Qed.
Print Assumptions C18_handle_view_refreshed.

Theorem C18_stale_view_refuted :
  let st := mk_js [("a", 1%nat); ("b", 1%nat)] [("a", [("A", 0%N)])] [("a", COut (mk_out "B" 0 true 0%N))] [("a", 1%N)] in
  let p := mk_jp "A" true false in
  let ok := fun (_ : string) (_ : N) => OSucceed in
  let nocrash := fun (_ : string) (_ : N) => false in
  runlist_seen p [] st = ["a"; "b"] /\ runlist p st = ["b"]
  /\ cnt (jobmapX_seen ok nocrash false p [] st) "a" = 2%N
  /\ cnt (jobmapX ok nocrash false p st) "a" = 1%N.
Proof. exact stale_view_refuted. Qed.
Print Assumptions C18_stale_view_refuted.

(* ---- a command killed by a signal: the recorded exit code is the negative signal number; such an output is never
   reused and never processed, with or without its return file *)
Theorem C18_failed_output_rejected : forall p o, o_code o <> 0%Z ->
  valid p (Some (COut o)) = false /\ good (Some (COut o)) = None.
Proof. exact failed_output_rejected. Qed.
Print Assumptions C18_failed_output_rejected.
Theorem C18_failure_codes_nonzero : forall e, ecode_Z e <> 0%Z.
Proof. exact ecode_nonzero. Qed.
Example C18_killed_after_writing_nonvacuous :
  run_cmds false [mk_cs true true (Some (Signal 9%positive)) false] = OFailFile (Signal 9%positive)
  /\ o_code (out_of "A" (OFailFile (Signal 9%positive)) 0%N) = (-9)%Z
  /\ good (Some (COut (out_of "A" (OFailFile (Signal 9%positive)) 0%N))) = None.
Proof. repeat split; reflexivity. Qed.

(* ---- runners that die before they write their output (jobmapX; `crashes nm n`: the runner of the n-th execution of
   nm is killed, or a command's program does not exist).  One run, pointwise: as C18_run, except that the cache has NO
   entry for an item whose runner died (the output judged unsuitable was removed when the item was dispatched). *)
Theorem C18_run_with_dying_runners : forall outcome crashes p st, NoDup (map fst (js_src st)) -> NoDup (runlist p st) ->
  let st' := jobmapX outcome crashes false p st in
  js_src st' = js_src st
  /\ (forall nm, cnt st' nm = if mem nm (runlist p st) then (cnt st nm + 1)%N else cnt st nm)
  /\ (forall nm, dget nm (js_cache st') =
                 if mem nm (runlist p st) then after_exec outcome crashes false p st nm else dget nm (js_cache st))
  /\ (forall k, dget k (js_dst st') =
        match dget k (js_dst st) with
        | Some v => Some v
        | None => match find (key_is k) (js_src st) with
                  | Some kl => all_good (js_cache st') (names p kl)
                  | None => None
                  end
        end).
Proof. exact (fun outcome crashes => jobmapX_spec outcome crashes false). Qed.
Print Assumptions C18_run_with_dying_runners.

(* when no runner dies, jobmapX is jobmap: every theorem above speaks about the runs the correspondence replays *)
Theorem C18_no_dying_runner : forall outcome crashes br p st, NoDup (runlist p st) ->
  (forall nm, In nm (runlist p st) -> crashes nm (cnt st nm) = false) ->
  jobmapX outcome crashes br p st = jobmap outcome p st.
Proof. exact jobmapX_crash_free. Qed.
Print Assumptions C18_no_dying_runner.

(* "a cached output from a different input is not reused": under strict_hash a new entry of the destination is made of
   outputs of THIS input only, whichever runners die *)
Theorem C18_stored_is_of_this_input : forall outcome crashes p st kl v,
  NoDup (map fst (js_src st)) -> NoDup (runlist p st) -> jp_strict p = true ->
  In kl (js_src st) -> dget (fst kl) (js_dst st) = None ->
  dget (fst kl) (js_dst (jobmapX outcome crashes false p st)) = Some v -> value_of_arg (jp_arg p) v = true.
Proof. exact stored_is_of_this_input. Qed.
Print Assumptions C18_stored_is_of_this_input.

(* an item whose runner died is not stored, and the next run executes it again (and only what failed or died) *)
Theorem C18_crashed_item_not_stored : forall outcome crashes p st kl nm,
  NoDup (map fst (js_src st)) -> NoDup (all_names p st) ->
  In kl (js_src st) -> In nm (names p kl) -> In nm (runlist p st) -> crashes nm (cnt st nm) = true ->
  dget (fst kl) (js_dst (jobmapX outcome crashes false p st)) = None.
Proof. exact crashed_item_not_stored. Qed.
Print Assumptions C18_crashed_item_not_stored.

Theorem C18_resume_with_dying_runners : forall outcome crashes p st nm,
  NoDup (map fst (js_src st)) -> NoDup (all_names p st) ->
  In nm (runlist p (jobmapX outcome crashes false p st)) <->
  In nm (runlist p st) /\ (crashes nm (cnt st nm) = true \/ failed (outcome nm (cnt st nm))).
Proof. exact resumeX. Qed.
Print Assumptions C18_resume_with_dying_runners.

(* the code before repair df05caa stored the successful output of input A as the result of input B when B's runner
   died; the repaired code stores nothing, forgets the old output and executes the item again next time *)
Theorem C18_stale_output_stored_refuted_before_repair :
  let st := mk_js [("a", 1%nat)] [] [("a", COut (mk_out "A" 0 true 0%N))] [("a", 1%N)] in
  let p := mk_jp "B" true false in
  let ok := fun (_ : string) (_ : N) => OSucceed in
  let dies := fun (_ : string) (_ : N) => true in
  dget "a" (js_dst (jobmapX ok dies true p st)) = Some [("A", 0%N)]
  /\ value_of_arg (jp_arg p) [("A", 0%N)] = false
  /\ dget "a" (js_dst (jobmapX ok dies false p st)) = None
  /\ dget "a" (js_cache (jobmapX ok dies false p st)) = None
  /\ cnt (jobmapX ok dies false p st) "a" = 2%N.
Proof. exact stale_output_stored_refuted_before_repair. Qed.
Print Assumptions C18_stale_output_stored_refuted_before_repair.

(* hypotheses satisfiable, conclusion not trivial: two items with successful outputs of input A, mapped with input B
   under strict_hash; a's runner dies at its second command (program missing), b succeeds: only b is stored, as B's *)
Example C18_dying_runner_nonvacuous :
  let plans := [("a", [[mk_cs true false None false; mk_cs true true (Some (Exit 1%positive)) true]])] in
  let st := mk_js [("a", 1%nat); ("b", 1%nat)] [] [("a", COut (mk_out "A" 0 true 0%N)); ("b", COut (mk_out "A" 0 true 0%N))] [] in
  let p := mk_jp "B" true false in
  let st' := jobmapX (plan_outcome plans) (plan_crashes plans) false p st in
  NoDup (map fst (js_src st)) /\ NoDup (all_names p st) /\ runlist p st = ["a"; "b"]
  /\ plan_crashes plans "a" 0%N = true /\ plan_crashes plans "b" 0%N = false
  /\ js_dst st' = [("b", [("B", 0%N)])] /\ dget "a" (js_cache st') = None /\ runlist p st' = ["a"].
Proof.
  cbv zeta. repeat split; try reflexivity.
  - repeat constructor; simpl; intuition discriminate.
  - repeat constructor; simpl; intuition discriminate.
Qed.
