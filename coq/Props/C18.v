(* C18 stub *)
From Coq Require Import List.
Import ListNotations.
From Molli Require Import Model.Jobmap.
Example C18_stub : check_jcase (mk_jcase [] (mk_js [] [] [] []) [] []) = true.
Proof. reflexivity. Qed.
