(* C19 -- Distance kernels and grid descriptors equal their mathematical definition.
   Property theorems only (each is `exact <lemma>` from Proofs/Dist.v or Proofs/Grid.v). *)
From Coq Require Import Reals List ZArith QArith Lia.
From Molli Require Import Common.Field3 Common.Field3R Model.Dist Proofs.Dist.
Import ListNotations.

(* ---- kernels (molli_xt/distance.cpp), over R ------------------------------------------------------------- *)
Local Open Scope R_scope.

(* the accumulation loop of euclidean2, for ANY number of dimensions: sum_k (a_k - b_k)^2 *)
Theorem C19_euclidean2_any_dim (a b : list R) : length a = length b ->
  euclidean2_nd ROps a b = sumf (fun k => (nth k a 0 - nth k b 0) * (nth k a 0 - nth k b 0)) (length a).
Proof. exact (euclidean2_nd_sum a b). Qed.
Print Assumptions C19_euclidean2_any_dim.

(* cdist22 (…_eu2 and …_eu): shape (L1, L2) and entry (i,j) = sum_k (a_ik - b_jk)^2, resp. its square root,
   for ALL lengths including 0 *)
Theorem C19_kernel22 (A B : list vecR) :
  let r2 := cdist22 (euclidean2 ROps) A B in
  let r := cdist22 euclideanR A B in
  shape r2 = [length A; length B] /\ length (data r2) = (length A * length B)%nat /\
  shape r = [length A; length B] /\ length (data r) = (length A * length B)%nat /\
  forall i j, (i < length A)%nat -> (j < length B)%nat ->
    nth (i * length B + j) (data r2) 0 = sq3 (nth i A (vzero ROps)) (nth j B (vzero ROps)) /\
    nth (i * length B + j) (data r) 0 = sqrt (sq3 (nth i A (vzero ROps)) (nth j B (vzero ROps))).
Proof. exact (kernel22 A B). Qed.
Print Assumptions C19_kernel22.

(* cdist32: shape (X, L1, L2), entry (x,i,j) *)
Theorem C19_kernel32 (L1 : nat) (E : list (list vecR)) (B : list vecR) :
  Forall (fun A => length A = L1) E ->
  let r2 := cdist32 (euclidean2 ROps) L1 E B in
  let r := cdist32 euclideanR L1 E B in
  shape r2 = [length E; L1; length B] /\ length (data r2) = (length E * (L1 * length B))%nat /\
  shape r = [length E; L1; length B] /\ length (data r) = (length E * (L1 * length B))%nat /\
  forall x i j, (x < length E)%nat -> (i < L1)%nat -> (j < length B)%nat ->
    nth ((x * L1 + i) * length B + j) (data r2) 0 = sq3 (nth i (nth x E []) (vzero ROps)) (nth j B (vzero ROps)) /\
    nth ((x * L1 + i) * length B + j) (data r) 0 = sqrt (sq3 (nth i (nth x E []) (vzero ROps)) (nth j B (vzero ROps))).
Proof. exact (kernel32 L1 E B). Qed.
Print Assumptions C19_kernel32.

(* the structural part holds for any field and any point function (it is what the Q instance executes) *)
Theorem C19_kernel_structure {F} (f : vec F -> vec F -> F) (L1 : nat) (E : list (list (vec F))) (B : list (vec F))
        (da db : vec F) (d : F) (x i j : nat) :
  Forall (fun A => length A = L1) E -> (x < length E)%nat -> (i < L1)%nat -> (j < length B)%nat ->
  nth ((x * L1 + i) * length B + j) (data (cdist32 f L1 E B)) d = f (nth i (nth x E []) da) (nth j B db).
Proof. exact (cdist32_entry f L1 E B da db d x i j). Qed.

(* metric facts about the point function *)
Theorem C19_euclidean2_metric (a b : vecR) :
  0 <= euclidean2 ROps a b /\ euclidean2 ROps a b = euclidean2 ROps b a /\ (euclidean2 ROps a b = 0 <-> a = b) /\
  euclidean2 ROps a b = dist2 ROps a b.
Proof.
  exact (conj (euclidean2_nonneg a b) (conj (euclidean2_sym a b) (conj (euclidean2_zero_iff a b) (euclidean2_dist2 a b)))).
Qed.

(* meaning of the root test used when an observed `euclidean` value is compared with the model *)
Theorem C19_sqrt_close (tol d s : R) : 0 <= s -> sqrt_close ROps tol d s = true -> Rabs (d - sqrt s) <= tol * sqrt s.
Proof. exact (sqrt_close_sound tol d s). Qed.
Theorem C19_sqrt_exact (d s : R) : 0 <= s -> sqrt_close ROps 0 d s = true -> d = sqrt s.
Proof. exact (sqrt_close_exact d s). Qed.
Print Assumptions C19_sqrt_close.

(* a passing correspondence case: observed shape = model shape, every entry within the stated tolerance *)
Theorem C19_check_sound (c : case) : check c = true ->
  c_oshape c = shape (model_sq c) /\ length (c_odata c) = length (data (model_sq c)) /\
  forall k, (k < length (data (model_sq c)))%nat ->
    let s := nth k (data (model_sq c)) 0%Q in let d := nth k (c_odata c) 0%Q in
    if c_sq c then rel_close QOps (c_tol c) d s = true else sqrt_close QOps (c_tol c) d s = true.
Proof. exact (check_sound c). Qed.
Print Assumptions C19_check_sound.

(* hypotheses are satisfiable / the model computes: (1,2,3)-(1,1,1) -> 5, (0,0,0)-(1,1,1) -> 3; shape (0,2) *)
Example C19_kernel_example :
  data (cdist22 (euclidean2 QOps) [(1, 2, 3); (0, 0, 0)]%Q [(1, 1, 1)]%Q) = [5; 3]%Q /\
  shape (cdist22 (euclidean2 QOps) [] [(1, 1, 1); (0, 0, 0)]%Q) = [0; 2]%nat /\
  shape (cdist32 (euclidean2 QOps) 4 [] [(1, 1, 1)]%Q) = [0; 4; 1]%nat.
Proof. vm_compute. repeat split; reflexivity. Qed.
