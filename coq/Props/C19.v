(* C19 -- Distance kernels and grid descriptors equal their mathematical definition.
   Property theorems only (each is `exact <lemma>` from Proofs/Dist.v or Proofs/Grid.v).

   Kernels: over R, about the field-parametric model Model/Dist.v that the correspondence shards execute over Q against
   (a) molli_xt/distance.cpp rebuilt from source on every run and (b) the shipped extension.
   Grid descriptors: over Q (every float is a rational), about Model/Grid.v, executed by the shards as well.

   What is NOT proved (label: partial):
   - IEEE rounding in the C++ kernel, numpy and scipy: compared within a stated tolerance; as the property says, grid points
     within a rounding band of a sphere surface (and of the cut-off) are left out of the comparison;
   - scipy.spatial.KDTree is external.  nearest_atom_index / aeif: the theorems are about the model's arg-min, and the
     indices the real KD-tree returns are CHECKED against the specification inside Coq (nearest_okb, C19_nearest_accept);
     prune: soundness and the (1+eps) band are proved under the query contract stated as Section hypotheses
     (C19_prune_partial), and the kept indices observed are checked against that band inside Coq (C19_prune_accept);
   - sqrt: `euclidean` is sqrt(euclidean2) over R; an observed root is accepted through its specification (C19_sqrt_close).

   Outside the model (known findings, recorded in known_findings: the shipped extension cannot be rebuilt here):
   - memory layout / overload dispatch of the Python binding: a float64 argument that is not C-contiguous is computed by the
     float32 kernel (the theorems are about the kernels as functions of the array CONTENTS; the shards steer around that region);
   - arrays whose last axis is not 3: a point is a `vec` (exactly three coordinates) by typing, as the template argument ND = 3.
   Large grids and argument objects: the models are functions of the argument VALUES, defined point by point.  The harness
   therefore (a) calls every function with the same argument objects repeatedly / as views / with one object as both corners
   and compares every call with the model at the values the caller passed (arguments must come back unchanged), and (b) for
   grids too large for a literal compares a sample of positions inside Coq (CGridAt, sub-sampled CAso/CAif/CNearest/CPrune)
   while the numpy oracle judges every point: C19_blocks_cover / C19_blockwise (any block-wise walk with step > 0 equals the
   one-piece result; the partial last block counts), C19_sample, C19_grid_at, C19_grid_point_box.
   Boundary conventions: the model's nearest/prune use `<=` at the cut-off as the code's np.where does; scipy's
   distance_upper_bound is exclusive, so AT the cut-off the real code answers -1 / drops the point.  The acceptance tests
   (nearest_okb, prune_okb) accept both answers there, which is also what the property's rounding-band clause allows. *)
From Coq Require Import Reals List ZArith QArith Qround Lia.
From Molli Require Import Common.Field3 Common.Field3R Model.Dist Proofs.Dist Model.Grid Proofs.Grid.
Import ListNotations.

(* ---- kernels (molli_xt/distance.cpp), over R ------------------------------------------------------------- *)
Local Open Scope R_scope.

(* the accumulation loop of euclidean2, for ANY number of dimensions: sum_k (a_k - b_k)^2 *)
Theorem C19_euclidean2_any_dim (a b : list R) : length a = length b ->
  euclidean2_nd ROps a b = sumf (fun k => (nth k a 0 - nth k b 0) * (nth k a 0 - nth k b 0)) (length a).
Proof. exact (euclidean2_nd_sum a b). Qed.
Print Assumptions C19_euclidean2_any_dim.

(* cdist22 (…_eu2 and …_eu): shape (L1, L2) and entry (i,j) = sum_k (a_ik - b_jk)^2, resp. its square root,
   for ALL lengths including 0 *)
Theorem C19_kernel22 (A B : list vecR) :
  let r2 := cdist22 (euclidean2 ROps) A B in
  let r := cdist22 euclideanR A B in
  shape r2 = [length A; length B] /\ length (data r2) = (length A * length B)%nat /\
  shape r = [length A; length B] /\ length (data r) = (length A * length B)%nat /\
  forall i j, (i < length A)%nat -> (j < length B)%nat ->
    nth (i * length B + j) (data r2) 0 = sq3 (nth i A (vzero ROps)) (nth j B (vzero ROps)) /\
    nth (i * length B + j) (data r) 0 = sqrt (sq3 (nth i A (vzero ROps)) (nth j B (vzero ROps))).
Proof. exact (kernel22 A B). Qed.
Print Assumptions C19_kernel22.

(* cdist32: shape (X, L1, L2), entry (x,i,j) *)
Theorem C19_kernel32 (L1 : nat) (E : list (list vecR)) (B : list vecR) :
  Forall (fun A => length A = L1) E ->
  let r2 := cdist32 (euclidean2 ROps) L1 E B in
  let r := cdist32 euclideanR L1 E B in
  shape r2 = [length E; L1; length B] /\ length (data r2) = (length E * (L1 * length B))%nat /\
  shape r = [length E; L1; length B] /\ length (data r) = (length E * (L1 * length B))%nat /\
  forall x i j, (x < length E)%nat -> (i < L1)%nat -> (j < length B)%nat ->
    nth ((x * L1 + i) * length B + j) (data r2) 0 = sq3 (nth i (nth x E []) (vzero ROps)) (nth j B (vzero ROps)) /\
    nth ((x * L1 + i) * length B + j) (data r) 0 = sqrt (sq3 (nth i (nth x E []) (vzero ROps)) (nth j B (vzero ROps))).
Proof. exact (kernel32 L1 E B). Qed.
Print Assumptions C19_kernel32.

(* the structural part holds for any field and any point function (it is what the Q instance executes) *)
Theorem C19_kernel_structure {F} (f : vec F -> vec F -> F) (L1 : nat) (E : list (list (vec F))) (B : list (vec F))
        (da db : vec F) (d : F) (x i j : nat) :
  Forall (fun A => length A = L1) E -> (x < length E)%nat -> (i < L1)%nat -> (j < length B)%nat ->
  nth ((x * L1 + i) * length B + j) (data (cdist32 f L1 E B)) d = f (nth i (nth x E []) da) (nth j B db).
Proof. exact (cdist32_entry f L1 E B da db d x i j). Qed.

(* metric facts about the point function *)
Theorem C19_euclidean2_metric (a b : vecR) :
  0 <= euclidean2 ROps a b /\ euclidean2 ROps a b = euclidean2 ROps b a /\ (euclidean2 ROps a b = 0 <-> a = b) /\
  euclidean2 ROps a b = dist2 ROps a b.
Proof.
  exact (conj (euclidean2_nonneg a b) (conj (euclidean2_sym a b) (conj (euclidean2_zero_iff a b) (euclidean2_dist2 a b)))).
Qed.

(* meaning of the root test used when an observed `euclidean` value is compared with the model *)
Theorem C19_sqrt_close (tol d s : R) : 0 <= s -> sqrt_close ROps tol d s = true -> Rabs (d - sqrt s) <= tol * sqrt s.
Proof. exact (sqrt_close_sound tol d s). Qed.
Theorem C19_sqrt_exact (d s : R) : 0 <= s -> sqrt_close ROps 0 d s = true -> d = sqrt s.
Proof. exact (sqrt_close_exact d s). Qed.
Print Assumptions C19_sqrt_close.

(* a passing correspondence case: observed shape = model shape, every entry within the stated tolerance *)
Theorem C19_check_sound (c : case) : check c = true ->
  c_oshape c = shape (model_sq c) /\ length (c_odata c) = length (data (model_sq c)) /\
  forall k, (k < length (data (model_sq c)))%nat ->
    let s := nth k (data (model_sq c)) 0%Q in let d := nth k (c_odata c) 0%Q in
    if c_sq c then rel_close QOps (c_tol c) d s = true else sqrt_close QOps (c_tol c) d s = true.
Proof. exact (check_sound c). Qed.
Print Assumptions C19_check_sound.

(* hypotheses are satisfiable / the model computes: (1,2,3)-(1,1,1) -> 5, (0,0,0)-(1,1,1) -> 3; shape (0,2) *)
Example C19_kernel_example :
  data (cdist22 (euclidean2 QOps) [(1, 2, 3); (0, 0, 0)]%Q [(1, 1, 1)]%Q) = [5; 3]%Q /\
  shape (cdist22 (euclidean2 QOps) [] [(1, 1, 1); (0, 0, 0)]%Q) = [0; 2]%nat /\
  shape (cdist32 (euclidean2 QOps) 4 [] [(1, 1, 1)]%Q) = [0; 4; 1]%nat.
Proof. vm_compute. repeat split; reflexivity. Qed.

(* ---- grid descriptors (molli/descriptor/gridbased.py), over Q ------------------------------------------- *)
Local Close Scope R_scope.
Local Open Scope Q_scope.

(* rectangular_grid: for a positive spacing and a non-empty padded box the call succeeds; the number of points is
   nx*ny*nz; as a set the grid is the Cartesian product of the three axes; no point occurs twice; and the raveling
   order is y slowest, z fastest (np.meshgrid default indexing + ravel) *)
Theorem C19_grid_lattice (r1 r2 : qv) (pad s : Q) : 0 < s -> box_ok r1 r2 pad ->
  exists g, rectangular_grid r1 r2 pad s = Some g /\
  let '(xs, ys, zs) := grid_axes r1 r2 pad s in
  length g = (length xs * length ys * length zs)%nat /\
  (forall x y z, In (x, y, z) g <-> In x xs /\ In y ys /\ In z zs) /\
  NoDup g /\
  (forall i j k, (i < length xs)%nat -> (j < length ys)%nat -> (k < length zs)%nat ->
     nth ((j * length xs + i) * length zs + k) g qvz = (nth i xs 0, nth j ys 0, nth k zs 0)).
Proof. exact (rectangular_grid_correct r1 r2 pad s). Qed.
Print Assumptions C19_grid_lattice.

(* one axis [l, r] = [r1 - padding, r2 + padding]: n = floor((r-l)/spacing) + 1 points ... *)
Theorem C19_grid_count (l r s : Q) : 0 < s -> l <= r ->
  length (axis_pts l r s) = Z.to_nat (Qfloor ((r - l) / s) + 1) /\ (1 <= Qfloor ((r - l) / s) + 1)%Z.
Proof. intros Hs Hlr. exact (conj (axis_length l r s Hs Hlr) (axis_n_pos l r s Hs Hlr)). Qed.

(* ... point i is l + o + i*spacing, so consecutive points differ by exactly the spacing ... *)
Theorem C19_grid_spacing (l r s d : Q) (i : nat) : 0 < s -> l <= r -> (S i < length (axis_pts l r s))%nat ->
  nth (S i) (axis_pts l r s) d - nth i (axis_pts l r s) d == s.
Proof. intros Hs Hlr Hi. rewrite axis_length in Hi by assumption. exact (axis_spacing l r s d i Hs Hlr Hi). Qed.

(* ... the lattice is centred: the gap below the first point equals the gap above the last, 0 <= gap < spacing/2 ... *)
Theorem C19_grid_centred (l r s d : Q) : 0 < s -> l <= r ->
  let n := length (axis_pts l r s) in let o := axis_off l r s in
  nth 0 (axis_pts l r s) d - l == o /\ r - nth (n - 1) (axis_pts l r s) d == o /\ 0 <= o /\ o < s / 2.
Proof. intros Hs Hlr. cbv zeta. rewrite axis_length by assumption. exact (axis_centred l r s d Hs Hlr). Qed.

(* ... strictly increasing (no duplicates), and every point lies in [l, r] *)
Theorem C19_grid_axis_increasing (l r s d : Q) (i j : nat) : 0 < s -> l <= r -> (i < j)%nat -> (j < length (axis_pts l r s))%nat ->
  nth i (axis_pts l r s) d < nth j (axis_pts l r s) d.
Proof. intros Hs Hlr Hij Hj. rewrite axis_length in Hj by assumption. exact (axis_increasing l r s d i j Hs Hlr Hij Hj). Qed.

Theorem C19_grid_contained (r1 r2 : qv) (pad s : Q) (g : list qv) (p : qv) : 0 < s -> box_ok r1 r2 pad ->
  rectangular_grid r1 r2 pad s = Some g -> In p g ->
  let '(a1, a2, a3) := r1 in let '(b1, b2, b3) := r2 in let '(x, y, z) := p in
  (a1 - pad <= x /\ x <= b1 + pad) /\ (a2 - pad <= y /\ y <= b2 + pad) /\ (a3 - pad <= z /\ z <= b3 + pad).
Proof. exact (rectangular_grid_contained r1 r2 pad s g p). Qed.
Print Assumptions C19_grid_contained.

(* the floor lemma everything rests on *)
Theorem C19_floor_bounds (d s : Q) : 0 < s ->
  inject_Z (Qfloor (d / s)) * s <= d /\ d < (inject_Z (Qfloor (d / s)) + 1) * s.
Proof. exact (floor_bounds d s). Qed.

(* nearest_atom_index: the result is -1 exactly when every atom is farther than the cut-off; otherwise it is the index
   of an atom within the cut-off whose distance is minimal.  (Squared distances: C19_cutoff_squares.) *)
Theorem C19_nearest (atoms : list qv) (cut : Q) (g : qv) :
  nearest_spec atoms cut g (nearest atoms cut g) /\
  ((0 <= nearest atoms cut g)%Z <-> exists a, In a atoms /\ d2 a g <= cut * cut).
Proof. exact (conj (nearest_correct atoms cut g) (nearest_iff atoms cut g)). Qed.
Print Assumptions C19_nearest.

(* the acceptance test applied to the indices the real KD-tree returned: its meaning, and that it accepts the model *)
Theorem C19_nearest_accept (band : Q) (atoms : list qv) (cut : Q) (g : qv) (r : Z) :
  (nearest_okb band atoms cut g r = true ->
   (r = (-1)%Z /\ forall a, In a atoms -> cut * cut * (1 - band) <= d2 a g) \/
   (exists i, r = Z.of_nat i /\ (i < length atoms)%nat /\ d2 (nth i atoms qvz) g <= cut * cut * (1 + band) /\
              forall a, In a atoms -> d2 (nth i atoms qvz) g <= d2 a g * (1 + band))) /\
  (0 <= band -> band <= 1 -> nearest_okb band atoms cut g (nearest atoms cut g) = true).
Proof. exact (conj (nearest_okb_sound band atoms cut g r) (nearest_okb_model band atoms cut g)). Qed.

(* d2 is the squared Euclidean distance; comparing a distance with a non-negative cut-off = comparing squares *)
Theorem C19_d2 (a g : qv) :
  d2 a g == (let '(a1, a2, a3) := a in let '(g1, g2, g3) := g in
             (a1 - g1) * (a1 - g1) + (a2 - g2) * (a2 - g2) + (a3 - g3) * (a3 - g3)) /\ 0 <= d2 a g.
Proof. exact (conj (d2_plain a g) (d2_nonneg a g)). Qed.
Theorem C19_cutoff_squares (x c : R) : (0 <= x)%R -> (0 <= c)%R -> (sqrt x <= c <-> x <= c * c)%R.
Proof. exact (sqrt_le_cut x c). Qed.

(* prune (PARTIAL: the KD-tree query is external; its contract is the two hypotheses):
   no kept point is farther than the cut-off, no dropped point is closer than cut-off/(1+eps), indices ascend *)
Theorem C19_prune_partial (atoms : list qv) (cut eps : Q) (q : qv -> bool) :
  (forall g, q g = true -> exists a, In a atoms /\ d2 a g <= cut * cut) ->
  (forall g, q g = false -> forall a, In a atoms -> cut * cut < d2 a g * ((1 + eps) * (1 + eps))) ->
  forall grid,
  (forall i, In i (prune_with q grid) ->
     exists j a, i = Z.of_nat j /\ (j < length grid)%nat /\ In a atoms /\ d2 a (nth j grid qvz) <= cut * cut) /\
  (forall j, (j < length grid)%nat -> ~ In (Z.of_nat j) (prune_with q grid) ->
     forall a, In a atoms -> cut * cut < d2 a (nth j grid qvz) * ((1 + eps) * (1 + eps))) /\
  increasing_from 0 (prune_with q grid) = true.
Proof.
  intros Hs Hc grid.
  exact (conj (prune_sound atoms cut q Hs grid)
              (conj (fun j => prune_complete atoms cut eps q Hc grid j) (prune_increasing q grid))).
Qed.
Print Assumptions C19_prune_partial.

(* the contract is satisfiable: the exact query keeps exactly the points within the cut-off *)
Theorem C19_prune_exact (atoms : list qv) (cut : Q) (grid : list qv) (j : nat) : (j < length grid)%nat ->
  (In (Z.of_nat j) (prune_exact atoms cut grid) <-> exists a, In a atoms /\ d2 a (nth j grid qvz) <= cut * cut).
Proof. exact (prune_exact_correct atoms cut grid j). Qed.

(* meaning of the acceptance test applied to the index list the real prune returned *)
Theorem C19_prune_accept (band : Q) (atoms : list qv) (cut eps : Q) (grid : list qv) (kept : list Z) :
  prune_okb band atoms cut eps grid kept = true ->
  increasing_from 0 kept = true /\ (forall i, In i kept -> (i < Z.of_nat (length grid))%Z) /\
  forall j, (j < length grid)%nat ->
    (In (Z.of_nat j) kept -> exists a, In a atoms /\ d2 a (nth j grid qvz) <= cut * cut * (1 + band)) /\
    (~ In (Z.of_nat j) kept -> forall a, In a atoms -> cut * cut * (1 - band) <= d2 a (nth j grid qvz) * ((1 + eps) * (1 + eps))).
Proof. exact (prune_okb_sound band atoms cut eps grid kept). Qed.

(* aso: one value per grid point = the (weighted) conformer average of the occupancy indicator of the union of the
   van der Waals spheres; unweighted it is the fraction of conformers whose union contains the point *)
Theorem C19_aso (ens : list (list qv)) (radii : list Q) (w : option (list Q)) (grid : list qv) :
  length (aso ens radii w grid) = length grid /\
  (forall k, (k < length grid)%nat ->
     nth k (aso ens radii w grid) 0 = average w (map (fun atoms => b2q (inside atoms radii (nth k grid qvz))) ens)) /\
  (forall atoms g, inside atoms radii g = true <-> exists a r, In (a, r) (combine atoms radii) /\ d2 a g <= r * r) /\
  (forall xs, average w xs == match w with
                              | None => fold_right Qplus 0 xs / inject_Z (Z.of_nat (length xs))
                              | Some ws => dotw ws xs / fold_right Qplus 0 ws
                              end).
Proof.
  exact (conj (aso_length ens radii w grid) (conj (aso_nth ens radii w grid)
        (conj (fun atoms g => inside_iff atoms radii g) (average_spec w)))).
Qed.
Print Assumptions C19_aso.

Theorem C19_aso_fraction (ens : list (list qv)) (radii : list Q) (grid : list qv) (k : nat) : (k < length grid)%nat ->
  nth k (aso ens radii None grid) 0 ==
  inject_Z (Z.of_nat (length (filter (fun atoms => inside atoms radii (nth k grid qvz)) ens))) / inject_Z (Z.of_nat (length ens)).
Proof. exact (aso_fraction ens radii grid k). Qed.

(* aeif / atomic_indicator_field: one value per grid point = the (weighted) conformer average of the per-conformer
   field; conformer c contributes, with ITS coordinates, values and nearest-atom row, the value (partial charge) of
   a closest atom when the point is inside its van der Waals union and 0 otherwise -- the `nearest >= 0` conjunct of
   the code is implied as soon as the cut-off is at least every radius (the code passes max(radii)) *)
Theorem C19_aeif (ens : list (list qv)) (radii : list Q) (values : list (list Q)) (idx : list (list Z)) (w : option (list Q))
        (grid : list qv) :
  length (aif ens radii values idx w grid) = length grid /\
  (forall k, (k < length grid)%nat ->
     nth k (aif ens radii values idx w grid) 0 = average w (field_rows ens radii values idx k (nth k grid qvz))) /\
  (forall k g c, (c < length ens)%nat -> (c < length values)%nat -> (c < length idx)%nat ->
     nth c (field_rows ens radii values idx k g) 0 =
     field_value (nth c ens []) radii (nth c values []) (nth k (nth c idx []) (-1)%Z) g).
Proof.
  exact (conj (aif_length ens radii values idx w grid) (conj (aif_nth ens radii values idx w grid)
        (fun k g c => field_rows_nth radii k g ens values idx c))).
Qed.
Print Assumptions C19_aeif.

Theorem C19_aeif_value (atoms : list qv) (radii values : list Q) (cut : Q) (g : qv) :
  (forall a rad, In (a, rad) (combine atoms radii) -> 0 <= rad /\ rad <= cut) ->
  let r := nearest atoms cut g in
  field_value atoms radii values r g = (if inside atoms radii g then nth (Z.to_nat r) values 0 else 0) /\
  (inside atoms radii g = true -> (0 <= r)%Z) /\ nearest_spec atoms cut g r.
Proof.
  intros Hrad r.
  destruct (field_value_spec atoms radii values cut g r Hrad (nearest_correct atoms cut g)) as [H1 H2].
  exact (conj H1 (conj H2 (nearest_correct atoms cut g))).
Qed.
Print Assumptions C19_aeif_value.

(* ---- large grids.  Every descriptor is defined point by point, hence independent of how a large grid is walked:
   cut into consecutive blocks of ANY length step > 0 the blocks cover the grid -- ceil(n/step) of them, the last one
   holding the n mod step remaining points -- and the concatenated block results ARE the one-piece result (prune with the
   block's index offset, the indicator field with the column offset into the nearest-atom rows). *)
Theorem C19_blocks_cover (step : nat) (grid : list qv) : (0 < step)%nat ->
  concat (chunks step grid) = grid /\
  length (chunks step grid) = ((length grid + (step - 1)) / step)%nat /\
  Forall (fun b => b <> [] /\ (length b <= step)%nat) (chunks step grid).
Proof.
  intros Hs. exact (conj (chunks_concat step grid Hs) (conj (chunks_count step grid Hs) (chunks_fuel_blocks step Hs _ grid))).
Qed.
Print Assumptions C19_blocks_cover.

Theorem C19_blockwise (step : nat) (grid : list qv) : (0 < step)%nat ->
  (forall ens radii w, aso_blocks ens radii w (chunks step grid) = aso ens radii w grid) /\
  (forall atoms cut, nearest_blocks atoms cut (chunks step grid) = map (nearest atoms cut) grid) /\
  (forall q, prune_blocks q 0 (chunks step grid) = prune_with q grid) /\
  (forall ens radii values idx w, aif_blocks ens radii values idx w 0 (chunks step grid) = aif ens radii values idx w grid).
Proof. exact (blockwise step grid). Qed.
Print Assumptions C19_blockwise.

(* taking only floor(n/step) blocks loses the partial last block: 7 points in blocks of 3 -> 2 blocks cover 6 points, and
   the occupancy of the 7th point (inside the sphere) is never evaluated *)
Example C19_floor_block_count_refuted :
  let grid := [(0, 0, 9); (0, 0, 8); (0, 0, 7); (0, 0, 6); (0, 0, 5); (0, 0, 4); (0, 0, 0)] in
  let ens := [[(0, 0, 0)]] in
  length (chunks 3 grid) = 3%nat /\ (length grid / 3)%nat = 2%nat /\
  length (aso_blocks ens [1] None (firstn (length grid / 3) (chunks 3 grid))) = 6%nat /\
  map Qred (aso_blocks ens [1] None (chunks 3 grid)) = [0; 0; 0; 0; 0; 0; 1] /\
  map Qred (aso ens [1] None grid) = [0; 0; 0; 0; 0; 0; 1].
Proof. vm_compute. repeat split; reflexivity. Qed.

(* a sampled comparison of a large grid: the values at a selection of grid points = the descriptor of the selected points *)
Theorem C19_sample (grid : list qv) (ks : list nat) : Forall (fun k => (k < length grid)%nat) ks ->
  (forall ens radii w, map (fun k => nth k (aso ens radii w grid) 0) ks = aso ens radii w (map (fun k => nth k grid qvz) ks)) /\
  (forall atoms cut, map (fun k => nth k (map (nearest atoms cut) grid) (-1)%Z) ks =
                     map (nearest atoms cut) (map (fun k => nth k grid qvz) ks)).
Proof. intros H. exact (conj (fun ens radii w => aso_sample ens radii w grid ks H) (fun atoms cut => nearest_sample atoms cut grid ks H)). Qed.

(* point number n of rectangular_grid, computed from the three axes alone (what CGridAt evaluates for a grid too large
   for a literal), and the number of points *)
Theorem C19_grid_at (r1 r2 : qv) (pad s : Q) (g : list qv) (n : nat) :
  rectangular_grid r1 r2 pad s = Some g -> (n < length g)%nat ->
  grid_at r1 r2 pad s (Z.of_nat n) = Some (nth n g qvz) /\ grid_count r1 r2 pad s = Some (Z.of_nat (length g)).
Proof. exact (grid_at_correct r1 r2 pad s g n). Qed.
Print Assumptions C19_grid_at.

(* a box grown around ONE point (both corners the same point c): floor(2*padding/spacing) + 1 samples per axis, whatever c *)
Theorem C19_grid_point_box (c p s : Q) : axis_n (c - p) (c + p) s = (Qfloor (2 * p / s) + 1)%Z.
Proof. exact (axis_n_point c p s). Qed.

(* the hypotheses are satisfiable and the models compute: box [-1,1]x[0,1]x[0,0], padding 1/4, spacing 1/2 *)
Example C19_grid_example :
  box_ok (-1, 0, 0) (1, 1, 0) (1#4) /\
  option_map (@length qv) (rectangular_grid (-1, 0, 0) (1, 1, 0) (1#4) (1#2)) = Some 48%nat /\
  map Qred (axis_pts (-(5#4)) (5#4) (1#2)) = [-(5#4); -(3#4); -(1#4); 1#4; 3#4; 5#4] /\
  nearest [(0, 0, 0); (4, 0, 0)] 2 (3, 0, 0) = 1%Z /\ nearest [(0, 0, 0); (4, 0, 0)] (1#2) (2, 0, 0) = (-1)%Z /\
  prune_exact [(0, 0, 0)] 1 [(2, 0, 0); (1, 0, 0); (0, 3, 0); (0, 0, 1#2)] = [1; 3]%Z /\
  map Qred (aso [[(0, 0, 0)]; [(3, 0, 0)]] [1] None [(0, 0, 1#2); (5, 5, 5)]) = [1#2; 0].
Proof. split; [cbv [box_ok]; repeat split; unfold Qle; simpl; lia | vm_compute; repeat split; reflexivity]. Qed.
