(* C01 -- Library round trip: what is stored in a .mlib/.clib is what is read back.

   Model: Model/Codec.v (encode / msgpack normalisation / decode of molli/chem/io.py + library.py).
   Tie T: the four wirings `mol_v2 ens_v2 mol_v1 ens_v1`, the constructor defaults and the largest atomic number in
   Gen/IoWiring.v are REGENERATED on every run by executing the real (de)serialisers on sentinel objects; the premises
   `wiring_ok` / `covers_all` / `covers_v1` below are decided on them by the kernel (vm_compute casts).
   Generic theorem (hand proof, all wirings, all well-formed objects): Proofs/Codec.v `roundtrip_of_wiring`.

   roundtrip W o  =  decode W (mnorm (encode W o))      -- what the model says is read back
   mnorm_obj o    =  o with every attribute value passed through msgpack (lists -> tuples, doubles -> singles:
                     the recorded encoding decision, known findings C01:attrib:...); coordinates, partial charges and
                     weights are single-precision bit patterns throughout (the granularity of the property).
   wf_obj ens o   =  name is a string, charge an int, mult a non-zero int, attrib a dict, elements 0..118, bond
                     endpoints are atoms of o, arrays rectangular (molecule: o_nconf = 0, no weights). *)
From Coq Require Import Bool ZArith NArith String List.
Import ListNotations.
From Molli Require Import Model.Codec Proofs.Codec Gen.IoWiring Proofs.CodecIdem.
Local Open Scope string_scope.

(* the hand-written constants of the model are the regenerated ones *)
Example C01_constants_agree :
  (gen_max_element, gen_obj_defaults) = (max_element, [default_name; VInt 0; VInt 1; VMap []]).
Proof. vm_compute. reflexivity. Qed.

(* the premises of the generic theorem, decided on today's wirings (named so that a changed wiring is reported first) *)
Example C01_wirings_accepted :
  (wiring_ok mol_v2 && covers_all mol_v2 && wiring_ok ens_v2 && covers_all ens_v2
   && wiring_ok mol_v1 && covers_v1 mol_v1 && wiring_ok ens_v1 && covers_v1 ens_v1)%bool = true.
Proof. vm_compute. reflexivity. Qed.

(* ---- current encoding (v2): every listed field comes back; only msgpack's normalisation of attribute values *)
Theorem C01_mol_v2 : forall o, wf_obj false o -> roundtrip mol_v2 o = Some (mnorm_obj o).
Proof. exact (roundtrip_v2 mol_v2 (@eq_refl bool true <: wiring_ok mol_v2 = true) (@eq_refl bool true <: covers_all mol_v2 = true)). Qed.
Print Assumptions C01_mol_v2.

Theorem C01_ens_v2 : forall o, wf_obj true o -> roundtrip ens_v2 o = Some (mnorm_obj o).
Proof. exact (roundtrip_v2 ens_v2 (@eq_refl bool true <: wiring_ok ens_v2 = true) (@eq_refl bool true <: covers_all ens_v2 = true)). Qed.
Print Assumptions C01_ens_v2.

(* ... and exactly the object that was stored when its attribute values are msgpack-stable *)
Theorem C01_mol_v2_exact : forall o, wf_obj false o -> msgpack_stable o -> roundtrip mol_v2 o = Some o.
Proof. exact (roundtrip_v2_exact mol_v2 (@eq_refl bool true <: wiring_ok mol_v2 = true) (@eq_refl bool true <: covers_all mol_v2 = true)). Qed.
Print Assumptions C01_mol_v2_exact.

Theorem C01_ens_v2_exact : forall o, wf_obj true o -> msgpack_stable o -> roundtrip ens_v2 o = Some o.
Proof. exact (roundtrip_v2_exact ens_v2 (@eq_refl bool true <: wiring_ok ens_v2 = true) (@eq_refl bool true <: covers_all ens_v2 = true)). Qed.
Print Assumptions C01_ens_v2_exact.

(* ---- legacy encoding (v1), restricted to its schema: formal charge / spin and the three attribute dicts are not
   part of it and come back as the constructor defaults; every other field as in v2 *)
Theorem C01_mol_v1 : forall o, wf_obj false o ->
  roundtrip mol_v1 o = Some (reset_obj_v1 gen_adflt gen_bdflt (mnorm_obj o)).
Proof. exact (roundtrip_v1 mol_v1 (@eq_refl bool true <: wiring_ok mol_v1 = true) (@eq_refl bool true <: covers_v1 mol_v1 = true)). Qed.
Print Assumptions C01_mol_v1.

Theorem C01_ens_v1 : forall o, wf_obj true o ->
  roundtrip ens_v1 o = Some (reset_obj_v1 gen_adflt gen_bdflt (mnorm_obj o)).
Proof. exact (roundtrip_v1 ens_v1 (@eq_refl bool true <: wiring_ok ens_v1 = true) (@eq_refl bool true <: covers_v1 ens_v1 = true)). Qed.
Print Assumptions C01_ens_v1.

(* ---- one round trip reaches a fixpoint of the codec: what was read back is again a well-formed object and storing
   it anywhere (the same or another library) and reading it again returns exactly it -- for every object, with no
   msgpack-stability premise (lists already became tuples, doubles singles, on the first trip).  Consequently any
   number of copy-through-a-library steps equals one. *)
Theorem C01_read_back_is_wf : forall ens o, wf_obj ens o -> wf_obj ens (mnorm_obj o).
Proof. exact wf_obj_mnorm. Qed.
Print Assumptions C01_read_back_is_wf.

Theorem C01_second_trip_mol_v2 : forall o o1, wf_obj false o ->
  roundtrip mol_v2 o = Some o1 -> o1 = mnorm_obj o /\ roundtrip mol_v2 o1 = Some o1.
Proof.
  intros o o1 Hw E. rewrite (C01_mol_v2 o Hw) in E. injection E as <-. split; [reflexivity|].
  apply C01_mol_v2_exact; [apply wf_obj_mnorm; exact Hw|apply mnorm_obj_stable].
Qed.
Print Assumptions C01_second_trip_mol_v2.

Theorem C01_second_trip_ens_v2 : forall o o1, wf_obj true o ->
  roundtrip ens_v2 o = Some o1 -> o1 = mnorm_obj o /\ roundtrip ens_v2 o1 = Some o1.
Proof.
  intros o o1 Hw E. rewrite (C01_ens_v2 o Hw) in E. injection E as <-. split; [reflexivity|].
  apply C01_ens_v2_exact; [apply wf_obj_mnorm; exact Hw|apply mnorm_obj_stable].
Qed.
Print Assumptions C01_second_trip_ens_v2.

(* ---- nothing else changes: conformer count, the arrays (hence their shapes), atom count, bond sequence/endpoints *)
Theorem C01_nothing_else : forall o,
  frame (mnorm_obj o) = frame o /\ forall da db, frame (reset_obj_v1 da db (mnorm_obj o)) = frame o.
Proof. exact frame_kept. Qed.
Print Assumptions C01_nothing_else.

(* ---- the hypotheses are satisfiable by non-trivial objects, and the model really runs *)
Definition nan32 : Z := 2143289344.     (* 0x7FC00000 *)
Definition ex_atoms : list atom :=
  [ mk_atom (VInt 6) (VInt 13) (VStr "C1") (VInt 2) (VInt 10) (VInt 41) (VInt (-1)) (VInt 1)
            (VMap [(VStr "k", VTup [VInt 1; VNone; VBytes [0%N; 255%N]; VF32 1056964608])]);
    mk_atom (VInt 0) VNone VNone (VInt 100) (VInt 0) (VInt 0) (VInt 0) (VInt 0) (VMap []);     (* dummy, Unknown *)
    mk_atom (VInt 118) VNone (VStr "") (VInt 101) (VInt 0) (VInt 0) (VInt 0) (VInt 0) (VMap []) ]. (* attachment point *)
Definition ex_bonds : list bond :=
  [ mk_bond 2 0 (VStr "b") (VInt 20) (VInt 10) (VF32 1069547520) (VMap [(VInt 3, VStr "x")]);
    mk_bond 1 1 VNone (VInt 99) (VInt 0) (VF32 1065353216) (VMap []) ].
Definition ex_mol : obj :=
  mk_obj (VStr "m") (VInt (-2)) (VInt 3) (VMap [(VStr "a", VInt 1)]) ex_atoms ex_bonds 0
         [0; nan32; 2139095040; 1; 2147483648; 5; 6; 7; 8]%Z [1056964608; 0; 3204448256]%Z [].
Definition ex_ens : obj :=
  mk_obj (VStr "e") (VInt 0) (VInt 1) (VMap []) ex_atoms ex_bonds 2
         [0; 1; 2; 3; 4; 5; 6; 7; 8; nan32; 10; 11; 12; 13; 14; 15; 16; 17]%Z [1; 2; 3; 4; 5; 6]%Z [7; 8]%Z.
Definition ex_ens_empty : obj := mk_obj (VStr "") (VInt 0) (VInt 1) (VMap []) [] [] 0 [] [] [].
Definition ex_ens_noatoms : obj := mk_obj (VStr "z") (VInt 0) (VInt 1) (VMap []) [] [] 3 [] [] [1; 1; 1]%Z.

Example C01_hypotheses_satisfiable :
  wf_obj false ex_mol /\ wf_obj true ex_ens /\ wf_obj true ex_ens_empty /\ wf_obj true ex_ens_noatoms
  /\ wf_obj false ex_ens_empty /\ msgpack_stable ex_mol /\ msgpack_stable ex_ens.
Proof. vm_compute. repeat split; reflexivity. Qed.

Example C01_model_runs :
  roundtrip mol_v2 ex_mol = Some ex_mol /\ roundtrip ens_v2 ex_ens = Some ex_ens
  /\ roundtrip ens_v2 ex_ens_noatoms = Some ex_ens_noatoms
  /\ roundtrip ens_v1 ex_ens = Some (reset_obj_v1 gen_adflt gen_bdflt ex_ens)
  /\ roundtrip mol_v1 ex_mol <> Some ex_mol.
Proof. vm_compute. repeat split; try reflexivity. discriminate. Qed.

(* the recorded encoding decision (known finding C01:attrib:list-as-tuple) as the model states it *)
Example C01_known_lists_become_tuples :
  exists o, wf_obj false o /\ roundtrip mol_v2 o <> Some o
            /\ roundtrip mol_v2 o = Some (mnorm_obj o).
Proof.
  exists (mk_obj (VStr "m") (VInt 0) (VInt 1) (VMap [(VStr "k", VList [VInt 1])]) [] [] 0 [] [] []).
  vm_compute. repeat split; try reflexivity. discriminate.
Qed.
