(* C14 -- a conformer ensemble stays rectangular and its conformers are live views.
   Property theorems only; the model is Model/Ens.v (the definitions evaluated by the correspondence shards of
   every run: ConformerEnsemble.__init__ branch by branch, append, extend, scale, invert, translate, rotate, the
   whole-array setters, the Conformer view, iteration, slicing, dumps, the io round trip), the proofs are in
   Proofs/Ens.v.

   Rect e       :=  coords, atomic_charges and weights of e describe the same number of conformers, and every
                    coordinate block and every charge row has exactly (na e) = n_atoms entries.
   StoreRect W  :=  every ensemble created so far is Rect.
   step W o     =   Ok W' out (returned) | Err (raised: the store is unchanged -- by construction of the model,
                    and checked against the implementation after every raising call of the correspondence run)
                    | Unspec (two recorded findings: append onto the atomless empty ensemble ConformerEnsemble();
                    explicit n_conformers=0 with a Molecule).  `run` stops at Unspec, so every theorem about
                    `run W h = Some W'` is about histories that stay outside those two calls.           *)
From Coq Require Import List Bool ZArith Sorted.
Import ListNotations.
From Molli Require Import Model.Ens Proofs.Ens.

(* ---- the invariant is decidable (rect_b is what `check_case` could evaluate; here it links Rect to data) *)
Theorem C14_rect_decidable : forall e, rect_b e = true <-> Rect e.
Proof. exact rect_b_iff. Qed.
Print Assumptions C14_rect_decidable.

(* ---- established by EVERY constructor branch: from nothing / atoms / a list of structures (molecules or
        conformer views) / another ensemble / a molecule / a plain structure, with or without explicit coords,
        atomic_charges, weights -- whenever the constructor returns at all *)
Theorem C14_rect_constructors : forall W src nc_arg na_arg xc xq xw e,
  StoreRect W -> init W src nc_arg na_arg xc xq xw = CSome e -> Rect e.
Proof. exact init_rect. Qed.
Print Assumptions C14_rect_constructors.

(* ---- preserved by EVERY operation of the alphabet (32 letters, incl. append / extend / extend by an ensemble,
        collective transforms, setters, writes through a conformer, the io round trip) ... *)
Theorem C14_rect_step : forall W o W' w, StoreRect W -> step W o = Ok W' w -> StoreRect W'.
Proof. exact step_rect. Qed.
Print Assumptions C14_rect_step.

(* ---- ... hence after EVERY history, starting from nothing (a raising call is followed by the next one) *)
Theorem C14_rect_history : forall h W, run empty_store h = Some W -> StoreRect W.
Proof. intros h W H. exact (run_rect h empty_store W StoreRect_empty H). Qed.
Print Assumptions C14_rect_history.

Theorem C14_rect_history_from : forall h W W', StoreRect W -> run W h = Some W' -> StoreRect W'.
Proof. exact run_rect. Qed.
Print Assumptions C14_rect_history_from.

(* ---- operations on one ensemble never change its number of atoms, and only append / extend change its
        number of conformers *)
Theorem C14_shape_frame : forall W o i f e e',
  ens_fun W o = Some (i, f) -> f e = Some e' -> na e' = na e /\ (resizing o = false -> nc e' = nc e).
Proof. exact ens_fun_frame. Qed.
Print Assumptions C14_shape_frame.

(* ---- the Conformer view ens[k] is a lens onto row k: coordinates ... *)
Theorem C14_lens_coords : forall k v e e', c_set_coords k v e = Some e' ->
  c_get_coords k e' = Some v /\
  (forall k', py_index (nc e) k' <> py_index (nc e) k -> c_get_coords k' e' = c_get_coords k' e) /\
  na e' = na e /\ nc e' = nc e /\ charges e' = charges e /\ weights e' = weights e.
Proof.
  intros k v e e' H. split; [exact (lens_coords_get_set k v e e' H)|].
  split; [intros k' Hk; exact (lens_coords_other k k' v e e' H Hk)|exact (lens_coords_frame k v e e' H)].
Qed.
Print Assumptions C14_lens_coords.

(* ---- ... and partial charges (whole-array assignment through the view: the former finding 38) *)
Theorem C14_lens_charges : forall k v e e', c_set_charges k v e = Some e' ->
  c_get_charges k e' = Some v /\
  (forall k', py_index (length (charges e)) k' <> py_index (length (charges e)) k -> c_get_charges k' e' = c_get_charges k' e) /\
  na e' = na e /\ nc e' = nc e /\ coords e' = coords e /\ weights e' = weights e.
Proof.
  intros k v e e' H. split; [exact (lens_charges_get_set k v e e' H)|].
  split; [intros k' Hk; exact (lens_charges_other k k' v e e' H Hk)|exact (lens_charges_frame k v e e' H)].
Qed.
Print Assumptions C14_lens_charges.

(* ---- writing back what was read changes nothing *)
Theorem C14_lens_put_get : forall k e, Rect e ->
  (forall v, c_get_coords k e = Some v -> c_set_coords k v e = Some e) /\
  (forall v, c_get_charges k e = Some v -> c_set_charges k v e = Some e).
Proof. intros k e H. split; intros v Hv; [exact (lens_coords_set_get k v e H Hv)|exact (lens_charges_set_get k v e H Hv)]. Qed.
Print Assumptions C14_lens_put_get.

(* ---- EVERY write through a conformer (whole row, one element, scale / translate / transform of the view)
        leaves every other ensemble, every iterator, the shape, the weights and every other conformer's
        coordinates and charges as they were *)
Theorem C14_conf_write_frame : forall W o i k W' w,
  StoreRect W -> conf_write o = Some (i, k) -> step W o = Ok W' w ->
  iters W' = iters W /\ length (enss W') = length (enss W) /\
  (forall j, j <> i -> nth_error (enss W') j = nth_error (enss W) j) /\
  exists e e', nth_error (enss W) i = Some e /\ nth_error (enss W') i = Some e' /\
    na e' = na e /\ nc e' = nc e /\ weights e' = weights e /\
    forall k', py_index (nc e) k' <> py_index (nc e) k ->
      c_get_coords k' e' = c_get_coords k' e /\ c_get_charges k' e' = c_get_charges k' e.
Proof. exact conf_write_frame. Qed.
Print Assumptions C14_conf_write_frame.

(* ---- every conformer of a rectangular ensemble is a FULL molecule view (n_atoms coordinate rows, n_atoms charges),
        the ensemble can be dumped conformer by conformer, and the io round trip gives back the same ensemble *)
Theorem C14_view_writable : forall W e, Rect e ->
  (forall k j, py_index (nc e) k = Some j ->
     exists c q, c_get_coords k e = Some c /\ c_get_charges k e = Some q /\ length c = na e /\ length q = na e) /\
  dump_mol2 e = Some (zipw (@combine row3 num) (coords e) (charges e)) /\ length (dump_xyz e) = nc e /\
  ser_roundtrip W e = CSome e.
Proof.
  intros W e H. split; [intros k j Hk; exact (conf_view_full e k j H Hk)|].
  destruct (dump_rect e H) as [D1 D2]. split; [exact D1|]. split; [exact D2|exact (ser_roundtrip_id W e H)].
Qed.
Print Assumptions C14_view_writable.

(* ---- iteration: one complete loop visits 0 .. nc-1 once each, in order; nested loops visit the full product *)
Theorem C14_for_loop : forall len, for_ids len = seq 0 len /\ nested_ids len = list_prod (seq 0 len) (seq 0 len).
Proof. intros len. split; [exact (for_ids_seq len)|exact (nested_ids_prod len)]. Qed.
Print Assumptions C14_for_loop.

(* ---- any interleaving: an iterator standing at cursor c over an ensemble of len conformers yields
        c, c+1, ..., len-1 on its successive next() calls and then stops, WHATEVER happens in between (other
        iterators over the same or other ensembles being created and advanced, writes, transforms, new ensembles,
        dumps) as long as nothing resizes an ensemble *)
Theorem C14_iter_interleaved : forall h W Wf t i c len,
  IterAt W t i c len -> no_resize h -> run W h = Some Wf ->
  iter_yields t W h = firstn (count_next t h) (seq c (len - c)).
Proof. exact iter_interleaved. Qed.
Print Assumptions C14_iter_interleaved.

(* ---- a fresh iterator: each conformer exactly once, in order *)
Theorem C14_iter_once : forall W i e h Wf,
  nth_error (enss W) i = Some e -> no_resize h -> run W (IterNew i :: h) = Some Wf ->
  let t := length (iters W) in
  iter_yields t W (IterNew i :: h) = firstn (count_next t h) (seq 0 (nc e)) /\
  (nc e <= count_next t h -> iter_yields t W (IterNew i :: h) = seq 0 (nc e)).
Proof. exact iter_fresh. Qed.
Print Assumptions C14_iter_once.

(* ---- the protocol as it was before the repair (the cursor stored on the ensemble, __iter__ returning the
        ensemble itself) visits only (0,0) .. (0,len-1) in a nested loop: refuted for every ensemble with at
        least two conformers *)
Theorem C14_shared_cursor_refuted : forall len, 2 <= len ->
  nested_ids_shared len = map (pair 0) (seq 0 len) /\ nested_ids_shared len <> nested_ids len.
Proof. intros len H. split; [exact (nested_ids_shared_spec len)|exact (shared_cursor_refuted len H)]. Qed.
Print Assumptions C14_shared_cursor_refuted.

(* ---- a slice only names conformers that exist *)
Theorem C14_slice_valid : forall len a b c ids x,
  slice_ids len a b c = Some ids -> In x ids -> (0 <= x < Z.of_nat len)%Z.
Proof. exact slice_ids_in_range. Qed.
Print Assumptions C14_slice_valid.

(* ---- ... and names EXACTLY the conformers a python list slice of [0 .. len-1] selects, for EVERY slice (negative,
        out-of-range or missing start / stop, any non-zero step, empty results): with (lo, hi, st) the clipped bounds
        of slice.indices, the result lists -- no conformer twice, in the direction of the step -- exactly the
        existing conformers lo + j*st that lie before hi.  (range over slice.indices(n) is how CPython defines
        list(range(n))[a:b:c]; the named forms below spell the clipping out.) *)
Theorem C14_slice_spec : forall len a b c ids, slice_ids len a b c = Some ids ->
  exists lo hi st, slice_indices (Z.of_nat len) a b c = Some (lo, hi, st) /\ st <> 0%Z /\ NoDup ids /\
    StronglySorted (fun x y => if (0 <? st)%Z then (x < y)%Z else (y < x)%Z) ids /\
    forall x, In x ids <->
      (0 <= x < Z.of_nat len)%Z /\
      exists j : nat, x = (lo + Z.of_nat j * st)%Z /\ ((0 < st /\ x < hi) \/ (st < 0 /\ hi < x))%Z.
Proof. exact slice_ids_spec. Qed.
Print Assumptions C14_slice_spec.

(* ---- the slice forms by name: ens[:] is every conformer in order; ens[::-1] every conformer in reverse; ens[:k]
        the first k (NONE for k = 0, all for k beyond the end); ens[k:] conformers k .. len-1 (none for k beyond the
        end); ens[-k:] the LAST k, each once; ens[:-k] all but the last k *)
Theorem C14_slice_forms : forall len,
  slice_ids len None None None = Some (map Z.of_nat (seq 0 len)) /\
  slice_ids len None None (Some (-1)%Z) = Some (rev (map Z.of_nat (seq 0 len))) /\
  (forall k, slice_ids len None (Some (Z.of_nat k)) None = Some (map Z.of_nat (seq 0 (Nat.min k len)))) /\
  (forall k, slice_ids len (Some (Z.of_nat k)) None None = Some (map Z.of_nat (seq (Nat.min k len) (len - k)))) /\
  (forall k, 0 < k -> slice_ids len (Some (- Z.of_nat k)%Z) None None = Some (map Z.of_nat (seq (len - k) (Nat.min k len)))) /\
  (forall k, 0 < k -> slice_ids len None (Some (- Z.of_nat k)%Z) None = Some (map Z.of_nat (seq 0 (len - k)))).
Proof.
  intros len. split; [exact (slice_full len)|]. split; [exact (slice_reversed len)|]. split; [exact (slice_prefix len)|].
  split; [exact (slice_suffix len)|]. split; [exact (slice_neg_start len)|exact (slice_neg_stop len)].
Qed.
Print Assumptions C14_slice_forms.

(* ---- ens[::s], s > 0: the conformers whose index is a multiple of s *)
Theorem C14_slice_stride : forall len s ids, (0 < s)%Z -> slice_ids len None None (Some s) = Some ids ->
  forall x, In x ids <-> (0 <= x < Z.of_nat len)%Z /\ (x mod s = 0)%Z.
Proof. exact slice_stride. Qed.
Print Assumptions C14_slice_stride.

(* ---- a slice raises exactly when its step is 0 *)
Theorem C14_slice_zero_step : forall len a b c, slice_ids len a b c = None <-> c = Some 0%Z.
Proof. exact slice_ids_none. Qed.
Print Assumptions C14_slice_zero_step.

(* ---- the elements of a slice are live views: `for conf in ens[a:b:c]: conf.<transform f>` never fails for a
        non-zero step and transforms exactly the rows the slice names, ONCE each; every other row, the charges, the
        weights and the shape stay as they were *)
Theorem C14_slice_write : forall a b c f e ids, slice_ids (nc e) a b c = Some ids ->
  exists e', slice_map a b c f e = Some e' /\ na e' = na e /\ nc e' = nc e /\ charges e' = charges e /\ weights e' = weights e /\
    forall j, (In (Z.of_nat j) ids -> nth_error (coords e') j = option_map (map f) (nth_error (coords e) j)) /\
              (~ In (Z.of_nat j) ids -> nth_error (coords e') j = nth_error (coords e) j).
Proof. exact slice_map_spec. Qed.
Print Assumptions C14_slice_write.

(* ---- every correspondence case the kernel accepts is a run of this model from nothing, ending rectangular *)
Theorem C14_check_case_sound : forall c, check_case c = true ->
  exists W', run empty_store (map fst c) = Some W' /\ StoreRect W'.
Proof. exact check_case_sound. Qed.
Print Assumptions C14_check_case_sound.

(* ---- the two recorded findings (regions where `step` is Unspec), as the code behaves today:
        (a) append onto the atomless empty ensemble adopts a coordinate block wider than the atom list -> not Rect;
        (b) an explicit n_conformers=0 with a Molecule yields ONE conformer (rectangular, but not what was asked) *)
Theorem C14_known_atomless_append_refuted : forall c q e,
  atomless_empty e = true -> c <> [] -> ~ Rect (append_atomless_as_coded c q e).
Proof. exact atomless_append_breaks. Qed.
Print Assumptions C14_known_atomless_append_refuted.

Theorem C14_known_ctor_zero : forall a, Rect (ctor_mol_zero_as_coded a) /\ nc (ctor_mol_zero_as_coded a) = 1.
Proof. exact ctor_mol_zero_yields_one. Qed.
Print Assumptions C14_known_ctor_zero.

(* ---- non-vacuity: two molecules -> ensemble; append a chargeless geometry; two interleaved iterators with a
        write through a conformer in between; a rejected append (wrong atom count); extend by itself; io round
        trip; scale of the copy only *)
Local Open Scope Z_scope.
Definition ex_h : list op :=
  [ New (SrcList [GLit [r3 1 2 3; r3 4 5 6] [n 7; n 8]; GLit [r3 11 12 13; r3 14 15 16] [n 17; n 18]]) None 0%nat None None None;
    Append 0%nat (GGeom [r3 21 22 23; r3 24 25 26]);
    IterNew 0%nat; IterNext 0%nat; IterNew 0%nat; IterNext 1%nat; IterNext 0%nat;
    ConfSetCharges 0%nat (-1) [n 41; n 42];
    IterNext 1%nat; IterNext 1%nat; IterNext 0%nat; IterNext 0%nat; IterNext 1%nat;
    Append 0%nat (GLit [r3 1 1 1] [n 1]);
    ExtendEns 0%nat 0%nat; Serialise 0%nat; Scale 1%nat 2 false ].

Example C14_nonvacuous :
  exists W e0 e1, run empty_store ex_h = Some W /\ enss W = [e0; e1] /\
    nc e0 = 6%nat /\ nc e1 = 6%nat /\ na e0 = 2%nat /\
    iter_yields 0 empty_store ex_h = [0; 1; 2]%nat /\ iter_yields 1 empty_store ex_h = [0; 1; 2]%nat /\
    c_get_charges 2 e0 = Some [n 41; n 42] /\ c_get_charges (-1) e0 = Some [n 41; n 42] /\
    c_get_coords 5 e0 = Some [r3 21 22 23; r3 24 25 26] /\ c_get_coords 5 e1 = Some [r3 42 44 46; r3 48 50 52] /\
    weights e0 = [n 1; n 1; n 1; n 1; n 1; n 1] /\
    step W (Append 0%nat (GLit [r3 1 1 1] [n 1])) = Err /\
    step empty_store (New (SrcMol (GLit [r3 1 2 3] [n 4])) (Some 0%nat) 0%nat None None None) = Unspec.
Proof. vm_compute. do 3 eexists. repeat split. Qed.

(* the hypotheses of C14_iter_interleaved are satisfiable: two iterators over a 3-conformer ensemble *)
Example C14_iter_hypotheses :
  let W := mkStore [alloc 3 2] [(0, 1); (0, 0)]%nat in
  let h := [IterNext 1%nat; IterNext 0%nat; Translate1 0%nat (1, 2, 3); IterNext 1%nat; IterNext 0%nat; IterNext 0%nat;
            IterNext 1%nat; IterNext 1%nat] in
  IterAt W 0%nat 0%nat 1%nat 3%nat /\ IterAt W 1%nat 0%nat 0%nat 3%nat /\ no_resize h /\ run W h <> None /\
  iter_yields 0 W h = [1; 2]%nat /\ iter_yields 1 W h = [0; 1; 2]%nat.
Proof.
  simpl. repeat split; try (eexists; split; reflexivity); try discriminate.
  repeat constructor.
Qed.

(* the slice theorems are not vacuous: the unusual-but-legal forms on six conformers, and a write through ens[-2:] *)
Example C14_slice_examples :
  slice_ids 6 (Some (-2)) None None = Some [4; 5] /\ slice_ids 6 None (Some 0) None = Some [] /\
  slice_ids 6 (Some 2) (Some 0) None = Some [] /\ slice_ids 6 None (Some (-1)) None = Some [0; 1; 2; 3; 4] /\
  slice_ids 6 (Some (-4)) (Some (-1)) None = Some [2; 3; 4] /\ slice_ids 6 None None (Some (-1)) = Some [5; 4; 3; 2; 1; 0] /\
  slice_ids 6 (Some 4) (Some 1) (Some (-1)) = Some [4; 3; 2] /\ slice_ids 6 (Some (-1)) None (Some (-2)) = Some [5; 3; 1] /\
  slice_ids 6 (Some (-100)) (Some 2) None = Some [0; 1] /\ slice_ids 6 (Some 1) (Some 100) (Some 2) = Some [1; 3; 5] /\
  slice_ids 6 None None (Some 0) = None /\
  option_map coords (slice_map (Some (-2)) None None (r_add (1, 1, 1)) (mkEns 1 [[r3 1 1 1]; [r3 2 2 2]; [r3 3 3 3]] [[n 0]; [n 0]; [n 0]] [n 1; n 1; n 1]))
    = Some [[r3 1 1 1]; [r3 3 3 3]; [r3 4 4 4]].
Proof. vm_compute. repeat split. Qed.

(* ---- DETACHED views: a conformer that outlives every other reference to its ensemble (restored from a pickle -- alone, in a
        slice, as an element of a pickled ensemble --, deep-copied, returned by a helper whose ensemble was a local) is still a
        conformer of an ensemble: detaching adds a copy of its ensemble to the store and changes nothing else ... *)
Theorem C14_detached_view : forall W i W1, detach W i = Some W1 ->
  exists e, nth_error (enss W) i = Some e /\ W1 = push_ens W e /\ nth_error (enss W1) (length (enss W)) = Some e /\
            iters W1 = iters W /\ (forall j, (j < length (enss W))%nat -> nth_error (enss W1) j = nth_error (enss W) j) /\
            (StoreRect W -> StoreRect W1).
Proof. exact detach_spec. Qed.
Print Assumptions C14_detached_view.
(* ... every use of it is the ordinary operation through conformer k of that ensemble (so the rectangularity, lens and frame
   theorems above hold for it) ... *)
Theorem C14_detached_write : forall W j k u e e', u <> DRead -> nth_error (enss W) j = Some e -> duse_fun k u e = Some e' ->
  step W (duse_op j k u) = Ok (set_ens W j e') ONone.
Proof. exact detached_write_is_step. Qed.
Theorem C14_detached_read : forall W j k e c q, nth_error (enss W) j = Some e -> c_get_coords k e = Some c -> c_get_charges k e = Some q ->
  step W (duse_op j k DRead) = Ok W (OConf c q) /\ duse_fun k DRead e = Some e.
Proof. exact detached_read_is_step. Qed.
(* ... and what is written through it never reaches the ensemble it was copied from *)
Theorem C14_detached_original_untouched : forall W i W1 e', detach W i = Some W1 ->
  forall j, (j < length (enss W))%nat -> nth_error (enss (set_ens W1 (length (enss W)) e')) j = nth_error (enss W) j.
Proof. exact detached_original_untouched. Qed.
Print Assumptions C14_detached_original_untouched.
Example C14_detached_nonvacuous :
  let e := mkEns 2%nat [[r3 1 2 3; r3 4 5 6]; [r3 11 12 13; r3 14 15 16]; [r3 21 22 23; r3 24 25 26]] [[n 7; n 8]; [n 17; n 18]; [n 27; n 28]] [n 1; n 1; n 1] in
  check_detached (e, [2; 0]%Z, [DRead; DTranslate (1, 1, 1)%Z; DSetChargeElem 1 (n 99); DScale 2],
                  [[([r3 21 22 23; r3 24 25 26], [n 27; n 28]); ([r3 1 2 3; r3 4 5 6], [n 7; n 8])];
                   [([r3 21 22 23; r3 24 25 26], [n 27; n 28]); ([r3 2 3 4; r3 5 6 7], [n 7; n 8])];
                   [([r3 21 22 23; r3 24 25 26], [n 27; n 99]); ([r3 2 3 4; r3 5 6 7], [n 7; n 8])];
                   [([r3 21 22 23; r3 24 25 26], [n 27; n 99]); ([r3 4 6 8; r3 10 12 14], [n 7; n 8])]]) = true /\
  exists W1, detach (push_ens empty_store e) 0%nat = Some W1 /\ length (enss W1) = 2%nat.
Proof. split; [vm_compute; reflexivity|]. eexists. split; [vm_compute; reflexivity|reflexivity]. Qed.
