(* C14 -- stub *)
From Coq Require Import List Bool ZArith.
Import ListNotations.
From Molli Require Import Model.Ens Proofs.Ens.

Theorem C14_rect_alloc : forall k a, Rect (alloc k a).
Proof. exact Rect_alloc. Qed.
Print Assumptions C14_rect_alloc.
