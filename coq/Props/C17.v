(* C17 -- "A job runs exactly what was asked and reports exactly what happened": property theorems only.
   Model: Model/Job.v (binding of the shared Job descriptor; run_local over an arbitrary command oracle `exec`).
   Tie: harness/c17.py replays real driver histories and real run_local executions in the model (check_bcase,
   check_rcase evaluated by the kernel). *)
From Coq Require Import List Bool NArith ZArith String.
Import ListNotations.
From Molli Require Import Model.Job Proofs.Job Model.JobCtor Proofs.JobCtor.
Local Open Scope string_scope.

(* ================================================================== (i) binding *)
(* After ANY history of creating, reassigning and using drivers (instances of any subclasses sharing the one Job
   object), using driver i yields the Job's declared settings resolved against i's own class and instance
   attributes ... *)
Theorem C17_binding_value : forall decl evs i c s,
  nget i (bs_drivers (fst (brun MCopy (binit decl) evs))) = Some (c, s) ->
  use_after decl evs i = Some (bind decl c s).
Proof. exact binding_value. Qed.
Print Assumptions C17_binding_value.

(* ... i.e. exactly what it yields when every event about the other drivers is erased from the history. *)
Theorem C17_binding_independent : forall decl evs i,
  use_after decl evs i = use_after decl (filter (concerns i) evs) i.
Proof. exact binding_independent. Qed.
Print Assumptions C17_binding_independent.

(* ---- bound jobs that are KEPT.  `h = d_i.job` is an event of its own (BGet i h), separate from using the object
   kept in h (BPrep h).  molli's semantics (Job.__get__ binds a fresh copy): a bound job is a VALUE fixed at the
   moment it is obtained.  Whatever happens between obtaining and using -- other drivers created, reassigned, used,
   THEIR jobs obtained and kept or used, more jobs obtained through the same driver, even driver i itself
   reassigned -- using h yields exactly what using driver i at the moment of obtaining would have yielded ... *)
Theorem C17_binding_held_fixed : forall decl evs1 i h evs2 b,
  use_after decl evs1 i = Some b ->
  forallb (fun ev => negb (obtains h ev)) evs2 = true ->
  held_after decl (evs1 ++ BGet i h :: evs2) h = Some b.
Proof. exact held_fixed. Qed.
Print Assumptions C17_binding_held_fixed.

(* ... which is bind(decl, class_i, instance_i) with the attributes driver i had when the job was obtained ... *)
Theorem C17_binding_held_value : forall decl evs1 i h evs2 c s,
  nget i (bs_drivers (fst (brun MCopy (binit decl) evs1))) = Some (c, s) ->
  forallb (fun ev => negb (obtains h ev)) evs2 = true ->
  held_after decl (evs1 ++ BGet i h :: evs2) h = Some (bind decl c s).
Proof. exact held_value. Qed.
Print Assumptions C17_binding_held_value.

(* ... and depends on nothing but the events about driver i before the obtain: all other drivers and everything
   after the obtain can be erased from the history. *)
Theorem C17_binding_held_independent : forall decl evs1 i h evs2 b,
  use_after decl evs1 i = Some b ->
  forallb (fun ev => negb (obtains h ev)) evs2 = true ->
  held_after decl (evs1 ++ BGet i h :: evs2) h = use_after decl (filter (concerns i) evs1) i
  /\ held_after decl (evs1 ++ BGet i h :: evs2) h = held_after decl (filter (concerns i) evs1 ++ [BGet i h]) h.
Proof. exact held_independent. Qed.
Print Assumptions C17_binding_held_independent.

(* the same for a job obtained through the class (`h = type(d_i).job`) *)
Theorem C17_binding_held_fixed_cls : forall decl evs1 i h evs2 b,
  usecls_after decl evs1 i = Some b ->
  forallb (fun ev => negb (obtains h ev)) evs2 = true ->
  held_after decl (evs1 ++ BGetCls i h :: evs2) h = Some b.
Proof. exact held_fixed_cls. Qed.
Print Assumptions C17_binding_held_fixed_cls.

Theorem C17_binding_independent_cls : forall decl evs i,
  usecls_after decl evs i = usecls_after decl (filter (concerns i) evs) i.
Proof. exact binding_independent_cls. Qed.
Print Assumptions C17_binding_independent_cls.

Example C17_binding_held_nonvacuous :
  let d1 := mk_settings (Some "sh") (Some 4%N) None (Some [("A", "1")]) in
  let d2 := mk_settings (Some "bash") (Some 8%N) (Some 9%N) (Some [("B", "2")]) in
  let evs1 := [BCreate 1 no_settings d1; BCreate 2 no_settings d2; BGet 2 7; BUse 2] in
  let evs2 := [BGet 2 1; BSet 1 d2; BGet 1 2; BPrep 1; BUse 2; BGetCls 2 3] in
  use_after no_settings evs1 1 = Some (mk_bound (Some "sh") 4 1000 [("A", "1")])
  /\ forallb (fun ev => negb (obtains 0 ev)) evs2 = true
  /\ held_after no_settings (evs1 ++ BGet 1 0 :: evs2) 0 = Some (mk_bound (Some "sh") 4 1000 [("A", "1")])
  /\ held_after no_settings (evs1 ++ BGet 1 0 :: evs2) 2 = Some (mk_bound (Some "bash") 8 9 [("B", "2")])
  /\ held_after no_settings (evs1 ++ BGet 1 0 :: evs2) 3 = Some (mk_bound None 1 1000 []).
Proof. repeat split; reflexivity. Qed.

(* The variant of __get__ that allocates ONE bound object per descriptor and refreshes it on every access hands the
   same object to every holder: with two jobs held side by side the one obtained through driver 1 carries driver
   2's executable, nprocs and environment; on histories that use every job at once it cannot be told from the
   fresh copy (so such histories do not test it). *)
Lemma C17_binding_shared_refuted :
  nth 4 (snd (brun MShared (binit no_settings) shared_witness)) None
  = Some (mk_bound (Some "bash") 8 1000 [("B", "2")])
  /\ nth 4 (snd (brun MCopy (binit no_settings) shared_witness)) None
  = Some (mk_bound (Some "sh") 4 1000 [("A", "1")]).
Proof. exact shared_refuted. Qed.

Lemma C17_binding_shared_invisible_when_immediate : forall evs st,
  forallb immediate evs = true -> bs_held st = [] -> brun MShared st evs = brun MCopy st evs.
Proof. exact shared_invisible_when_immediate. Qed.

(* For a Job declared without settings of its own in a class without such attributes (all shipped drivers) the
   bound job carries the instance's executable, processor count (default 1), memory (default 1000) and environment. *)
Theorem C17_binding_reflects_instance : forall s, NoDup (map fst (env_of (s_env s))) ->
  let b := bind no_settings no_settings s in
  b_exe b = s_exe s /\ b_nprocs b = n_or (s_nprocs s) 1 /\ b_mem b = n_or (s_mem s) 1000 /\ b_env b = env_of (s_env s).
Proof. exact bind_reflects_instance. Qed.
Print Assumptions C17_binding_reflects_instance.

(* The variant of __get__ that assigns to the shared descriptor (the code before the repair, DESIGN finding 19)
   breaks the property: the second driver is bound with the first one's executable, nprocs and environment. *)
Lemma C17_binding_sticky_refuted :
  nth 3 (snd (brun MSticky (binit no_settings) sticky_witness)) None
  = Some (mk_bound (Some "sh") 4 1000 [("B", "2"); ("A", "1")])
  /\ nth 3 (snd (brun MCopy (binit no_settings) sticky_witness)) None
  = Some (mk_bound (Some "bash") 8 1000 [("B", "2")]).
Proof. exact sticky_refuted. Qed.

Example C17_binding_nonvacuous :
  let evs := [BCreate 1 no_settings (mk_settings (Some "sh") (Some 4%N) None (Some [("A", "1")]));
              BCreate 2 (mk_settings None None None (Some [("K", "cls")])) (mk_settings (Some "bash") (Some 0%N) (Some 9%N) None);
              BUse 1; BSet 2 (mk_settings (Some "zsh") (Some 2%N) None None); BUseCls 1; BUse 2] in
  use_after no_settings evs 2 = Some (mk_bound (Some "zsh") 2 1000 [("K", "cls")])
  /\ use_after no_settings evs 1 = Some (mk_bound (Some "sh") 4 1000 [("A", "1")]).
Proof. split; reflexivity. Qed.

(* ================================================================== (i') the driver constructor in front of the binding *)
(* `CNew i k args` is d_i = Class_k(args) run through DriverBase.__init__ (Model/JobCtor.v): the name the instance
   was given (else the class's default_executable) is looked up in an explicit world (PATH directories in order, the
   executable files) when check_exe is on, refused when unreachable, replaced by its location when find is on.
   The model with constructor calls is the binding model run on the elaborated history, so everything above applies. *)
Theorem C17_ctor_is_binding_model : forall w cl evs st,
  cs_b (fst (crun LFresh w cl st evs)) = fst (brun MCopy (cs_b st) (elab w cl evs))
  /\ b_obs (snd (crun LFresh w cl st evs)) = snd (brun MCopy (cs_b st) (elab w cl evs))
  /\ cs_memo (fst (crun LFresh w cl st evs)) = cs_memo st.
Proof. exact crun_fresh_elab. Qed.
Print Assumptions C17_ctor_is_binding_model.

(* Whatever drivers were constructed, refused, reassigned, used or had their jobs kept before (evs1) and afterwards
   (evs2: anything but re-creating / reassigning d_i itself) -- instances of the SAME class or of other classes, with
   any executables, reachable or not, in any order -- the job bound through d_i is the Job's declared settings
   resolved against what the constructor made of d_i's OWN arguments ... *)
Theorem C17_ctor_binding_value : forall w cl decl evs1 i k a dflt cattrs s evs2,
  nget k cl = Some (dflt, cattrs) -> construct w dflt a = COk s ->
  forallb (fun ev => negb (retouches i ev)) evs2 = true ->
  use_after decl (elab w cl (evs1 ++ CNew i k a :: evs2)) i = Some (bind decl cattrs s).
Proof. exact ctor_use_value. Qed.
Print Assumptions C17_ctor_binding_value.

(* ... i.e. what it is in the history that consists of this one constructor call ... *)
Theorem C17_ctor_binding_independent : forall w cl decl evs1 i k a dflt cattrs s evs2,
  nget k cl = Some (dflt, cattrs) -> construct w dflt a = COk s ->
  forallb (fun ev => negb (retouches i ev)) evs2 = true ->
  use_after decl (elab w cl (evs1 ++ CNew i k a :: evs2)) i = use_after decl (elab w cl [CNew i k a]) i.
Proof. exact ctor_use_independent. Qed.
Print Assumptions C17_ctor_binding_independent.

(* ... also for a bound job obtained through d_i, kept in a variable and used later. *)
Theorem C17_ctor_held_value : forall w cl decl evs1 i k a dflt cattrs s evs2 h evs3,
  nget k cl = Some (dflt, cattrs) -> construct w dflt a = COk s ->
  forallb (fun ev => negb (retouches i ev)) evs2 = true ->
  forallb (fun ev => negb (obtains h ev)) evs3 = true ->
  held_after decl (elab w cl (evs1 ++ CNew i k a :: evs2) ++ BGet i h :: evs3) h = Some (bind decl cattrs s).
Proof. exact ctor_held_value. Qed.
Print Assumptions C17_ctor_held_value.

(* What the constructor makes of an instance's arguments: its own processor count (1 when omitted), memory and
   environment; its own name (or the class default) -- as given when the lookup is off, as located in the world (or
   as given, find=False) when it is on. *)
Theorem C17_construct_reflects_args : forall w dflt a s, construct w dflt a = COk s ->
  s_nprocs s = Some (match a_nprocs a with Some n => n | None => 1%N end) /\ s_mem s = a_mem a /\ s_env s = a_env a
  /\ (a_check a = false -> s_exe s = wanted dflt a)
  /\ (a_check a = true -> exists e p, wanted dflt a = Some e /\ which w e = Some p
                                     /\ s_exe s = Some (if a_find a then p else e)).
Proof. exact construct_reflects_args. Qed.
Print Assumptions C17_construct_reflects_args.

(* With the check on, an instance is refused exactly when ITS executable is unreachable; a refused call leaves no trace. *)
Theorem C17_construct_refused_iff : forall w dflt a e, a_check a = true -> wanted dflt a = Some e ->
  (construct w dflt a = CRefused <-> which w e = None).
Proof. exact construct_refused_iff. Qed.
Print Assumptions C17_construct_refused_iff.

Theorem C17_ctor_refused_no_trace : forall w cl evs1 i k a dflt cattrs evs2,
  nget k cl = Some (dflt, cattrs) -> construct w dflt a = CRefused ->
  elab w cl (evs1 ++ CNew i k a :: evs2) = elab w cl (evs1 ++ evs2).
Proof. exact ctor_refused_no_trace. Qed.
Print Assumptions C17_ctor_refused_no_trace.

(* The lookup: a name with a directory part is tested as it stands; a bare name resolves to the FIRST directory of
   PATH holding an executable of that name; whatever is located is an executable file. *)
Theorem C17_which_path : forall w n, has_slash n = true -> which w n = if is_exe w n then Some n else None.
Proof. exact which_abs. Qed.
Print Assumptions C17_which_path.

Theorem C17_which_bare : forall w n p, has_slash n = false -> which w n = Some p ->
  exists l1 d l2, w_path w = (l1 ++ d :: l2)%list /\ p = join d n /\ is_exe w p = true
                  /\ forall d', In d' l1 -> is_exe w (join d' n) = false.
Proof. exact which_bare. Qed.
Print Assumptions C17_which_bare.

Theorem C17_which_bare_none : forall w n, has_slash n = false -> which w n = None ->
  forall d, In d (w_path w) -> is_exe w (join d n) = false.
Proof. exact which_bare_none. Qed.
Print Assumptions C17_which_bare_none.

(* The variant of which() that memoises the lookup per driver CLASS breaks the property: the second instance of the
   class runs the first one's program and a third one with an unreachable executable is let through.  Histories whose
   constructor calls all switch the lookup off (check_exe=False) cannot tell it from the code -- so they do not test it. *)
Lemma C17_ctor_memo_refuted :
  let cl := [(0%N, (None, no_settings))] in
  snd (crun LMemoClass memo_world cl (cinit no_settings) memo_witness)
  = [ONew (COk (mk_settings (Some "/W/d1/tool") (Some 4%N) None None));
     ONew (COk (mk_settings (Some "/W/d1/tool") (Some 2%N) None None));
     ONew (COk (mk_settings (Some "/W/d1/tool") (Some 1%N) None None));
     OB (Some (mk_bound (Some "/W/d1/tool") 2 1000 [])); OB (Some (mk_bound (Some "/W/d1/tool") 4 1000 []))]
  /\ snd (crun LFresh memo_world cl (cinit no_settings) memo_witness)
  = [ONew (COk (mk_settings (Some "/W/d1/tool") (Some 4%N) None None));
     ONew (COk (mk_settings (Some "/W/d2/beta") (Some 2%N) None None));
     ONew CRefused;
     OB (Some (mk_bound (Some "/W/d2/beta") 2 1000 [])); OB (Some (mk_bound (Some "/W/d1/tool") 4 1000 []))].
Proof. exact memo_refuted. Qed.

Lemma C17_ctor_memo_invisible_without_lookup : forall w cl evs st,
  forallb lookup_off evs = true -> crun LMemoClass w cl st evs = crun LFresh w cl st evs.
Proof. exact memo_invisible_without_lookup. Qed.

Example C17_ctor_nonvacuous :
  let w := mk_world ["/W/d1"; "/W/d2"] ["/W/d1/tool"; "/W/d2/tool"; "/W/d2/beta"; "/W/d2/deflt"; "/W/d3/tool"] in
  let cl := [(0%N, (Some "deflt", no_settings)); (1%N, (None, mk_settings None None None (Some [("K", "cls")])))] in
  let a := mk_cargs (Some "/W/d3/tool") (Some 4%N) None (Some [("A", "1")]) true true in
  let evs1 := [CNew 0 0 (mk_cargs None None None None true true); CNew 1 0 (mk_cargs (Some "beta") (Some 2%N) None None true true);
               CNew 3 1 (mk_cargs (Some "gamma") None None None true true); CEv (BUse 1)] in
  let evs2 := [CNew 4 1 (mk_cargs (Some "tool") None (Some 9%N) None true false); CEv (BUse 0); CEv (BGet 4 0); CEv (BUse 3)] in
  construct w None a = COk (mk_settings (Some "/W/d3/tool") (Some 4%N) None (Some [("A", "1")]))
  /\ forallb (fun ev => negb (retouches 2 ev)) evs2 = true
  /\ use_after no_settings (elab w cl (evs1 ++ CNew 2 1 a :: evs2)) 2
      = Some (mk_bound (Some "/W/d3/tool") 4 1000 [("K", "cls"); ("A", "1")])
  /\ snd (crun LFresh w cl (cinit no_settings) (evs1 ++ CNew 2 1 a :: evs2))
      = [ONew (COk (mk_settings (Some "/W/d2/deflt") (Some 1%N) None None));
         ONew (COk (mk_settings (Some "/W/d2/beta") (Some 2%N) None None));
         ONew CRefused; OB (Some (mk_bound (Some "/W/d2/beta") 2 1000 []));
         ONew (COk (mk_settings (Some "/W/d3/tool") (Some 4%N) None (Some [("A", "1")])));
         ONew (COk (mk_settings (Some "tool") (Some 1%N) (Some 9%N) None));
         OB (Some (mk_bound (Some "/W/d2/deflt") 1 1000 []));
         OB (Some (mk_bound (Some "tool") 1 9 [("K", "cls")])); OB None].
Proof. cbv zeta. repeat split; reflexivity. Qed.

(* ================================================================== (ii) run_local, for EVERY command oracle *)
(* Commands run in order, each in the directory its predecessor left (first one: the materialised input files), with the
   overlaid environment; all executed commands but the last succeeded; the loop stops early only behind a failing
   command; nothing after the first failure is executed. *)
Theorem C17_prefix : forall (cmd : Type) (exec : cmd -> env -> fs -> cmd_result) e cs f,
  let sts := loop cmd exec e cs f in
  (exists rest, (map (cmd_of cmd) sts ++ rest)%list = cs)
  /\ chained cmd exec e f sts
  /\ Forall (ok cmd) (removelast sts)
  /\ (Forall (ok cmd) sts -> List.length sts = List.length cs)
  /\ (List.length sts < List.length cs -> exists l s, sts = (l ++ [s])%list /\ r_code (st_res s) <> 0%Z)
  /\ (cs <> [] -> sts <> []).
Proof. exact loop_spec. Qed.
Print Assumptions C17_prefix.

(* what run_local executes is that loop over the job's commands, from the materialised files, under base | envars;
   the effects outside the scratch directory are those of the executed commands only *)
Theorem C17_executed : forall cmd exec hash scratch td base (inp : jobinput cmd),
  let r := run_local cmd exec hash scratch td base inp in
  rr_steps r = loop cmd exec (overlay base (ji_env inp)) (ji_cmds inp) (materialise (ji_files inp))
  /\ rr_ext r = flat_map (fun s => r_ext (st_res s)) (rr_steps r)
  /\ rr_outcome r = fst (body cmd exec hash base inp).
Proof. exact run_local_steps. Qed.
Print Assumptions C17_executed.

(* When an output is written: exit status 0 <-> every command was executed and succeeded and every requested file
   exists; the recorded exit code is 0 under exactly the same condition; the returned files are, as a map, the
   requested names that exist in the final directory with their bytes; the output carries the input's hash; the
   recorded stdouts/stderrs are the capture files read back. *)
Theorem C17_exit_files_hash : forall cmd exec hash base (inp : jobinput cmd) st out sts,
  body cmd exec hash base inp = (Done st out, sts) ->
  let f := final_fs (materialise (ji_files inp)) sts in
  sts = loop cmd exec (overlay base (ji_env inp)) (ji_cmds inp) (materialise (ji_files inp))
  /\ ((st = 0%Z) <-> (all_succeeded cmd inp sts /\ forall n, In n (requested inp) -> dget n f <> None))
  /\ ((jo_exitcode out = 0%Z) <-> (all_succeeded cmd inp sts /\ forall n, In n (requested inp) -> dget n f <> None))
  /\ (forall n, dget n (jo_files out) = if existsb (String.eqb n) (requested inp) then dget n f else None)
  /\ jo_hash out = hash inp
  /\ read_caps ".out" f (names_of sts) [] = Some (jo_stdouts out)
  /\ read_caps ".err" f (names_of sts) [] = Some (jo_stderrs out).
Proof. exact body_done_facts. Qed.
Print Assumptions C17_exit_files_hash.

(* No output is written only if the job has no command at all or a capture file has disappeared. *)
Theorem C17_crash_iff : forall cmd exec hash base (inp : jobinput cmd),
  let sts := snd (body cmd exec hash base inp) in
  fst (body cmd exec hash base inp) = Crashed <->
  (ji_cmds inp = [] \/ read_caps ".out" (final_fs (materialise (ji_files inp)) sts) (names_of sts) [] = None
                     \/ read_caps ".err" (final_fs (materialise (ji_files inp)) sts) (names_of sts) [] = None).
Proof. exact body_crash_iff. Qed.
Print Assumptions C17_crash_iff.

(* Captures: if the executed named commands have distinct names and no command touches the capture files, reading
   the captures cannot fail, every executed named command has exactly its stdout and stderr recorded under its name,
   and no other name is recorded. *)
Theorem C17_capture : forall (cmd : Type) (exec : cmd -> env -> fs -> cmd_result) (protected : list string),
  (forall c e f x, In x protected -> dget x (r_fs (exec c e f)) = dget x f) ->
  forall e cs f0,
  let sts := loop cmd exec e cs f0 in
  NoDup (names_of sts) ->
  (forall x, In x (cap_files cmd cs) -> In x protected) ->
  exists so se,
    read_caps ".out" (final_fs f0 sts) (names_of sts) [] = Some so
    /\ read_caps ".err" (final_fs f0 sts) (names_of sts) [] = Some se
    /\ (forall s n, In s sts -> st_name s = Some n ->
          dget n so = Some (r_out (st_res s)) /\ dget n se = Some (r_err (st_res s)))
    /\ (forall n, ~ In n (names_of sts) -> dget n so = None /\ dget n se = None).
Proof. exact captures_exact. Qed.
Print Assumptions C17_capture.

(* The first command sees every input file byte for byte and nothing else; commands see base | envars. *)
Theorem C17_input_files : forall l n, NoDup (map fst l) -> dget n (materialise (Some l)) = dget n l.
Proof. exact materialise_spec. Qed.
Print Assumptions C17_input_files.

Theorem C17_environment : forall base o v, NoDup (map fst o) ->
  dget v (overlay base (Some o)) = match dget v o with Some x => Some x | None => dget v base end.
Proof. exact overlay_spec. Qed.
Print Assumptions C17_environment.

(* The scratch directory is left as it was found on every path (normal return, failing command, missing file,
   uncaught exception): the private directory is removed whichever way the body of the `with` block ended. *)
Theorem C17_scratch : forall cmd exec hash scratch td base (inp : jobinput cmd),
  rr_scratch (run_local cmd exec hash scratch td base inp) = scratch.
Proof. exact scratch_restored. Qed.
Print Assumptions C17_scratch.

(* ---- the hypotheses are satisfiable, the conclusions are not vacuous *)
(* an oracle whose commands only print and exit: (exit code, stdout, stderr) *)
Definition print_exec (c : Z * string * string) (e : env) (f : fs) : cmd_result :=
  mk_res (fst (fst c)) (snd (fst c)) (snd c) f [].

Example C17_capture_hypotheses_satisfiable :
  let cs := [((0%Z, "one", "e1"), Some "a"); ((0%Z, "two", ""), None); ((3%Z, "three", "e3"), Some "b"); ((0%Z, "never", ""), Some "c")] in
  let sts := loop _ print_exec [] cs [("in.txt", "x")] in
  (forall c e f x, In x (cap_files _ cs) -> dget x (r_fs (print_exec c e f)) = dget x f)
  /\ NoDup (names_of sts)
  /\ List.length sts = 3
  /\ read_caps ".out" (final_fs [("in.txt", "x")] sts) (names_of sts) [] = Some [("a", "one"); ("b", "three")].
Proof. cbv zeta. split; [reflexivity|]. split; [repeat constructor; simpl; intuition discriminate|]. split; reflexivity. Qed.

(* a scripted job: the second of three commands fails; one of the two requested files was written before the
   failure, the other would have been written after it *)
Example C17_run_nonvacuous :
  let inp := mk_ji "j" [(([PMark "m0"; POut "hello"; PCopy "in.bin" "r0"], 0%Z), Some "c0");
                        (([PMark "m1"; PErr "oops"; PEnv "V"], 2%Z), Some "c1");
                        (([PMark "m2"; PWrite "r1" "late"], 0%Z), None)]
                  (Some [("in.bin", bytes [0; 255; 10]%N)]) (Some ["r0"; "r1"]) (Some [("V", "over")]) in
  let r := run_local script sh_exec (fun _ => "H") ["other-job__x"] "j__1" [("V", "base")] inp in
  rr_outcome r = Done 1 (mk_jo [("c0", "hello"); ("c1", "over")] [("c0", ""); ("c1", "oops")] 2
                               [("r0", bytes [0; 255; 10]%N)] "H")
  /\ rr_ext r = ["m0"; "m1"] /\ rr_scratch r = ["other-job__x"].
Proof. cbv zeta. repeat split; reflexivity. Qed.
