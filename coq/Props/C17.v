(* C17 -- property theorems only (stub, filled below) *)
From Coq Require Import List Bool ZArith String.
From Molli Require Import Model.Job.
Import ListNotations.
Example C17_stub : check_bcase (mk_bcase no_settings [] []) = true.
Proof. reflexivity. Qed.
