(* C02 / C03 / C04 -- the tie between Model/UKV.v and molli/storage/ukvfile.py by TRANSLATION.
   Gen/UKVCode.v is regenerated from the source on every run (harness/ukv_translate.py: a purely syntactic,
   fail-closed translation of the method bodies of UKVFile into the small imperative language of Model/MiniPy.v).
   The theorems below say that running the translated bodies is, for EVERY object state and EVERY file content,
   exactly what the hand-written model functions compute -- the functions all C02/C03/C04 theorems are about.
   Property theorems only; proofs in Proofs/UKVCode.v.  A change of ukvfile.py that alters what a method does makes one
   of these fail to re-check; a change that leaves the translator's grammar makes the check fall back to the
   differential tie (and say so). *)
From Coq Require Import NArith List Bool String.
Import ListNotations.
From Molli Require Import Model.UKV Model.MiniPy Gen.UKVCode Proofs.UKVBase Proofs.UKV Proofs.UKVCode Proofs.UKVEffects.
Local Open Scope string_scope.
Local Open Scope N_scope.

(* get(key): same result (value bytes / KeyError / UnsupportedOperation), nothing else changes *)
Theorem C02_code_get : forall fuel s h k,
  Rep s h -> lookup_env (locals s) "key" = Some (VBytes k) ->
  let '(s', o) := exec fuel get_prog s in
  file s' = file s /\ attrs s' = attrs s /\ s_wr (strm s') = s_wr (strm s) /\ s_closed (strm s') = s_closed (strm s) /\
  o = out_of_res (get (file s) h k).
Proof. exact get_code. Qed.
Print Assumptions C02_code_get.

(* put(key, value): same file bytes, same handle state (table, end of file), same outcome -- incl. every failing case,
   which leaves file and handle exactly as they were *)
Theorem C02_code_put : forall fuel s h k v,
  Rep s h -> lookup_env (locals s) "key" = Some (VBytes k) -> lookup_env (locals s) "value" = Some (VBytes v) ->
  let '(s', o) := exec fuel put_prog s in
  let '(f', h', r) := put (file s) h k v in
  file s' = f' /\ Rep s' h' /\ o = out_of_res r.
Proof. exact put_code. Qed.
Print Assumptions C02_code_put.

Theorem C02_code_close : forall fuel s h,
  Rep s h -> (lookup_env (attrs s) "mode" = Some (VStr "r") \/ lookup_env (attrs s) "mode" = Some (VStr "a")) ->
  let '(s', o) := exec fuel close_prog s in
  file s' = file s /\ Rep s' (close_ h) /\ o = ONormal /\ lookup_env (attrs s') "mode" = lookup_env (attrs s) "mode".
Proof. exact close_code. Qed.
Print Assumptions C02_code_close.

Theorem C02_code_keys : forall s h, Rep s h -> eval s keys_expr = Val (VToc (toc h)).
Proof. exact keys_code. Qed.
Print Assumptions C02_code_keys.

(* (locals are alpha-normalised by the translator: L0 = size, L1 = pos, L2 = key, L3 = blk_header)
   the scanning loop of map_blocks is [scan], for ANY bytes after the header (complete blocks, torn tails, garbage) *)
Theorem C03_code_scan_loop : forall fuel cnd body f w,
  find_while map_blocks_prog = Some (cnd, "L3", body) ->
  forall n rem p t lk s,
  (List.length rem < n)%nat -> rem = skipn (N.to_nat p) f -> LoopSt f w p t lk s ->
  exists s', wloop (exec fuel cnd) (exec fuel body) "L3" n s = (s', ONormal) /\
    let '(t', lk', p') := scan n rem p t lk in
    file s' = f /\ s_wr (strm s') = w /\ s_closed (strm s') = false /\
    lookup_env (attrs s') "_toc" = Some (VToc t') /\
    (forall x, x <> "_toc" -> lookup_env (attrs s') x = lookup_env (attrs s) x) /\
    lookup_env (locals s') "L1" = Some (VInt p') /\ lookup_env (locals s') "L0" = Some (VInt (len f)) /\
    lookup_env (locals s') "L2" = Some (vopt_bytes lk').
Proof. exact wloop_scan. Qed.
Print Assumptions C03_code_scan_loop.

(* map_blocks(): the unchanged-file shortcut, the scan, and the cut of a torn tail in append mode *)
Theorem C03_code_map_blocks : forall fuel s h h2v b0v,
  (List.length (file s) < fuel)%nat -> Obj s h h2v b0v ->
  let '(s', o) := exec fuel map_blocks_prog s in
  let '(f', h') := map_blocks (file s) h in
  file s' = f' /\ (o = ONormal \/ o = OReturn VNone) /\
  lookup_env (attrs s') "_toc" = Some (VToc (toc h')) /\ lookup_env (attrs s') "_last" = Some (vopt_bytes (last h')) /\
  lookup_env (attrs s') "_eof" = Some (vopt_int (eof h')) /\
  (forall x, x <> "_toc" -> x <> "_last" -> x <> "_eof" -> lookup_env (attrs s') x = lookup_env (attrs s) x) /\
  s_closed (strm s') = false /\ s_wr (strm s') = s_wr (strm s) /\ md h' = md h /\ closed h' = closed h.
Proof. exact map_blocks_code. Qed.
Print Assumptions C03_code_map_blocks.

(* read_header(): the handle's (h1, comment, descriptor) are the ones the file was created with *)
Theorem C02_code_read_header : forall fuel s h1 h2 b0 rest,
  file s = (mk_header h1 h2 b0 ++ rest)%list -> List.length h1 = 16%nat -> len h2 < 65536 -> len b0 < 4294967296 ->
  s_closed (strm s) = false ->
  let '(s', o) := exec fuel read_header_prog s in
  o = ONormal /\ file s' = file s /\
  lookup_env (attrs s') "h1" = Some (VBytes h1) /\ lookup_env (attrs s') "h2" = Some (VBytes h2) /\
  lookup_env (attrs s') "b0" = Some (VBytes b0) /\
  (forall x, x <> "h1" -> x <> "h2" -> x <> "b0" -> lookup_env (attrs s') x = lookup_env (attrs s) x) /\
  s_closed (strm s') = false /\ s_wr (strm s') = s_wr (strm s).
Proof. exact read_header_code. Qed.
Print Assumptions C02_code_read_header.

(* open("r" | "a") on a file with a well-formed header: Model.UKV.open_ -- the handle ends up open, complete and, in
   append mode, with the torn tail cut; an already open handle is left alone.  (Creation modes x/w are not modelled.) *)
Theorem C02_code_open : forall fuel s h m h1 h2 b0 rest,
  (List.length (file s) < fuel)%nat ->
  file s = (mk_header h1 h2 b0 ++ rest)%list -> List.length h1 = 16%nat -> len h2 < 65536 -> len b0 < 4294967296 ->
  lookup_env (attrs s) "_toc" = Some (VToc (toc h)) -> lookup_env (attrs s) "_last" = Some (vopt_bytes (last h)) ->
  lookup_env (attrs s) "_eof" = Some (vopt_int (eof h)) -> lookup_env (attrs s) "_closed" = Some (VBool (closed h)) ->
  (closed h = false -> s_closed (strm s) = false /\ s_wr (strm s) = match md h with MA => true | MR => false end) ->
  (closed h = false -> eof h <> None) ->
  (forall k, last h = Some k -> lookup (toc h) k <> None) ->
  (lookup_env (locals s) "mode" = Some (VStr (mode_str m)) \/
   (lookup_env (locals s) "mode" = Some VNone /\ lookup_env (attrs s) "mode" = Some (VStr (mode_str m)))) ->
  let '(s', o) := exec fuel open_prog s in
  let '(f', h') := open_ (file s) h m in
  file s' = f' /\ (o = ONormal \/ o = OReturn VNone) /\ Rep s' h'.
Proof. exact open_code. Qed.
Print Assumptions C02_code_open.

(* ---- the other spellings: h[k], h[k] = v, `with h:` ---- *)
Theorem C02_code_getitem : forall fuel s h k,
  Rep s h -> lookup_env (locals s) "key" = Some (VBytes k) ->
  let '(s', o) := exec fuel getitem_prog s in
  file s' = file s /\ attrs s' = attrs s /\ s_wr (strm s') = s_wr (strm s) /\ s_closed (strm s') = s_closed (strm s) /\
  o = out_of_res (get (file s) h k).
Proof. exact getitem_code. Qed.
Print Assumptions C02_code_getitem.

Theorem C02_code_setitem : forall fuel s h k v,
  Rep s h -> lookup_env (locals s) "key" = Some (VBytes k) -> lookup_env (locals s) "val" = Some (VBytes v) ->
  let '(s', o) := exec fuel setitem_prog s in
  let '(f', h', r) := put (file s) h k v in
  file s' = f' /\ Rep s' h' /\ o = out_of_res r.
Proof. exact setitem_code. Qed.
Print Assumptions C02_code_setitem.

Theorem C02_code_exit : forall fuel s h,
  Rep s h -> (lookup_env (attrs s) "mode" = Some (VStr "r") \/ lookup_env (attrs s) "mode" = Some (VStr "a")) ->
  let '(s', o) := exec fuel exit_prog s in
  file s' = file s /\ Rep s' (close_ h) /\ o = ONormal.
Proof. exact exit_code. Qed.
Print Assumptions C02_code_exit.

Theorem C02_code_enter : forall fuel s h m h1 h2 b0 rest,
  (List.length (file s) < fuel)%nat ->
  file s = (mk_header h1 h2 b0 ++ rest)%list -> List.length h1 = 16%nat -> len h2 < 65536 -> len b0 < 4294967296 ->
  lookup_env (attrs s) "_toc" = Some (VToc (toc h)) -> lookup_env (attrs s) "_last" = Some (vopt_bytes (last h)) ->
  lookup_env (attrs s) "_eof" = Some (vopt_int (eof h)) -> lookup_env (attrs s) "_closed" = Some (VBool (closed h)) ->
  (closed h = false -> s_closed (strm s) = false /\ s_wr (strm s) = match md h with MA => true | MR => false end) ->
  (closed h = false -> eof h <> None) ->
  (forall k, last h = Some k -> lookup (toc h) k <> None) ->
  lookup_env (attrs s) "mode" = Some (VStr (mode_str m)) ->
  let '(s', o) := exec fuel enter_prog s in
  let '(f', h') := open_ (file s) h m in
  file s' = f' /\ o = OReturn VSelf /\ Rep s' h'.
Proof. exact enter_code. Qed.
Print Assumptions C02_code_enter.

(* UKVFile(path, mode) for mode r / a on an existing library: the new object is the never-opened handle h0, opened *)
Theorem C02_code_init : forall fuel s m hh1 hh2 bb0 rest v1 v2 v0,
  (List.length (file s) < fuel)%nat ->
  file s = (mk_header hh1 hh2 bb0 ++ rest)%list -> List.length hh1 = 16%nat -> len hh2 < 65536 -> len bb0 < 4294967296 ->
  lookup_env (locals s) "mode" = Some (VStr (mode_str m)) ->
  lookup_env (locals s) "h1" = Some v1 -> lookup_env (locals s) "h2" = Some v2 -> lookup_env (locals s) "b0" = Some v0 ->
  let '(s', o) := exec fuel init_prog s in
  let '(f', h') := open_ (file s) h0 m in
  file s' = f' /\ o = ONormal /\ Rep s' h'.
Proof. exact init_code. Qed.
Print Assumptions C02_code_init.

(* ---- the effects of the code on the file, and the crash model of C03 ----
   [effects] lists, in program order, every write (with its position) and truncate a run performs; replaying them
   reproduces the file the run ends with, for every statement and every state. *)
Theorem C03_code_effects_replay : forall fuel c s, replay (file s) (effects fuel c s) = file (fst (exec fuel c s)).
Proof. exact effects_replay. Qed.
Print Assumptions C03_code_effects_replay.

(* put of a fresh key of legal size through an open append handle: writes only, contiguous from the handle's end of
   file, appending exactly the encoded block -- whatever the number of write calls the source uses *)
Theorem C03_code_put_appends : forall fuel s h k v e,
  Rep s h -> lookup_env (locals s) "key" = Some (VBytes k) -> lookup_env (locals s) "value" = Some (VBytes v) ->
  closed h = false -> md h = MA -> lookup (toc h) k = None -> wfb k v = true -> eof h = Some e ->
  appended e (effects fuel put_prog s) = Some (encb k v).
Proof. exact put_effects. Qed.
Print Assumptions C03_code_put_appends.

(* hence every crash image of a put (any number of its complete writes, then any proper prefix of the next) is the
   file as it was followed by a prefix of the encoded block: exactly the images C03_crash_reopen quantifies over
   (crash_image H rs ps n = H ++ blocks rs ++ firstn n (blocks ps)), derived from the translated source *)
Theorem C03_code_put_crash_images : forall fuel s h k v img,
  Rep s h -> lookup_env (locals s) "key" = Some (VBytes k) -> lookup_env (locals s) "value" = Some (VBytes v) ->
  closed h = false -> md h = MA -> lookup (toc h) k = None -> wfb k v = true -> eof h = Some (len (file s)) ->
  is_image (file s) (effects fuel put_prog s) img ->
  exists n, img = (file s ++ firstn n (encb k v))%list.
Proof. exact put_crash_images. Qed.
Print Assumptions C03_code_put_crash_images.

(* opening a handle (read_header; map_blocks) writes nothing to the file, except possibly ONE cut of a torn tail: the crash
   images of a recovery are the image itself and the image cut back -- the two cases C03_crash_reopen treats *)
Theorem C03_code_read_header_writes_nothing : forall fuel s, effects fuel read_header_prog s = [].
Proof. exact read_header_effects. Qed.
Print Assumptions C03_code_read_header_writes_nothing.

Theorem C03_code_map_blocks_at_most_one_cut : forall fuel s, at_most_one_cut (effects fuel map_blocks_prog s).
Proof. exact map_blocks_effects. Qed.
Print Assumptions C03_code_map_blocks_at_most_one_cut.

(* Non-vacuity: the translated put and get RUN, on a concrete object state, and give what the model gives. *)
Definition ex_attrs : env :=
  env_of [("_toc", VToc []); ("_last", VNone); ("_eof", VInt 32); ("_closed", VBool false); ("mode", VStr "a")].
Definition ex_state : state := mkst (repeat 0 32) (mks 0 true false) ex_attrs (env_of [("key", VBytes [7]); ("value", VBytes [1; 2])]).
Example C02_code_runs :
  let '(s1, o1) := exec 10 put_prog ex_state in
  o1 = ONormal /\ file s1 = (repeat 0 32 ++ [1; 0; 0; 0; 2; 7; 1; 2])%list /\
  snd (exec 10 get_prog (mkst (file s1) (strm s1) (attrs s1) (env_of [("key", VBytes [7])]))) = OReturn (VBytes [1; 2]) /\
  appended 32 (effects 10 put_prog ex_state) = Some [1; 0; 0; 0; 2; 7; 1; 2].
Proof. vm_compute. repeat split; reflexivity. Qed.
