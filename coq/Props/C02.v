(* C02 -- a library file is an insert-only key-value map over any operation history.
   Property theorems only; lemmas live in Proofs/UKVBase.v, Proofs/UKV.v.  The model (Model/UKV.v) is tied
   to molli/storage/ukvfile.py by the differential correspondence of harness/c02.py on every run. *)
From Coq Require Import NArith ZArith List Bool.
Import ListNotations.
From Molli Require Import Model.UKV Proofs.UKVBase Proofs.UKV Proofs.UKVCrash Model.Backend Proofs.Backend
  Model.UKVViews Proofs.UKVViews Proofs.BackendBuffer.
Open Scope N_scope.

(* One operation.  In any state satisfying the invariant (file = header ++ encoded records, distinct
   keys, every handle holding a consistent possibly-stale snapshot, open handles complete, a writer
   alone), any operation allowed by the session discipline
   - re-establishes the invariant for the new abstract contents rs',
   - returns exactly what the insert-only map returns (step_spec: get = the bytes of the one successful put
     or KeyError; keys = exactly the successfully put keys; put fails on duplicate / oversize / read-only),
   - and leaves the whole world (file AND every handle) unchanged when it fails. *)
Theorem C02_step_refines : forall H rs w o,
  Inv H rs w -> ok_op w o ->
  exists rs', Inv H rs' (fst (step w o)) /\
              step_spec rs (hnth (snd w) (op_handle o)) o (snd (step w o)) rs' /\
              (forall e, snd (step w o) = RErr e -> fst (step w o) = w).
Proof. exact step_refines. Qed.
Print Assumptions C02_step_refines.

(* Every history (any length, any number of handles): by induction over the operation list. *)
Theorem C02_refines : forall H ops rs w,
  Inv H rs w -> ok_run w ops ->
  exists rs', Inv H rs' (snd (run w ops)) /\ run_spec rs w ops (fst (run w ops)) rs'.
Proof. exact run_refines. Qed.
Print Assumptions C02_refines.

(* A freshly created file with any well-formed header and any number of never-opened handles
   satisfies the invariant; a header built by write_header is well formed. *)
Theorem C02_init : forall H n, hdr_ok H -> Inv H [] (H, repeat h0 n).
Proof. exact inv_init. Qed.
Print Assumptions C02_init.

Theorem C02_header_wellformed : forall h1 h2 b0,
  length h1 = 16%nat -> len h2 < 65536 -> len b0 < 4294967296 -> hdr_ok (mk_header h1 h2 b0).
Proof. exact mk_header_ok. Qed.
Print Assumptions C02_header_wellformed.

(* Headers (h1, comment, descriptor block) are preserved: in every reachable state the file starts with
   the header bytes it was created with. *)
Theorem C02_headers : forall H rs w, Inv H rs w -> firstn (N.to_nat (len H)) (fst w) = H.
Proof. exact inv_header. Qed.
Print Assumptions C02_headers.

(* Reopening a closed handle whose cached table of contents is stale (or empty) yields the complete
   index: soundness of the (eof,last) shortcut of map_blocks under insert-only growth. *)
Theorem C02_stale_refresh : forall H rs tl h m,
  hdr_ok H -> Forall wfkv rs -> NoDup (map fst rs) -> torn tl -> snap H rs h -> closed h = true ->
  exists h', open_ (H ++ blocks rs ++ tl) h m =
             (match m with MA => H ++ blocks rs | MR => H ++ blocks rs ++ tl end, h')
             /\ full H rs h' /\ md h' = m /\ closed h' = false.
Proof. exact open_spec. Qed.
Print Assumptions C02_stale_refresh.

(* ---- Collection level (write queue, key set, any buffer size) ----
   BInv: inside a writing session, the file is header ++ records, the UKV handle is complete and writable, and
   the buffered puts are all valid (fresh distinct keys, sizes within limits); the collection lists only stored
   or buffered keys. *)
(* Inside a writing session every key the collection lists is readable, with the bytes that were put --
   whether or not the put has reached the file yet (any bufsize). *)
Theorem C02_listed_readable : forall H rs f b k,
  BInv H rs f b -> In k (bkeys b) ->
  exists v f' b', b_get f b k = (f', b', BVal v) /\ assoc (rs ++ queue b) k = Some v.
Proof. exact listed_readable. Qed.
Print Assumptions C02_listed_readable.

(* a put of a fresh key of legal size succeeds, lists the key and keeps the session state valid, for EVERY
   buffer size (it is written through or stays buffered) *)
Theorem C02_collection_put : forall H rs f b k v,
  BInv H rs f b -> ro b = false -> ~ In k (map fst (rs ++ queue b)) -> wfkv (k, v) ->
  exists rs' f' b', b_put f b k v = (f', b', BOk) /\ BInv H rs' f' b' /\ In k (bkeys b') /\
                    assoc (rs' ++ queue b') k = Some v.
Proof. exact put_keeps_valid. Qed.
Print Assumptions C02_collection_put.

(* flushing valid buffered puts writes every one of them, in order, and cannot fail *)
Theorem C02_flush_valid : forall H rs f b, BInv H rs f b ->
  exists b', flush f b = (H ++ blocks (rs ++ queue b), b', None) /\ queue b' = [] /\ bkeys b' = bkeys b /\
             BInv H (rs ++ queue b) (H ++ blocks (rs ++ queue b)) b'.
Proof. exact flush_valid. Qed.
Print Assumptions C02_flush_valid.

(* A flush that fails (a buffered put whose key is already stored or buffered before it, or whose sizes are out of
   range): exactly the puts queued before the doomed one reach the file, as complete records; the doomed item is
   dropped, the rest stays buffered, and the listing becomes stored keys + still-buffered keys.  (Used with C04:
   a writing session that ends with a failing flush leaves the map extended by exactly the flushed prefix.) *)
Theorem C02_flush_fails_atomically : forall H good fuel rs f h ks u bs r s k v rest,
  (length good + S (length rest) < fuel)%nat ->
  f = H ++ blocks rs -> full H rs h -> closed h = false -> md h = MA ->
  Forall wfkv good -> NoDup (map fst (rs ++ good)) ->
  (assoc (rs ++ good) k <> None \/ wfb k v = false) ->
  exists h' e,
    flush_loop fuel f (mkb h true (good ++ (k, v) :: rest) ks u bs r s) =
      (H ++ blocks (rs ++ good),
       mkb h' true rest (set_union (keys h') (map fst rest)) u bs r s, Some e)
    /\ full H (rs ++ good) h' /\ closed h' = false /\ md h' = MA.
Proof. exact flush_fails_atomically. Qed.
Print Assumptions C02_flush_fails_atomically.

(* Non-vacuity: a concrete disciplined history over two handles meets the hypotheses, and runs. *)
Definition ex_H : bytes := mk_header (repeat 77 16) [1; 2] [9].
Definition ex_ops : list op :=
  [Open 0 MA; Put 0 [1] [2; 3]; Put 0 [1] [4]; Close 0; Open 1 MR; Get 1 [1]; Keys 1; Put 1 [5] []; Close 1;
   Open 0 MA; Put 0 [5] []; Keys 0].
Example C02_nonvacuous :
  hdr_ok ex_H /\ ok_run (ex_H, repeat h0 2) ex_ops /\
  fst (run (ex_H, repeat h0 2) ex_ops) =
    [ROk; ROk; RErr EKey; ROk; ROk; RVal [2; 3]; RKeys [[1]]; RErr EUnsupported; ROk; ROk; ROk; RKeys [[1]; [5]]].
Proof.
  split; [apply mk_header_ok; [reflexivity|reflexivity|reflexivity]|].
  split; [|vm_compute; reflexivity].
  cbv -[lt]. repeat split; try (repeat constructor; fail); intros; try discriminate;
  repeat (match goal with j : nat |- _ => destruct j as [|j] end; try reflexivity; try congruence).
Qed.

(* ---- derived views: items(), values(), membership, length, pickled handle copies ----
   (h[k], h[k] = v, `with h:` are other spellings of get / put / open-close and are driven through the same model ops) *)
(* One step of the extended operation set (base operations, items(), values(), a pickled copy of a closed handle into a
   closed slot): the invariant is re-established and the result is the abstract map's -- items() of an open handle is
   EXACTLY the list of successfully put (key, bytes) pairs, values() exactly their values; through a closed handle the
   generator raises (or is empty); a pickled copy is one more consistent possibly-stale snapshot. *)
Theorem C02_views_step : forall H rs w o,
  Inv H rs w -> ok_vop w o ->
  exists rs', Inv H rs' (fst (vstep w o)) /\ vstep_spec rs w o (snd (vstep w o)) rs'.
Proof. exact vstep_refines. Qed.
Print Assumptions C02_views_step.

Theorem C02_views_history : forall H ops rs w,
  Inv H rs w -> ok_vrun w ops ->
  exists rs', Inv H rs' (snd (vrun w ops)) /\ vrun_spec rs w ops (fst (vrun w ops)) rs'.
Proof. exact vrun_refines. Qed.
Print Assumptions C02_views_history.

(* Collection level, any buffer size: inside a writing session items() returns one pair per listed key with the bytes that
   were put (stored or still buffered), never fails, keeps the session state valid and the listing unchanged *)
Theorem C02_collection_items : forall H rs f b,
  BInv H rs f b ->
  exists l rs' f' b', b_items f b = (f', b', BItems l) /\ map fst l = bkeys b /\
                      (forall k v, In (k, v) l -> assoc (rs ++ queue b) k = Some v) /\
                      BInv H rs' f' b' /\ rs' ++ queue b' = rs ++ queue b /\ bkeys b' = bkeys b.
Proof. exact items_exact. Qed.
Print Assumptions C02_collection_items.

Theorem C02_collection_items_complete : forall H rs f b,
  BInv H rs f b -> (forall k, In k (map fst (rs ++ queue b)) -> In k (bkeys b)) ->
  exists l f' b', b_items f b = (f', b', BItems l) /\
                  forall k v, assoc (rs ++ queue b) k = Some v -> In (k, v) l.
Proof. exact items_complete. Qed.
Print Assumptions C02_collection_items_complete.

Theorem C02_collection_values : forall H rs f b,
  BInv H rs f b ->
  exists l f' b', b_items f b = (f', b', BItems l) /\ b_values f b = (f', b', BVals (map snd l)).
Proof. exact values_exact. Qed.
Print Assumptions C02_collection_values.

Theorem C02_collection_contains : forall (bs : list backend) f i k,
  snd (bstep (f, bs) (CContains i k)) = BBool true <-> In k (bkeys (nth i bs b0)).
Proof. exact contains_listed. Qed.
Print Assumptions C02_collection_contains.

(* Header preservation as a handle reports it: the (h1, comment, descriptor block) a handle takes from the file at any
   later time -- whatever has been appended meanwhile -- are exactly the ones the file was created with. *)
Theorem C02_header_read_back : forall h1 h2 b0 rest,
  length h1 = 16%nat -> len h2 < 65536 -> len b0 < 4294967296 ->
  read_header (mk_header h1 h2 b0 ++ rest) = (h1, h2, b0).
Proof. exact read_header_spec. Qed.
Print Assumptions C02_header_read_back.

(* Non-vacuity of the extended history theorem: items/values/pickled copies on the example file. *)
Definition ex_vops : list vop :=
  [VBase (Open 0 MA); VBase (Put 0 [1] [2; 3]); VItems 0; VBase (Close 0); VDup 0 1; VBase (Open 1 MR); VValues 1;
   VItems 0; VBase (Close 1)].
Example C02_views_nonvacuous :
  fst (vrun (ex_H, repeat h0 2) ex_vops) =
    [VR ROk; VR ROk; VRItems [([1], [2; 3])]; VR ROk; VR ROk; VR ROk; VRVals [[2; 3]]; VRFail; VR ROk].
Proof. vm_compute. reflexivity. Qed.

(* ---------- the write buffer: an accepted put is lost only by failing ---------- *)
(* Whatever the state: a flush takes the buffered puts apart into the ones it wrote (in order), at most ONE it dropped -- the
   first whose write failed, and then the error is reported -- and the ones that stay buffered.  No error, nothing dropped. *)
Theorem C02_flush_takes_apart : forall f b f' b' e,
  flush f b = (f', b', e) ->
  exists written dropped,
    queue b = written ++ dropped ++ queue b' /\
    match e with None => dropped = [] /\ queue b' = [] | Some _ => length dropped = 1%nat end /\ st b' = st b.
Proof. exact flush_takes_apart. Qed.
Print Assumptions C02_flush_takes_apart.

(* Outside a writing session a get -- of any key, buffered or not -- is a pure read: file, handle and buffer are unchanged. *)
Theorem C02_get_outside_writing_is_pure : forall f b k, writing b = false -> exists r, b_get f b k = (f, b, r).
Proof. exact get_outside_writing. Qed.
Print Assumptions C02_get_outside_writing_is_pure.

(* ... and so is every reading operation of the property's histories (get, keys, contains, len, items, values), on the whole
   world: the file and every handle stay exactly as they were. *)
Theorem C02_reading_changes_nothing : forall f bs o i,
  reads o = Some i -> (i < length bs)%nat -> writing (nth i bs b0) = false ->
  exists r, bstep (f, bs) o = ((f, bs), r).
Proof. exact reading_changes_nothing. Qed.
Print Assumptions C02_reading_changes_nothing.

(* A whole reading session -- begin, any sequence of reads, end -- leaves the handle's buffered puts as they were. *)
Theorem C02_reading_session_keeps_buffer : forall i ops f bs,
  forallb (in_read_session i) ops = true -> (i < length bs)%nat ->
  let w := snd (brun (f, bs) (BeginR i :: ops ++ [EndR i])) in
  queue (nth i (snd w) b0) = queue (nth i bs b0).
Proof. exact reading_session_keeps_buffer. Qed.
Print Assumptions C02_reading_session_keeps_buffer.

(* Non-vacuity: a put left buffered by a failing flush (the 256-byte key before it is refused) survives a reading session
   that asks for it, and the next writing session stores it. *)
Definition ex_long : bytes := repeat 75 256.
Definition ex_bops : list bop :=
  [BeginW 0; CPut 0 ex_long [1]; CPut 0 [99] [7; 7]; EndW 0; BeginR 0; CGet 0 [99]; CItems 0; EndR 0; BeginW 0; EndW 0;
   BeginR 0; CGet 0 [99]; EndR 0].
Example C02_buffer_nonvacuous :
  fst (brun (ex_H, [b_init (100000)%Z false]) ex_bops) =
    [BOk; BOk; BOk; BErr BStruct; BOk; BErr BKey; BItems []; BOk; BOk; BOk; BOk; BVal [7; 7]; BOk].
Proof. vm_compute. reflexivity. Qed.
