(* C07 -- property theorems only.  Gen/Mol2Types.v is regenerated from /repo on every run. *)
From Coq Require Import String List Bool NArith.
From Molli Require Import Common.StrSplit Common.Dec6 Gen.Mol2Types Model.Mol2Text Proofs.Mol2Text.
From Molli Require Import Model.Mol2History Proofs.Mol2History.
Import ListNotations.
Local Open Scope N_scope.

(* ------------------------------------------------------------------ layer (a): the type vocabulary, exhaustively.
   The domain is the WHOLE product of the live enumerations: every e < n_elt (Element), t < n_atype (AtomType),
   g < n_geom (AtomGeom) -- 119 x 21 x 18 = 44 982 triples today. *)

(* the three boolean checks of Model/Mol2Text.v, decided by the kernel on the whole regenerated table *)
Lemma C07_table_acc : types_accb = true. Proof. vm_compute. reflexivity. Qed.
Lemma C07_table_ok : types_okb = true. Proof. vm_compute. reflexivity. Qed.
Lemma C07_table_bonds : bonds_okb = true. Proof. vm_compute. reflexivity. Qed.
Lemma C07_table_bond_spec : bond_spec_okb = true. Proof. vm_compute. reflexivity. Qed.

(* every atom-type token molli can emit is a blank-free word its own reader accepts *)
Theorem C07_tokens_accepted : forall e t g, e < n_elt -> t < n_atype -> g < n_geom ->
  exists a', set_tok (get_tok (e, t, g)) = Some a' /\ elt_of a' = e /\ in_dom a' = true /\ tok pyws (get_tok (e, t, g)).
Proof. exact (types_acc_sound C07_table_acc). Qed.
Print Assumptions C07_tokens_accepted.

(* ... and the element survives *)
Theorem C07_element_preserved : forall e t g, e < n_elt -> t < n_atype -> g < n_geom ->
  forall a', set_tok (get_tok (e, t, g)) = Some a' -> elt_of a' = e.
Proof.
  intros e t g He Ht Hg a' H. destruct (C07_tokens_accepted e t g He Ht Hg) as [a1 [H1 [H2 _]]]. congruence.
Qed.
Print Assumptions C07_element_preserved.

(* writing what was read gives the same token again: get (set (get x)) = get x *)
Theorem C07_type_fixed_point : forall e t g, e < n_elt -> t < n_atype -> g < n_geom ->
  forall a', set_tok (get_tok (e, t, g)) = Some a' -> get_tok a' = get_tok (e, t, g).
Proof. exact (types_ok_sound C07_table_ok). Qed.
Print Assumptions C07_type_fixed_point.

(* every bond type mol2 can express is written with its mol2 token and read back as itself *)
Theorem C07_bond_expressible : forall name tk, In (name, tk) bond_spec ->
  exists b, pos_of name btype_names 0 = Some b /\ bget_tok b = u8 tk /\ bset_tok (u8 tk) = Some b.
Proof. exact (bond_spec_sound C07_table_bond_spec). Qed.
Print Assumptions C07_bond_expressible.

(* every bond type (all of BondType) is written with a token the reader accepts, and is a fixed point *)
Theorem C07_bond_fixed_point : forall b, b < n_btype ->
  exists b', bset_tok (bget_tok b) = Some b' /\ b' < n_btype /\ bget_tok b' = bget_tok b /\ tok pyws (bget_tok b).
Proof. exact (bonds_ok_sound C07_table_bonds). Qed.
Print Assumptions C07_bond_fixed_point.

(* the standard SYBYL atom types keep their meaning in both directions *)
Theorem C07_sybyl_vocabulary : forall e t g k, In (e, t, g, k) sybyl_spec ->
  exists a, triple_of e t g = Some a /\ get_tok a = u8 k /\ set_tok (u8 k) = Some a.
Proof. apply sybyl_spec_sound. vm_compute. reflexivity. Qed.
Print Assumptions C07_sybyl_vocabulary.

(* writer and reader depend on the current state only (no memoisation): an atom / bond that already wrote another token
   and is then re-assigned writes what a fresh one writes -- for every token resp. every BondType -- and re-typing a
   bond with a token it was given before takes effect *)
Theorem C07_codec_stateless :
  get_after = seqN (lenN tokens) /\ bond_get_after = bond_get /\ bond_set_after = bond_set.
Proof. apply stateless_sound. vm_compute. reflexivity. Qed.
Print Assumptions C07_codec_stateless.

(* the domain is not a sample: at least the 119 x 21 x 18 combinations the property speaks of *)
Example C07_domain_nonvacuous :
  (119 <=? n_elt) && (21 <=? n_atype) && (18 <=? n_geom) && (15 <=? n_btype) && (900 <=? lenN tokens) = true
  /\ get_tok (7, 1, 6) = u8 "N.pl3" /\ set_tok (u8 "N.pl3") = Some (7, 1, 6).
Proof. vm_compute. repeat split; reflexivity. Qed.

(* ------------------------------------------------------------------ layer (b): the text codec.
   `write` = dumps_mol2 (wq = true: Molecule, false: Structure), `read` = loads_mol2, `read_all` =
   loads_all_mol2, `write_ens` / `read_ens` = ConformerEnsemble.dumps_mol2 / loads_mol2, as modelled in
   Model/Mol2Text.v and compared with the implementation on every run.
   wf_real_mol m: the name is one line and survives str.strip(), every label is blank-free (or empty), bond
   endpoints are atoms of the molecule, atom / bond types are members of the enumerations. *)

(* for EVERY well-formed molecule, of any size, with any coordinates and charges: reading what was written
   succeeds and gives the normal form (empty labels filled in, types as the reader assigns them, the sign of a
   zero charge dropped) *)
Theorem C07_roundtrip : forall wq m, wf_real_mol m = true -> read RV wq (write RV wq m) = Some (norm RV wq m).
Proof. exact (real_roundtrip C07_table_acc C07_table_bonds). Qed.
Print Assumptions C07_roundtrip.

Theorem C07_roundtrip_all : forall wq ms, ms <> [] -> Forall (fun m => wf_real_mol m = true) ms ->
  read_all RV wq (write_all RV wq ms) = Some (map (norm RV wq) ms).
Proof. exact (real_roundtrip_all C07_table_acc C07_table_bonds). Qed.
Print Assumptions C07_roundtrip_all.

(* the same in the words of the property: name, atom order, every element, every non-empty label, coordinates
   and charges to the written precision (exactly, as decimals), the bond list with endpoints and every
   expressible bond type *)
Theorem C07_preserved : forall wq m m', wf_real_mol m = true -> read RV wq (write RV wq m) = Some m' ->
  m_name m' = m_name m
  /\ length (m_atoms m') = length (m_atoms m)
  /\ (forall i a, nth_error (m_atoms m) i = Some a ->
        exists a', nth_error (m_atoms m') i = Some a'
          /\ elt_of (a_ty a') = elt_of (a_ty a)
          /\ (a_label a <> [] -> a_label a' = a_label a)
          /\ a_x a' = a_x a /\ a_y a' = a_y a /\ a_z a' = a_z a
          /\ (wq = true -> fx_val (a_q a') = fx_val (a_q a)))
  /\ length (m_bonds m') = length (m_bonds m)
  /\ (forall k b, nth_error (m_bonds m) k = Some b ->
        exists b', nth_error (m_bonds m') k = Some b' /\ b_a1 b' = b_a1 b /\ b_a2 b' = b_a2 b
          /\ (forall name tk, In (name, tk) bond_spec ->
                pos_of name btype_names 0 = Some (b_ty b) -> b_ty b' = b_ty b)).
Proof. exact (real_preserved C07_table_acc C07_table_bonds C07_table_bond_spec). Qed.
Print Assumptions C07_preserved.

(* a second cycle changes nothing: the text written from what was read is the text that was read --
   except for the recorded finding (a charge written "-0.000" comes back as "0.000") *)
Theorem C07_text_fixed_point : forall wq m, wf_real_mol m = true ->
  (wq = true -> forallb (fun a : atom RV => negb (neg_zero (a_q a))) (m_atoms m) = true) ->
  write RV wq (norm RV wq m) = write RV wq m.
Proof. exact (real_text_fixed_point C07_table_acc C07_table_ok C07_table_bonds). Qed.
Print Assumptions C07_text_fixed_point.

Definition negzero_witness : mol RV :=
  rmol (u8 "w") [ratom (6, 1, 0) (u8 "C1") (mk_fx false 0) (mk_fx false 0) (mk_fx false 0) (mk_fx true 0)] [].
Lemma C07_text_fixed_point_refuted_negzero :
  wf_real_mol negzero_witness = true /\
  str_eqb (write RV true (norm RV true negzero_witness)) (write RV true negzero_witness) = false.
Proof. vm_compute. split; reflexivity. Qed.

(* ensembles: every conformer comes back, in order, with its own coordinates and charges *)
Theorem C07_ensemble : forall e, wf_real_ens e = true -> read_ens RV (write_ens RV e) = Some (norm_ens RV e).
Proof. exact (real_ensemble C07_table_acc C07_table_bonds). Qed.
Print Assumptions C07_ensemble.

Theorem C07_ensemble_count_order : forall e e', wf_real_ens e = true -> read_ens RV (write_ens RV e) = Some e' ->
  length (e_confs e') = length (e_confs e) /\
  forall k c, nth_error (e_confs e) k = Some c -> nth_error (e_confs e') k = Some (map canon_cpos c).
Proof.
  intros e e' H. apply ensemble_count_order. exact (real_good_ens C07_table_acc C07_table_bonds e H).
Qed.
Print Assumptions C07_ensemble_count_order.

(* ------------------------------------------------------------------ the written object need not own its atoms.
   `sub_view nm m sel` = the Substructure of m on the atom positions sel (any subset, any order; m.heavy is one)
   as the writer sees it: the picked atoms, the parent's bonds between picked atoms, ends numbered by position
   in the view.  `conformer_mol e c` = one conformer taken out of its ensemble.  Compared with molli on every run
   (cases CView / CConf), together with structures whose atoms were adopted by another structure afterwards. *)
Theorem C07_view_roundtrip : forall wq nm m sel,
  wf_real_mol m = true -> wf_name nm = true -> wf_sel (lenN (m_atoms m)) sel = true ->
  read RV wq (write RV wq (sub_view RV nm m sel)) = Some (norm RV wq (sub_view RV nm m sel)).
Proof. exact (real_view_roundtrip C07_table_acc C07_table_bonds). Qed.
Print Assumptions C07_view_roundtrip.

(* the atoms read back are the picked atoms in the order picked; every bond read back joins the (positions in the
   view of the) two atoms the parent's bond joins; no bond of the parent between two picked atoms is lost *)
Theorem C07_view_preserved : forall wq nm m sel m',
  wf_real_mol m = true -> wf_name nm = true -> wf_sel (lenN (m_atoms m)) sel = true ->
  read RV wq (write RV wq (sub_view RV nm m sel)) = Some m' ->
  m_name m' = nm
  /\ length (m_atoms m') = length sel
  /\ (forall k i, nth_error sel k = Some i -> nth_error (m_atoms m') k = option_map (norm_atom RV wq) (nthN (m_atoms m) i))
  /\ m_bonds m' = map (norm_bond RV) (view_bonds RV sel (m_bonds m))
  /\ (forall b', In b' (m_bonds m') -> exists b, In b (m_bonds m)
        /\ nthN sel (b_a1 b') = Some (b_a1 b) /\ nthN sel (b_a2 b') = Some (b_a2 b))
  /\ (forall b, In b (m_bonds m) -> In (b_a1 b) sel -> In (b_a2 b) sel -> exists b', In b' (m_bonds m')
        /\ nthN sel (b_a1 b') = Some (b_a1 b) /\ nthN sel (b_a2 b') = Some (b_a2 b)).
Proof. exact (real_view_preserved C07_table_acc C07_table_bonds). Qed.
Print Assumptions C07_view_preserved.

Theorem C07_conformer_roundtrip : forall e k c, wf_real_ens e = true -> nthN (e_confs e) k = Some c ->
  read RV true (write RV true (conformer_mol RV e c)) = Some (norm RV true (conformer_mol RV e c)).
Proof. exact (real_conformer_roundtrip C07_table_acc C07_table_bonds). Qed.
Print Assumptions C07_conformer_roundtrip.

(* recorded finding: without conformers nothing is written and nothing can be read *)
Lemma C07_ensemble_refuted_no_conformer :
  match read_ens RV (write_ens RV (rens (u8 "noconf") [((6, 1, 0), u8 "C1")] [] [])) with None => true | Some _ => false end = true.
Proof. vm_compute. reflexivity. Qed.

(* why the name must survive str.strip(): the reader strips every line *)
Example C07_name_is_stripped :
  let m := rmol (u8 " padded ") [] [] in
  wf_real_mol m = false /\ option_map (fun r : mol RV => m_name r) (read RV true (write RV true m)) = Some (u8 "padded").
Proof. vm_compute. split; reflexivity. Qed.

(* the hypotheses are satisfiable by a non-trivial molecule: 3 atoms (an empty label, a label wider than its
   column, N.pl3, a dummy atom), coordinates needing more than 12 columns, -0.000000, charges at the rounding
   boundary, an aromatic, a dummy and a (non-expressible) quadruple bond; and by a 2-conformer ensemble *)
Definition demo_mol : mol RV :=
  rmol (u8 "demo mol #1")
    [ratom (7, 1, 6) [] (mk_fx true 123456789012) (mk_fx true 0) (mk_fx false 1) (mk_fx true 1);
     ratom (6, 2, 0) (u8 "C_aromatic_17") (mk_fx false 1500000) (mk_fx false 999999999999) (mk_fx true 500) (mk_fx false 2345);
     ratom (0, 10, 0) (u8 "X") (mk_fx false 0) (mk_fx false 0) (mk_fx false 0) (mk_fx false 0)]
    [rbond 0 1 9; rbond 1 2 7; rbond 2 0 4].
Definition demo_ens : ens RV :=
  rens (u8 "ens") [((6, 5, 0), u8 "C1"); ((1, 1, 0), [])] [rbond 0 1 1]
    [[mk_cpos (mk_fx false 1) (mk_fx false 2) (mk_fx false 3) (mk_fx false 4); mk_cpos (mk_fx true 5) (mk_fx false 6) (mk_fx false 7) (mk_fx true 8)];
     [mk_cpos (mk_fx false 11) (mk_fx false 12) (mk_fx false 13) (mk_fx false 14); mk_cpos (mk_fx true 15) (mk_fx false 16) (mk_fx false 17) (mk_fx true 18)]].
Example C07_hypotheses_satisfiable :
  wf_real_mol demo_mol = true
  /\ forallb (fun a : atom RV => negb (neg_zero (a_q a))) (m_atoms demo_mol) = true
  /\ (match read RV true (write RV true demo_mol) with Some r => mol_obs_eqb r (norm RV true demo_mol) | None => false end) = true
  /\ mol_obs_eqb (norm RV true demo_mol) demo_mol = false
  /\ wf_real_ens demo_ens = true
  /\ option_map (fun e : ens RV => length (e_confs e)) (read_ens RV (write_ens RV demo_ens)) = Some 2%nat.
Proof. vm_compute. repeat split; reflexivity. Qed.

(* a view that is not a prefix of its parent: atoms 2 and 0 of demo_mol, in that order.  The parent's bond 2-0 is
   written 1-2 (positions in the view).  Numbering the ends by position in the PARENT instead (what an atom's
   back-reference says) gives a text molli's own reader rejects: atom 3 of 2. *)
Definition demo_view : mol RV := sub_view RV (u8 "unknown") demo_mol [2; 0].
Example C07_view_hypotheses_satisfiable :
  wf_sel (lenN (m_atoms demo_mol)) [2; 0] = true
  /\ list_eqb bond_obs_eqb (m_bonds demo_view) [rbond 0 1 4] = true
  /\ (match read RV false (write RV false demo_view) with Some r => mol_obs_eqb r (norm RV false demo_view) | None => false end) = true
  /\ read RV false (write RV false (rmol (u8 "unknown") (m_atoms demo_view) [rbond 2 0 4])) = None
  /\ option_map (fun r : mol RV => length (m_bonds r)) (read RV true (write RV true (conformer_mol RV demo_ens
       [mk_cpos (mk_fx false 11) (mk_fx false 12) (mk_fx false 13) (mk_fx false 14); mk_cpos (mk_fx true 15) (mk_fx false 16) (mk_fx false 17) (mk_fx true 18)])))
     = Some 1%nat.
Proof. vm_compute. repeat split; reflexivity. Qed.

(* ------------------------------------------------------------------ what was done with the ensemble BEFORE the write.
   Model/Mol2History.v: a history is any list of look-only operations -- HNew = iter(ens), HNext i = next(it_i) (loops
   left with break / an exception, next(iter(ens)), zip, any, nested, interleaved and still suspended iterations),
   HIndex k = ens[k], HWrite = an earlier write, HLook = property reads, str(), ==, copies, slices, failed writes.
   `write_after e ops` = dumps_mol2 after the history; which conformer every next() handed out is compared with
   molli on every run (cases CHist). *)
Theorem C07_history_roundtrip : forall e ops, wf_real_ens e = true ->
  read_ens RV (write_after e ops) = Some (norm_ens RV e).
Proof. exact (history_roundtrip C07_table_acc C07_table_bonds). Qed.
Print Assumptions C07_history_roundtrip.

Theorem C07_history_count_order : forall e ops e', wf_real_ens e = true -> read_ens RV (write_after e ops) = Some e' ->
  length (e_confs e') = length (e_confs e) /\
  forall k c, nth_error (e_confs e) k = Some c -> nth_error (e_confs e') k = Some (map canon_cpos c).
Proof. exact (history_count_order C07_table_acc C07_table_bonds). Qed.
Print Assumptions C07_history_count_order.

(* every iterator owns its cursor: after ANY further history it stands at (where it stood) + (the number of its own
   next() calls), capped at the number of conformers *)
Theorem C07_iterator_cursor : forall ops s i c,
  nth_error (hs_its s) i = Some c -> c <= lenN (e_confs (hs_ens s)) ->
  nth_error (hs_its (h_run s ops)) i = Some (N.min (c + count_next i ops) (lenN (e_confs (hs_ens s)))).
Proof. exact iterator_cursor. Qed.
Print Assumptions C07_iterator_cursor.

Theorem C07_fresh_iterator_yields : forall s ops,
  let s1 := fst (h_step s HNew) in
  let i := length (hs_its s) in
  let s2 := h_run s1 ops in
  snd (h_step s2 (HNext i)) =
    (if count_next i ops <? lenN (e_confs (hs_ens s)) then RYield (count_next i ops) else RStop).
Proof. exact fresh_iterator_yields. Qed.
Print Assumptions C07_fresh_iterator_yields.

(* the hypotheses are satisfiable (3 conformers, a nested loop left early, a suspended iterator, a write), the trace
   check refuses a second iterator that starts where the first one stands, and the excluded design -- one cursor stored
   on the ensemble, rewound at the end of a loop -- loses the leading conformer after next(iter(ens)) *)
Example C07_history_hypotheses_satisfiable :
  wf_real_ens hist_demo = true
  /\ option_map (fun e : ens RV => length (e_confs e)) (read_ens RV (write_after hist_demo hist_demo_ops)) = Some 3%nat.
Proof. split; apply history_demo. Qed.
Lemma C07_history_refuted_by_shared_cursor :
  option_map (fun e : ens RV => length (e_confs e)) (read_ens RV (shared_write_after hist_demo [])) = Some 3%nat
  /\ option_map (fun e : ens RV => length (e_confs e)) (read_ens RV (shared_write_after hist_demo [HNew; HNext 0])) = Some 2%nat.
Proof. split; apply shared_cursor_refuted. Qed.
