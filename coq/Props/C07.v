(* C07 -- property theorems only.  Gen/Mol2Types.v is regenerated from /repo on every run. *)
From Coq Require Import String List Bool NArith.
From Molli Require Import Common.StrSplit Common.Dec6 Gen.Mol2Types Model.Mol2Text Proofs.Mol2Text.
Import ListNotations.
Local Open Scope N_scope.

(* ------------------------------------------------------------------ layer (a): the type vocabulary, exhaustively.
   The domain is the WHOLE product of the live enumerations: every e < n_elt (Element), t < n_atype (AtomType),
   g < n_geom (AtomGeom) -- 119 x 21 x 18 = 44 982 triples today. *)

(* every atom-type token molli can emit is a blank-free word its own reader accepts *)
Theorem C07_tokens_accepted : forall e t g, e < n_elt -> t < n_atype -> g < n_geom ->
  exists a', set_tok (get_tok (e, t, g)) = Some a' /\ elt_of a' = e /\ in_dom a' = true /\ tok pyws (get_tok (e, t, g)).
Proof. apply types_acc_sound. vm_compute. reflexivity. Qed.
Print Assumptions C07_tokens_accepted.

(* ... and the element survives *)
Theorem C07_element_preserved : forall e t g, e < n_elt -> t < n_atype -> g < n_geom ->
  forall a', set_tok (get_tok (e, t, g)) = Some a' -> elt_of a' = e.
Proof.
  intros e t g He Ht Hg a' H. destruct (C07_tokens_accepted e t g He Ht Hg) as [a1 [H1 [H2 _]]]. congruence.
Qed.
Print Assumptions C07_element_preserved.

(* writing what was read gives the same token again: get (set (get x)) = get x *)
Theorem C07_type_fixed_point : forall e t g, e < n_elt -> t < n_atype -> g < n_geom ->
  forall a', set_tok (get_tok (e, t, g)) = Some a' -> get_tok a' = get_tok (e, t, g).
Proof. apply types_ok_sound. vm_compute. reflexivity. Qed.
Print Assumptions C07_type_fixed_point.

(* every bond type mol2 can express is written with its mol2 token and read back as itself *)
Theorem C07_bond_expressible : forall name tk, In (name, tk) bond_spec ->
  exists b, pos_of name btype_names 0 = Some b /\ bget_tok b = u8 tk /\ bset_tok (u8 tk) = Some b.
Proof. apply bond_spec_sound. vm_compute. reflexivity. Qed.
Print Assumptions C07_bond_expressible.

(* every bond type (all of BondType) is written with a token the reader accepts, and is a fixed point *)
Theorem C07_bond_fixed_point : forall b, b < n_btype ->
  exists b', bset_tok (bget_tok b) = Some b' /\ b' < n_btype /\ bget_tok b' = bget_tok b /\ tok pyws (bget_tok b).
Proof. apply bonds_ok_sound. vm_compute. reflexivity. Qed.
Print Assumptions C07_bond_fixed_point.

(* the standard SYBYL atom types keep their meaning in both directions *)
Theorem C07_sybyl_vocabulary : forall e t g k, In (e, t, g, k) sybyl_spec ->
  exists a, triple_of e t g = Some a /\ get_tok a = u8 k /\ set_tok (u8 k) = Some a.
Proof. apply sybyl_spec_sound. vm_compute. reflexivity. Qed.
Print Assumptions C07_sybyl_vocabulary.

(* the domain is not a sample: at least the 119 x 21 x 18 combinations the property speaks of *)
Example C07_domain_nonvacuous :
  (119 <=? n_elt) && (21 <=? n_atype) && (18 <=? n_geom) && (15 <=? n_btype) && (900 <=? lenN tokens) = true
  /\ get_tok (7, 1, 6) = u8 "N.pl3" /\ set_tok (u8 "N.pl3") = Some (7, 1, 6).
Proof. vm_compute. repeat split; reflexivity. Qed.
