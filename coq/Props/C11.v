(* C11 -- Geometric operations are rigid motions with the documented effect.
   Property theorems only (each is `exact <lemma>` from Proofs/Rot.v, Proofs/RotMotion.v, Proofs/RotEns.v, Proofs/RotSeq.v or Proofs/RotViews.v), over the real
   numbers, for the SAME Gallina definitions (Model/Rot.v, parametric in the field operations) that the
   correspondence shards execute over Q against the implementation.

   What is NOT proved here (label: partial):
   - IEEE rounding: the implementation is compared with the exact model within a stated tolerance only;
   - np.random inside the antiparallel branch: the theorems hold for EVERY unit vector orthogonal to v2, the
     choice itself is hidden state (determinism is C12's business);
   - the user-supplied alignment callback (Kabsch/SVD) is described by hypotheses (its contract), not verified;
   - arctan2 itself: "the dihedral is t" is stated as "(arg1, arg2) = rho (sin t, cos t) with rho > 0";
   - which atoms yield_bfs selects (graph search: C15) -- `sel` is a parameter, constrained by hypotheses. *)
From Coq Require Import Reals Lra List ZArith Lia.
From Molli Require Import Common.Field3 Common.Field3R Model.Rot Model.RotEns Model.RotSeq Model.RotViews Proofs.Rot Proofs.RotMotion Proofs.RotEns Proofs.RotSeq Proofs.RotViews.
Import ListNotations.
Local Open Scope R_scope.

(* ---- rotation_matrix_from_vectors ------------------------------------------------------------------- *)
(* general branch: for unit a, b that are not opposite, a proper rotation with a @ R = b *)
Theorem C11_rodrigues (a b : vecR) :
  unit a -> unit b -> 1 + dot ROps a b <> 0 ->
  proper (rodrigues ROps a b) /\ vm ROps a (rodrigues ROps a b) = b.
Proof. intros Ha Hb Hc. exact (conj (rod_proper a b Ha Hb Hc) (rod_maps a b Ha Hb Hc)). Qed.
Print Assumptions C11_rodrigues.

(* antiparallel branch: ANY unit vector ov orthogonal to b gives a proper rotation with a @ R = b *)
Theorem C11_antiparallel (a b ov : vecR) :
  unit a -> unit b -> unit ov -> dot ROps ov b = 0 -> dot ROps a b <> 0 ->
  proper (antiparallel ROps a b ov) /\ vm ROps a (antiparallel ROps a b ov) = b.
Proof.
  intros Ha Hb Ho Hob Hab.
  exact (conj (antiparallel_proper a b ov Ha Hb Ho Hob (anti_denominator a b ov Ha Hb Ho Hob Hab))
              (antiparallel_maps a b ov Ha Hb Ho Hob (anti_denominator a b ov Ha Hb Ho Hob Hab))).
Qed.
Print Assumptions C11_antiparallel.

(* the function as a whole, both branches, un-normalised inputs: (v1/|v1|) @ R = v2/|v2|, R proper *)
Theorem C11_rotation_matrix_from_vectors (tol : R) (v1 v2 ov : vecR) (n1 n2 : R) :
  0 <= tol < 1 ->
  0 < n1 -> n1 * n1 = norm2 ROps v1 -> 0 < n2 -> n2 * n2 = norm2 ROps v2 ->
  unit ov -> dot ROps ov v2 = 0 ->
  proper (rot_from_vectors ROps tol v1 n1 v2 n2 ov) /\
  vm ROps (vdiv ROps v1 n1) (rot_from_vectors ROps tol v1 n1 v2 n2 ov) = vdiv ROps v2 n2.
Proof. exact (rot_from_vectors_correct tol v1 v2 ov n1 n2). Qed.
Print Assumptions C11_rotation_matrix_from_vectors.

(* ---- rotation_matrix_from_axis ---------------------------------------------------------------------- *)
(* proper, fixes the axis, trace 1 + 2 cos, and turns every x by exactly the angle (cosine AND sine, i.e.
   including the sense: right-handed for the column action M x) *)
Theorem C11_rotation_matrix_from_axis (ax : vecR) (n s c : R) :
  0 < n -> n * n = norm2 ROps ax -> s * s + c * c = 1 ->
  let M := rot_from_axis ROps ax n s c in
  proper M /\ vm ROps ax M = ax /\ trace ROps M = 1 + 2 * c /\
  (forall x, dot ROps x (mv ROps M x) * (n * n)
             = c * (dot ROps x x * (n * n) - dot ROps ax x * dot ROps ax x) + dot ROps ax x * dot ROps ax x) /\
  (forall x, triple ROps ax x (mv ROps M x) * n = s * (dot ROps x x * (n * n) - dot ROps ax x * dot ROps ax x)).
Proof. exact (rot_from_axis_correct ax n s c). Qed.
Print Assumptions C11_rotation_matrix_from_axis.

(* the row action used by `coords @ R` turns the other way *)
Theorem C11_axis_sense_row (u x : vecR) (s c : R) : unit u ->
  triple ROps u x (vm ROps x (axis_rot ROps u s c)) = - s * (dot ROps x x - dot ROps u x * dot ROps u x).
Proof. exact (axis_sense_row u x s c). Qed.
Print Assumptions C11_axis_sense_row.

(* ---- rigid motions ---------------------------------------------------------------------------------- *)
(* an orthogonal matrix keeps dot products of row vectors; a proper one keeps every signed volume *)
Theorem C11_orth_preserves_dot (M : matR) (x y : vecR) :
  orth M -> dot ROps (vm ROps x M) (vm ROps y M) = dot ROps x y.
Proof. exact (orth_preserves_dot M x y). Qed.
Print Assumptions C11_orth_preserves_dot.

(* transform / rotate with a proper rotation: every pairwise distance and every signed volume is unchanged *)
Theorem C11_rigid_transform (M : matR) (X : list vecR) : proper M -> same_shape X (transform ROps M X).
Proof. exact (transform_same_shape M X). Qed.
Print Assumptions C11_rigid_transform.

Theorem C11_rigid_translate (v : vecR) (X : list vecR) : same_shape X (translate ROps v X).
Proof. exact (translate_same_shape v X). Qed.
Print Assumptions C11_rigid_translate.

(* a substructure edit moves exactly the selected rows *)
Theorem C11_substructure_moves_exactly (sel : nat -> bool) (f : vecR -> vecR) (X : list vecR) :
  length (update_rows sel f X) = length X /\
  forall i, (i < length X)%nat -> pt (update_rows sel f X) i = if sel i then f (pt X i) else pt X i.
Proof. exact (update_rows_frame sel f X). Qed.
Print Assumptions C11_substructure_moves_exactly.

Theorem C11_substructure_translate (sel : nat -> bool) (v : vecR) (X : list vecR) :
  same_shape_on (fun i => sel i = true) X (sub_translate ROps sel v X) /\
  (forall i, sel i = false -> pt (sub_translate ROps sel v X) i = pt X i).
Proof. exact (sub_translate_rigid sel v X). Qed.
Theorem C11_substructure_transform (sel : nat -> bool) (M : matR) (X : list vecR) : proper M ->
  same_shape_on (fun i => sel i = true) X (sub_transform ROps sel M X) /\
  (forall i, sel i = false -> pt (sub_transform ROps sel M X) i = pt X i).
Proof. exact (sub_transform_rigid sel M X). Qed.
Print Assumptions C11_substructure_transform.

(* ---- rotate_dihedral -------------------------------------------------------------------------------- *)
(* the requested dihedral is reached, the far side keeps its shape, nothing else moves *)
Theorem C11_dihedral_target (X : list vecR) (i1 i2 i3 i4 : nat) (sel : nat -> bool) (st ct n2 rho : R) :
  (i1 < length X)%nat -> (i2 < length X)%nat -> (i3 < length X)%nat -> (i4 < length X)%nat ->
  sel i1 = false -> sel i2 = false -> sel i3 = true -> sel i4 = true ->
  0 < n2 -> n2 * n2 = norm2 ROps (vsub ROps (pt X i3) (pt X i2)) ->
  let g := dihedral_args ROps (pt X i1) (pt X i2) (pt X i3) (pt X i4) n2 in
  0 < rho -> rho * rho = fst g * fst g + snd g * snd g ->
  st * st + ct * ct = 1 ->
  let X' := rotate_dihedral ROps X i1 i2 i3 i4 sel st ct n2 rho in
  dihedral_args ROps (pt X' i1) (pt X' i2) (pt X' i3) (pt X' i4) n2 = (rho * st, rho * ct) /\
  n2 * n2 = norm2 ROps (vsub ROps (pt X' i3) (pt X' i2)) /\
  same_shape_on (fun i => sel i = true) X X' /\
  (forall i, sel i = false -> pt X' i = pt X i).
Proof. exact (rotate_dihedral_correct X i1 i2 i3 i4 sel st ct n2 rho). Qed.
Print Assumptions C11_dihedral_target.

(* The sign matters.  With the rotation built from +(t - d) and applied as coords @ R (the code before the
   repair, DESIGN.md finding 37) the arguments come out as rho (sin(2d - t), cos(2d - t)): this is the general
   law, of which the theorem above is the instance s = sin(d - t), c = cos(d - t). *)
Theorem C11_dihedral_law (u1 u2 u3 : vecR) (n s c : R) : n <> 0 -> n * n = norm2 ROps u2 ->
  let u3' := vm ROps u3 (rot_from_axis ROps u2 n s c) in
  n * dot ROps u1 (cross ROps u2 u3')
    = c * (n * dot ROps u1 (cross ROps u2 u3)) - s * dot ROps (cross ROps u1 u2) (cross ROps u2 u3) /\
  dot ROps (cross ROps u1 u2) (cross ROps u2 u3')
    = c * dot ROps (cross ROps u1 u2) (cross ROps u2 u3) + s * (n * dot ROps u1 (cross ROps u2 u3)).
Proof. exact (dihedral_law u1 u2 u3 n s c). Qed.
Print Assumptions C11_dihedral_law.

(* ---- centring, ensembles ---------------------------------------------------------------------------- *)
Theorem C11_centred_centroid (X : list vecR) :
  X <> [] -> centroid ROps (translate ROps (vopp ROps (centroid ROps X)) X) = vzero ROps.
Proof. exact (centred_centroid X). Qed.
Print Assumptions C11_centred_centroid.

Theorem C11_ensemble_ops_rigid (E : list (list vecR)) :
  (forall v, Forall2 same_shape E (ens_translate1 ROps v E)) /\
  (forall vs, length vs = length E -> Forall2 same_shape E (ens_translate2 ROps vs E)) /\
  (forall M, proper M -> Forall2 same_shape E (ens_rotate ROps M E)) /\
  (forall k, Forall2 same_shape E (center_at_atom ROps k E)) /\
  (forall idx, Forall2 same_shape E (center_at_core ROps idx E)).
Proof.
  exact (conj (fun v => ens_translate1_shape v E) (conj (fun vs => ens_translate2_shape vs E)
        (conj (fun M => ens_rotate_shape M E) (conj (fun k => center_at_atom_shape k E) (fun idx => center_at_core_shape idx E))))).
Qed.
Print Assumptions C11_ensemble_ops_rigid.

(* Per-conformer stacks, for ensembles of EVERY shape: an (n_conformers, 3) array moves conformer k by its row k and
   an (n_conformers, 3, 3) stack turns conformer k by its matrix k.  There is no hypothesis on the number of atoms:
   the laws hold in particular when n_conformers = n_atoms (or 3, or 1), where array shapes coincide. *)
Theorem C11_ens_per_conformer (E : list (list vecR)) :
  (forall vs k, length vs = length E -> (k < length E)%nat ->
     nth k (ens_translate2 ROps vs E) [] = translate ROps (nth k vs (vzero ROps)) (nth k E [])) /\
  (forall Ms k, length Ms = length E -> (k < length E)%nat ->
     nth k (ens_rotate_each ROps Ms E) [] = transform ROps (nth k Ms (eye ROps)) (nth k E [])) /\
  (forall Ms, length Ms = length E -> Forall proper Ms -> Forall2 same_shape E (ens_rotate_each ROps Ms E)).
Proof.
  exact (conj (fun vs k => ens_translate2_nth vs E k)
        (conj (fun Ms k => ens_rotate_each_nth Ms E k) (fun Ms => ens_rotate_each_shape Ms E))).
Qed.
Print Assumptions C11_ens_per_conformer.

(* ... and the other reading of such an array (row j added to atom j of every conformer), which array shapes allow
   exactly when n_conformers = n_atoms, is NOT a rigid motion: witness with n_conformers = n_atoms = 2 *)
Theorem C11_per_atom_displacement_not_rigid :
  let E := [[(0, 0, 0); (1, 0, 0)]; [(0, 0, 0); (0, 1, 0)]] : list (list vecR) in
  let vs := [(0, 0, 0); (1, 0, 0)] : list vecR in
  length vs = length E /\ Forall (fun X : list vecR => length X = length E) E /\
  Forall2 same_shape E (ens_translate2 ROps vs E) /\
  ~ Forall2 same_shape E (ens_displace_atoms ROps vs E).
Proof. exact displace_atoms_not_rigid. Qed.
Print Assumptions C11_per_atom_displacement_not_rigid.

(* scale(f) is a similarity of every conformer: distances times |f|, signed volumes times f^3 *)
Theorem C11_ens_scale_similarity (f : R) (E : list (list vecR)) : Forall2 (scaled_shape f) E (ens_scale ROps f E).
Proof. exact (ens_scale_shape f E). Qed.
Print Assumptions C11_ens_scale_similarity.

Theorem C11_center_at_atom_origin (k : nat) (E : list (list vecR)) (X' : list vecR) :
  In X' (center_at_atom ROps k E) -> (k < length X')%nat -> pt X' k = vzero ROps.
Proof. exact (center_at_atom_origin k E X'). Qed.
Theorem C11_center_at_core_origin (idx : list nat) (E : list (list vecR)) (X' : list vecR) :
  In X' (center_at_core ROps idx E) -> idx <> [] -> (forall i, In i idx -> (i < length X')%nat) ->
  centroid ROps (select ROps idx X') = vzero ROps.
Proof. exact (center_at_core_origin idx E X'). Qed.
Print Assumptions C11_center_at_core_origin.

(* ---- alignment -------------------------------------------------------------------------------------- *)
(* Under the stated contract of the user-supplied callback (a proper rotation + the deviation that rotation
   achieves), Molecule.align_to_ref_coords returns the deviation of the pose it leaves (before the optional
   final shift), that value is the least among the candidate mappings, and the molecule moved rigidly. *)
Theorem C11_align_reports
  (dev : list vecR -> list vecR -> R) (func : list vecR -> list vecR -> matR * R) :
  (forall P Q, proper (fst (func P Q))) ->
  (forall P Q, snd (func P Q) = dev (transform ROps (fst (func P Q)) P) Q) ->
  forall (X : list vecR) (idxs : list (list nat)) (ref : list vecR) (v : option vecR) (X' : list vecR) (r : R),
  align ROps func X idxs ref v = Some (X', r) ->
  exists idx Xr,
    In idx idxs /\
    X' = match v with Some t => translate ROps t Xr | None => Xr end /\
    r = dev (select ROps idx Xr) ref /\
    r < 100 /\
    (forall idx', In idx' idxs -> r <= snd (func (select ROps idx' (align_centered ROps X (hd [] idxs))) ref)) /\
    same_shape X X'.
Proof. exact (align_reports dev func). Qed.
Print Assumptions C11_align_reports.

(* ... and the value returned does not depend on the initial pose of the molecule: re-posing the input by any
   rigid motion x |-> x M + w gives the same result, provided the callback's reported deviation is itself
   invariant under rotating its first argument (true of every optimal-superposition routine). *)
Theorem C11_align_pose_independent (func : list vecR -> list vecR -> matR * R) :
  (forall P Q M, proper M -> snd (func (transform ROps M P) Q) = snd (func P Q)) ->
  forall (X : list vecR) (idxs : list (list nat)) (ref : list vecR) (v : option vecR) (M : matR) (w : vecR),
  proper M -> hd [] idxs <> [] -> (forall i, In i (hd [] idxs) -> (i < length X)%nat) ->
  option_map snd (align ROps func (translate ROps w (transform ROps M X)) idxs ref v)
  = option_map snd (align ROps func X idxs ref v).
Proof. exact (align_pose_independent func). Qed.
Print Assumptions C11_align_pose_independent.

(* ConformerEnsemble.align_to_ref_coords as the code performs it (centre all conformers, pick the best callback result
   per conformer, rotate by the (n_conformers, 3, 3) stack, shift all) IS Molecule.align_to_ref_coords carried out on
   every conformer -- for every number of conformers and atoms ... *)
Theorem C11_ens_align_conformerwise (func : list vecR -> list vecR -> matR * R)
        (E : list (list vecR)) (idxs : list (list nat)) (ref : list vecR) (v : option vecR)
        (E' : list (list vecR)) (rs : list R) :
  ens_align ROps func E idxs ref v = Some (E', rs) ->
  length E' = length E /\ length rs = length E /\
  forall k, (k < length E)%nat -> align ROps func (nth k E []) idxs ref v = Some (nth k E' [], nth k rs 0).
Proof. exact (ens_align_conformerwise func E idxs ref v E' rs). Qed.
Print Assumptions C11_ens_align_conformerwise.

(* ... hence, under the callback contract, every conformer is moved rigidly and the k-th returned value is the
   deviation of the pose conformer k is left in *)
Theorem C11_ens_align_reports
  (dev : list vecR -> list vecR -> R) (func : list vecR -> list vecR -> matR * R) :
  (forall P Q, proper (fst (func P Q))) ->
  (forall P Q, snd (func P Q) = dev (transform ROps (fst (func P Q)) P) Q) ->
  forall (E : list (list vecR)) (idxs : list (list nat)) (ref : list vecR) (v : option vecR)
         (E' : list (list vecR)) (rs : list R),
  ens_align ROps func E idxs ref v = Some (E', rs) ->
  length E' = length E /\ length rs = length E /\
  forall k, (k < length E)%nat ->
    exists idx Xr,
      In idx idxs /\
      nth k E' [] = match v with Some t => translate ROps t Xr | None => Xr end /\
      nth k rs 0 = dev (select ROps idx Xr) ref /\
      nth k rs 0 < 100 /\
      (forall idx', In idx' idxs ->
         nth k rs 0 <= snd (func (select ROps idx' (align_centered ROps (nth k E []) (hd [] idxs))) ref)) /\
      same_shape (nth k E []) (nth k E' []).
Proof. exact (ens_align_reports dev func). Qed.
Print Assumptions C11_ens_align_reports.

(* ---- sequences of operations on one live structure (Model/RotSeq.v) -------------------------------- *)
(* Which atoms a rotate_dihedral call turns is a function of the graph the structure has AT THAT MOMENT and of the
   direction a2 -> a3 given in THAT call: the least set containing a3 that is closed under bonds not leading back into
   a2.  Nothing is carried over from earlier calls (the other end of the same bond, the graph before an edit). *)
Theorem C11_far_side_of_current_graph (G : graph) (n i2 i3 : nat) (sel : nat -> bool) :
  far_side G n i2 i3 = Some sel ->
  (i3 < n)%nat /\ i2 <> i3 /\ adjb G i2 i3 = true /\
  sel i3 = true /\ sel i2 = false /\
  (forall y, sel y = true -> (y < n)%nat) /\
  (forall x y, (y < n)%nat -> sel x = true -> adjb G x y = true -> y <> i2 -> sel y = true) /\
  (forall Q : nat -> Prop, Q i3 ->
     (forall x y, (x < n)%nat -> (y < n)%nat -> Q x -> adjb G x y = true -> y <> i2 -> Q y) -> forall y, sel y = true -> Q y).
Proof. exact (far_side_spec G n i2 i3 sel). Qed.
Print Assumptions C11_far_side_of_current_graph.

(* one rotate_dihedral step in ANY state (coordinates X, bonds G) it is applied to: the target is reached (read from
   either end of the chain), the atoms behind a2 -> a3 in G keep their shape, no other atom moves, and every bond of G
   keeps its length *)
Theorem C11_seq_rotate_dihedral_step (X : list vecR) (G : graph) (i1 i2 i3 i4 : nat) (st ct n2 rho : R)
        (X' : list vecR) (G' : graph) :
  sstep ROps (X, G) (SRotDih i1 i2 i3 i4 st ct n2 rho) = Some (X', G') ->
  rd_pre X G i1 i2 i3 i4 st ct n2 rho -> rd_post X G i1 i2 i3 i4 st ct n2 rho X' G'.
Proof. exact (seq_rotate_dihedral_step X G i1 i2 i3 i4 st ct n2 rho X' G'). Qed.
Print Assumptions C11_seq_rotate_dihedral_step.

(* every operation of the session vocabulary (rotate_dihedral, translate / transform of the whole structure or through a
   substructure, connect, del_bond, add_atom, del_atom) has its documented effect on the state it is applied to ... *)
Theorem C11_seq_step_effect (s : sstate R) (op : sop R) (s' : sstate R) :
  sstep ROps s op = Some s' -> sop_pre s op -> sop_post s op s'.
Proof. exact (sstep_effect s op s'). Qed.
Print Assumptions C11_seq_step_effect.

(* ... hence along EVERY sequence of operations each step has that effect on the state the previous steps left *)
Theorem C11_seq_every_step (ops : list (sop R)) (s : sstate R) (tr : list (sstate R)) :
  srun ROps s ops = Some tr -> trace_ok s ops tr.
Proof. exact (srun_trace_ok ops s tr). Qed.
Print Assumptions C11_seq_every_step.

(* the same bond driven as (a1,a2,a3,a4) and then as (a4,a3,a2,a1) on the same structure *)
Theorem C11_seq_both_ends (X : list vecR) (G : graph) (i1 i2 i3 i4 : nat) (st ct n2 rho st' ct' n2' rho' : R)
        (s1 s2 : sstate R) :
  srun ROps (X, G) [SRotDih i1 i2 i3 i4 st ct n2 rho; SRotDih i4 i3 i2 i1 st' ct' n2' rho'] = Some [s1; s2] ->
  rd_pre X G i1 i2 i3 i4 st ct n2 rho ->
  rd_pre (fst s1) (snd s1) i4 i3 i2 i1 st' ct' n2' rho' ->
  rd_post X G i1 i2 i3 i4 st ct n2 rho (fst s1) (snd s1) /\
  rd_post (fst s1) (snd s1) i4 i3 i2 i1 st' ct' n2' rho' (fst s2) (snd s2) /\
  dihedral_args ROps (pt (fst s2) i1) (pt (fst s2) i2) (pt (fst s2) i3) (pt (fst s2) i4) n2' = (rho' * st', rho' * ct').
Proof. exact (seq_both_ends X G i1 i2 i3 i4 st ct n2 rho st' ct' n2' rho' s1 s2). Qed.
Print Assumptions C11_seq_both_ends.

(* ---- the hypotheses are satisfiable by non-trivial data --------------------------------------------- *)
Example C11_ex_rodrigues :
  unit (1, 0, 0) /\ unit (3/5, 4/5, 0) /\ 1 + dot ROps (1, 0, 0) (3/5, 4/5, 0) <> 0.
Proof. unfold unit. f3. repeat split; try field; lra. Qed.

Example C11_ex_antiparallel :
  unit (1, 0, 0) /\ unit (-1, 0, 0) /\ unit (0, 1, 0) /\ dot ROps (0, 1, 0) (-1, 0, 0) = 0 /\
  dot ROps (1, 0, 0) (-1, 0, 0) <> 0 /\ dot ROps (1, 0, 0) (-1, 0, 0) <= -1 + 1/100000000.
Proof. unfold unit. f3. repeat split; lra. Qed.

Example C11_ex_from_vectors :
  0 <= 1/100000000 < 1 /\ 0 < 2 /\ 2 * 2 = norm2 ROps (2, 0, 0) /\ 0 < 5 /\ 5 * 5 = norm2 ROps (0, 3, 4) /\
  unit (1, 0, 0) /\ dot ROps (1, 0, 0) (0, 3, 4) = 0.
Proof. unfold unit. f3. repeat split; lra. Qed.

Example C11_ex_axis : 0 < 2 /\ 2 * 2 = norm2 ROps (0, 0, 2) /\ (3/5) * (3/5) + (4/5) * (4/5) = 1.
Proof. f3. repeat split; lra. Qed.

(* a four-atom chain with dihedral +90 degrees, atoms 2 and 3 on the moved side, target (sin,cos) = (3/5, 4/5) *)
Example C11_ex_dihedral :
  let X := [(1, 0, 0); (0, 0, 0); (0, 0, 1); (0, 1, 1)] in
  let sel := fun i => Nat.leb 2 i in
  (0 < length X)%nat /\ (1 < length X)%nat /\ (2 < length X)%nat /\ (3 < length X)%nat /\
  sel 0%nat = false /\ sel 1%nat = false /\ sel 2%nat = true /\ sel 3%nat = true /\
  0 < 1 /\ 1 * 1 = norm2 ROps (vsub ROps (pt X 2) (pt X 1)) /\
  dihedral_args ROps (pt X 0) (pt X 1) (pt X 2) (pt X 3) 1 = (1, 0) /\
  1 * 1 = 1 * 1 + 0 * 0 /\ (3/5) * (3/5) + (4/5) * (4/5) = 1.
Proof.
  cbv zeta. unfold pt. simpl nth. simpl length. simpl Nat.leb.
  repeat match goal with |- _ /\ _ => split end; try lia; try reflexivity; try lra.
  - f3. lra.
  - unfold dihedral_args. f3. f_equal; lra.
Qed.

(* the callback contract is satisfiable, and align then succeeds on a concrete input *)
Example C11_ex_align :
  let dev := fun (_ _ : list vecR) => 0 in
  let func := fun (P Q : list vecR) => (eye ROps, dev (transform ROps (eye ROps) P) Q) in
  (forall P Q, proper (fst (func P Q))) /\
  (forall P Q, snd (func P Q) = dev (transform ROps (fst (func P Q)) P) Q) /\
  exists X' r, align ROps func [(1, 2, 3)] [[0%nat]] [(0, 0, 0)] None = Some (X', r).
Proof.
  cbv zeta. split; [intros; apply eye_proper|]. split; [reflexivity|].
  unfold align, align_with, pick_best, fltb. simpl fold_left. cbv [fleb ROps fofZ]. simpl snd. simpl fst.
  assert (E : Rleb 100 0 = false) by (apply Rleb_false; lra). rewrite E. simpl negb. cbv iota.
  eexists. eexists. reflexivity.
Qed.

(* an ensemble with n_conformers = n_atoms = 2: per-conformer stacks of the right length exist, and the ensemble
   alignment succeeds under the same (satisfiable) callback contract *)
Example C11_ex_ens_square :
  let E := [[(0, 0, 0); (1, 0, 0)]; [(2, 0, 0); (2, 3, 0)]] : list (list vecR) in
  let dev := fun (_ _ : list vecR) => 0 in
  let func := fun (P Q : list vecR) => (eye ROps, dev (transform ROps (eye ROps) P) Q) in
  Forall (fun X : list vecR => length X = length E) E /\
  length [(1, 1, 1); (0, 0, 2)] = length E /\
  length [eye ROps; eye ROps] = length E /\ Forall proper [eye ROps; eye ROps] /\
  exists E' rs, ens_align ROps func E [[0%nat; 1%nat]] [(0, 0, 0); (0, 0, 0)] None = Some (E', rs).
Proof.
  cbv zeta. split; [repeat constructor|]. split; [reflexivity|]. split; [reflexivity|].
  split; [repeat constructor; apply eye_proper|].
  unfold ens_align, ens_align_steps, ens_align_inputs, pick_best, fltb. cbn [map fold_left snd fst align_inputs].
  cbv [fleb ROps fofZ].
  assert (E : Rleb 100 0 = false) by (apply Rleb_false; lra). rewrite E. cbn [negb all_some map snd fst].
  eexists. eexists. reflexivity.
Qed.

(* a five-atom structure 0-1-2-3 with a branch 2-4: the preconditions of rotate_dihedral((0,1,2,3)) hold; the atoms turned
   are {2,3,4} from one end and {0,1} from the other; after del_bond(2,4) atom 4 stays behind, after connect(4,0) it
   belongs to the other side *)
Example C11_ex_sequence :
  let X := [(1, 0, 0); (0, 0, 0); (0, 0, 1); (0, 1, 1); (1, 0, 2)] : list vecR in
  let G := [(0, 1); (1, 2); (2, 3); (2, 4)]%nat in
  rd_pre X G 0 1 2 3 (3/5) (4/5) 1 1 /\
  (exists sel, far_side G 5 1 2 = Some sel /\ map sel (seq 0 5) = [false; false; true; true; true]) /\
  (exists sel, far_side G 5 2 1 = Some sel /\ map sel (seq 0 5) = [true; true; false; false; false]) /\
  (exists sel, far_side (graph_del_bond 2 4 G) 5 1 2 = Some sel /\ map sel (seq 0 5) = [false; false; true; true; false]) /\
  (exists sel, far_side ((4, 0)%nat :: graph_del_bond 2 4 G) 5 2 1 = Some sel /\ map sel (seq 0 5) = [true; true; false; false; true]).
Proof.
  cbv zeta. split; [|repeat split; eexists; (split; [reflexivity | reflexivity])].
  unfold rd_pre, pt. simpl nth. simpl length.
  repeat match goal with |- _ /\ _ => split end; try lia; try reflexivity; try lra.
  - intros sel H. vm_compute in H. injection H as <-. reflexivity.
  - f3. lra.
  - unfold dihedral_args. cbn [fst snd]. f3. lra.
Qed.

(* ---- handles collected first, used later (Model/RotViews.v) ------------------------------------------ *)
(* A conformer obtained from the ensemble -- ens[k], the k-th object of `for cf in ens` / list(ens) / zip / sorted -- or a
   substructure of it stands for conformer k for good.  Whatever else was fetched from the ensemble in the meantime, a
   session of edits through such handles leaves conformer c as: the edits made through handles of c, in order -- and
   a conformer none of whose handles was used exactly as it was. *)
Theorem C11_view_edits_per_conformer (edits : list (nat * (list vecR -> list vecR))) (E : list (list vecR)) (c : nat) :
  (c < length E)%nat ->
  length (view_edits edits E) = length E /\
  nth c (view_edits edits E) [] = fold_left (fun X f => f X) (edits_on c edits) (nth c E []).
Proof. exact (view_edits_per_conformer edits E c). Qed.
Print Assumptions C11_view_edits_per_conformer.

Theorem C11_view_edits_untouched (edits : list (nat * (list vecR -> list vecR))) (E : list (list vecR)) (c : nat) :
  (c < length E)%nat -> (forall e, In e edits -> fst e <> c) -> nth c (view_edits edits E) [] = nth c E [].
Proof. exact (view_edits_untouched edits E c). Qed.
Print Assumptions C11_view_edits_untouched.

(* translate / transform through the handle of conformer k (itself, or substructure(idx) of it): the selected rows of
   conformer k move rigidly, its other rows and every other conformer do not move *)
Theorem C11_view_translate (k : nat) (idx : option (list nat)) (v : vecR) (E : list (list vecR)) :
  (k < length E)%nat ->
  let sel i := match idx with None => true | Some l => in_idx l i end in
  let E' := view_translate ROps k idx v E in
  length E' = length E /\
  (forall c, (c < length E)%nat -> c <> k -> nth c E' [] = nth c E []) /\
  same_shape_on (fun i => sel i = true) (nth k E []) (nth k E' []) /\
  (forall i, sel i = false -> pt (nth k E' []) i = pt (nth k E []) i).
Proof. exact (view_translate_effect k idx v E). Qed.
Theorem C11_view_transform (k : nat) (idx : option (list nat)) (M : matR) (E : list (list vecR)) :
  proper M -> (k < length E)%nat ->
  let sel i := match idx with None => true | Some l => in_idx l i end in
  let E' := view_transform ROps k idx M E in
  length E' = length E /\
  (forall c, (c < length E)%nat -> c <> k -> nth c E' [] = nth c E []) /\
  same_shape_on (fun i => sel i = true) (nth k E []) (nth k E' []) /\
  (forall i, sel i = false -> pt (nth k E' []) i = pt (nth k E []) i).
Proof. exact (view_transform_effect k idx M E). Qed.
Print Assumptions C11_view_transform.

(* ---- arguments that are live rows of the coordinate table -------------------------------------------- *)
(* R = rotation_matrix_from_vectors(coords[k], w); transform(R):  computing R leaves the table as it was (the callee gets
   the VALUE of the row); afterwards every distance and signed volume is unchanged and atom k points along w *)
Theorem C11_orient_row (tol : R) (X : list vecR) (k : nat) (w ov : vecR) (nk nw : R) :
  0 <= tol < 1 -> (k < length X)%nat ->
  0 < nk -> nk * nk = norm2 ROps (pt X k) -> 0 < nw -> nw * nw = norm2 ROps w ->
  unit ov -> dot ROps ov w = 0 ->
  let r := orient_row ROps tol X k false w nk nw ov in
  fst r = X /\ same_shape X (snd r) /\ vdiv ROps (pt (snd r) k) nk = vdiv ROps w nw.
Proof. exact (orient_row_correct tol X k w ov nk nw). Qed.
Print Assumptions C11_orient_row.

Theorem C11_orient_row_as_target (tol : R) (X : list vecR) (k : nat) (w ov : vecR) (nk nw : R) :
  0 <= tol < 1 -> (k < length X)%nat ->
  0 < nk -> nk * nk = norm2 ROps (pt X k) -> 0 < nw -> nw * nw = norm2 ROps w ->
  unit ov -> dot ROps ov (pt X k) = 0 ->
  let r := orient_row ROps tol X k true w nk nw ov in
  fst r = X /\ same_shape X (snd r) /\
  vm ROps (vdiv ROps w nw) (row_matrix_vec ROps tol X k true w nk nw ov) = vdiv ROps (pt X k) nk.
Proof. exact (orient_row_swapped_correct tol X k w ov nk nw). Qed.
Print Assumptions C11_orient_row_as_target.

(* R = rotation_matrix_from_axis(coords[k], t); transform(R): table untouched by computing R, shape kept, atom k fixed *)
Theorem C11_turn_about_row (X : list vecR) (k : nat) (nk s c : R) :
  (k < length X)%nat -> 0 < nk -> nk * nk = norm2 ROps (pt X k) -> s * s + c * c = 1 ->
  let r := turn_about_row ROps X k nk s c in
  fst r = X /\ same_shape X (snd r) /\ pt (snd r) k = pt X k.
Proof. exact (turn_about_row_correct X k nk s c). Qed.
Print Assumptions C11_turn_about_row.

(* translate(coords[k]): every selected row moves by the value row k had before the call *)
Theorem C11_shift_by_row (idx : option (list nat)) (X : list vecR) (k : nat) :
  let sel i := match idx with None => true | Some l => in_idx l i end in
  let X' := shift_by_row ROps idx X k in
  length X' = length X /\
  forall i, (i < length X)%nat -> pt X' i = if sel i then vadd ROps (pt X i) (pt X k) else pt X i.
Proof. exact (shift_by_row_correct idx X k). Qed.
Print Assumptions C11_shift_by_row.

(* hypotheses satisfiable: two conformers, handles used in the order 1, 0, 1; atom 1 of a 2-atom table put along z *)
Example C11_ex_views :
  let E := [[(0, 0, 0); (1, 0, 0)]; [(0, 0, 0); (0, 1, 0)]] : list (list vecR) in
  let edits := [(1%nat, translate ROps (1, 1, 1)); (0%nat, translate ROps (2, 0, 0)); (1%nat, translate ROps (0, 0, 1))] in
  (0 < length E)%nat /\ (1 < length E)%nat /\ (length (edits_on 1 edits) = 2)%nat /\ (length (edits_on 0 edits) = 1)%nat.
Proof. cbv zeta. cbn. repeat split; lia. Qed.
Example C11_ex_orient_row :
  let X := [(0, 0, 0); (3, 0, 4)] : list vecR in
  0 <= 0 < 1 /\ (1 < length X)%nat /\ 0 < 5 /\ 5 * 5 = norm2 ROps (pt X 1) /\ 0 < 2 /\ 2 * 2 = norm2 ROps (0, 0, 2) /\
  unit (1, 0, 0) /\ dot ROps (1, 0, 0) (0, 0, 2) = 0.
Proof. cbv zeta. unfold unit, pt. cbn [nth length]. f3. repeat split; try lra; try lia. Qed.
