(* C03 -- a crash while appending never damages committed records or shows a torn one.
   Crash model of the property: the file holds the committed image followed by ANY prefix of the byte
   stream the interrupted session wrote:  crash_image H rs ps n = H ++ blocks rs ++ firstn n (blocks ps),
   with n universally quantified (every byte offset), rs the committed records, ps the session's puts. *)
From Coq Require Import NArith List Bool.
Import ListNotations.
From Molli Require Import Model.UKV Proofs.UKVBase Proofs.UKV Proofs.UKVCrash Proofs.UKVCrashChain Proofs.UKVCrashRun.
Open Scope N_scope.

(* Reopening a crash image (fresh handle after the process died, or another process's handle with a stale
   snapshot of the committed records), in either mode: the table of contents is exactly
   committed ++ (the session records wholly inside the first n bytes); a torn record is never listed;
   in append mode the file is cut back to exactly the complete blocks. *)
Theorem C03_crash_reopen : forall H rs ps n h m,
  hdr_ok H -> Forall wfkv (rs ++ ps) -> NoDup (map fst (rs ++ ps)) ->
  snap H rs h -> closed h = true ->
  exists h', open_ (crash_image H rs ps n) h m =
             (match m with MA => H ++ blocks (rs ++ complete n ps) | MR => crash_image H rs ps n end, h')
             /\ full H (rs ++ complete n ps) h' /\ md h' = m /\ closed h' = false.
Proof. exact crash_reopen. Qed.
Print Assumptions C03_crash_reopen.

(* the records shown of the interrupted session are a prefix of its puts: each completely or not at all *)
Theorem C03_all_or_nothing : forall n ps, exists j, complete n ps = firstn j ps.
Proof. exact complete_prefix. Qed.
Print Assumptions C03_all_or_nothing.

(* every get after the reopening returns the exact bytes of a committed or complete record, or KeyError:
   never a truncated or zero-padded value, on the image itself and on the cut-back file *)
Theorem C03_reads_exact : forall H rs ps n h' k,
  Forall wfkv ps -> full H (rs ++ complete n ps) h' -> closed h' = false ->
  get (crash_image H rs ps n) h' k =
    match assoc (rs ++ complete n ps) k with Some v => RVal v | None => RErr EKey end
  /\ get (H ++ blocks (rs ++ complete n ps)) h' k =
    match assoc (rs ++ complete n ps) k with Some v => RVal v | None => RErr EKey end.
Proof. exact crash_get. Qed.
Print Assumptions C03_reads_exact.

Theorem C03_committed_intact : forall rs qs k v, assoc rs k = Some v -> assoc (rs ++ qs) k = Some v.
Proof. exact assoc_app_l. Qed.
Print Assumptions C03_committed_intact.

(* Recovery: after reopening the image for append the world satisfies the C02 invariant for
   committed ++ complete, so by C02_refines every further history -- further appends, reads by other
   handles, and (by C03_crash_reopen again) a second crash -- behaves like the insert-only map. *)
Theorem C03_recover_append : forall H rs ps n nh i,
  hdr_ok H -> Forall wfkv (rs ++ ps) -> NoDup (map fst (rs ++ ps)) -> (i < nh)%nat ->
  exists h', open_ (crash_image H rs ps n) h0 MA = (H ++ blocks (rs ++ complete n ps), h') /\
             Inv H (rs ++ complete n ps) (H ++ blocks (rs ++ complete n ps), upd (repeat h0 nh) i h').
Proof. exact crash_recover. Qed.
Print Assumptions C03_recover_append.

(* ANY NUMBER of crashing sessions in a row (unbounded induction over the list of sessions): every session
   reopens for append -- recover = the model's own open_ on the real bytes the previous death left --, writes
   the blocks of its puts and dies after an arbitrary number n of bytes.  The file after the chain is exactly
   the header and the complete blocks of  committed ++ (per session, the puts wholly inside its n bytes),
   with no torn bytes left anywhere in the middle. *)
Theorem C03_crash_chain : forall H ss rs,
  hdr_ok H -> Forall wfkv (rs ++ all_puts ss) -> NoDup (map fst (rs ++ all_puts ss)) ->
  chain (H ++ blocks rs) ss = H ++ blocks (chain_records rs ss)
  /\ Forall wfkv (chain_records rs ss) /\ NoDup (map fst (chain_records rs ss)).
Proof. exact crash_chain. Qed.
Print Assumptions C03_crash_chain.

(* a record committed before the first crash keeps its exact value however many sessions die after it *)
Theorem C03_crash_chain_committed : forall H ss rs k v,
  hdr_ok H -> Forall wfkv (rs ++ all_puts ss) -> NoDup (map fst (rs ++ all_puts ss)) ->
  assoc rs k = Some v ->
  chain (H ++ blocks rs) ss = H ++ blocks (chain_records rs ss) /\ assoc (chain_records rs ss) k = Some v.
Proof. exact crash_chain_committed. Qed.
Print Assumptions C03_crash_chain_committed.

(* after the chain a writer that reopens the file has the C02 invariant for exactly chain_records *)
Theorem C03_crash_chain_inv : forall H ss rs nh i,
  hdr_ok H -> Forall wfkv (rs ++ all_puts ss) -> NoDup (map fst (rs ++ all_puts ss)) -> (i < nh)%nat ->
  exists h', open_ (chain (H ++ blocks rs) ss) h0 MA = (H ++ blocks (chain_records rs ss), h') /\
             Inv H (chain_records rs ss) (H ++ blocks (chain_records rs ss), upd (repeat h0 nh) i h').
Proof. exact crash_chain_inv. Qed.
Print Assumptions C03_crash_chain_inv.

(* Non-vacuity: three sessions die in a row -- inside a value, inside a length field, after a whole record. *)
Example C03_chain_nonvacuous :
  let H := mk_header (repeat 77 16) [] [] in
  let rs := [([1], [10; 11])] in
  let ss := [([([2], [20]); ([3], [30; 31; 32])], 12%nat); ([([4], [40; 41])], 3%nat); ([([5], [50])], 200%nat)] in
  chain_records rs ss = [([1], [10; 11]); ([2], [20]); ([5], [50])] /\
  chain (H ++ blocks rs) ss = H ++ blocks [([1], [10; 11]); ([2], [20]); ([5], [50])].
Proof. vm_compute. split; reflexivity. Qed.

(* The chain IS a run of the operational model `run` (Model/UKV.v, the function the correspondence check drives
   against the real UKVFile; its Crash op = "the file keeps its first n bytes, every handle object is new"):
   the history  Open a; Put..; Crash;  Open a; Put..; Crash;  ...;  Open a   -- chain_ops, each Crash cutting n_i bytes
   into that session's appended stream -- leaves exactly header ++ complete blocks of chain_records. *)
Theorem C03_run_chain : forall H ss rs,
  hdr_ok H -> Forall wfkv (rs ++ all_puts ss) -> NoDup (map fst (rs ++ all_puts ss)) ->
  fst (snd (run (H ++ blocks rs, [h0]) (chain_ops H rs ss ++ [Open 0 MA]))) = H ++ blocks (chain_records rs ss).
Proof. exact run_chain_clean. Qed.
Print Assumptions C03_run_chain.

(* A test, not a theorem: on this instance the chain is the operational model `run` (the one the correspondence
   check drives against the real UKVFile, with its Crash op = "the file keeps its first n bytes, every handle
   object is new") -- three writing sessions, the first two killed 12 and 3 bytes into their appends. *)
Example C03_chain_agrees_with_run :
  let H := mk_header (repeat 77 16) [] [] in
  let f0 := H ++ blocks [([1], [10; 11])] in
  fst (snd (run (f0, repeat h0 1) [Open 0 MA; Put 0 [2] [20]; Put 0 [3] [30; 31; 32]; Crash (len f0 + 12);
                                    Open 0 MA; Put 0 [4] [40; 41]; Crash (len f0 + 7 + 3);
                                    Open 0 MA; Put 0 [5] [50]; Close 0]))
  = chain f0 [([([2], [20]); ([3], [30; 31; 32])], 12%nat); ([([4], [40; 41])], 3%nat); ([([5], [50])], 200%nat)].
Proof. vm_compute. reflexivity. Qed.

(* Non-vacuity: a two-put session cut inside the value of its second record. *)
Example C03_nonvacuous :
  let H := mk_header (repeat 77 16) [] [] in
  let rs := [([1], [10; 11])] in let ps := [([2], [20]); ([3], [30; 31; 32])] in
  complete 12 ps = [([2], [20])] /\
  fst (run (crash_image H rs ps 12, repeat h0 2) [Open 0 MR; Keys 0; Get 0 [3]; Close 0; Open 1 MA; Put 1 [3] [7]; Get 1 [3]])
  = [ROk; RKeys [[1]; [2]]; RErr EKey; ROk; ROk; ROk; RVal [7]].
Proof. vm_compute. split; reflexivity. Qed.
