(* C08 (and the xyz half of C10): the xyz WRITER of molli/chem/geometry.py (dump_xyz; ensembles write one
   block per conformer), the element vocabulary of the reader, the unit table / scale expression semantics,
   and the boolean check functions evaluated by the correspondence shards.  No proofs in this file.

   Coordinates on the write side are whole micro-units (sign, magnitude): CPython's format(x, "12.6f") is
   correctly rounded, so the text only depends on the nearest multiple of 1e-6 (and the sign of x); the
   harness computes that multiple exactly (fractions) and the writer text is compared character by
   character inside Coq. *)
From Coq Require Import List Bool Arith NArith ZArith QArith Qabs Ascii String.
From Molli Require Import Common.ParseStr Model.Parse.
Import ListNotations.
Local Open Scope char_scope.
Local Open Scope list_scope.

(* ---------------------------------------------------------------- vocabularies (tables come from Gen) *)
Fixpoint assoc_str {B} (k : str) (t : list (str * B)) : option B :=
  match t with [] => None | (k', v) :: r => if str_eqb k k' then Some v else assoc_str k r end.
Fixpoint assoc_Z {B} (k : Z) (t : list (Z * B)) : option B :=
  match t with [] => None | (k', v) :: r => if (k =? k')%Z then Some v else assoc_Z k r end.

Definition conv_names (t : list (string * Z)) : list (str * Z) := map (fun p => (s2l (fst p), snd p)) t.
Definition conv_syms (t : list (Z * string)) : list (Z * str) := map (fun p => (fst p, s2l (snd p))) t.

(* Element[name] *)
Definition elem_of_name (names : list (str * Z)) (s : str) : option Z := assoc_str s names.
(* Element(z).symbol *)
Definition symbol_of (syms : list (Z * str)) (z : Z) : option str := assoc_Z z syms.

(* ---------------------------------------------------------------- writer *)
Definition dec := (bool * N)%type.                 (* sign, magnitude in micro-units *)
Record watom := mk_watom { wa_elem : Z; wa_x : dec; wa_y : dec; wa_z : dec }.
Record wgeom := mk_wgeom { wg_name : str; wg_atoms : list watom }.

Definition fmt12 (d : dec) : str := rjust 12 (print_dec6 (fst d) (snd d)).
(* f"{s:<5} {x:12.6f} {y:12.6f} {z:12.6f}" *)
Definition atom_line (sym : str) (a : watom) : str :=
  ljust 5 sym ++ " " :: fmt12 (wa_x a) ++ " " :: fmt12 (wa_y a) ++ " " :: fmt12 (wa_z a).

Definition write_atom (syms : list (Z * str)) (a : watom) : option str :=
  match symbol_of syms (wa_elem a) with Some s => Some (atom_line s a) | None => None end.

(* f"{self.n_atoms}\n{comment}\n" then the atom lines *)
Definition write_geom (syms : list (Z * str)) (g : wgeom) : option (list str) :=
  match map_opt (write_atom syms) (wg_atoms g) with
  | Some ls => Some (print_N (N.of_nat (List.length (wg_atoms g))) :: wg_name g :: ls)
  | None => None
  end.
Definition write_xyz (syms : list (Z * str)) (gs : list wgeom) : option (list str) :=
  option_map (@List.concat str) (map_opt (write_geom syms) gs).

(* an ensemble: one name, one list of elements, one coordinate frame per conformer *)
Record wens := mk_wens { we_name : str; we_elems : list Z; we_frames : list (list (dec * dec * dec)) }.
Definition frame_geom (e : wens) (f : list (dec * dec * dec)) : wgeom :=
  mk_wgeom (we_name e) (map (fun p => mk_watom (fst p) (fst (fst (snd p))) (snd (fst (snd p))) (snd (snd p)))
                            (combine (we_elems e) f)).
Definition ens_geoms (e : wens) : list wgeom := map (frame_geom e) (we_frames e).

(* what reading the written text must give back *)
Definition dec_val (d : dec) : fval := FNum (fst d) (snd d) (-6).
Definition geom_mol (g : wgeom) : mol :=
  mk_mol (Z.of_nat (List.length (wg_atoms g))) 0
         (map wa_elem (wg_atoms g))
         (map (fun a => (dec_val (wa_x a), dec_val (wa_y a), dec_val (wa_z a))) (wg_atoms g)) [].

(* the reader with today's vocabulary *)
Definition load_xyz (names : list (str * Z)) (ls : list str) : res (list mol) :=
  load_xyz_lines true (elem_of_name names) ls.

(* ---------------------------------------------------------------- units *)
(* argument expression of the scale(...) call (tie S, Gen/ScaleExpr.v); SVal = DistanceUnit[source_units].value *)
Inductive sexpr := SVal | SConst (q : Q) | SMul (a b : sexpr) | SDiv (a b : sexpr) | SInv (a : sexpr).

Section Eval.
Context {F : Type} (fmul fdiv : F -> F -> F) (fconst : Q -> F).
Fixpoint seval (e : sexpr) (v : F) : F :=
  match e with
  | SVal => v
  | SConst q => fconst q
  | SMul a b => fmul (seval a v) (seval b v)
  | SDiv a b => fdiv (seval a v) (seval b v)
  | SInv a => fdiv (fconst 1%Q) (seval a v)
  end.
(* coordinate (in Angstrom) that the reader returns for a file coordinate c declared in a unit with
   table value v; `ang` = the unit IS DistanceUnit.Angstrom (no scaling) *)
Definition read_coord (e : sexpr) (ang : bool) (v c : F) : F := if ang then c else fmul (seval e v) c.
End Eval.

(* normal form k * v^a / v^b *)
Fixpoint snorm (e : sexpr) : option (Q * nat * nat) :=
  match e with
  | SVal => Some (1%Q, 1%nat, 0%nat)
  | SConst q => Some (q, 0%nat, 0%nat)
  | SMul x y => match snorm x, snorm y with
                | Some (k1, a1, b1), Some (k2, a2, b2) => Some (Qred (k1 * k2), (a1 + a2)%nat, (b1 + b2)%nat)
                | _, _ => None end
  | SDiv x y => match snorm x, snorm y with
                | Some (k1, a1, b1), Some (k2, a2, b2) =>
                  if Qeq_bool k2 0 then None else Some (Qred (k1 / k2), (a1 + b2)%nat, (b1 + a2)%nat)
                | _, _ => None end
  | SInv x => match snorm x with
              | Some (k, a, b) => if Qeq_bool k 0 then None else Some (Qred (1 / k), b, a)
              | None => None end
  end.
(* the expression is 1/v *)
Definition scale_ok (e : sexpr) : bool :=
  match snorm e with Some (k, a, b) => Qeq_bool k 1 && (b =? S a)%nat | None => false end.

(* one row of the regenerated DistanceUnit table: member name (aliases included), value, is-Angstrom *)
Definition unit_row := (string * Q * bool)%type.
Definition row_ok (e : sexpr) (r : unit_row) : bool :=
  let '(_, v, ang) := r in
  if ang then Qeq_bool v 1 else scale_ok e && negb (Qeq_bool v 0) .

(* physical values (units per Angstrom), written from the definitions of the units, NOT from the code *)
Definition unit_spec : list (string * Q) :=
  [ ("A", 1); ("Angstrom", 1); ("Bohr", 18897259886 # 10000000000); ("au", 18897259886 # 10000000000);
    ("pm", 100); ("nm", 1 # 10); ("fm", 100000) ]%Q%string.
Fixpoint assoc_string {B} (k : string) (t : list (string * B)) : option B :=
  match t with [] => None | (k', v) :: r => if String.eqb k k' then Some v else assoc_string k r end.
Definition close_rel (v s : Q) : bool := Qle_bool (Qabs (v - s)) (s * (1 # 100000)).
Definition row_value_ok (r : unit_row) : bool :=
  let '(n, v, _) := r in match assoc_string n unit_spec with Some s => close_rel v s | None => true end.
Definition required_units : list string := ["Angstrom"; "Bohr"; "pm"; "nm"; "fm"]%string.
Definition units_present (t : list unit_row) : bool :=
  forallb (fun n => existsb (fun r => String.eqb n (fst (fst r))) t) required_units.

(* ---------------------------------------------------------------- correspondence checks *)
(* observed float: exact value or a special *)
Inductive ofloat := OQ (q : Q) | OInf (neg : bool) | ONan.
Record omol := mk_omol { o_natoms : Z; o_nbonds : Z; o_elems : list Z;
                         o_coords : list (ofloat * ofloat * ofloat); o_bonds : list (nat * nat) }.
Inductive obs := OErr | OOk (ms : list nat).          (* indices into the shard's molecule table *)

Definition pow10Q (e : Z) : Q :=
  match e with
  | Z0 => 1
  | Zpos p => inject_Z (10 ^ Zpos p)
  | Zneg p => Qmake 1 (Z.to_pos (10 ^ Zpos p))
  end.
Definition fval_Q (neg : bool) (m : N) (e : Z) : Q :=
  let q := (inject_Z (Z.of_N m) * pow10Q e)%Q in if neg then Qopp q else q.
(* |model - observed| <= 1e-6 * max(1, |observed|): the granularity of the property *)
Definition close_abs (a b : Q) : bool :=
  let d := Qabs (a - b) in
  Qle_bool d (1 # 1000000) || Qle_bool d (Qabs b * (1 # 1000000)).
Definition float_match (f : fval) (o : ofloat) : bool :=
  match f, o with
  | FNum neg m e, OQ q => if (Z.abs e <=? 400)%Z then close_abs (fval_Q neg m e) q else false
  | FInf n1, OInf n2 => Bool.eqb n1 n2
  | FNan, ONan => true
  | _, _ => false
  end.
Definition triple_match (p : fval * fval * fval) (o : ofloat * ofloat * ofloat) : bool :=
  float_match (fst (fst p)) (fst (fst o)) && float_match (snd (fst p)) (snd (fst o)) && float_match (snd p) (snd o).

Fixpoint list_eqb {A B} (eq : A -> B -> bool) (a : list A) (b : list B) : bool :=
  match a, b with
  | [], [] => true
  | x :: a', y :: b' => eq x y && list_eqb eq a' b'
  | _, _ => false
  end.
Definition natpair_eqb (a b : nat * nat) : bool := (fst a =? fst b)%nat && (snd a =? snd b)%nat.

Definition mol_match (m : mol) (o : omol) : bool :=
  (m_natoms m =? o_natoms o)%Z && (m_nbonds m =? o_nbonds o)%Z &&
  list_eqb Z.eqb (m_elems m) (o_elems o) &&
  list_eqb triple_match (m_coords m) (o_coords o) &&
  list_eqb natpair_eqb (m_bonds m) (o_bonds o).

Definition result_match (tab : list omol) (r : res (list mol)) (o : obs) : bool :=
  match r, o with
  | Err _, OErr => true
  | Ok ms, OOk idx =>
    (List.length ms =? List.length idx)%nat &&
    forallb (fun p => match nth_error tab (snd p) with Some om => mol_match (fst p) om | None => false end)
            (combine ms idx)
  | _, _ => false
  end.

(* a case: which base text, which damage, what the implementation did *)
Definition rcase := (nat * damage * obs)%type.
Definition base_lines (bases : list (list string)) (i : nat) : list str := map s2l (nth i bases []).

Definition chk_xyz_read (names : list (string * Z)) (bases : list (list string)) (tab : list omol) (c : rcase) : bool :=
  let '(bi, d, o) := c in
  result_match tab (load_xyz (conv_names names) (apply_damage d (base_lines bases bi))) o.

Definition chk_mol2_read (atypes : list (string * option Z)) (btypes : list string)
                         (bases : list (list string)) (tab : list omol) (c : rcase) : bool :=
  let '(bi, d, o) := c in
  let at_tab := map (fun p => (s2l (fst p), snd p)) atypes in
  let atype s := match assoc_str s at_tab with Some r => r | None => None end in
  let btype s := existsb (fun k => str_eqb s (s2l k)) btypes in
  result_match tab (load_mol2_lines true atype btype (apply_damage d (base_lines bases bi))) o.

(* writer: geometry (micro-units) and the lines dumps_xyz produced *)
Definition chk_xyz_write (syms : list (Z * string)) (c : list wgeom * list string) : bool :=
  match write_xyz (conv_syms syms) (fst c) with
  | Some ls => list_eqb str_eqb ls (map s2l (snd c))
  | None => false
  end.

(* branch tags of the model, for the measured input distribution *)
Definition tag_of {A} (r : res A) : nat :=
  match r with
  | Ok _ => 0 | Err ESyntax => 1 | Err EEof => 2 | Err ECounts => 3 | Err EValue => 4 | Err EIndex => 5
  | Err EType => 6 | Err EVocab => 7 | Err ENoHeader => 8 | Err EShape => 9
  end%nat.
