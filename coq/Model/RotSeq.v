(* C11, sequences: SEQUENCES of geometric operations and connectivity edits on ONE live structure.  NO proofs here.
   Anchors:
     molli/chem/structure.py  Structure.rotate_dihedral  (substructure(self.yield_bfs(atoms[1], atoms[2])) is
                              recomputed by EVERY call from the connectivity the structure has at that moment)
     molli/chem/bond.py       Connectivity.yield_bfs(start, direction), connect, del_bond, del_atom
     molli/chem/geometry.py   CartesianGeometry.add_atom / translate / transform,  structure.py Structure.del_atom
   A state is (coordinates, bond list).  One step is a function of the CURRENT state and of the operation only:
   nothing is remembered from earlier steps.  In particular the atoms turned by rotate_dihedral((a1,a2,a3,a4), t)
   are the ones the breadth-first search behind a2 -> a3 reaches in the graph as it is NOW -- the other side of
   the same bond when the quadruple is given the other way round, new atoms after add_atom/connect, fewer after
   del_bond/del_atom.  Builds on Model/Rot.v (rotate_dihedral, translate, transform, sub_translate, sub_transform). *)
From Coq Require Import List ZArith QArith Qabs Bool Arith.
From Molli Require Import Common.Field3 Model.Rot.
Import ListNotations.

(* ---------------- the graph side (no numbers) ---------------- *)
Definition graph := list (nat * nat).                 (* undirected: (i, j) stands for the bond between atoms i and j *)
Definition touches (e : nat * nat) (i : nat) : bool := Nat.eqb (fst e) i || Nat.eqb (snd e) i.
Definition joins (e : nat * nat) (x y : nat) : bool :=
  (Nat.eqb (fst e) x && Nat.eqb (snd e) y) || (Nat.eqb (fst e) y && Nat.eqb (snd e) x).
Definition adjb (G : graph) (x y : nat) : bool := existsb (fun e => joins e x y) G.
Definition member (V : list bool) (i : nat) : bool := nth i V false.

(* One round of the search of yield_bfs(start = blk, direction): an atom joins the visited set when it is bonded
   to a visited atom; the start atom is `visited` from the beginning and is never yielded. *)
Definition grow (G : graph) (n blk : nat) (V : list bool) : list bool :=
  map (fun y => member V y ||
                (negb (Nat.eqb y blk) &&
                 existsb (fun e => (Nat.eqb (fst e) y && member V (snd e)) || (Nat.eqb (snd e) y && member V (fst e))) G))
      (seq 0 n).
Fixpoint list_eqb (a b : list bool) : bool :=
  match a, b with
  | [], [] => true
  | x :: a', y :: b' => Bool.eqb x y && list_eqb a' b'
  | _, _ => false
  end.
(* iterate to the fixed point; out of fuel = None (n rounds always suffice; the theorems are about Some) *)
Fixpoint far_iter (G : graph) (n blk fuel : nat) (V : list bool) : option (list bool) :=
  let V' := grow G n blk V in
  if list_eqb V' V then Some V
  else match fuel with O => None | Datatypes.S k => far_iter G n blk k V' end.
(* the atoms yielded by yield_bfs(i2, i3) in a structure of n atoms; None when i3 is not bonded to i2 (the
   implementation's assertion) *)
Definition far_side (G : graph) (n i2 i3 : nat) : option (nat -> bool) :=
  if adjb G i2 i3 && negb (Nat.eqb i2 i3) && Nat.ltb i3 n
  then match far_iter G n i2 n (map (fun y => Nat.eqb y i3) (seq 0 n)) with
       | Some V => Some (member V)
       | None => None
       end
  else None.

(* del_atom(i): bonds of the atom disappear, later atoms move up by one position *)
Definition renum (i k : nat) : nat := if Nat.ltb i k then Nat.pred k else k.
Definition graph_del_atom (i : nat) (G : graph) : graph :=
  map (fun e => (renum i (fst e), renum i (snd e))) (filter (fun e => negb (touches e i)) G).
Definition graph_del_bond (i j : nat) (G : graph) : graph := filter (fun e => negb (joins e i j)) G.
Fixpoint remove_row {A} (i : nat) (l : list A) : list A :=
  match l, i with
  | [], _ => []
  | _ :: r, O => r
  | x :: r, Datatypes.S k => x :: remove_row k r
  end.

(* ---------------- operations and steps ---------------- *)
Section Seq.
Context {F : Type} (o : Fops F).
Local Notation vec := (vec F).
Local Notation mat := (mat F).

Inductive sop :=
(* rotate_dihedral((i1,i2,i3,i4), atan2(st, ct));  n2 = |x3 - x2| and rho = |arctan2 arguments| in the CURRENT state *)
| SRotDih (i1 i2 i3 i4 : nat) (st ct n2 rho : F)
(* translate / transform of the whole structure (None) or through a substructure view made for this call (Some idx) *)
| STranslate (idx : option (list nat)) (v : vec)
| STransform (idx : option (list nat)) (M : mat)
(* connectivity edits *)
| SConnect (i j : nat)
| SDelBond (i j : nat)
| SAddAtom (p : vec)
| SDelAtom (i : nat).

Definition sstate := (list vec * graph)%type.

Definition sstep (s : sstate) (op : sop) : option sstate :=
  let '(X, G) := s in
  let n := length X in
  match op with
  | SRotDih i1 i2 i3 i4 st ct n2 rho =>
      match far_side G n i2 i3 with
      | Some sel => Some (rotate_dihedral o X i1 i2 i3 i4 sel st ct n2 rho, G)
      | None => None
      end
  | STranslate None v => Some (translate o v X, G)
  | STransform None M => Some (transform o M X, G)
  | STranslate (Some idx) v => Some (sub_translate o (in_idx idx) v X, G)
  | STransform (Some idx) M => Some (sub_transform o (in_idx idx) M X, G)
  | SConnect i j => if Nat.ltb i n && Nat.ltb j n && negb (Nat.eqb i j) then Some (X, (i, j) :: G) else None
  | SDelBond i j => if adjb G i j then Some (X, graph_del_bond i j G) else None
  | SAddAtom p => Some (X ++ [p], G)
  | SDelAtom i => if Nat.ltb i n then Some (remove_row i X, graph_del_atom i G) else None
  end.

(* the states a sequence of operations goes through (None as soon as one operation is not defined) *)
Fixpoint srun (s : sstate) (ops : list sop) : option (list sstate) :=
  match ops with
  | [] => Some []
  | op :: r =>
      match sstep s op with
      | Some s' => match srun s' r with Some t => Some (s' :: t) | None => None end
      | None => None
      end
  end.
End Seq.
Arguments sop F : clear implicits.
Arguments sstate F : clear implicits.

(* ======================= correspondence cases (Q instance) ======================= *)
Local Open Scope Q_scope.

(* One live object: coordinates X0 and bonds G0 at the start, then operations, each with the coordinates the
   implementation left after it.  The model step is applied to the state the PREVIOUS step left (the observed
   coordinates, the model's graph) and compared with what the implementation left after this step. *)
Inductive scase := SCase (X0 : list vecQ) (G0 : graph) (steps : list (sop Q * list vecQ)).

Definition witnesses_ok (X : list vecQ) (op : sop Q) : bool :=
  match op with
  | SRotDih i1 i2 i3 i4 st ct n2 rho =>
      let p k := nth k X (vzero QOps) in
      let '(g1, g2) := dihedral_args QOps (p i1) (p i2) (p i3) (p i4) n2 in
      sqrt_witness_ok n2 (norm2 QOps (vsub QOps (p i3) (p i2))) &&
      sqrt_witness_ok rho (g1 * g1 + g2 * g2) && Qeq_bool (st * st + ct * ct) 1
  | _ => true
  end.

Fixpoint scheck_from (X : list vecQ) (G : graph) (steps : list (sop Q * list vecQ)) : bool :=
  match steps with
  | [] => true
  | (op, X') :: r =>
      match sstep QOps (X, G) op with
      | Some (Xm, G') => witnesses_ok X op && rows_closeQ eps_abs Xm X' && scheck_from X' G' r
      | None => false
      end
  end.
Definition scheck (k : scase) : bool := let 'SCase X0 G0 steps := k in scheck_from X0 G0 steps.
