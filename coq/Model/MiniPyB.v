(* The statement forms in which the buffering layer of molli/storage/backends.py is written
   (CollectionBackendBase.put / get / flush / keys, UkvCollectionBackend._write / _read / update_keys), on top of
   Model/MiniPy.v: the backend object holds a write queue, a key set, buffer accounting, and -- once a session has begun --
   a UKVFile object, whose methods are the TRANSLATED ones (terms of MiniPy carried inside the call nodes).
   harness/ukv_translate.py produces Gen/BackendCode.v from the source on every run; Proofs/BackendCode.v proves that
   running those terms is Model/Backend.v's b_put / b_get / flush for every state.  Semantics only; no proofs here.

   Keys are the utf-8 bytes of the str keys (key.encode() / k.decode() are the identity here; len(key) is the byte
   length: exact for ASCII keys, which is what Model/Backend.v assumes as well).  Sets are lists without repetition
   (set_add / set_union of Model/Backend.v). *)
From Coq Require Import NArith ZArith List Bool String.
Import ListNotations.
From Molli Require Import Model.UKV Model.MiniPy Model.Backend.
Open Scope N_scope.

Inductive bexpr :=
| BELocal (x : string)                 (* key / value *)
| BEReadonly                           (* self._readonly *)
| BEQueued (k : bexpr)                 (* any(k == key for k, _ in self._write_queue) *)
| BEOverBudget                         (* self.used_memory > self._bufsize      (used_memory is self._usedmem) *)
| BEHasUkv                             (* hasattr(self, "_ukvfile") *)
| BENot (e : bexpr)
| BEAnd (a b : bexpr)                  (* a and b   (b is not evaluated when a is false) *)
| BEState (x : sess)                   (* self._state == "idle" / "reading" / "writing" *)
| BEStr (s : string) | BENone.         (* constants passed to the UKVFile: a mode, None *)

Inductive bstmt :=
| BSkip
| BSeq (a b : bstmt)
| BIf (c : bexpr) (a b : bstmt)
| BRaise (e : berr)
| BQueueAppend (k v : bexpr)           (* self._write_queue.append((k, v)) *)
| BKeysAdd (k : bexpr)                 (* self._keys.add(k) *)
| BUsedAddLens (k v : bexpr)           (* self._usedmem += len(k) + len(v) *)
| BUsedReset                           (* self._usedmem = 0 *)
| BCall (body : bstmt)                 (* self.<method>(...) as a statement; the arguments are the callee's parameter names, bound to the caller's
                                          variables of the same names (checked by the translator) *)
| BCallRet (body : bstmt)              (* return self.<method>(...) *)
| BWhilePop (kx vx : string) (body : bstmt)
    (* while self._write_queue:  kx, vx = self._write_queue.popleft();  body *)
| BTryReraise (body handler : bstmt)   (* try: body  except BaseException: handler; raise *)
| BUkvCall (p : stmt) (args : list (string * bexpr))     (* self._ukvfile.<method>(args)      p: the translated method *)
| BUkvCallRet (p : stmt) (args : list (string * bexpr))  (* return self._ukvfile.<method>(args) *)
| BKeysFromUkv (e : expr)              (* self._keys = {k.decode() for k in self._ukvfile.keys()}   e: what keys() returns *)
| BKeysAddQueued                       (* self._keys.update(k for k, _ in self._write_queue) *)
| BUkvNew (p : stmt) (args : list (string * bexpr))     (* self._ukvfile = UKVFile(...)      p: the translated __init__ *)
(* the session context managers reading() / writing(): generator functions split at their single `yield self` into the part
   that runs on entry and the part that runs on (normal) exit; try/finally around the yield becomes BTryReraise on the entry side
   (the finaliser runs only if the entry fails) and BTryFinally on the exit side *)
| BSetState (x : sess)                 (* self._state = "idle" / "reading" / "writing" *)
| BTryFinally (body fin : bstmt)       (* try: body  finally: fin *)
| BAcquire (w : bool)                  (* if not self._lock.acquire_{read,write}_lock(timeout=timeout): raise TimeoutError(...) *)
| BRelease (w : bool)                  (* self._lock.release_{read,write}_lock() *)
| BAcquireOdd (w : bool) (how : string).   (* the same acquisition with any OTHER argument list than (timeout=timeout): fasteners would take the
                                              value for another parameter (blocking, delay, ...); not understood, so it fails here *)

Record bstate := mkbs {
  inner : state;                       (* the UKVFile object and the file *)
  has_inner : bool;                    (* hasattr(self, "_ukvfile") *)
  bq : list (bytes * bytes);           (* _write_queue, oldest first *)
  bks : list bytes;                    (* _keys *)
  bused : Z; bbuf : Z; bro : bool;
  bsess : sess;                        (* _state *)
  bheld : option bool;                 (* the inter-process lock as this object holds it: None / Some false = read / Some true = write *)
  bloc : string -> option bytes
}.

Inductive boutcome := BONormal | BOReturn (v : option bytes) | BORaise (e : berr).

Definition sess_eqb (a b : sess) : bool :=
  match a, b with SIdle, SIdle | SReading, SReading | SWriting, SWriting => true | _, _ => false end.

Definition berr_of_exn (x : exn) : berr :=
  match x with XUnsupported => BUnsupported | XKey => BKey | XStruct => BStruct | _ => BAttr end.

Definition beval_bytes (s : bstate) (e : bexpr) : option bytes :=
  match e with BELocal x => bloc s x | _ => None end.

Fixpoint beval_bool (s : bstate) (e : bexpr) : option bool :=
  match e with
  | BEReadonly => Some (bro s)
  | BEQueued k => match beval_bytes s k with
                  | Some kb => Some (existsb (fun p => beq kb (fst p)) (bq s))
                  | None => None end
  | BEOverBudget => Some (Z.ltb (bbuf s) (bused s))
  | BEHasUkv => Some (has_inner s)
  | BENot e1 => match beval_bool s e1 with Some x => Some (negb x) | None => None end
  | BEAnd a b => match beval_bool s a with
                 | Some true => beval_bool s b
                 | Some false => Some false
                 | None => None end
  | BEState x => Some (sess_eqb (bsess s) x)
  | _ => None
  end.

(* an argument handed to a method of the inner UKVFile *)
Definition beval_val (s : bstate) (e : bexpr) : option val :=
  match e with
  | BELocal x => match bloc s x with Some b => Some (VBytes b) | None => None end
  | BEStr t => Some (VStr t)
  | BENone => Some VNone
  | _ => None
  end.

Definition set_bloc (s : bstate) (x : string) (v : bytes) : bstate :=
  mkbs (inner s) (has_inner s) (bq s) (bks s) (bused s) (bbuf s) (bro s) (bsess s) (bheld s) (fun y => if String.eqb x y then Some v else bloc s y).

Definition restore_loc (s : bstate) (l : string -> option bytes) : bstate :=
  mkbs (inner s) (has_inner s) (bq s) (bks s) (bused s) (bbuf s) (bro s) (bsess s) (bheld s) l.

(* bind the arguments of a call on the inner object: its parameters become locals of the inner MiniPy state *)
Fixpoint bind_inner (s : bstate) (st : state) (args : list (string * bexpr)) : option state :=
  match args with
  | [] => Some st
  | (p, e) :: rest => match beval_val s e with
                      | Some v => bind_inner s (set_local st p v) rest
                      | None => None end
  end.

Definition with_inner (s : bstate) (st : state) : bstate :=
  mkbs st (has_inner s) (bq s) (bks s) (bused s) (bbuf s) (bro s) (bsess s) (bheld s) (bloc s).

Fixpoint bwloop (eb : bstate -> bstate * boutcome) (kx vx : string) (n : nat) (s : bstate) : bstate * boutcome :=
  match n with
  | O => (s, BORaise BAttr)                      (* out of fuel: excluded by every theorem *)
  | S n' =>
      match bq s with
      | [] => (s, BONormal)
      | (k, v) :: q' =>
          let s1 := set_bloc (set_bloc (mkbs (inner s) (has_inner s) q' (bks s) (bused s) (bbuf s) (bro s) (bsess s) (bheld s) (bloc s)) kx k) vx v in
          let '(s2, o) := eb s1 in
          match o with
          | BONormal => bwloop eb kx vx n' s2
          | _ => (s2, o)
          end
      end
  end.

Fixpoint bexec (fuel : nat) (c : bstmt) (s : bstate) {struct c} : bstate * boutcome :=
  match c with
  | BSkip => (s, BONormal)
  | BSeq a b => let '(s1, o) := bexec fuel a s in match o with BONormal => bexec fuel b s1 | _ => (s1, o) end
  | BIf c0 a b => match beval_bool s c0 with
                  | Some true => bexec fuel a s
                  | Some false => bexec fuel b s
                  | None => (s, BORaise BAttr) end
  | BRaise e => (s, BORaise e)
  | BQueueAppend k v =>
      match beval_bytes s k, beval_bytes s v with
      | Some kb, Some vb => (mkbs (inner s) (has_inner s) (bq s ++ [(kb, vb)]) (bks s) (bused s) (bbuf s) (bro s) (bsess s) (bheld s) (bloc s), BONormal)
      | _, _ => (s, BORaise BAttr) end
  | BKeysAdd k =>
      match beval_bytes s k with
      | Some kb => (mkbs (inner s) (has_inner s) (bq s) (set_add (bks s) kb) (bused s) (bbuf s) (bro s) (bsess s) (bheld s) (bloc s), BONormal)
      | None => (s, BORaise BAttr) end
  | BUsedAddLens k v =>
      match beval_bytes s k, beval_bytes s v with
      | Some kb, Some vb => (mkbs (inner s) (has_inner s) (bq s) (bks s) (bused s + Z.of_N (len kb) + Z.of_N (len vb))%Z (bbuf s) (bro s) (bsess s) (bheld s) (bloc s), BONormal)
      | _, _ => (s, BORaise BAttr) end
  | BUsedReset => (mkbs (inner s) (has_inner s) (bq s) (bks s) 0%Z (bbuf s) (bro s) (bsess s) (bheld s) (bloc s), BONormal)
  | BCall body => let '(s1, o) := bexec fuel body s in                (* the callee has its own local variables: *)
                  (restore_loc s1 (bloc s), match o with BOReturn _ => BONormal | _ => o end)    (* the caller's come back *)
  | BCallRet body => let '(s1, o) := bexec fuel body s in
                     (restore_loc s1 (bloc s), match o with BONormal => BOReturn None | _ => o end)
  | BWhilePop kx vx body => bwloop (bexec fuel body) kx vx fuel s
  | BTryReraise body handler =>
      let '(s1, o) := bexec fuel body s in
      match o with
      | BORaise e => let '(s2, o2) := bexec fuel handler s1 in
                     match o2 with BONormal => (s2, BORaise e) | _ => (s2, o2) end
      | _ => (s1, o)
      end
  | BUkvCall p args =>
      if negb (has_inner s) then (s, BORaise BAttr) else
      match bind_inner s (inner s) args with
      | None => (s, BORaise BAttr)
      | Some st =>
          let '(st', o) := exec fuel p st in
          (with_inner s st', match o with ORaise x => BORaise (berr_of_exn x) | _ => BONormal end)
      end
  | BUkvCallRet p args =>
      if negb (has_inner s) then (s, BORaise BAttr) else
      match bind_inner s (inner s) args with
      | None => (s, BORaise BAttr)
      | Some st =>
          let '(st', o) := exec fuel p st in
          (with_inner s st',
           match o with
           | ORaise x => BORaise (berr_of_exn x)
           | OReturn (VBytes v) => BOReturn (Some v)
           | _ => BOReturn None
           end)
      end
  | BKeysFromUkv e =>
      if negb (has_inner s) then (s, BORaise BAttr) else
      match eval (inner s) e with
      | Val (VToc t) => (mkbs (inner s) (has_inner s) (bq s) (map fst t) (bused s) (bbuf s) (bro s) (bsess s) (bheld s) (bloc s), BONormal)
      | _ => (s, BORaise BAttr)
      end
  | BKeysAddQueued =>
      (mkbs (inner s) (has_inner s) (bq s) (set_union (bks s) (map fst (bq s))) (bused s) (bbuf s) (bro s) (bsess s) (bheld s) (bloc s), BONormal)
  | BUkvNew p args =>
      (* a new object: no attributes, no stream yet; the attribute _ukvfile is set only if the constructor returns *)
      match bind_inner s (mkst (file (inner s)) (mks 0 false true) empty_env empty_env) args with
      | None => (s, BORaise BAttr)
      | Some st =>
          let '(st', o) := exec fuel p st in
          match o with
          | ORaise x => (with_inner s (mkst (file st') (strm (inner s)) (attrs (inner s)) (locals (inner s))), BORaise (berr_of_exn x))
          | _ => (mkbs st' true (bq s) (bks s) (bused s) (bbuf s) (bro s) (bsess s) (bheld s) (bloc s), BONormal)
          end
      end
  | BSetState x => (mkbs (inner s) (has_inner s) (bq s) (bks s) (bused s) (bbuf s) (bro s) x (bheld s) (bloc s), BONormal)
  | BTryFinally body fin =>
      let '(s1, o) := bexec fuel body s in
      let '(s2, o2) := bexec fuel fin s1 in
      (s2, match o2 with BONormal => o | _ => o2 end)        (* an exception (or return) of the finaliser replaces the body's outcome *)
  | BAcquire w =>
      match bheld s with
      | None => (mkbs (inner s) (has_inner s) (bq s) (bks s) (bused s) (bbuf s) (bro s) (bsess s) (Some w) (bloc s), BONormal)
      | Some _ => (s, BORaise BIO)          (* a second session of the same object: the acquisition times out (TimeoutError is an OSError) *)
      end
  | BAcquireOdd _ _ => (s, BORaise BAttr)
  | BRelease w =>
      match bheld s with
      | Some w' => if Bool.eqb w w' then (mkbs (inner s) (has_inner s) (bq s) (bks s) (bused s) (bbuf s) (bro s) (bsess s) None (bloc s), BONormal)
                   else (s, BORaise BAttr)
      | None => (s, BORaise BAttr)          (* releasing a lock that is not held raises *)
      end
  end.
