(* C18 -- "jobmap computes each item once, reuses only valid results, resumes cleanly".
   Executable model of molli/pipeline/job.py `jobmap` (to_be_done, per-item cache test, dispatch, finalisation; single
   and vectorised jobs) over
     - the source keys (with the number of sub-items a vectorised job expands each into),
     - the destination map,
     - the cache directory  <cache>/output/<name>.out : name -> corrupt | (input hash, exit code, return file present, ...),
     - an execution counter per name,
   with the outcome of the n-th execution of an item given by an oracle (Section variable); for the correspondence runs
   the oracle is computed from per-execution COMMAND scripts (run_cmds: several commands, named or not, a failure at any
   position, the return file written before / by / after the failing command).
   The input hash is modelled by the job argument it was computed from: within one cache file name (= one source item)
   the JobInput is a function of the arguments only, and sha3-512 is taken to be collision free on the inputs used.
   No proofs in this file (Proofs/Jobmap.v). *)
From Coq Require Import List Bool NArith ZArith String Ascii.
Import ListNotations.
From Molli Require Import Model.Job.
Local Open Scope string_scope.

(* how a command that does not succeed ends: it exits with a positive status, or it is KILLED BY A SIGNAL (OOM killer,
   scheduler, segfault, kill): subprocess reports the negative signal number, and run_local records that as the exit
   code of the job.  Either way the recorded code is not 0. *)
Inductive ecode := Exit (k : positive) | Signal (s : positive).
Definition ecode_Z (e : ecode) : Z := match e with Exit k => Zpos k | Signal s => Zneg s end.

(* scripted outcome of one execution of one (sub-)item *)
Inductive okind :=
| OSucceed                  (* commands succeed, return file written          -> exit code 0 *)
| OFail (code : ecode)      (* a command fails / is killed before the return file exists -> exit code `code` *)
| OFailFile (code : ecode)  (* the return file is written, then a command fails / is killed -> exit code `code` *)
| OOmit.                    (* commands succeed but the return file is missing -> exit code 1 (run_local) *)

(* a JobOutput as jobmap sees it *)
Record output := mk_out {
  o_arg : string;       (* stands for input_hash: the job argument the input was prepared with *)
  o_code : Z;           (* JobOutput.exitcode *)
  o_file : bool;        (* the requested return file is among JobOutput.files *)
  o_attempt : N }.      (* which execution of the item produced it (carried in the payload) *)

Inductive centry := CCorrupt | COut (o : output).

(* a processed result: for every (sub-)item the argument and the attempt its output came from *)
Definition value := list (string * N).

Record jstate := mk_js {
  js_src : list (string * nat);          (* source keys; for a vectorised job: number of conformers *)
  js_dst : list (string * value);
  js_cache : list (string * centry);
  js_count : list (string * N) }.

Record jparams := mk_jp {
  jp_arg : string;       (* kwargs of the job: change the JobInput, hence its hash *)
  jp_strict : bool;      (* strict_hash *)
  jp_vec : bool }.       (* vectorised job (Job.vectorize): one sub-item per conformer *)

Definition digit (i : nat) : string :=
  match i with 0 => "0" | 1 => "1" | 2 => "2" | 3 => "3" | 4 => "4" | 5 => "5" | 6 => "6" | 7 => "7" | 8 => "8" | 9 => "9"
  | _ => "?" end%nat.

(* cache file names of one source item: <key>.out, or <key>.<i>.out for i < L *)
Definition names (p : jparams) (kl : string * nat) : list string :=
  if jp_vec p then map (fun i => fst kl ++ "." ++ digit i) (seq 0 (snd kl)) else [fst kl].

Definition cnt (st : jstate) (nm : string) : N := match dget nm (js_count st) with Some n => n | None => 0%N end.

(* (not strict_hash or _out.input_hash == _inp.hash) and _out.exitcode == 0, for an output file that exists and loads *)
Definition valid (p : jparams) (e : option centry) : bool :=
  match e with
  | Some (COut o) => (negb (jp_strict p) || String.eqb (o_arg o) (jp_arg p)) && Z.eqb (o_code o) 0
  | _ => false
  end.

Definition out_of (arg : string) (k : okind) (n : N) : output :=
  match k with
  | OSucceed => mk_out arg 0 true n
  | OFail c => mk_out arg (ecode_Z c) false n
  | OFailFile c => mk_out arg (ecode_Z c) true n
  | OOmit => mk_out arg 1 false n
  end.

Definition mem (x : string) (l : list string) : bool := existsb (String.eqb x) l.

(* ---- the COMMANDS of one execution.  A JobInput carries a list of commands (command, name or None); run_local runs
   them in order and stops at the first one that fails; only a NAMED command's stdout/stderr are recorded.  What one
   command of one execution does, as far as jobmap can tell: does it write the return file, and its exit code. *)
Record cstep := mk_cs {
  cs_named : bool;               (* named (recorded) or None: makes no difference to the outcome (run_cmds ignores it) *)
  cs_write : bool;               (* writes the return file (before it exits / is killed) *)
  cs_code : option ecode;        (* None: exit code 0; Some c: the command fails with exit status / dies from signal c *)
  cs_crash : bool }.             (* (only for a command that does not succeed) not the command but the RUNNER process
                                    ends here -- it is killed, or the command's program does not exist and
                                    subprocess.run raises inside _molli_run --: no output file is written at all *)

(* the outcome of an execution from its commands: they run in order up to and INCLUDING the first failing one (named
   or not, last or not), whose exit code is the recorded one; the return file exists iff an executed command wrote it;
   all commands succeeded: exit code 0 iff the return file exists.  `file`: the return file exists already. *)
Fixpoint run_cmds (file : bool) (l : list cstep) : okind :=
  match l with
  | [] => if file then OSucceed else OOmit
  | c :: r =>
      let file' := file || cs_write c in
      match cs_code c with
      | None => run_cmds file' r
      | Some k => if file' then OFailFile k else OFail k
      end
  end.

(* does the runner die during this execution?  (at its first command that does not succeed) *)
Fixpoint crash_cmds (l : list cstep) : bool :=
  match l with
  | [] => false
  | c :: r => match cs_code c with None => crash_cmds r | Some _ => cs_crash c end
  end.

(* outcome oracle given by per-execution command scripts *)
Definition cmd_outcome (script : string -> N -> list cstep) (nm : string) (n : N) : okind := run_cmds false (script nm n).

(* the same commands as an oracle for the run_local model of Model/Job.v (C17): command type = cstep, the return file
   is `rf`, a writing command stores `payload` in it *)
Definition cs_exit (c : cstep) : Z := match cs_code c with Some k => ecode_Z k | None => 0%Z end.
Definition step_exec (rf payload : string) (c : cstep) (e : env) (f : fs) : cmd_result :=
  mk_res (cs_exit c) "" "" (if cs_write c then dset rf payload f else f) [].

Section Jobmap.
  Variable outcome : string -> N -> okind.     (* what the n-th execution of item `name` does *)

  (* one _molli_run of item nm: the output file is (over)written, the counter advances *)
  Definition fresh (p : jparams) (st : jstate) (nm : string) : output :=
    out_of (jp_arg p) (outcome nm (cnt st nm)) (cnt st nm).
  Definition exec_one (p : jparams) (st : jstate) (nm : string) : jstate :=
    mk_js (js_src st) (js_dst st) (dset nm (COut (fresh p st nm)) (js_cache st)) (dset nm (cnt st nm + 1)%N (js_count st)).

  (* to_be_done = all_keys - skip_keys *)
  Definition todo (st : jstate) : list (string * nat) :=
    filter (fun kl => negb (dhas (fst kl) (js_dst st))) (js_src st).
  (* jobs_to_run: the sub-items of the work items that have no valid cached output *)
  Definition runlist (p : jparams) (st : jstate) : list string :=
    flat_map (fun kl => filter (fun nm => negb (valid p (dget nm (js_cache st)))) (names p kl)) (todo st).

  (* finalisation of one work item: every output loads, reports success, and post finds the return file *)
  Definition good (e : option centry) : option output :=
    match e with
    | Some (COut o) => if Z.eqb (o_code o) 0 && o_file o then Some o else None
    | _ => None
    end.
  Fixpoint all_good (cache : list (string * centry)) (nms : list string) : option value :=
    match nms with
    | [] => Some []
    | nm :: r => match good (dget nm cache), all_good cache r with
                 | Some o, Some v => Some ((o_arg o, o_attempt o) :: v)
                 | _, _ => None
                 end
    end.
  Definition finalise (p : jparams) (cache : list (string * centry)) (d : list (string * value)) (kl : string * nat)
    : list (string * value) :=
    match all_good cache (names p kl) with Some v => dset (fst kl) v d | None => d end.

  Definition jobmap (p : jparams) (st : jstate) : jstate :=
    let td := todo st in
    let st1 := fold_left (exec_one p) (runlist p st) st in
    mk_js (js_src st1) (fold_left (finalise p (js_cache st1)) td (js_dst st1)) (js_cache st1) (js_count st1).

  (* histories: runs interleaved with what the outside world does to the cache and the destination *)
  Inductive jevent :=
  | JRun (p : jparams)
  | JCorrupt (nm : string)                 (* the cached output file is damaged *)
  | JPut (k : string) (v : value)          (* somebody stores a result in the destination (any key) *)
  | JNewDst.                               (* the next runs go to a new, empty destination (same cache directory) *)

  Definition jstep (st : jstate) (ev : jevent) : jstate :=
    match ev with
    | JRun p => jobmap p st
    | JCorrupt nm => mk_js (js_src st) (js_dst st) (dset nm CCorrupt (js_cache st)) (js_count st)
    | JPut k v => mk_js (js_src st) (dset k v (js_dst st)) (js_cache st) (js_count st)
    | JNewDst => mk_js (js_src st) [] (js_cache st) (js_count st)
    end.

  (* states after every event *)
  Fixpoint jtrace (st : jstate) (evs : list jevent) : list jstate :=
    match evs with [] => [] | ev :: r => let st1 := jstep st ev in st1 :: jtrace st1 r end.
End Jobmap.


(* ------------------------------------------------------------------ round 3: the handle's view, a runner that dies *)
(* (1) `Collection.keys()` returns the key set the HANDLE holds in memory; it is refreshed from the file only on
   entering reading()/writing().  jobmap computes `skip_keys` from that view: todo_seen is the work list for a given
   view; jobmap takes the view inside `with destination.reading()`, i.e. the keys of the file (jobmapX below; a
   fresh handle, or one whose file another handle / process wrote to, holds a stale view -- Proofs: stale_view_refuted).
   (2) The runner process of an execution may die before it writes its output file (it is killed; the program of a
   command does not exist and subprocess.run raises): `crashes nm n`.  The execution took place (counter), but no
   output is written.  jobmap removes the old output it judged unsuitable BEFORE it dispatches the item (repair
   df05caa), so the cache has no entry for the item afterwards.  before_repair = true is the code before that repair:
   the old output stays, and the finalisation loads it without looking at its input hash
   (Proofs: stale_output_stored_refuted_before_repair). *)
Definition drm {V} (k : string) (d : list (string * V)) : list (string * V) :=
  filter (fun kv => negb (String.eqb k (fst kv))) d.

Section JobmapX.
  Variable outcome : string -> N -> okind.
  Variable crashes : string -> N -> bool.
  Variable before_repair : bool.

  Definition exec_oneX (p : jparams) (st : jstate) (nm : string) : jstate :=
    if crashes nm (cnt st nm)
    then mk_js (js_src st) (js_dst st) (if before_repair then js_cache st else drm nm (js_cache st))
               (dset nm (cnt st nm + 1)%N (js_count st))
    else exec_one outcome p st nm.

  Definition todo_seen (seen : list string) (st : jstate) : list (string * nat) :=
    filter (fun kl => negb (mem (fst kl) seen)) (js_src st).
  Definition runlist_seen (p : jparams) (seen : list string) (st : jstate) : list string :=
    flat_map (fun kl => filter (fun nm => negb (valid p (dget nm (js_cache st)))) (names p kl)) (todo_seen seen st).

  Definition jobmapX_seen (p : jparams) (seen : list string) (st : jstate) : jstate :=
    let td := todo_seen seen st in
    let st1 := fold_left (exec_oneX p) (runlist_seen p seen st) st in
    mk_js (js_src st1) (fold_left (finalise p (js_cache st1)) td (js_dst st1)) (js_cache st1) (js_count st1).

  (* with destination.reading(): skip_keys = destination.keys() *)
  Definition jobmapX (p : jparams) (st : jstate) : jstate := jobmapX_seen p (map fst (js_dst st)) st.

  Definition jstepX (st : jstate) (ev : jevent) : jstate :=
    match ev with JRun p => jobmapX p st | _ => jstep outcome st ev end.
  Fixpoint jtraceX (st : jstate) (evs : list jevent) : list jstate :=
    match evs with [] => [] | ev :: r => let st1 := jstepX st ev in st1 :: jtraceX st1 r end.
End JobmapX.

(* new entries of the destination come from outputs of THIS input (the job argument stands for the input hash) *)
Definition value_of_arg (a : string) (v : value) : bool := forallb (fun x => String.eqb (fst x) a) v.

(* ------------------------------------------------------------------ correspondence *)
(* scripted outcome streams: name -> the command scripts of attempt 0, 1, ...; beyond the list: success *)
Definition plan_outcome (plans : list (string * list (list cstep))) (nm : string) (n : N) : okind :=
  match dget nm plans with
  | Some l => match nth_error l (N.to_nat n) with Some cmds => run_cmds false cmds | None => OSucceed end
  | None => OSucceed
  end.

Definition plan_crashes (plans : list (string * list (list cstep))) (nm : string) (n : N) : bool :=
  match dget nm plans with
  | Some l => match nth_error l (N.to_nat n) with Some cmds => crash_cmds cmds | None => false end
  | None => false
  end.

Definition out_eqb (a b : output) : bool :=
  String.eqb (o_arg a) (o_arg b) && Z.eqb (o_code a) (o_code b) && Bool.eqb (o_file a) (o_file b) && N.eqb (o_attempt a) (o_attempt b).
Definition centry_eqb (a b : centry) : bool :=
  match a, b with CCorrupt, CCorrupt => true | COut x, COut y => out_eqb x y | _, _ => false end.
Definition value_eqb (a b : value) : bool :=
  list_eqb (fun x y => String.eqb (fst x) (fst y) && N.eqb (snd x) (snd y)) a b.

(* equality of dicts as maps (the order in which jobmap walks a set of keys is not observable) *)
Definition map_sub {V} (e : V -> V -> bool) (a b : list (string * V)) : bool :=
  forallb (fun kv => match dget (fst kv) b with Some w => e (snd kv) w | None => false end) a.
Definition map_eqb {V} (e : V -> V -> bool) (a b : list (string * V)) : bool := map_sub e a b && map_sub e b a.
(* counters: an absent counter file = 0 *)
Definition count_sub (a b : list (string * N)) : bool :=
  forallb (fun kv => N.eqb (snd kv) (match dget (fst kv) b with Some n => n | None => 0%N end)) a.

Record jobs := mk_jobs {           (* what the harness saw after one event *)
  jo_dst : list (string * value);
  jo_cache : list (string * centry);
  jo_count : list (string * N) }.

Definition jobs_eqb (st : jstate) (o : jobs) : bool :=
  map_eqb value_eqb (js_dst st) (jo_dst o) && map_eqb centry_eqb (js_cache st) (jo_cache o)
  && count_sub (js_count st) (jo_count o) && count_sub (jo_count o) (js_count st).

Record jcase := mk_jcase {
  jc_plans : list (string * list (list cstep));
  jc_init : jstate;
  jc_events : list jevent;
  jc_obs : list jobs }.

Fixpoint all2 {A B} (e : A -> B -> bool) (a : list A) (b : list B) : bool :=
  match a, b with [], [] => true | x :: a', y :: b' => e x y && all2 e a' b' | _, _ => false end.

Definition check_jcase (c : jcase) : bool :=
  all2 jobs_eqb (jtraceX (plan_outcome (jc_plans c)) (plan_crashes (jc_plans c)) false (jc_init c) (jc_events c)) (jc_obs c).
