(* C15: substructure matching.  `node_match` / `edge_match` mirror Connectivity._node_match /
   _edge_match of molli/chem/bond.py (and are proved equal to the code's behaviour on the tabulated grid
   of Gen/MatchPreds.v on every run); `enum` is the REFERENCE enumerator of induced embeddings that
   molli's match()/get_substr_indices() -- which delegate the search to networkx VF2 -- are compared with.
   NO proofs in this file. *)
From Coq Require Import Arith List Bool NArith.
From Molli Require Import Model.Graph.
Import ListNotations.
Open Scope nat_scope.

(* the attributes the predicates look at; enums by their integer value *)
Record matom := mk_matom { ma_el : N; ma_iso : option N; ma_stereo : N; ma_atype : N }.
Record mbond := mk_mbond { mb_a1 : nat; mb_a2 : nat; mb_btype : N; mb_stereo : N; mb_label : option N }.
Record mgraph := mk_mgraph { mg_atoms : list matom; mg_bonds : list mbond }.

Definition eqb_optN (a b : option N) : bool :=
  match a, b with Some x, Some y => N.eqb x y | None, None => true | _, _ => false end.

(* _node_match(a1 = atom of the searched molecule, a2 = atom of the pattern) *)
Definition node_match (a1 a2 : matom) : bool :=
  if negb (N.eqb (ma_el a2) 0) && negb (N.eqb (ma_el a1) (ma_el a2)) then false
  else if (match ma_iso a2 with None => false | Some _ => true end) && negb (eqb_optN (ma_iso a1) (ma_iso a2)) then false
  else if negb (N.eqb (ma_stereo a2) 0) && negb (N.eqb (ma_stereo a1) (ma_stereo a2)) then false
  else if negb (N.eqb (ma_atype a1) 0) && negb (N.eqb (ma_atype a2) (ma_atype a2)) then false   (* sic: a2 != a2 *)
  else true.

(* _edge_match(e1 = bond of the searched molecule, e2 = bond of the pattern); None = NotImplementedError *)
Definition edge_match (e1 e2 : mbond) : option bool :=
  let bt1 := mb_btype e1 in let bt2 := mb_btype e2 in
  let rest :=
    if negb (N.eqb (mb_stereo e2) 0) && negb (N.eqb (mb_stereo e1) (mb_stereo e2)) then false
    else if (match mb_label e2 with None => false | Some _ => true end) && negb (eqb_optN (mb_label e1) (mb_label e2)) then false
    else true in
  match bt2 with
  | 0%N => Some rest                                                 (* Unknown: no constraint *)
  | 1%N | 2%N | 3%N => if N.ltb bt1 bt2 then Some false else Some rest   (* pattern order is a lower bound *)
  | 20%N | 21%N => if negb (N.eqb bt1 bt2) then Some false else Some rest (* Aromatic | Amide: exact *)
  | 11%N => Some false                                               (* NotConnected *)
  | _ => None                                                        (* Dummy | _ : raise NotImplementedError *)
  end.
Definition edge_ok (e1 e2 : mbond) : bool := match edge_match e1 e2 with Some true => true | _ => false end.

Definition mjoins (b : mbond) (x y : nat) : bool := joins (mb_a1 b, mb_a2 b) x y.
Definition has_bond (G : mgraph) (x y : nat) : bool := existsb (fun b => mjoins b x y) (mg_bonds G).

Definition dflt_atom : matom := mk_matom 0 None 0 0.
Definition atom_at (G : mgraph) (i : nat) : matom := nth i (mg_atoms G) dflt_atom.

(* pattern atoms i, j are sent to hi, hj: bonded iff bonded, and the bond attributes agree *)
Definition pair_ok (H P : mgraph) (i j hi hj : nat) : bool :=
  Bool.eqb (has_bond P i j) (has_bond H hi hj) &&
  forallb (fun e2 => negb (mjoins e2 i j) ||
                     forallb (fun e1 => negb (mjoins e1 hi hj) || edge_ok e1 e2) (mg_bonds H)) (mg_bonds P).

(* may pattern atom k be sent to h, given the images f of pattern atoms 0..k-1 ? *)
Definition ok_new (H P : mgraph) (f : list nat) (k h : nat) : bool :=
  negb (mem h f) && node_match (atom_at H h) (atom_at P k) &&
  forallb (fun i => pair_ok H P i k (nth i f 0) h) (seq 0 k).

(* all embeddings of the pattern atoms 0..k-1, as the list of their images *)
Fixpoint enum_k (H P : mgraph) (k : nat) : list (list nat) :=
  match k with
  | O => [[]]
  | S k' => flat_map (fun f => map (fun h => f ++ [h]) (filter (ok_new H P f k') (seq 0 (length (mg_atoms H)))))
                     (enum_k H P k')
  end.
Definition enum (H P : mgraph) : list (list nat) := enum_k H P (length (mg_atoms P)).

(* ================================================================== grids for the tabulated predicates *)
Definition atom_grid (els : list N) (isos : list (option N)) (sts : list N) (ats : list N) : list matom :=
  flat_map (fun e => flat_map (fun i => flat_map (fun s => map (fun t => mk_matom e i s t) ats) sts) isos) els.
Definition bond_grid (bts : list N) (sts : list N) (lbs : list (option N)) : list mbond :=
  flat_map (fun b => flat_map (fun s => map (fun l => mk_mbond 0 1 b s l) lbs) sts) bts.
Definition code_of_edge (r : option bool) : N := match r with Some false => 0 | Some true => 1 | None => 2 end%N.
Definition node_table (g : list matom) : list bool :=
  flat_map (fun a1 => map (fun a2 => node_match a1 a2) g) g.
(* pattern bond types for which _edge_match is implemented; for the others it raises NotImplementedError
   (recorded finding C15:match:raises-NotImplementedError) and the model leaves the answer unspecified *)
Definition supported_bt (bt : N) : bool := existsb (N.eqb bt) [0; 1; 2; 3; 20; 21; 11]%N.
Definition supported_pattern (P : mgraph) : bool := forallb (fun e => supported_bt (mb_btype e)) (mg_bonds P).
Definition edge_pairs (g : list mbond) : list (mbond * mbond) :=
  flat_map (fun e1 => map (fun e2 => (e1, e2)) g) g.
(* model and observed table agree wherever the pattern bond type is supported *)
Fixpoint edge_agree (ps : list (mbond * mbond)) (obs : list N) : bool :=
  match ps, obs with
  | [], [] => true
  | (e1, e2) :: ps', o :: obs' =>
      (negb (supported_bt (mb_btype e2)) || N.eqb (code_of_edge (edge_match e1 e2)) o) && edge_agree ps' obs'
  | _, _ => false
  end.

(* ================================================================== correspondence cases *)
Fixpoint incl_b (l1 l2 : list (list nat)) : bool :=
  match l1 with
  | [] => true
  | x :: r => existsb (eqb_list Nat.eqb x) l2 && incl_b r l2
  end.
Fixpoint nodup_b (l : list (list nat)) : bool :=
  match l with
  | [] => true
  | x :: r => negb (existsb (eqb_list Nat.eqb x) r) && nodup_b r
  end.

(* host, pattern, and list(host.get_substr_indices(pattern)) *)
Record mcase := mk_mcase { mc_host : mgraph; mc_pat : mgraph; mc_obs : list (list nat) }.
Definition check_mcase (c : mcase) : bool :=
  let e := enum (mc_host c) (mc_pat c) in
  nodup_b (mc_obs c) && (length e =? length (mc_obs c)) && incl_b e (mc_obs c) && incl_b (mc_obs c) e.
