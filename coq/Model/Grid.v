(* C19 (grid descriptors) -- executable model of molli/descriptor/gridbased.py over the rationals.
   Every float is a dyadic rational, so theorems over Q (Proofs/Grid.v) cover every input the code can see;
   IEEE rounding inside numpy / scipy / the C++ kernel is NOT modelled: the correspondence compares within a stated
   tolerance and, as the property says, leaves out grid points within a rounding band of a sphere surface / cut-off.
   No proofs in this file. *)
From Coq Require Import List ZArith QArith Qabs Qround Bool.
From Molli Require Import Common.Field3.
Import ListNotations.

Notation qv := (vec Q).
Definition qvz : qv := (0, 0, 0).

(* ------------------------------------------------------------------ rectangular_grid *)
(* nx = int((r - l) // spacing) + 1 *)
Definition axis_n (l r s : Q) : Z := (Qfloor ((r - l) / s) + 1)%Z.
(* ox = (r - l - (nx - 1) * spacing) / 2 *)
Definition axis_off (l r s : Q) : Q := (r - l - inject_Z (axis_n l r s - 1) * s) / 2.

(* np.linspace(a, b, n, endpoint=True): a + i * ((b - a) / (n - 1)), i = 0 .. n-1;  [a] when n = 1 *)
Fixpoint lin (a step : Q) (k : Z) (n : nat) : list Q :=
  match n with
  | O => []
  | S m => Qred (a + inject_Z k * step) :: lin a step (k + 1) m
  end.
Definition linspace (a b : Q) (n : Z) : list Q :=
  if (n =? 1)%Z then [a] else lin a (Qred ((b - a) / inject_Z (n - 1))) 0 (Z.to_nat n).

(* one axis; None = numpy raises ValueError (negative number of samples) *)
Definition axis (l r s : Q) : option (list Q) :=
  let n := axis_n l r s in
  if (n <? 0)%Z then None
  else let o := axis_off l r s in Some (linspace (l + o) (r - o) n).

(* np.meshgrid(xs, ys, zs) (default indexing='xy': arrays of shape (ny, nx, nz)), ravel in C order, column_stack:
   y is the slowest index, then x, z is the fastest *)
Definition mesh (xs ys zs : list Q) : list qv :=
  flat_map (fun y => flat_map (fun x => map (fun z => (x, y, z)) zs) xs) ys.

Definition rectangular_grid (r1 r2 : qv) (pad s : Q) : option (list qv) :=
  let '(a1, a2, a3) := r1 in let '(b1, b2, b3) := r2 in
  match axis (a1 - pad) (b1 + pad) s, axis (a2 - pad) (b2 + pad) s, axis (a3 - pad) (b3 + pad) s with
  | Some xs, Some ys, Some zs => Some (mesh xs ys zs)
  | _, _, _ => None
  end.

(* ------------------------------------------------------------------ distances *)
(* squared distance; the descriptors only ever compare squared distances with squared radii / cut-offs
   (Proofs/Dist.v sqrt_le_cut: for c >= 0, sqrt x <= c <-> x <= c*c) *)
Definition d2 (a g : qv) : Q := dist2 QOps a g.

(* ------------------------------------------------------------------ nearest_atom_index *)
(* first index of a minimal squared distance, with that distance *)
Fixpoint argmin (g : qv) (atoms : list qv) : option (nat * Q) :=
  match atoms with
  | [] => None
  | a :: r => match argmin g r with
              | None => Some (O, d2 a g)
              | Some (i, d) => if Qle_bool (d2 a g) d then Some (O, d2 a g) else Some (S i, d)
              end
  end.

(* index of a closest atom when it is within the cut-off, else -1 *)
Definition nearest (atoms : list qv) (cut : Q) (g : qv) : Z :=
  match argmin g atoms with
  | Some (i, d) => if Qle_bool d (cut * cut) then Z.of_nat i else (-1)%Z
  | None => (-1)%Z
  end.
(* (n_conformers, n_gridpoints) for an ensemble *)
Definition nearest_atom_index (ens : list (list qv)) (cut : Q) (grid : list qv) : list (list Z) :=
  map (fun atoms => map (nearest atoms cut) grid) ens.

(* Is r an acceptable answer?  KD-tree ties may be broken either way, and a distance within the relative band
   of the cut-off may fall on either side (band = 0: exact, except that r = -1 is accepted AT the cut-off, where
   scipy's distance_upper_bound is exclusive). *)
Definition nearest_okb (band : Q) (atoms : list qv) (cut : Q) (g : qv) (r : Z) : bool :=
  if (r =? -1)%Z then forallb (fun a => Qle_bool (cut * cut * (1 - band)) (d2 a g)) atoms
  else (0 <=? r)%Z && (r <? Z.of_nat (length atoms))%Z &&
       (let di := d2 (nth (Z.to_nat r) atoms qvz) g in
        Qle_bool di (cut * cut * (1 + band)) && forallb (fun a => Qle_bool di (d2 a g * (1 + band))) atoms).

(* ------------------------------------------------------------------ prune *)
Fixpoint filter_idx_from {A} (p : A -> bool) (i : Z) (l : list A) : list Z :=
  match l with
  | [] => []
  | x :: r => if p x then i :: filter_idx_from p (i + 1) r else filter_idx_from p (i + 1) r
  end.
(* np.where(dd <= max_dist)[0] for a query `q` answering "a neighbour was reported for this point" *)
Definition prune_with (q : qv -> bool) (grid : list qv) : list Z := filter_idx_from q 0 grid.
Definition within (atoms : list qv) (t : Q) (g : qv) : bool := existsb (fun a => Qle_bool (d2 a g) t) atoms.
(* eps = 0: the exact query *)
Definition prune_exact (atoms : list qv) (cut : Q) (grid : list qv) : list Z := prune_with (within atoms (cut * cut)) grid.

Fixpoint increasing_from (lo : Z) (l : list Z) : bool :=
  match l with [] => true | x :: r => (lo <=? x)%Z && increasing_from (x + 1) r end.
Fixpoint memZ (x : Z) (l : list Z) : bool := match l with [] => false | y :: r => (x =? y)%Z || memZ x r end.
(* kept: strictly increasing indices into the grid; no kept point farther than the cut-off (1+band), no dropped
   point closer than cut-off/(1+eps) (1-band) *)
Definition prune_okb (band : Q) (atoms : list qv) (cut eps : Q) (grid : list qv) (kept : list Z) : bool :=
  increasing_from 0 kept && forallb (fun i => (i <? Z.of_nat (length grid))%Z) kept &&
  forallb (fun ig => let '(i, g) := ig in
             if memZ i kept then within atoms (cut * cut * (1 + band)) g
             else forallb (fun a => Qle_bool (cut * cut * (1 - band)) (d2 a g * ((1 + eps) * (1 + eps)))) atoms)
          (combine (map Z.of_nat (seq 0 (length grid))) grid).

(* ------------------------------------------------------------------ indicator fields *)
(* the point lies in the union of the spheres (atom i, radius i) *)
Definition inside (atoms : list qv) (radii : list Q) (g : qv) : bool :=
  existsb (fun ar => Qle_bool (d2 (fst ar) g) (snd ar * snd ar)) (combine atoms radii).

Definition qsum (l : list Q) : Q := fold_right (fun x s => Qred (x + s)) 0 l.
Fixpoint zipmul (w x : list Q) : list Q :=
  match w, x with a :: w', b :: x' => Qred (a * b) :: zipmul w' x' | _, _ => [] end.
(* np.average(xs, weights=w) *)
Definition average (w : option (list Q)) (xs : list Q) : Q :=
  match w with
  | None => qsum xs / inject_Z (Z.of_nat (length xs))
  | Some ws => qsum (zipmul ws xs) / qsum ws
  end.

Definition b2q (b : bool) : Q := if b then 1 else 0.
(* aso[g] = average over conformers of [g lies in the van der Waals union of the conformer] *)
Definition aso (ens : list (list qv)) (radii : list Q) (w : option (list Q)) (grid : list qv) : list Q :=
  map (fun g => average w (map (fun atoms => b2q (inside atoms radii g)) ens)) grid.

(* atomic_indicator_field: value of the named nearest atom where the point is inside the union, else 0 *)
Definition field_value (atoms : list qv) (radii values : list Q) (idx : Z) (g : qv) : Q :=
  if inside atoms radii g && (0 <=? idx)%Z then nth (Z.to_nat idx) values 0 else 0.
Fixpoint field_rows (ens : list (list qv)) (radii : list Q) (values : list (list Q)) (idx : list (list Z)) (k : nat) (g : qv) : list Q :=
  match ens, values, idx with
  | atoms :: ens', v :: values', ix :: idx' => field_value atoms radii v (nth k ix (-1)%Z) g :: field_rows ens' radii values' idx' k g
  | _, _, _ => []
  end.
Fixpoint aif_from (ens : list (list qv)) (radii : list Q) (values : list (list Q)) (idx : list (list Z)) (w : option (list Q))
         (k : nat) (grid : list qv) : list Q :=
  match grid with
  | [] => []
  | g :: r => average w (field_rows ens radii values idx k g) :: aif_from ens radii values idx w (S k) r
  end.
Definition aif ens radii values idx w grid := aif_from ens radii values idx w 0 grid.
(* aeif = aif with values = partial charges, radii = van der Waals radii, idx = nearest_atom_index(cut = max radius) *)

(* a point is left out of a comparison when some squared distance is within `band` of the squared radius *)
Definition near_surface (band : Q) (ens : list (list qv)) (radii : list Q) (g : qv) : bool :=
  existsb (fun atoms => existsb (fun ar => Qle_bool (Qabs (d2 (fst ar) g - snd ar * snd ar)) band) (combine atoms radii)) ens.

(* ------------------------------------------------------------------ block-wise evaluation of a large grid *)
(* Every descriptor is defined point by point, so a grid may be walked in consecutive blocks of `step` points -- the
   LAST block holding the remaining (length mod step) points -- and the pieces concatenated (prune: with the index
   offset of the block, the indicator field: with the column offset into the nearest-atom rows).
   Proofs/Grid.v: for every step > 0 the blocks cover the grid and the block-wise result IS the one-piece result. *)
Fixpoint chunks_fuel {A} (fuel step : nat) (l : list A) : list (list A) :=
  match fuel with
  | O => []
  | S f => match l with
           | [] => []
           | _ :: _ => firstn step l :: chunks_fuel f step (skipn step l)
           end
  end.
Definition chunks {A} (step : nat) (l : list A) : list (list A) := chunks_fuel (length l) step l.

Definition aso_blocks (ens : list (list qv)) (radii : list Q) (w : option (list Q)) (blocks : list (list qv)) : list Q :=
  flat_map (aso ens radii w) blocks.
Definition nearest_blocks (atoms : list qv) (cut : Q) (blocks : list (list qv)) : list Z :=
  flat_map (map (nearest atoms cut)) blocks.
Fixpoint prune_blocks (q : qv -> bool) (off : Z) (blocks : list (list qv)) : list Z :=
  match blocks with
  | [] => []
  | b :: r => filter_idx_from q off b ++ prune_blocks q (off + Z.of_nat (length b)) r
  end.
Fixpoint aif_blocks (ens : list (list qv)) (radii : list Q) (values : list (list Q)) (idx : list (list Z)) (w : option (list Q))
         (k : nat) (blocks : list (list qv)) : list Q :=
  match blocks with
  | [] => []
  | b :: r => aif_from ens radii values idx w k b ++ aif_blocks ens radii values idx w (k + length b) r
  end.

(* ------------------------------------------------------------------ one point of a large rectangular grid *)
(* point number idx of rectangular_grid without building the mesh: idx = (j * nx + i) * nz + k  (y slowest, z fastest) *)
Definition grid_dims (r1 r2 : qv) (pad s : Q) : option (list Q * list Q * list Q) :=
  let '(a1, a2, a3) := r1 in let '(b1, b2, b3) := r2 in
  match axis (a1 - pad) (b1 + pad) s, axis (a2 - pad) (b2 + pad) s, axis (a3 - pad) (b3 + pad) s with
  | Some xs, Some ys, Some zs => Some (xs, ys, zs)
  | _, _, _ => None
  end.
Definition mesh_at (xs ys zs : list Q) (idx : Z) : option qv :=
  let nx := Z.of_nat (length xs) in let ny := Z.of_nat (length ys) in let nz := Z.of_nat (length zs) in
  if ((0 <=? idx) && (idx <? ny * (nx * nz)))%Z then
    Some (nth (Z.to_nat ((idx / nz) mod nx)) xs 0, nth (Z.to_nat (idx / nz / nx)) ys 0, nth (Z.to_nat (idx mod nz)) zs 0)
  else None.
Definition grid_at (r1 r2 : qv) (pad s : Q) (idx : Z) : option qv :=
  match grid_dims r1 r2 pad s with Some (xs, ys, zs) => mesh_at xs ys zs idx | None => None end.
Definition grid_count (r1 r2 : qv) (pad s : Q) : option Z :=
  match grid_dims r1 r2 pad s with
  | Some (xs, ys, zs) => Some (Z.of_nat (length ys) * (Z.of_nat (length xs) * Z.of_nat (length zs)))%Z
  | None => None
  end.

(* ------------------------------------------------------------------ correspondence *)
(* compact literals: points / numbers with a common (power-of-two) denominator *)
Definition qpts (den : positive) (l : list (Z * Z * Z)) : list qv :=
  map (fun p => let '(x, y, z) := p in (Qred (x # den), Qred (y # den), Qred (z # den))) l.
Definition qnums (den : positive) (l : list Z) : list Q := map (fun x => Qred (x # den)) l.

Inductive gcase :=
| CGrid (r1 r2 : qv) (pad s tol : Q) (obs : option (list qv))
| CGridAt (r1 r2 : qv) (pad s tol : Q) (count : Z) (samples : list (Z * qv))
| CNearest (band : Q) (ens : list (list qv)) (cut : Q) (grid : list qv) (obs : list (list Z))
| CPrune (band : Q) (atoms : list qv) (cut eps : Q) (grid : list qv) (kept : list Z)
| CAso (band tol : Q) (ens : list (list qv)) (radii : list Q) (w : option (list Q)) (grid : list qv) (obs : list Q)
| CAif (band nband tol : Q) (ens : list (list qv)) (radii : list Q) (values : list (list Q)) (cut : Q) (idx : list (list Z))
       (w : option (list Q)) (grid : list qv) (obs : list Q).

Fixpoint all2 {A B} (p : A -> B -> bool) (l : list A) (m : list B) : bool :=
  match l, m with
  | [], [] => true
  | x :: l', y :: m' => p x y && all2 p l' m'
  | _, _ => false
  end.
Fixpoint all3 {A B C} (p : A -> B -> C -> bool) (l : list A) (m : list B) (n : list C) : bool :=
  match l, m, n with
  | [], [], [] => true
  | x :: l', y :: m', z :: n' => p x y z && all3 p l' m' n'
  | _, _, _ => false
  end.

Definition nearest_rows_ok (band : Q) (ens : list (list qv)) (cut : Q) (grid : list qv) (obs : list (list Z)) : bool :=
  all2 (fun atoms row => all2 (fun g r => nearest_okb band atoms cut g r) grid row) ens obs.

Definition gcheck (c : gcase) : bool :=
  match c with
  | CGrid r1 r2 pad s tol obs =>
      match rectangular_grid r1 r2 pad s, obs with
      | None, None => true
      | Some g, Some o => all2 (vcloseQ tol) g o
      | _, _ => false
      end
  | CGridAt r1 r2 pad s tol count samples =>
      (* a grid too large for a literal: the number of points and the points at the sampled positions (C19_grid_at) *)
      match grid_dims r1 r2 pad s with
      | Some (xs, ys, zs) =>
          (Z.of_nat (length ys) * (Z.of_nat (length xs) * Z.of_nat (length zs)) =? count)%Z &&
          forallb (fun ip => match mesh_at xs ys zs (fst ip) with Some m => vcloseQ tol m (snd ip) | None => false end) samples
      | None => false
      end
  | CNearest band ens cut grid obs => nearest_rows_ok band ens cut grid obs
  | CPrune band atoms cut eps grid kept => prune_okb band atoms cut eps grid kept
  | CAso band tol ens radii w grid obs =>
      all3 (fun g m o => near_surface band ens radii g || Qclose tol m o) grid (aso ens radii w grid) obs
  | CAif band nband tol ens radii values cut idx w grid obs =>
      nearest_rows_ok nband ens cut grid idx &&
      all3 (fun g m o => near_surface band ens radii g || Qclose tol m o) grid (aif ens radii values idx w grid) obs
  end.
