(* C08, third part of the model (owned by C08 only): the SIZE dimension of the xyz writer and reader.

   1. A deterministic PATTERN of geometries of any size: `pat_geom name (n, es, cs)` has n atoms, atom i carries
      element 1 + (7 i + es) mod 118 and coordinates (in micro-units, with sign) computed from (cs, i, axis).
      harness/c08.py expands the very same pattern (pat_elem / pat_dec there), builds the real molli object from
      it, and only ships (n, es, cs) -- so a 4096-atom geometry costs no geometry literal in the shard.

   2. The ORACLE'S reading of a written text, `text_frames`: a count line, a comment line, exactly that many
      record lines, and so on until the text ends; only the count lines are interpreted.  A frame whose records
      were written twice, or a tail that was dropped, has no such reading with the same frames.

   3. `chk_xyz_size`: the correspondence check for one case of the size family (writer text character by
      character, the model reader on that text against what the implementation returned, the text-level
      reading).

   No proofs in this file. *)
From Coq Require Import List Bool Arith NArith ZArith Ascii String Uint63.
From Molli Require Import Common.ParseStr Model.Parse Model.XyzText.
Import ListNotations.
Local Open Scope list_scope.

(* ---------------------------------------------------------------- pattern *)
Fixpoint seqN_from (start : N) (len : nat) : list N :=
  match len with O => [] | S l => start :: seqN_from (N.succ start) l end.
Definition seqN (n : N) : list N := seqN_from 0 (N.to_nat n).

Definition pat_elem (es i : N) : Z := Z.of_N (1 + (i * 7 + es) mod 118).
(* magnitudes below 10^4 .. 10^10 micro-units in turn, so that every width of the 12-character field occurs
   ("-9999.999999" fills it completely) *)
Definition pat_dec (cs i ax : N) : dec :=
  (N.odd (i / 3 + ax + cs),
   (i * i * 7919 + i * 104729 * (ax + 1) + cs * 1299709 + ax * 15485863) mod (10 ^ (4 + (i + ax) mod 7)))%N.
Definition pat_atom (es cs i : N) : watom :=
  mk_watom (pat_elem es i) (pat_dec cs i 0) (pat_dec cs i 1) (pat_dec cs i 2).

Definition fspec := (N * N * N)%type.                 (* atoms, element seed, coordinate seed *)
Definition pat_geom (name : str) (f : fspec) : wgeom :=
  let '(n, es, cs) := f in mk_wgeom name (map (pat_atom es cs) (seqN n)).
Definition pat_geoms (name : str) (fs : list fspec) : list wgeom := map (pat_geom name) fs.
(* an ensemble of the pattern: one element seed, one coordinate seed per conformer *)
Definition pat_ens (n es : N) (css : list N) : list fspec := map (fun cs => (n, es, cs)) css.

(* ---------------------------------------------------------------- the text as the oracle reads it *)
Definition tframe := (N * str * list str)%type.       (* header count, comment line, record lines *)
(* the first n elements and the rest; None when there are fewer than n (recursion on the list: a huge count in a
   damaged header costs nothing) *)
Fixpoint take_N {A} (n : N) (l : list A) : option (list A * list A) :=
  match l with
  | [] => if (n =? 0)%N then Some ([], []) else None
  | x :: r => if (n =? 0)%N then Some ([], l)
              else match take_N (N.pred n) r with Some (a, b) => Some (x :: a, b) | None => None end
  end.
Fixpoint text_frames (fuel : nat) (ls : list str) : option (list tframe) :=
  match ls with
  | [] => Some []
  | cl :: rest =>
    match fuel with
    | O => None
    | S fuel' =>
      match parse_int cl, rest with
      | Some z, cm :: recs =>
        if (z <? 0)%Z then None
        else match take_N (Z.to_N z) recs with
             | None => None
             | Some (rs, rest') =>
               match text_frames fuel' rest' with
               | Some fs => Some ((Z.to_N z, cm, rs) :: fs)
               | None => None
               end
             end
      | _, _ => None
      end
    end
  end.

(* the records the writer emits for one geometry, and the frame the oracle must find for it *)
Definition geom_records (syms : list (Z * str)) (g : wgeom) : option (list str) := map_opt (write_atom syms) (wg_atoms g).
Definition geom_tframe (syms : list (Z * str)) (g : wgeom) : option tframe :=
  option_map (fun rs => (N.of_nat (List.length (wg_atoms g)), wg_name g, rs)) (geom_records syms g).
Definition frame_counts_ok (fr : tframe) : bool := (fst (fst fr) =? N.of_nat (List.length (snd fr)))%N.

(* ---------------------------------------------------------------- correspondence check *)
(* what the implementation's all-frames reader returned for the text: per frame the atoms, coordinates as the
   micro-unit nearest to the float handed out (computed exactly by the harness) *)
Inductive sobs := SErr | SFrames (fs : list (list watom)).

Definition fval_dec_eqb (f : fval) (d : dec) : bool :=
  match f with
  | FNum neg m e => Bool.eqb neg (fst d) && (m =? snd d)%N && (e =? -6)%Z
  | _ => false
  end.
Definition mol_obs_eqb (m : mol) (ws : list watom) : bool :=
  (m_natoms m =? Z.of_nat (List.length ws))%Z && (m_nbonds m =? 0)%Z &&
  list_eqb Z.eqb (m_elems m) (map wa_elem ws) &&
  list_eqb (fun (p : fval * fval * fval) (a : watom) =>
              fval_dec_eqb (fst (fst p)) (wa_x a) && fval_dec_eqb (snd (fst p)) (wa_y a) && fval_dec_eqb (snd p) (wa_z a))
           (m_coords m) ws &&
  match m_bonds m with [] => true | _ => false end.

Definition szcase := (str * list fspec * list str * sobs)%type.
Definition chk_xyz_size (syms : list (Z * string)) (names : list (string * Z)) (c : szcase) : bool :=
  let '(nm, fs, ls, o) := c in
  match write_xyz (conv_syms syms) (pat_geoms nm fs) with
  | Some w => list_eqb str_eqb w ls
  | None => false
  end &&
  match load_xyz (conv_names names) ls, o with
  | Ok ms, SFrames obs => list_eqb mol_obs_eqb ms obs
  | Err _, SErr => true
  | _, _ => false
  end &&
  match text_frames (List.length ls) ls with
  | Some frs => forallb frame_counts_ok frs &&
                list_eqb N.eqb (map (fun fr => fst (fst fr)) frs) (map (fun f => fst (fst f)) fs)
  | None => false
  end.

(* ---------------------------------------------------------------- packed literals *)
(* Only an ENCODING of the shard literals (a 4096-atom text as `list string` costs coqc ~30 s to type-check, as
   machine integers ~4 s); everything is decoded to the unbounded types above before the model sees it.
   A line is a list of chunks, each chunk up to 7 bytes under a leading 1 (big-endian); a coordinate is
   2 * magnitude + (1 when negative). *)
Definition int_bit (x : int) (k : int) : bool := negb (((x >> k) land 1) =? 0)%uint63.
Definition byte_ascii (x : int) : ascii :=
  Ascii (int_bit x 0) (int_bit x 1) (int_bit x 2) (int_bit x 3) (int_bit x 4) (int_bit x 5) (int_bit x 6) (int_bit x 7).
Fixpoint chunk_bytes (fuel : nat) (x : int) (acc : str) : str :=
  match fuel with
  | O => acc
  | S f => if (x <=? 1)%uint63 then acc else chunk_bytes f (x >> 8)%uint63 (byte_ascii x :: acc)
  end.
Definition unpack_line (cs : list int) : str := flat_map (fun x => chunk_bytes 8 x []) cs.
Definition int_N (x : int) : N := Z.to_N (Uint63.to_Z x).
Definition unpack_dec (x : int) : dec := (N.odd (int_N x), N.div2 (int_N x)).
Definition unpack_atom (a : int * int * int * int) : watom :=
  let '(z, x, y, w) := a in mk_watom (Uint63.to_Z z) (unpack_dec x) (unpack_dec y) (unpack_dec w).
Definition pcase := (list int * list (int * int * int) * list (list int) * option (list (list (int * int * int * int))))%type.
Definition unpack_case (c : pcase) : szcase :=
  let '(nm, fs, ls, o) := c in
  (unpack_line nm, map (fun f => let '(n, es, cs) := f in (int_N n, int_N es, int_N cs)) fs, map unpack_line ls,
   match o with None => SErr | Some fr => SFrames (map (map unpack_atom) fr) end).
Definition chk_xyz_size_packed (syms : list (Z * string)) (names : list (string * Z)) (cs : list pcase) : bool :=
  forallb (fun c => chk_xyz_size syms names (unpack_case c)) cs.
