(* C16: executable model of Structure.add_implicit_hydrogens (molli/chem/structure.py), NO proofs here.

   Written against the code as it is after the three repairs of this round (isolated atom: fixed direction;
   four hydrogens: all four tetrahedron vertices; two hydrogens on a single bond: cross with the least aligned
   coordinate axis).  Statement by statement:

     atoms = targets, or [a for a in self.atoms if a.element.group in range(13, 17)]      default_targets (tie T)
     for a in atoms:
       hs = a.attrib.pop(HINT, None); if None: hs = <formula>                              count_of  (ties S + T)
       if hs > 0:
         neighbors = [connected atoms that are not a CoordinationCenter]                   nbrs
         vec = mean_plane normal (3 neighbours, oriented/scaled by `align`) | mean of (x_j - a) | (1,0,0)   hvec_raw
         vec /= |vec| ; L = cov_radius_1(a) + cov_radius_1(H)
         hs == 1: a - vec L
         hs == 2: a - (0.5736 vec +/- 0.8192 z) L,  z = r1 x r2 (two neighbours) | vec x least aligned axis, normalised
         hs in (3, 4): rows [4 - hs:] of TETRAHEDRON @ rotation_matrix_from_vectors(TETRAHEDRON[0], vec) * L + a
         each position: add_atom(Atom("H"), c); append_bond(Bond(a, h))                    append_hs

   The numeric part is parametric in the field operations (Common/Field3.v): R for the theorems, Q for the
   correspondence shards.  Square roots enter as witnesses (w_n = |vec|, w_nz = |z|), the SVD-based mean_plane
   through its unit normal w_nrm, the orthogonal vector of the antiparallel branch of
   rotation_matrix_from_vectors as w_ov (Model/Rot.v). *)
From Coq Require Import List ZArith NArith QArith Qabs Qround Bool.
From Molli Require Import Common.Field3 Common.HExpr Model.Rot Gen.Valence Gen.HaddExpr.
Import ListNotations.

(* ------------------------------------------------------------------ chemistry-level data *)
Record hatom := mkHA { ha_el : N; ha_fc : Z; ha_spin : Z; ha_hint : option Z; ha_at : N }.
Record hbond := mkHB { hb_a1 : nat; hb_a2 : nat; hb_bt : N; hb_fo : Q }.

(* ------------------------------------------------------------------ table lookups (tie T) *)
Definition el_row (z : N) : option (N * option Z * option Z * option Q * bool) :=
  find (fun r => N.eqb (fst (fst (fst (fst r)))) z) elements.
Definition el_group (z : N) : option Z := match el_row z with Some (_, g, _, _, _) => g | None => None end.
Definition el_ve (z : N) : option Z := match el_row z with Some (_, _, ve, _, _) => ve | None => None end.
Definition el_cov (z : N) : Q := match el_row z with Some (_, _, _, Some r, _) => r | _ => 0 end.
Definition el_sel (z : N) : bool := match el_row z with Some (_, _, _, _, s) => s | None => false end.

Definition order_of (b : hbond) : Q :=
  match find (fun r => N.eqb (fst r) (hb_bt b)) bond_orders with
  | Some (_, OConst q) => q
  | Some (_, OFrac) => hb_fo b
  | None => 1
  end.

Definition h_atom : hatom :=
  let '(e, fc, sp, aty) := h_defaults in mkHA e fc sp None aty.
Definition new_bond (i j : nat) : hbond := mkHB i j (fst newbond_defaults) (snd newbond_defaults).

(* ------------------------------------------------------------------ connectivity *)
Definition incident (i : nat) (b : hbond) : bool := Nat.eqb (hb_a1 b) i || Nat.eqb (hb_a2 b) i.
Definition other (i : nat) (b : hbond) : nat := if Nat.eqb (hb_a1 b) i then hb_a2 b else hb_a1 b.     (* b % a *)
(* bonded_valence: val = 0.0; for b in bonds_with_atom(a): val += b.order *)
Definition bonded_valence (bonds : list hbond) (i : nat) : Q :=
  fold_left (fun s b => s + order_of b) (filter (incident i) bonds) 0.
Definition is_cc (atoms : list hatom) (j : nat) : bool :=
  match nth_error atoms j with Some a => N.eqb (ha_at a) cc_atype | None => false end.
Definition nbrs (atoms : list hatom) (bonds : list hbond) (i : nat) : list nat :=
  filter (fun j => negb (is_cc atoms j)) (map (other i) (filter (incident i) bonds)).

(* ------------------------------------------------------------------ the count *)
Definition atom_env (bonds : list hbond) (i : nat) (a : hatom) (ve : Z) : henv :=
  mkHenv ve (ha_fc a) (ha_spin a) (bonded_valence bonds i).
(* None: a.valence_electrons raises KeyError (no hint, element outside groups 13-18) *)
Definition count_of (bonds : list hbond) (i : nat) (a : hatom) : option Z :=
  match ha_hint a with
  | Some h => Some h
  | None => match el_ve (ha_el a) with
            | Some ve => Some (denote (atom_env bonds i a ve) hs_expr)
            | None => None
            end
  end.

Definition clear_hint (a : hatom) : hatom := mkHA (ha_el a) (ha_fc a) (ha_spin a) None (ha_at a).
Fixpoint set_nth {A} (i : nat) (x : A) (l : list A) : list A :=
  match l, i with
  | [], _ => []
  | _ :: r, O => x :: r
  | y :: r, S k => y :: set_nth k x r
  end.

Fixpoint indices_from {A} (p : A -> bool) (i : nat) (l : list A) : list nat :=
  match l with
  | [] => []
  | x :: r => if p x then i :: indices_from p (S i) r else indices_from p (S i) r
  end.
Definition default_targets (atoms : list hatom) : list nat := indices_from (fun a => el_sel (ha_el a)) 0 atoms.

(* ================================================================== geometry, parametric in the field *)
Section Geometry.
Context {F : Type} (o : Fops F).
Local Notation "x + y" := (fadd o x y).
Local Notation "x - y" := (fsub o x y).
Local Notation "x * y" := (fmul o x y).
Local Notation "x / y" := (fdiv o x y).
Local Notation "0" := (f0 o).
Local Notation "1" := (f1 o).
Local Notation vec := (vec F).
Local Notation mat := (mat F).

Definition fofQ (q : Q) : F := fofZ o (Qnum q) / fofZ o (Zpos (Qden q)).
Definition vofQ (v : Field3.vec Q) : vec := let '(x, y, z) := v in (fofQ x, fofQ y, fofQ z).

Definition c_align : F := fofZ o 1 / fofZ o 20.                   (* 0.05 *)
Definition k_cos : F := fofZ o 5736 / fofZ o 10000.               (* 0.5736 *)
Definition k_sin : F := fofZ o 8192 / fofZ o 10000.               (* 0.8192 *)
Definition rot_tol : F := fofZ o 1 / fofZ o 100000000.            (* default tol of rotation_matrix_from_vectors *)
Definition fabs (x : F) : F := if fleb o 0 x then x else fopp o x.
Definition abs_le (x c : F) : bool := fleb o x c && fleb o (fopp o x) c.

Record wit := mkWit {
  w_ok : bool;         (* false: degenerate geometry, the harness found no witnesses; positions are not compared *)
  w_n : F;             (* |vec| *)
  w_nz : F;            (* |z|  (two hydrogens) *)
  w_ov : vec;          (* unit vector orthogonal to vec (antiparallel branch of the rotation) *)
  w_nrm : vec          (* unit normal returned by mean_plane (three neighbours) *)
}.

(* the direction towards the existing neighbours, before normalisation *)
Definition hvec_raw (a : vec) (nb : list vec) (nrm : vec) : vec :=
  match nb with
  | [] => (1, 0, 0)
  | [_; _; _] =>
      let al := dot o nrm (vsub o (centroid o nb) a) in
      if abs_le al c_align then nrm else vscale o al nrm
  | _ => centroid o (map (fun p => vsub o p a) nb)
  end.

(* axis[np.argmin(np.abs(u))] = 1.0   (first minimum) *)
Definition least_axis (u : vec) : vec :=
  let '(x, y, z) := u in
  let ax := fabs x in let ay := fabs y in let az := fabs z in
  if fleb o ax ay && fleb o ax az then (1, 0, 0)
  else if fleb o ay az then (0, 1, 0) else (0, 0, 1).

Definition zdir (a : vec) (nb : list vec) (u : vec) : vec :=
  match nb with
  | [p1; p2] => cross o (vsub o p1 a) (vsub o p2 a)
  | _ => cross o u (least_axis u)
  end.

(* tet: the four rows of TETRAHEDRON; R = rotation_matrix_from_vectors(tet[0], u) with |tet[0]| = |u| = 1 *)
Definition tet_rot (tet : list vec) (u ov : vec) : mat :=
  rot_from_vectors o rot_tol (nth 0%nat tet (vzero o)) 1 u 1 ov.

Definition place (tet : list vec) (a : vec) (nb : list vec) (L : F) (hs : Z) (w : wit) : list vec :=
  let u := vdiv o (hvec_raw a nb (w_nrm w)) (w_n w) in
  match hs with
  | 1%Z => [vsub o a (vscale o L u)]
  | 2%Z =>
      let zu := vdiv o (zdir a nb u) (w_nz w) in
      [ vsub o a (vscale o L (vadd o (vscale o k_cos u) (vscale o k_sin zu)));
        vsub o a (vscale o L (vsub o (vscale o k_cos u) (vscale o k_sin zu))) ]
  | 3%Z | 4%Z =>
      let R := tet_rot tet u (w_ov w) in
      map (fun t => vadd o (vscale o L (vm o t R)) a) (skipn (Z.to_nat (4 - hs)) tet)
  | _ => []
  end.

(* ------------------------------------------------------------------ the molecule *)
Record hmol := mkHM { hm_atoms : list hatom; hm_bonds : list hbond; hm_xyz : list vec }.

Definition bond_len (a : hatom) : F := fofQ (el_cov (ha_el a)) + fofQ (el_cov (ha_el h_atom)).

(* add_atom(h, c); append_bond(Bond(a, h)) for every position *)
Definition append_hs (m : hmol) (i : nat) (ps : list vec) : hmol :=
  fold_left (fun m p => mkHM (hm_atoms m ++ [h_atom])
                             (hm_bonds m ++ [new_bond i (length (hm_atoms m))])
                             (hm_xyz m ++ [p])) ps m.

Definition tetF : list vec := map vofQ tetrahedron.

Definition positions (m : hmol) (i : nat) (a : hatom) (k : Z) (w : wit) : list vec :=
  let X j := nth j (hm_xyz m) (vzero o) in
  place tetF (X i) (map X (nbrs (hm_atoms m) (hm_bonds m) i)) (bond_len a) k w.

(* one iteration of the loop; None = the code raises (index out of range / KeyError in valence_electrons) *)
Definition hadd_one (m : hmol) (i : nat) (w : wit) : option hmol :=
  match nth_error (hm_atoms m) i with
  | None => None
  | Some a =>
      match count_of (hm_bonds m) i a with
      | None => None
      | Some k =>
          let m1 := mkHM (set_nth i (clear_hint a) (hm_atoms m)) (hm_bonds m) (hm_xyz m) in
          if (0 <? k)%Z then Some (append_hs m1 i (positions m i a k w)) else Some m1
      end
  end.

Fixpoint hadd (m : hmol) (ts : list nat) (ws : list wit) : option hmol :=
  match ts with
  | [] => Some m
  | t :: ts' =>
      match ws with
      | [] => None
      | w :: ws' => match hadd_one m t w with Some m' => hadd m' ts' ws' | None => None end
      end
  end.

(* ------------------------------------------------------------------ sessions: several calls on the SAME object
   The routine is called, the caller edits the object in place (element, formal charge, spin, hint, atom type, bond
   type / order, coordinates, atoms and bonds deleted or added -- all of it the CALLER's doing, so an edit is simply
   "the molecule is now this"), and the routine is called again; or it is first called on a few atoms and then on
   the whole molecule.  The model has no state besides the molecule: every call is `hadd` on the molecule as it is
   at that moment.  run_session returns, for every call, (molecule before, targets, molecule after). *)
Definition targets_of (ts : option (list nat)) (m : hmol) : list nat :=
  match ts with Some l => l | None => default_targets (hm_atoms m) end.

Inductive sstep :=
| SCall (targets : option (list nat)) (ws : list wit)       (* add_implicit_hydrogens on these targets *)
| SEdit (m : hmol).                                          (* the caller's edits left this molecule *)

Fixpoint run_session (m : hmol) (steps : list sstep) : option (list (hmol * list nat * hmol)) :=
  match steps with
  | [] => Some []
  | SEdit m' :: r => run_session m' r
  | SCall ts ws :: r =>
      match hadd m (targets_of ts m) ws with
      | None => None
      | Some m' => match run_session m' r with Some tr => Some ((m, targets_of ts m, m') :: tr) | None => None end
      end
  end.

End Geometry.

Arguments wit F : clear implicits.
Arguments hmol F : clear implicits.
Arguments sstep F : clear implicits.

(* ================================================================== correspondence (Q instance) *)
Local Open Scope Q_scope.
Notation vecQ := (Field3.vec Q).

Definition eps_pos : Q := 1 # 1000000000.            (* 1e-9 on coordinates *)
Definition eps_unit : Q := 1 # 1000000000000.        (* 1e-12 on |n|^2 = 1 and orthogonality of observed unit vectors *)

Definition hatom_eqb (a b : hatom) : bool :=
  N.eqb (ha_el a) (ha_el b) && Z.eqb (ha_fc a) (ha_fc b) && Z.eqb (ha_spin a) (ha_spin b)
  && match ha_hint a, ha_hint b with Some x, Some y => Z.eqb x y | None, None => true | _, _ => false end
  && N.eqb (ha_at a) (ha_at b).
(* Bond.__eq__ compares endpoint SETS: Bond(a, h) and Bond(h, a) are the same bond *)
Definition hbond_eqb (a b : hbond) : bool :=
  ((Nat.eqb (hb_a1 a) (hb_a1 b) && Nat.eqb (hb_a2 a) (hb_a2 b)) || (Nat.eqb (hb_a1 a) (hb_a2 b) && Nat.eqb (hb_a2 a) (hb_a1 b)))
  && N.eqb (hb_bt a) (hb_bt b) && Qeq_bool (hb_fo a) (hb_fo b).
Fixpoint all2 {A B} (f : A -> B -> bool) (l : list A) (m : list B) : bool :=
  match l, m with
  | [], [] => true
  | a :: l', b :: m' => f a b && all2 f l' m'
  | _, _ => false
  end.
Definition veqQ (u v : vecQ) : bool :=
  let '(u1, u2, u3) := u in let '(v1, v2, v3) := v in Qeq_bool u1 v1 && Qeq_bool u2 v2 && Qeq_bool u3 v3.

(* are the witnesses supplied for target i what they claim to be? *)
Definition wit_valid (m : hmol Q) (i : nat) (w : wit Q) : bool :=
  match nth_error (hm_atoms m) i with
  | None => true
  | Some a =>
      match count_of (hm_bonds m) i a with
      | None => true
      | Some k =>
          if negb (0 <? k)%Z || negb (w_ok w) then true else
          let X j := nth j (hm_xyz m) (vzero QOps) in
          let nb := map X (nbrs (hm_atoms m) (hm_bonds m) i) in
          let v := hvec_raw QOps (X i) nb (w_nrm w) in
          let u := vdiv QOps v (w_n w) in
          sqrt_witness_ok (w_n w) (norm2 QOps v)
          && (if (k =? 2)%Z then sqrt_witness_ok (w_nz w) (norm2 QOps (zdir QOps (X i) nb u)) else true)
          && match nb with
             | [p1; p2; p3] =>
                 Qclose eps_unit (norm2 QOps (w_nrm w)) 1
                 && Qclose eps_pos (dot QOps (w_nrm w) (vsub QOps p2 p1)) 0
                 && Qclose eps_pos (dot QOps (w_nrm w) (vsub QOps p3 p1)) 0
             | _ => true
             end
          && (if ((k =? 3)%Z || (k =? 4)%Z)
                 && Qle_bool (dot QOps (nth 0%nat (tetF QOps) (vzero QOps)) u) (-(1) + rot_tol QOps)
              then Qclose eps_unit (norm2 QOps (w_ov w)) 1 && Qclose eps_unit (dot QOps (w_ov w) u) 0
              else true)
      end
  end.

Fixpoint wits_valid (m : hmol Q) (ts : list nat) (ws : list (wit Q)) : bool :=
  match ts, ws with
  | t :: ts', w :: ws' =>
      wit_valid m t w && match hadd_one QOps m t w with Some m' => wits_valid m' ts' ws' | None => true end
  | _, _ => true
  end.

(* which of the appended rows are compared: those of targets whose witnesses are marked ok *)
Fixpoint cmp_flags (m : hmol Q) (ts : list nat) (ws : list (wit Q)) : list bool :=
  match ts, ws with
  | t :: ts', w :: ws' =>
      match hadd_one QOps m t w with
      | Some m' => repeat (w_ok w) (length (hm_atoms m') - length (hm_atoms m)) ++ cmp_flags m' ts' ws'
      | None => []
      end
  | _, _ => []
  end.

Fixpoint rows_close_sel (fl : list bool) (X Y : list vecQ) : bool :=
  match fl, X, Y with
  | [], [], [] => true
  | f :: fl', x :: X', y :: Y' => (if f then vcloseQ eps_pos x y else true) && rows_close_sel fl' X' Y'
  | _, _, _ => false
  end.

(* one call: the molecule before, targets (None = the default selection), witnesses (one per target, in order),
   and what the implementation left behind *)
Definition check_call (m : hmol Q) (targets : option (list nat)) (ws : list (wit Q))
                      (atoms' : list hatom) (bonds' : list hbond) (xyz' : list vecQ) : bool :=
  let xyz := hm_xyz m in
  let ts := targets_of targets m in
  Nat.eqb (length ws) (length ts) && wits_valid m ts ws &&
  match hadd QOps m ts ws with
  | None => false
  | Some m' =>
      all2 hatom_eqb (hm_atoms m') atoms' && all2 hbond_eqb (hm_bonds m') bonds'
      (* old rows are bit-identical, new rows agree within eps_pos *)
      && all2 veqQ xyz (firstn (length xyz) xyz')
      && rows_close_sel (cmp_flags m ts ws) (skipn (length xyz) (hm_xyz m')) (skipn (length xyz) xyz')
  end.

(* a session observed on ONE live object: calls (with what the implementation left behind) and the molecule as the
   harness's in-place edits left it.  Every call is compared with `hadd` on the molecule as it is at that moment:
   the one the previous call left behind (as observed: new rows agree with the model only within eps_pos, so the
   model is re-synchronised on the observation) or the one the edits left. *)
Inductive sobs :=
| OCall (targets : option (list nat)) (ws : list (wit Q)) (atoms' : list hatom) (bonds' : list hbond) (xyz' : list vecQ)
| OEdit (atoms : list hatom) (bonds : list hbond) (xyz : list vecQ).

Fixpoint check_steps (m : hmol Q) (steps : list sobs) : bool :=
  match steps with
  | [] => true
  | OEdit a b x :: r => check_steps (mkHM a b x) r
  | OCall t ws a' b' x' :: r => check_call m t ws a' b' x' && check_steps (mkHM a' b' x') r
  end.

(* the session the observations describe, as a model session (the witnesses are the observed ones) *)
Definition steps_of (steps : list sobs) : list (sstep Q) :=
  map (fun s => match s with OCall t ws _ _ _ => SCall t ws | OEdit a b x => SEdit (mkHM a b x) end) steps.

Inductive case :=
| CMol (atoms : list hatom) (bonds : list hbond) (xyz : list vecQ) (targets : option (list nat)) (ws : list (wit Q))
       (atoms' : list hatom) (bonds' : list hbond) (xyz' : list vecQ)
| CSess (atoms : list hatom) (bonds : list hbond) (xyz : list vecQ) (steps : list sobs).

Definition check (c : case) : bool :=
  match c with
  | CMol atoms bonds xyz targets ws atoms' bonds' xyz' => check_call (mkHM atoms bonds xyz) targets ws atoms' bonds' xyz'
  | CSess atoms bonds xyz steps => check_steps (mkHM atoms bonds xyz) steps
  end.

(* diagnostics: the per-target counts the model computes *)
Definition model_counts (c : case) : list (nat * option Z) :=
  match c with
  | CMol atoms bonds xyz targets ws _ _ _ =>
      let ts := match targets with Some l => l | None => default_targets atoms end in
      map (fun t => (t, match nth_error atoms t with Some a => count_of bonds t a | None => None end)) ts
  | CSess _ _ _ _ => []
  end.

(* ------------------------------------------------------------------ what the theorems need from TETRAHEDRON (decided on the Gen table) *)
Definition dotQ (a b : vecQ) : Q :=
  let '(a1, a2, a3) := a in let '(b1, b2, b3) := b in a1 * b1 + a2 * b2 + a3 * b3.
Definition tet_tol : Q := 1 # 100000000.          (* rows are unit vectors to 1e-8 *)
(* row 0 is exactly a unit vector; rows 1-3 are unit within tet_tol and make the tetrahedral angle with row 0:
   -0.34 <= t.t0 <= -0.33 *)
Definition tet_ok (tet : list vecQ) : bool :=
  match tet with
  | [t0; t1; t2; t3] =>
      Qeq_bool (dotQ t0 t0) 1 &&
      forallb (fun t => Qle_bool (1 - tet_tol) (dotQ t t) && Qle_bool (dotQ t t) (1 + tet_tol)
                        && Qle_bool (-(34 # 100)) (dotQ t t0) && Qle_bool (dotQ t t0) (-(33 # 100))) [t1; t2; t3]
  | _ => false
  end.

(* ------------------------------------------------------------------ what the theorems need from the other tables (decided on Gen/Valence.v) *)
(* an element is selected by default iff its group is 13..16; a selected element has group - 10 valence
   electrons and a positive covalent radius *)
Definition row_ok (r : N * option Z * option Z * option Q * bool) : bool :=
  let '(z, g, ve, cov, s) := r in
  Bool.eqb s (match g with Some gz => (13 <=? gz)%Z && (gz <=? 16)%Z | None => false end)
  && (if s then match g, ve, cov with
                | Some gz, Some v, Some rq => (v =? gz - 10)%Z && negb (Qle_bool rq 0)
                | _, _, _ => false
                end
      else true).
Definition elements_ok : bool := forallb row_ok elements.
(* IMPLICIT_VALENCE[group] is what the count formula gives for a neutral closed-shell atom without bonds *)
Definition iv_ok : bool :=
  forallb (fun p => match find (fun q => Z.eqb (fst q) (fst p)) implicit_valence with
                    | Some (_, iv) => Z.eqb (count_spec (mkHenv (snd p) 0 0 0)) iv
                    | None => false
                    end) valence_electrons.
(* no bond type has a negative order of its own *)
Definition orders_ok : bool :=
  forallb (fun p => match snd p with OConst q => Qle_bool 0 q | OFrac => true end) bond_orders.
