(* C09, histories: the entry points called one after another in ONE process, with the file / the
   string / the object / the stream changing in between.  The specification says that there is no
   state between calls: every call does what the one-shot specification `spec` (Model/Dispatch.v)
   says for its cell, and what the class-level codec consumes / what ends up in the target is
   determined by the world AS IT IS NOW (current file content, the string given, the object as it
   is now, the stream given) -- never by what an earlier call saw.
   Executable, no proofs here (Proofs/DispatchSeq.v). *)
From Coq Require Import List Bool Arith.
Import ListNotations.
From Molli Require Import Model.Dispatch.

(* A text is a list of tokens: a document put there by the environment, or what the class-level
   writer `m` of object #o in its version v (objects are mutated between calls) wrote. *)
Inductive tok := TDoc (d : nat) | TW (m : meth) (o v : nat) | TBad.
Definition text := list tok.

(* a file = numbered slot + the extension and stem shape the cell addresses it with *)
Inductive extk := EFmt (f : fmtc) | EDat.
Definition fkey := (nat * extk * bool)%type.

(* A stream is an object the CALLER owns: besides its text it has a state the caller relies on after
   the call -- still open, and its POSITION.  The caller may hand over a stream that already holds text and
   is positioned anywhere in it (a StringIO built from a string, a stream rewound to be overwritten, a
   file opened "r+"): a writer writes AT the position, over what lies there, exactly as the class-level
   writer does with the same stream -- it does not jump to the end first.
   SOpenAt p = open, positioned behind the first p records; SOpenElsewhere = open but inside a record
   (never specified, only observed); SClosed. *)
Inductive sstate := SOpenAt (pos : nat) | SOpenElsewhere | SClosed.

Record world := mk_world { w_files : list (fkey * text); w_streams : list (nat * text);
                           w_sstate : list (nat * sstate) }.

Inductive mode := MAppend | MTrunc.
Inductive op :=
| OCall (c : cell) (slot : nat) (o v : nat) (md : mode)
    (* the entry point c_verb c in configuration c; slot = number of the file (load, load_all, dump to a
       path), of the stream (dump to a stream) or of the document held by the string (loads, loads_all);
       (o, v) = the object and its current version (dump, dumps); md = open mode of a path target *)
| ORewrite (k : fkey) (d : nat)       (* the environment replaces the content of file k by document d *)
| OSeek (s : nat) (p : nat).          (* the caller repositions its stream s behind its first p records *)

Definition ext_of (c : cell) : extk := match c_fsrc c with FsSuffix => EFmt (c_fmt c) | FsExplicit => EDat end.
Definition fkey_of (c : cell) (slot : nat) : fkey := (slot, ext_of c, c_dot c).

Definition extk_eqb (a b : extk) : bool :=
  match a, b with EFmt f, EFmt g => fmtc_beq f g | EDat, EDat => true | _, _ => false end.
Definition fkey_eqb (a b : fkey) : bool :=
  Nat.eqb (fst (fst a)) (fst (fst b)) && extk_eqb (snd (fst a)) (snd (fst b)) && Bool.eqb (snd a) (snd b).

Fixpoint assoc_get {K V} (eqb : K -> K -> bool) (dflt : V) (l : list (K * V)) (k : K) : V :=
  match l with [] => dflt | (k', v) :: r => if eqb k' k then v else assoc_get eqb dflt r k end.
Fixpoint assoc_set {K V} (eqb : K -> K -> bool) (l : list (K * V)) (k : K) (v : V) : list (K * V) :=
  match l with
  | [] => [(k, v)]
  | (k', v') :: r => if eqb k' k then (k', v) :: r else (k', v') :: assoc_set eqb r k v
  end.

Definition get_file (w : world) (k : fkey) : text := assoc_get fkey_eqb [] (w_files w) k.
Definition set_file (w : world) (k : fkey) (t : text) : world :=
  mk_world (assoc_set fkey_eqb (w_files w) k t) (w_streams w) (w_sstate w).
Definition get_stream (w : world) (s : nat) : text := assoc_get Nat.eqb [] (w_streams w) s.
Definition set_stream (w : world) (s : nat) (t : text) : world :=
  mk_world (w_files w) (assoc_set Nat.eqb (w_streams w) s t) (w_sstate w).
Definition get_sstate (w : world) (s : nat) : sstate := assoc_get Nat.eqb SClosed (w_sstate w) s.
Definition set_sstate (w : world) (s : nat) (q : sstate) : world :=
  mk_world (w_files w) (w_streams w) (assoc_set Nat.eqb (w_sstate w) s q).
Definition is_open (q : sstate) : bool := match q with SOpenAt _ => true | _ => false end.
(* every stream the caller holds is open and positioned on a record boundary *)
Definition streams_ready (w : world) : bool := forallb (fun p => is_open (snd p)) (w_sstate w).
(* writing the records x at position p of a text: what lies before p stays, the records under x are
   replaced, what lies behind stays (p = length t: plain appending) *)
Definition write_at (t : text) (p : nat) (x : text) : text := firstn p t ++ x ++ skipn (p + length x) t.

(* What one call returns: the action of the one-shot matrix, and the text the class-level codec
   consumed (readers) / the identity and version of the object rendered (dumps). *)
Definition result := (action * option text)%type.

(* No entry point ever closes a stream of the caller or moves one it was not given: a dump that succeeds
   writes its record AT the position of the stream given and leaves it open right behind that record, a
   call that is REFUSED (unsupported format / parser, no format) leaves the whole world as it was -- in
   particular the stream it was given stays open, holds what it held, and stays where it was. *)
Definition step (w : world) (x : op) : world * result :=
  match x with
  | ORewrite k d => (set_file w k [TDoc d], (ANothing, None))
  | OSeek s p =>
      (match get_sstate w s with
       | SOpenAt _ => set_sstate w s (SOpenAt (Nat.min p (length (get_stream w s))))
       | _ => w
       end, (ANothing, None))
  | OCall c slot o v md =>
      let a := spec c in
      let k := fkey_of c slot in
      match c_verb c, a with
      | (VLoad | VLoadAll), ARet _ => (w, (a, Some (get_file w k)))
      | (VLoads | VLoadsAll), ARet _ => (w, (a, Some [TDoc slot]))
      | VDump, AWrote m SGivenStream true =>
          match get_sstate w slot with
          | SOpenAt p =>
              (set_sstate (set_stream w slot (write_at (get_stream w slot) p [TW m o v])) slot (SOpenAt (S p)), (a, None))
          | _ => (w, (a, None))         (* a stream the caller cannot use: outside the specification *)
          end
      | VDump, AWrote m SOpenedPath true =>
          (set_file w k ((match md with MAppend => get_file w k | MTrunc => [] end) ++ [TW m o v]), (a, None))
      | VDumps, ARet (RDumps m) => (w, (a, Some [TW m o v]))
      | _, _ => (w, (a, None))
      end
  end.

(* observation after each step: the result and the whole world (every file, every stream with its state),
   and the number of file handles the library opened during the step and did not close (path sources and
   path targets belong to the library for the duration of the call only: the specification leaves none) *)
Record obs := mk_obs { ob_res : result; ob_files : list text; ob_streams : list text;
                       ob_sstate : list sstate; ob_left_open : nat }.

Fixpoint run (w : world) (p : list op) : list obs :=
  match p with
  | [] => []
  | x :: r => let ws := step w x in
              mk_obs (snd ws) (map snd (w_files (fst ws))) (map snd (w_streams (fst ws)))
                     (map snd (w_sstate (fst ws))) 0 :: run (fst ws) r
  end.
Fixpoint final (w : world) (p : list op) : world :=
  match p with [] => w | x :: r => final (fst (step w x)) r end.

(* ---- correspondence: one recorded history of the implementation under recording mocks ---- *)
Definition tok_eqb (a b : tok) : bool :=
  match a, b with
  | TDoc d, TDoc d' => Nat.eqb d d'
  | TW m o v, TW m' o' v' => meth_eqb m m' && Nat.eqb o o' && Nat.eqb v v'
  | TBad, TBad => true
  | _, _ => false
  end.
Fixpoint list_eqb {A} (eqb : A -> A -> bool) (x y : list A) : bool :=
  match x, y with [], [] => true | a :: x', b :: y' => eqb a b && list_eqb eqb x' y' | _, _ => false end.
Definition text_eqb := list_eqb tok_eqb.
Definition result_eqb (a b : result) : bool :=
  action_eqb (fst a) (fst b) &&
  match snd a, snd b with Some s, Some t => text_eqb s t | None, None => true | _, _ => false end.
Definition sstate_eqb (a b : sstate) : bool :=
  match a, b with
  | SOpenAt p, SOpenAt q => Nat.eqb p q
  | SOpenElsewhere, SOpenElsewhere | SClosed, SClosed => true
  | _, _ => false
  end.
Definition obs_eqb (a b : obs) : bool :=
  result_eqb (ob_res a) (ob_res b) && list_eqb text_eqb (ob_files a) (ob_files b)
  && list_eqb text_eqb (ob_streams a) (ob_streams b)
  && list_eqb sstate_eqb (ob_sstate a) (ob_sstate b) && Nat.eqb (ob_left_open a) (ob_left_open b).

Record seqcase := mk_seqcase { sc_init : world; sc_prog : list op; sc_obs : list obs }.
Definition check_seq (sc : seqcase) : bool := list_eqb obs_eqb (run (sc_init sc) (sc_prog sc)) (sc_obs sc).
