(* C06 -- a small heap model of the mutable containers the property names, the copy routes as
   heap transformers driven by an alias row (Gen/CopyRoutes.v is regenerated from /repo on
   every run), observation modulo identities, reachability of fixed depth, primitive
   mutations.  Executable definitions only; the proofs are in Proofs/Alias.v.

   Attribute VALUES: an attrib dictionary that holds mutable values (lists, dicts, arrays, nested ones) points to the
   store of those values (`CDict kv (Some l)`, `get h l = CVal content`; kv shows a content-free token for such a
   value).  `ptrs` / `reach` / `obs` are the container level (the edge to the store is not followed), `vptrs` / `vreach` /
   `stores` the deep level; an alias row says per level (object, atoms, bonds) whether a route hands out fresh values
   or the source's objects (`vst`), `vals_ok` demands fresh ones of the routes whose contract is a deep copy, `vedit` /
   `compile_vedit` is the in-place edit of such a value.  Deep-level proofs: Proofs/AliasVal.v.

   Locations are indices into a list of cells (nat = index).  All leaf values (element,
   label, a float, a dict key or value, a name ...) are opaque integers: the harness interns
   them per case, the property only ever compares them for equality. *)
From Coq Require Import List ZArith Bool Arith Lia.
Import ListNotations.

Definition loc := nat.

(* weak back pointer of an atom / bond *)
Inductive pref := PNone | PMissing (* the slot is unset: .parent raises *) | PTo (l : loc).

Definition dict := list (Z * Z).          (* insertion ordered, like a Python dict *)

Inductive cell :=
| CFree
| CDict (kv : dict) (vals : option loc)                         (* an attrib dictionary; `vals`: the store of the MUTABLE values it
                                                                   holds (kv has a content-free token for such a value) *)
| CArr (vals : list Z)                                          (* coordinates / charges / weights, flattened *)
| CAtom (pay : list Z) (att : loc) (par : pref)                 (* an Atom object *)
| CBond (a1 a2 : loc) (pay : list Z) (att : loc) (par : pref)   (* a Bond object *)
| CList (items : list loc)                                      (* the _atoms / _bonds list *)
| CMol (cls : Z) (scal : list Z) (atoms : loc) (bonds coords charges weights : option loc) (att : loc)
| CVal (content : list Z).   (* the mutable values held by ONE attrib dictionary -- lists, dicts, arrays and whatever mutable
                                objects are nested in them -- flattened to their leaves; edited in place, never rebound *)

Definition heap := list cell.
Definition get (h : heap) (l : loc) : cell := nth l h CFree.

Fixpoint upd (l : nat) (c : cell) (h : heap) : heap :=
  match h, l with
  | [], _ => []
  | _ :: r, O => c :: r
  | x :: r, S l' => x :: upd l' c r
  end.

Definition olist {A} (o : option A) : list A := match o with Some x => [x] | None => [] end.

(* strong (owning) pointers of a cell; parents are weak and not listed *)
Definition ptrs (c : cell) : list loc :=
  match c with
  | CAtom _ at_ _ => [at_]
  | CBond a1 a2 _ at_ _ => [a1; a2; at_]
  | CList l => l
  | CMol _ _ al bl co ch we at_ => al :: at_ :: olist bl ++ olist co ++ olist ch ++ olist we
  | _ => []
  end.

(* Two pointer notions.  `ptrs`: the containers the property names (an attrib dictionary is a leaf).  `vptrs`:
   the same plus the edge from an attrib dictionary to the store of its mutable values -- the deep notion, the
   one a route whose contract is a DEEP copy (pickle, copy.deepcopy) must separate. *)
Definition vptrs (c : cell) : list loc := match c with CDict _ v => olist v | _ => ptrs c end.

(* reach of fixed depth: the object, its lists, arrays and attrib dict, its atoms and bonds,
   their attrib dicts, the end atoms of its bonds and their dicts (depth 4 from a molecule) *)
Fixpoint reachN (n : nat) (h : heap) (l : loc) : list loc :=
  match n with
  | O => [l]
  | S n' => l :: flat_map (reachN n' h) (ptrs (get h l))
  end.
Definition reach (h : heap) (o : loc) : list loc := reachN 4 h o.
(* generic in the pointer notion; the deep reach goes one level further (dict -> store of its values) *)
Fixpoint greachN (P : cell -> list loc) (n : nat) (h : heap) (l : loc) : list loc :=
  match n with
  | O => [l]
  | S n' => l :: flat_map (greachN P n' h) (P (get h l))
  end.
Definition vreach (h : heap) (o : loc) : list loc := greachN vptrs 5 h o.

Definition mem (l : loc) (s : list loc) : bool := existsb (Nat.eqb l) s.
Definition disjointb (s1 s2 : list loc) : bool := forallb (fun l => negb (mem l s2)) s1.

(* typing by rank: every strong pointer goes to a cell of strictly smaller rank *)
Definition rank (c : cell) : nat :=
  match c with
  | CFree | CDict _ _ | CArr _ | CVal _ => 0 | CAtom _ _ _ => 1 | CBond _ _ _ _ _ => 2 | CList _ => 3
  | CMol _ _ _ _ _ _ _ _ => 4
  end.
Definition rankedb (h : heap) : bool :=
  forallb (fun c => forallb (fun p => (p <? length h) && (rank (get h p) <? rank c)) (ptrs c)) h.
Definition heap_wfb (h : heap) : bool :=
  forallb (fun c => forallb (fun p => p <? length h) (ptrs c)) h.
(* the deep typing: a store lies below the dictionary that holds it *)
Definition vrank (c : cell) : nat :=
  match c with
  | CFree | CArr _ | CVal _ => 0 | CDict _ _ => 1 | CAtom _ _ _ => 2 | CBond _ _ _ _ _ => 3 | CList _ => 4
  | CMol _ _ _ _ _ _ _ _ => 5
  end.
Definition vrankedb (h : heap) : bool :=
  forallb (fun c => forallb (fun p => (p <? length h) && (vrank (get h p) <? vrank c)) (vptrs c)) h.
Definition vheap_wfb (h : heap) : bool :=
  forallb (fun c => forallb (fun p => p <? length h) (vptrs c)) h.

(* ------------------------------------------------------------------ observation *)
Inductive pcls := QNone | QMissing | QSelf | QOther.
Definition pobs (o : loc) (p : pref) : pcls :=
  match p with PNone => QNone | PMissing => QMissing | PTo l => if Nat.eqb l o then QSelf else QOther end.

Definition dict_of (h : heap) (l : loc) : option dict := match get h l with CDict kv _ => Some kv | _ => None end.
Definition vals_of (h : heap) (l : loc) : option loc := match get h l with CDict _ v => v | _ => None end.
(* content of the mutable values an attrib dictionary holds (None: it holds none) *)
Definition store_of (h : heap) (d : loc) : option (list Z) :=
  match vals_of h d with
  | Some l => match get h l with CVal c => Some c | _ => None end
  | None => None
  end.
Definition arr_of (h : heap) (l : loc) : option (list Z) := match get h l with CArr v => Some v | _ => None end.
Definition items_of (h : heap) (l : loc) : list loc := match get h l with CList v => v | _ => [] end.
Definition oarr (h : heap) (ol : option loc) : option (list Z) :=
  match ol with Some l => arr_of h l | None => None end.

Fixpoint index_of (a : loc) (l : list loc) : option nat :=
  match l with
  | [] => None
  | x :: r => if Nat.eqb x a then Some O else option_map S (index_of a r)
  end.

Definition aobs := option (list Z * option dict * pcls)%type.
Definition bobs := option (option nat * option nat * list Z * option dict * pcls)%type.

Definition atom_obs (h : heap) (o a : loc) : aobs :=
  match get h a with CAtom p at_ par => Some (p, dict_of h at_, pobs o par) | _ => None end.
Definition bond_obs (h : heap) (o : loc) (atoms : list loc) (b : loc) : bobs :=
  match get h b with
  | CBond a1 a2 p at_ par => Some (index_of a1 atoms, index_of a2 atoms, p, dict_of h at_, pobs o par)
  | _ => None
  end.

Record obsr := mk_obs {
  o_cls : Z; o_scal : list Z; o_atoms : list aobs; o_bonds : option (list bobs);
  o_coords : option (list Z); o_charges : option (list Z); o_weights : option (list Z);
  o_attrib : option dict }.

Definition obs (h : heap) (o : loc) : option obsr :=
  match get h o with
  | CMol cls sc al bl co ch we at_ =>
      let atoms := items_of h al in
      Some (mk_obs cls sc (map (atom_obs h o) atoms)
              (option_map (fun l => map (bond_obs h o atoms) (items_of h l)) bl)
              (oarr h co) (oarr h ch) (oarr h we) (dict_of h at_))
  | _ => None
  end.

(* the DEEP part of the observation: what is stored in the mutable attribute values of the object, of its atoms
   and of its bonds (in that order) *)
Definition atom_store (h : heap) (a : loc) : option (list Z) :=
  match get h a with CAtom _ d _ => store_of h d | _ => None end.
Definition bond_store (h : heap) (b : loc) : option (list Z) :=
  match get h b with CBond _ _ _ d _ => store_of h d | _ => None end.
Record storesr := mk_stores { s_obj : option (list Z); s_atoms : list (option (list Z)); s_bonds : list (option (list Z)) }.
Definition stores (h : heap) (o : loc) : option storesr :=
  match get h o with
  | CMol _ _ al bl _ _ _ at_ =>
      Some (mk_stores (store_of h at_) (map (atom_store h) (items_of h al))
                      (match bl with Some l => map (bond_store h) (items_of h l) | None => [] end))
  | _ => None
  end.

(* parents are observed on each side, never compared across sides *)
Definition strip_a (a : aobs) : option (list Z * option dict) :=
  match a with Some (p, d, _) => Some (p, d) | None => None end.
Definition strip_b (b : bobs) : option (option nat * option nat * list Z * option dict) :=
  match b with Some (i, j, p, d, _) => Some (i, j, p, d) | None => None end.
Definition self_a (a : aobs) : bool := match a with Some (_, _, QSelf) => true | _ => false end.
Definition self_b (b : bobs) : bool := match b with Some (_, _, _, _, QSelf) => true | _ => false end.

(* ------------------------------------------------------------------ alias rows *)
Inductive st := Shared | Copied | Reset (* fresh and empty *) | Odd (* anything else *).
Inductive pst := RSelf | RNone | RMissing | RKeep (* still the source's parent *) | ROdd.
Inductive ast := AShared | ACopied | AGiven (* fresh, content not the source's *) | AAbsent.
(* the mutable VALUES held by a copied attrib dictionary: every one a fresh object with equal content / the very
   objects of the source (a one-level copy) / some of each / anything else (content differs) *)
Inductive vst := VFresh | VShared | VPart | VOdd.
Inductive est := ERemap (* ends are the new atoms at the same indices *) | EKeep (* ends are the source's atoms *) | EOdd.

Record bondrow := mk_brow { b_list : st; b_obj : st; b_attrib : st; b_parent : pst; b_ends : est; b_vals : vst }.
Record row := mk_row {
  r_alist : st; r_atom : st; r_aattrib : st; r_aparent : pst;
  r_bonds : option bondrow;
  r_coords : ast; r_charges : ast; r_weights : ast;
  r_attrib : st; r_scal : bool (* name / charge / mult kept *);
  r_avals : vst (* values in the atoms' attrib dicts *); r_vals : vst (* values in the object's attrib dict *) }.

(* content supplied by the route, not by the source (defaults, stacked or computed arrays) *)
Record given := mk_given { g_scal : list Z; g_coords : list Z; g_charges : list Z; g_weights : list Z }.

Fixpoint mapi_from {A B} (f : nat -> A -> B) (i : nat) (l : list A) : list B :=
  match l with [] => [] | x :: r => f i x :: mapi_from f (S i) r end.

(* Layout of the cells a copy allocates, base = length of the heap before the copy,
   n atoms, m bonds:  base root | +1 atom list | +2 bond list | +3 coords | +4 charges |
   +5 weights | +6 attrib | +7+j atom j | +7+n+j its dict | +7+2n+j bond j | +7+2n+m+j its dict |
   vb = +7+2n+2m: the store of the values of the object's attrib | vb+1+j that of atom j | vb+1+n+j that of bond j.
   A slot whose container is shared / absent holds CFree. *)
Definition new_parent (base : loc) (p : pst) (old : pref) : pref :=
  match p with RSelf => PTo base | RNone => PNone | RMissing => PMissing | RKeep => old | ROdd => PMissing end.

Definition val_loc (s : vst) (src : option loc) (fresh : loc) : option loc :=
  match src with
  | None => None
  | Some l => match s with VShared => Some l | _ => Some fresh end
  end.
Definition val_cell (h : heap) (s : vst) (src : option loc) : cell :=
  match s, src with
  | VFresh, Some l => match get h l with CVal c => CVal c | _ => CFree end
  | _, _ => CFree
  end.
(* a copied dictionary: the same keys and leaf values; its mutable values are the source's objects (VShared) or
   live in a store of its own at `fresh` *)
Definition dict_cell (h : heap) (s : st) (vs : vst) (src fresh : loc) : cell :=
  match s with
  | Copied => match get h src with CDict kv v => CDict kv (val_loc vs v fresh) | _ => CFree end
  | Reset => CDict [] None
  | _ => CFree
  end.
Definition store_cell (h : heap) (s : st) (vs : vst) (src : loc) : cell :=
  match s with Copied => val_cell h vs (vals_of h src) | _ => CFree end.
Definition dict_loc (s : st) (src fresh : loc) : loc := match s with Shared => src | _ => fresh end.

Definition arr_cell (h : heap) (s : ast) (src : option loc) (g : list Z) : cell :=
  match s with
  | ACopied => match oarr h src with Some v => CArr v | None => CFree end
  | AGiven => CArr g
  | _ => CFree
  end.
Definition arr_loc (s : ast) (src : option loc) (fresh : loc) : option loc :=
  match s with
  | AShared => src
  | ACopied => match src with Some _ => Some fresh | None => None end
  | AGiven => Some fresh
  | AAbsent => None
  end.

Definition new_atoms_of (r : row) (abase : loc) (atoms : list loc) : list loc :=
  match r_atom r with Copied => mapi_from (fun j _ => abase + j) 0 atoms | _ => atoms end.
Definition atom_cells (r : row) (h : heap) (base adbase : loc) (atoms : list loc) : list cell :=
  mapi_from (fun j a =>
    match r_atom r, get h a with
    | Copied, CAtom p d par => CAtom p (dict_loc (r_aattrib r) d (adbase + j)) (new_parent base (r_aparent r) par)
    | _, _ => CFree
    end) 0 atoms.
Definition adict_cells (r : row) (h : heap) (avbase : loc) (atoms : list loc) : list cell :=
  mapi_from (fun (j : nat) a =>
    match r_atom r, get h a with
    | Copied, CAtom p d par => dict_cell h (r_aattrib r) (r_avals r) d (avbase + j)
    | _, _ => CFree
    end) 0 atoms.
Definition astore_cells (r : row) (h : heap) (atoms : list loc) : list cell :=
  mapi_from (fun (j : nat) a =>
    match r_atom r, get h a with
    | Copied, CAtom p d par => store_cell h (r_aattrib r) (r_avals r) d
    | _, _ => CFree
    end) 0 atoms.
Definition remap (e : est) (atoms new_atoms : list loc) (a : loc) : loc :=
  match e with
  | ERemap => match index_of a atoms with Some i => nth i new_atoms a | None => a end
  | _ => a
  end.
Definition no_brow : bondrow := mk_brow Odd Odd Odd ROdd EOdd VOdd.
Definition brow_of (r : row) : bondrow := match r_bonds r with Some b => b | None => no_brow end.
Definition bond_cells (br : bondrow) (h : heap) (base bdbase : loc) (atoms new_atoms bonds : list loc) : list cell :=
  mapi_from (fun j b =>
    match b_obj br, get h b with
    | Copied, CBond a1 a2 p d par =>
        CBond (remap (b_ends br) atoms new_atoms a1) (remap (b_ends br) atoms new_atoms a2) p
              (dict_loc (b_attrib br) d (bdbase + j)) (new_parent base (b_parent br) par)
    | _, _ => CFree
    end) 0 bonds.
Definition bdict_cells (br : bondrow) (h : heap) (bvbase : loc) (bonds : list loc) : list cell :=
  mapi_from (fun (j : nat) b =>
    match b_obj br, get h b with
    | Copied, CBond a1 a2 p d par => dict_cell h (b_attrib br) (b_vals br) d (bvbase + j)
    | _, _ => CFree
    end) 0 bonds.
Definition bstore_cells (br : bondrow) (h : heap) (bonds : list loc) : list cell :=
  mapi_from (fun (j : nat) b =>
    match b_obj br, get h b with
    | Copied, CBond a1 a2 p d par => store_cell h (b_attrib br) (b_vals br) d
    | _, _ => CFree
    end) 0 bonds.
Definition new_bonds_of (br : bondrow) (bbase : loc) (bonds : list loc) : list loc :=
  match b_obj br with Copied => mapi_from (fun j _ => bbase + j) 0 bonds | _ => bonds end.
(* the real constructors look every bond end up in a map keyed by the source's atoms: KeyError otherwise *)
Definition ends_found (h : heap) (atoms bonds : list loc) : bool :=
  forallb (fun b => match get h b with
                    | CBond a1 a2 _ _ _ =>
                        match index_of a1 atoms, index_of a2 atoms with Some _, Some _ => true | _, _ => false end
                    | _ => true end) bonds.
Definition alist_loc_of (r : row) (al base : loc) : loc := match r_alist r with Shared => al | _ => base + 1 end.
Definition alist_cell_of (r : row) (new_atoms : list loc) : cell :=
  match r_alist r with Shared => CFree | _ => CList new_atoms end.
Definition blist_loc_of (r : row) (bl : option loc) (base : loc) : option loc :=
  match r_bonds r with
  | None => None
  | Some b => match b_list b, bl with Shared, Some l => Some l | _, _ => Some (base + 2) end
  end.
Definition blist_cell_of (r : row) (bl : option loc) (new_bonds : list loc) : cell :=
  match r_bonds r with
  | None => CFree
  | Some b => match b_list b, bl with Shared, Some _ => CFree | _, _ => CList new_bonds end
  end.

Definition copy_row (r : row) (g : given) (dcls : Z) (h : heap) (o : loc) : option (heap * loc) :=
  match get h o with
  | CMol _ sc al bl co ch we at_ =>
      let base := length h in
      let atoms := items_of h al in
      let n := length atoms in
      let bonds := match bl with Some l => items_of h l | None => [] end in
      let m := length bonds in
      let abase := base + 7 in
      let adbase := abase + n in
      let bbase := adbase + n in
      let bdbase := bbase + m in
      let vbase := bdbase + m in
      let new_atoms := new_atoms_of r abase atoms in
      let br := brow_of r in
      let root := CMol dcls (if r_scal r then sc else g_scal g) (alist_loc_of r al base) (blist_loc_of r bl base)
                       (arr_loc (r_coords r) co (base + 3)) (arr_loc (r_charges r) ch (base + 4))
                       (arr_loc (r_weights r) we (base + 5)) (dict_loc (r_attrib r) at_ (base + 6)) in
      if match b_ends br with ERemap => negb (ends_found h atoms bonds) | _ => false end then None else
      Some (h ++ [root; alist_cell_of r new_atoms; blist_cell_of r bl (new_bonds_of br bbase bonds);
                  arr_cell h (r_coords r) co (g_coords g); arr_cell h (r_charges r) ch (g_charges g);
                  arr_cell h (r_weights r) we (g_weights g); dict_cell h (r_attrib r) (r_vals r) at_ vbase]
              ++ atom_cells r h base adbase atoms ++ adict_cells r h (vbase + 1) atoms
              ++ bond_cells br h base bdbase atoms new_atoms bonds ++ bdict_cells br h (vbase + 1 + n) bonds
              ++ (store_cell h (r_attrib r) (r_vals r) at_ :: astore_cells r h atoms ++ bstore_cells br h bonds), base)
  | _ => None
  end.

(* ------------------------------------------------------------------ what a route must deliver *)
(* fields of the source that the copy has to reproduce (those both classes have) *)
Record need := mk_need { n_bonds : bool; n_coords : bool; n_charges : bool; n_weights : bool; n_scal : bool; n_attrib : bool }.

Definition st_copied (s : st) : bool := match s with Copied => true | _ => false end.
Definition pst_self (s : pst) : bool := match s with RSelf => true | _ => false end.
Definition ast_copied (s : ast) : bool := match s with ACopied => true | _ => false end.
Definition ast_fresh (s : ast) : bool := match s with AShared => false | _ => true end.
Definition st_fresh (s : st) : bool := match s with Copied | Reset => true | _ => false end.

Definition atoms_ok (r : row) : bool :=
  st_copied (r_alist r) && st_copied (r_atom r) && st_copied (r_aattrib r) && pst_self (r_aparent r).
Definition brow_ok (b : bondrow) : bool :=
  st_copied (b_list b) && st_copied (b_obj b) && st_copied (b_attrib b) && pst_self (b_parent b)
  && match b_ends b with ERemap => true | _ => false end.
Definition bonds_ok (r : row) : bool := match r_bonds r with Some b => brow_ok b | None => false end.

(* no container of the source is a container of the result *)
Definition row_indep (r : row) : bool :=
  st_copied (r_alist r) && st_copied (r_atom r) && st_fresh (r_aattrib r)
  && match r_aparent r with RSelf | RNone => true | _ => false end
  && match r_bonds r with
     | None => true
     | Some b => st_copied (b_list b) && st_copied (b_obj b) && st_fresh (b_attrib b)
                 && match b_parent b with RSelf | RNone => true | _ => false end
                 && match b_ends b with ERemap => true | _ => false end
     end
  && ast_fresh (r_coords r) && ast_fresh (r_charges r) && ast_fresh (r_weights r) && st_fresh (r_attrib r).

Definition row_faithful (nd : need) (r : row) : bool :=
  atoms_ok r
  && (negb (n_bonds nd) || bonds_ok r)
  && (negb (n_coords nd) || ast_copied (r_coords r))
  && (negb (n_charges nd) || ast_copied (r_charges r))
  && (negb (n_weights nd) || ast_copied (r_weights r))
  && (negb (n_scal nd) || r_scal r)
  && (negb (n_attrib nd) || st_copied (r_attrib r))
  (* a bond table the result has although nothing required it must still be sound *)
  && match r_bonds r with Some b => brow_ok b | None => true end.

Definition row_ok (nd : need) (r : row) : bool := row_indep r && row_faithful nd r.

(* the mutable VALUES stored in the attribute dictionaries (object, atoms, bonds).  A route whose contract is a deep
   copy must hand out values of its own at every level; a one-level route (copy constructor, evolve, and what is built
   from evolved atoms: concatenate, join, ensemble-from-list) may hand out the source's value objects, but never values
   with another content. *)
Definition vst_fresh (s : vst) : bool := match s with VFresh => true | _ => false end.
Definition vst_ok (deep : bool) (s : vst) : bool :=
  match s with VFresh => true | VShared | VPart => negb deep | VOdd => false end.
Definition vals_ok (deep : bool) (r : row) : bool :=
  vst_ok deep (r_vals r) && vst_ok deep (r_avals r)
  && match r_bonds r with Some b => vst_ok deep (b_vals b) | None => true end.
(* deep independence: nothing of the source is reachable from the result, attribute values included *)
Definition vrow_indep (r : row) : bool := row_indep r && vals_ok true r.

(* ------------------------------------------------------------------ classes, routes, the specification *)
Inductive kls := KPromolecule | KConnectivity | KGeometry | KStructure | KMolecule | KEnsemble | KConformer
               | KAtom | KBond.
(* keyword arguments of a copy-constructor call that replace a field of the source:
   dst(source, name=..., charge=..., mult=..., coords=..., atomic_charges=..., weights=...) *)
Record ovr := mk_ovr { v_name : bool; v_charge : bool; v_mult : bool; v_coords : bool; v_charges : bool; v_weights : bool }.
Definition ovr_eqb (a b : ovr) : bool :=
  Bool.eqb (v_name a) (v_name b) && Bool.eqb (v_charge a) (v_charge b) && Bool.eqb (v_mult a) (v_mult b)
  && Bool.eqb (v_coords a) (v_coords b) && Bool.eqb (v_charges a) (v_charges b) && Bool.eqb (v_weights a) (v_weights b).
Definition ovr_scal (v : ovr) : bool := v_name v || v_charge v || v_mult v.
Definition ovr_mask (v : ovr) : list bool := [v_name v; v_charge v; v_mult v].   (* order of the scal list *)

Inductive route :=
| RCtor (dst : kls)      (* dst(source) *)
| RCtorWith (dst : kls) (v : ovr)   (* dst(source, <the keyword arguments named by v>) *)
| REvolve                (* Atom.evolve / Bond.evolve *)
| RPickle | RDeepcopy
| RConcat (dst : kls) (k : nat)    (* dst.concatenate of k sources *)
| RJoin (dst : kls)
| REnsFromList.

(* routes whose contract is a DEEP copy: the pickle round trip and copy.deepcopy *)
Definition deep_route (r : route) : bool := match r with RPickle | RDeepcopy => true | _ => false end.

Definition kls_code (k : kls) : Z :=
  match k with KPromolecule => 1 | KConnectivity => 2 | KGeometry => 3 | KStructure => 4 | KMolecule => 5
             | KEnsemble => 6 | KConformer => 7 | KAtom => 8 | KBond => 9 end%Z.
Definition kls_eqb (a b : kls) : bool := Z.eqb (kls_code a) (kls_code b).

Definition has_bonds (k : kls) : bool :=
  match k with KConnectivity | KStructure | KMolecule | KEnsemble | KConformer => true | _ => false end.
Definition has_coords (k : kls) : bool :=
  match k with KGeometry | KStructure | KMolecule | KConformer => true | _ => false end.
Definition has_charges (k : kls) : bool := match k with KMolecule | KConformer => true | _ => false end.
Definition is_ens (k : kls) : bool := match k with KEnsemble => true | _ => false end.

(* class of the result of a route applied to a source of class k *)
Definition dst_of (k : kls) (r : route) : kls :=
  match r with
  | RCtor d | RCtorWith d _ | RConcat d _ | RJoin d => d
  | REnsFromList => KEnsemble
  | _ => k
  end.

(* The specification, written from the property text: a copy reproduces every field both classes
   have; a derived molecule (concatenate / join / ensemble-from-list) reproduces its sources' atoms and
   bonds and partial charges -- and, for concatenate, coordinates; a join computes new
   coordinates; name / charge / multiplicity / attributes of a derived molecule are its own. *)
Definition copy_need (k d : kls) : need :=
  if is_ens k || is_ens d then
    let both := is_ens k && is_ens d in
    mk_need (has_bonds k && has_bonds d) both both both true true
  else
    mk_need (has_bonds k && has_bonds d) (has_coords k && has_coords d) (has_charges k && has_charges d)
            false true true.
(* a field replaced by a keyword argument is not the source's any more; everything else still is.
   (name / charge / mult live in one list: the kept ones are pinned by `pick_scal` below.)
   Independence is NOT relaxed: `row_indep` does not look at the need. *)
Definition mask_ovr (v : ovr) (nd : need) : need :=
  mk_need (n_bonds nd) (n_coords nd && negb (v_coords v)) (n_charges nd && negb (v_charges v))
          (n_weights nd && negb (v_weights v)) (n_scal nd && negb (ovr_scal v)) (n_attrib nd).
Definition need_of (k : kls) (r : route) : need :=
  let d := dst_of k r in
  match r with
  | RConcat _ _ => mk_need true true (has_charges k && has_charges d) false false false
  | RJoin _ => mk_need true false (has_charges k && has_charges d) false false false
  | REnsFromList => mk_need true false false false true true
  | REvolve => mk_need false false false false false false
  | RCtorWith _ v => mask_ovr v (copy_need k d)
  | _ => copy_need k d
  end.

Definition route_eqb (a b : route) : bool :=
  match a, b with
  | RCtor x, RCtor y => kls_eqb x y
  | RCtorWith x v, RCtorWith y w => kls_eqb x y && ovr_eqb v w
  | REvolve, REvolve | RPickle, RPickle | RDeepcopy, RDeepcopy | REnsFromList, REnsFromList => true
  | RConcat x i, RConcat y j => kls_eqb x y && Nat.eqb i j
  | RJoin x, RJoin y => kls_eqb x y
  | _, _ => false
  end.

Definition entry := (kls * route * row)%type.
Definition lookup_row (t : list entry) (k : kls) (r : route) : option row :=
  match find (fun e => match e with (k', r', _) => kls_eqb k k' && route_eqb r r' end) t with
  | Some (_, _, x) => Some x
  | None => None
  end.

(* Atom / Bond objects copied on their own: the object and its attrib dict are fresh and equal; a
   lone copy has no owner (or, for evolve, still names the source's owner); a pickled / deep-copied
   bond brings copies of its end atoms, an evolved bond keeps the same end atoms (a bond does not
   own its atoms). *)
Definition lone (k : kls) : bool := match k with KAtom | KBond => true | _ => false end.
Definition lone_ok (k : kls) (r : route) (x : row) : bool :=
  match k with
  | KAtom => st_copied (r_atom x) && st_copied (r_aattrib x)
             && match r_aparent x with RNone | RKeep => true | _ => false end
  | KBond => match r_bonds x with
             | Some b => st_copied (b_obj b) && st_copied (b_attrib b)
                         && match b_parent b with RNone | RKeep => true | _ => false end
                         && match b_ends b, r with
                            | ERemap, _ => true
                            | EKeep, REvolve => true
                            | _, _ => false
                            end
             | None => false
             end
  | _ => false
  end.

(* known findings are excluded BY NAME: (class, route, field) -- see Props/C06.v *)
Inductive fld := FBonds | FCoords | FCharges | FWeights | FScal | FAttrib.
Definition mask (nd : need) (f : fld) : need :=
  match f with
  | FBonds => mk_need false (n_coords nd) (n_charges nd) (n_weights nd) (n_scal nd) (n_attrib nd)
  | FCoords => mk_need (n_bonds nd) false (n_charges nd) (n_weights nd) (n_scal nd) (n_attrib nd)
  | FCharges => mk_need (n_bonds nd) (n_coords nd) false (n_weights nd) (n_scal nd) (n_attrib nd)
  | FWeights => mk_need (n_bonds nd) (n_coords nd) (n_charges nd) false (n_scal nd) (n_attrib nd)
  | FScal => mk_need (n_bonds nd) (n_coords nd) (n_charges nd) (n_weights nd) false (n_attrib nd)
  | FAttrib => mk_need (n_bonds nd) (n_coords nd) (n_charges nd) (n_weights nd) (n_scal nd) false
  end.
Definition known_t := list (kls * route * fld).
Definition need_known (known : known_t) (k : kls) (r : route) : need :=
  fold_left (fun nd e => match e with (k', r', f) => if kls_eqb k k' && route_eqb r r' then mask nd f else nd end)
            known (need_of k r).

Definition entry_ok (known : known_t) (e : entry) : bool :=
  match e with (k, r, x) =>
    (if lone k then lone_ok k r x else row_ok (need_known known k r) x) && vals_ok (deep_route r) x
  end.

(* the routes every table must contain: same-class copies of the six constructible classes,
   pickle and deepcopy of all seven, evolve of atoms and bonds, the derived-molecule routes *)
Definition copyable : list kls := [KPromolecule; KConnectivity; KGeometry; KStructure; KMolecule; KEnsemble].
Definition sources : list kls := copyable ++ [KConformer].
(* keyword overrides: which a class accepts; every single one and all of them together *)
Definition takes_coords (d : kls) : bool := match d with KGeometry | KStructure | KMolecule | KEnsemble => true | _ => false end.
Definition takes_charges (d : kls) : bool := match d with KMolecule | KEnsemble => true | _ => false end.
Definition ovr_applies (d : kls) (v : ovr) : bool :=
  (negb (v_coords v) || takes_coords d) && (negb (v_charges v) || takes_charges d) && (negb (v_weights v) || is_ens d).
Definition ovr_all (d : kls) : ovr := mk_ovr true true true (takes_coords d) (takes_charges d) (is_ens d).
Definition ovr_singles : list ovr :=
  [mk_ovr true false false false false false; mk_ovr false true false false false false;
   mk_ovr false false true false false false; mk_ovr false false false true false false;
   mk_ovr false false false false true false; mk_ovr false false false false false true].
Definition ovr_sets (d : kls) : list ovr := ovr_all d :: filter (ovr_applies d) ovr_singles.
Definition required_with : list (kls * route) :=
  flat_map (fun k => map (fun v => (k, RCtorWith k v)) (ovr_sets k)) copyable
  ++ map (fun v => (KConformer, RCtorWith KMolecule v)) (ovr_sets KMolecule)
  ++ map (fun v => (KMolecule, RCtorWith KStructure v)) (ovr_sets KStructure)
  ++ map (fun v => (KStructure, RCtorWith KMolecule v)) (ovr_sets KMolecule)
  ++ map (fun v => (KMolecule, RCtorWith KEnsemble v)) (ovr_sets KEnsemble)
  ++ map (fun v => (KConformer, RCtorWith KEnsemble v)) (ovr_sets KEnsemble).

Definition required : list (kls * route) :=
  required_with ++
  map (fun k => (k, RCtor k)) copyable
  ++ [(KConformer, RCtor KMolecule); (KMolecule, RCtor KStructure); (KStructure, RCtor KMolecule)]
  ++ map (fun k => (k, RPickle)) sources ++ map (fun k => (k, RDeepcopy)) sources
  ++ [(KAtom, REvolve); (KBond, REvolve); (KAtom, RPickle); (KBond, RPickle); (KAtom, RDeepcopy); (KBond, RDeepcopy)]
  ++ [(KStructure, RConcat KStructure 2); (KMolecule, RConcat KMolecule 2); (KMolecule, RConcat KMolecule 1);
      (KMolecule, RConcat KMolecule 3);
      (KStructure, RJoin KStructure); (KMolecule, RJoin KMolecule);
      (KMolecule, REnsFromList); (KConformer, REnsFromList)].

Definition table_complete (t : list entry) : bool :=
  forallb (fun kr => match lookup_row t (fst kr) (snd kr) with Some _ => true | None => false end) required.

Definition table_ok (known : known_t) (t : list entry) : bool :=
  table_complete t && forallb (entry_ok known) t.

(* ------------------------------------------------------------------ mutations *)
Inductive prim := PWrite (l : loc) (c : cell) | PAlloc (c : cell).
Definition apply_prim (h : heap) (p : prim) : heap :=
  match p with PWrite l c => upd l c h | PAlloc c => h ++ [c] end.
Definition apply_prims (h : heap) (ps : list prim) : heap := fold_left apply_prim ps h.

(* A mutation made THROUGH an object may write the containers of a region (those it can reach)
   and allocate; what it stores may point into the region or to what it allocated. *)
Fixpoint prims_okb (region : list loc) (h : heap) (ps : list prim) : bool :=
  match ps with
  | [] => true
  | PWrite l c :: r =>
      mem l region && forallb (fun p => mem p region) (ptrs c) && prims_okb region (upd l c h) r
  | PAlloc c :: r =>
      forallb (fun p => mem p region || Nat.eqb p (length h)) (ptrs c)
      && prims_okb (length h :: region) (h ++ [c]) r
  end.

(* the menu of elementary edits, resolved through the root object *)
Inductive op :=
| OAtomPay (j : nat) (p : list Z)            (* atoms[j].<field> = v *)
| OBondPay (j : nat) (p : list Z)            (* bonds[j].<field> = v *)
| OCoord (i : nat) (v : Z)                   (* coords.flat[i] = v   (in place) *)
| OCharge (i : nat) (v : Z)                  (* atomic_charges.flat[i] = v *)
| OWeight (i : nat) (v : Z)
| OAttrib (kv : dict)                        (* attrib[k] = v / del attrib[k]: new content of the same dict *)
| OAtomAttrib (j : nat) (kv : dict)
| OBondAttrib (j : nat) (kv : dict)
| OScal (s : list Z).                        (* name / charge / mult rebinding *)

Fixpoint set_nth {A} (i : nat) (v : A) (l : list A) : list A :=
  match l, i with
  | [], _ => []
  | _ :: r, O => v :: r
  | x :: r, S i' => x :: set_nth i' v r
  end.

Definition compile_op (h : heap) (o : loc) (x : op) : option (list prim) :=
  match get h o with
  | CMol cls sc al bl co ch we at_ =>
      match x with
      | OAtomPay j p =>
          match nth_error (items_of h al) j with
          | Some a => match get h a with CAtom _ d par => Some [PWrite a (CAtom p d par)] | _ => None end
          | None => None
          end
      | OBondPay j p =>
          match bl with
          | Some l => match nth_error (items_of h l) j with
                      | Some b => match get h b with
                                  | CBond a1 a2 _ d par => Some [PWrite b (CBond a1 a2 p d par)]
                                  | _ => None end
                      | None => None
                      end
          | None => None
          end
      | OCoord i v => match co with
                      | Some l => match get h l with CArr vs => Some [PWrite l (CArr (set_nth i v vs))] | _ => None end
                      | None => None end
      | OCharge i v => match ch with
                       | Some l => match get h l with CArr vs => Some [PWrite l (CArr (set_nth i v vs))] | _ => None end
                       | None => None end
      | OWeight i v => match we with
                       | Some l => match get h l with CArr vs => Some [PWrite l (CArr (set_nth i v vs))] | _ => None end
                       | None => None end
      | OAttrib kv => match get h at_ with CDict _ v => Some [PWrite at_ (CDict kv v)] | _ => None end
      | OAtomAttrib j kv =>
          match nth_error (items_of h al) j with
          | Some a => match get h a with
                      | CAtom _ d _ => match get h d with CDict _ v => Some [PWrite d (CDict kv v)] | _ => None end
                      | _ => None end
          | None => None
          end
      | OBondAttrib j kv =>
          match bl with
          | Some l => match nth_error (items_of h l) j with
                      | Some b => match get h b with
                                  | CBond _ _ _ d _ => match get h d with CDict _ v => Some [PWrite d (CDict kv v)] | _ => None end
                                  | _ => None end
                      | None => None
                      end
          | None => None
          end
      | OScal s => Some [PWrite o (CMol cls s al bl co ch we at_)]
      end
  | _ => None
  end.

(* in-place edits of a mutable attribute VALUE (arr *= 2, lst.append(x), d[k] = v on a value stored under some key of
   the object's / an atom's / a bond's attrib dictionary): the dictionary itself is not touched, the store changes *)
Inductive vwhere := WObj | WAtom (j : nat) | WBond (j : nat).
Inductive vedit := VEdit (w : vwhere) (c : list Z).
Definition dict_at (h : heap) (o : loc) (w : vwhere) : option loc :=
  match get h o with
  | CMol _ _ al bl _ _ _ at_ =>
      match w with
      | WObj => Some at_
      | WAtom j => match nth_error (items_of h al) j with
                   | Some a => match get h a with CAtom _ d _ => Some d | _ => None end
                   | None => None end
      | WBond j => match bl with
                   | Some l => match nth_error (items_of h l) j with
                               | Some b => match get h b with CBond _ _ _ d _ => Some d | _ => None end
                               | None => None end
                   | None => None end
      end
  | _ => None
  end.
Definition compile_vedit (h : heap) (o : loc) (e : vedit) : option (list prim) :=
  match e with
  | VEdit w c =>
      match dict_at h o w with
      | Some d => match vals_of h d with
                  | Some l => match get h l with CVal _ => Some [PWrite l (CVal c)] | _ => None end
                  | None => None end
      | None => None
      end
  end.

(* the footprint discipline, generic in the pointer notion *)
Fixpoint gprims_okb (P : cell -> list loc) (region : list loc) (h : heap) (ps : list prim) : bool :=
  match ps with
  | [] => true
  | PWrite l c :: r =>
      mem l region && forallb (fun p => mem p region) (P c) && gprims_okb P region (upd l c h) r
  | PAlloc c :: r =>
      forallb (fun p => mem p region || Nat.eqb p (length h)) (P c)
      && gprims_okb P (length h :: region) (h ++ [c]) r
  end.
Definition vprims_okb := gprims_okb vptrs.

(* ------------------------------------------------------------------ decidable equalities (for the correspondence check) *)
Fixpoint list_eqb {A} (e : A -> A -> bool) (a b : list A) : bool :=
  match a, b with
  | [], [] => true
  | x :: r, y :: s => e x y && list_eqb e r s
  | _, _ => false
  end.
Definition opt_eqb {A} (e : A -> A -> bool) (a b : option A) : bool :=
  match a, b with Some x, Some y => e x y | None, None => true | _, _ => false end.
Definition zz_eqb (a b : Z * Z) : bool := Z.eqb (fst a) (fst b) && Z.eqb (snd a) (snd b).
Definition dict_eqb : dict -> dict -> bool := list_eqb zz_eqb.
Definition zs_eqb : list Z -> list Z -> bool := list_eqb Z.eqb.
Definition pref_eqb (a b : pref) : bool :=
  match a, b with PNone, PNone | PMissing, PMissing => true | PTo x, PTo y => Nat.eqb x y | _, _ => false end.
Definition pcls_eqb (a b : pcls) : bool :=
  match a, b with QNone, QNone | QMissing, QMissing | QSelf, QSelf | QOther, QOther => true | _, _ => false end.
Definition oloc_eqb := opt_eqb Nat.eqb.

Definition cell_eqb (a b : cell) : bool :=
  match a, b with
  | CFree, CFree => true
  | CDict x v, CDict y w => dict_eqb x y && oloc_eqb v w
  | CVal x, CVal y => zs_eqb x y
  | CArr x, CArr y => zs_eqb x y
  | CAtom p d q, CAtom p' d' q' => zs_eqb p p' && Nat.eqb d d' && pref_eqb q q'
  | CBond a b p d q, CBond a' b' p' d' q' =>
      Nat.eqb a a' && Nat.eqb b b' && zs_eqb p p' && Nat.eqb d d' && pref_eqb q q'
  | CList x, CList y => list_eqb Nat.eqb x y
  | CMol c s al bl co ch we d, CMol c' s' al' bl' co' ch' we' d' =>
      Z.eqb c c' && zs_eqb s s' && Nat.eqb al al' && oloc_eqb bl bl' && oloc_eqb co co' && oloc_eqb ch ch'
      && oloc_eqb we we' && Nat.eqb d d'
  | _, _ => false
  end.
Definition heap_eqb : heap -> heap -> bool := list_eqb cell_eqb.

Definition aobs_eqb (a b : aobs) : bool :=
  opt_eqb (fun x y => match x, y with (p, d, q), (p', d', q') =>
                        zs_eqb p p' && opt_eqb dict_eqb d d' && pcls_eqb q q' end) a b.
Definition bobs_eqb (a b : bobs) : bool :=
  opt_eqb (fun x y => match x, y with (i, j, p, d, q), (i', j', p', d', q') =>
                        opt_eqb Nat.eqb i i' && opt_eqb Nat.eqb j j' && zs_eqb p p' && opt_eqb dict_eqb d d'
                        && pcls_eqb q q' end) a b.
Definition obsr_eqb (a b : obsr) : bool :=
  Z.eqb (o_cls a) (o_cls b) && zs_eqb (o_scal a) (o_scal b) && list_eqb aobs_eqb (o_atoms a) (o_atoms b)
  && opt_eqb (list_eqb bobs_eqb) (o_bonds a) (o_bonds b)
  && opt_eqb zs_eqb (o_coords a) (o_coords b) && opt_eqb zs_eqb (o_charges a) (o_charges b)
  && opt_eqb zs_eqb (o_weights a) (o_weights b) && opt_eqb dict_eqb (o_attrib a) (o_attrib b).
Definition obs_eqb := opt_eqb obsr_eqb.
Definition ozs_eqb := opt_eqb zs_eqb.
Definition storesr_eqb (a b : storesr) : bool :=
  ozs_eqb (s_obj a) (s_obj b) && list_eqb ozs_eqb (s_atoms a) (s_atoms b) && list_eqb ozs_eqb (s_bonds a) (s_bonds b).
Definition stores_eqb := opt_eqb storesr_eqb.

(* ------------------------------------------------------------------ correspondence case (tie H) *)
Record case := mk_case {
  c_kls : kls; c_route : route; c_given : given;
  c_h0 : heap;                          (* the sources (and, for derived molecules, their union object) *)
  c_root : loc;                         (* what is copied *)
  c_h1 : heap;                          (* every tracked container re-read after the copy, the result's in layout order *)
  c_watch1 : list (loc * option obsr);  (* objects observed directly on the implementation after the copy *)
  c_mut : loc;                          (* the object the mutation goes through *)
  c_op : option op;                     (* an elementary edit of the menu, or None for a library routine *)
  c_vop : option vedit;                 (* an in-place edit of an attribute value (then c_op = None) *)
  c_prims : list prim;                  (* the containers that changed, as re-read after the mutation *)
  c_watch2 : list (loc * option obsr);
  c_deep1 : list (loc * option storesr);   (* the attribute values of the watched objects, read directly after the copy *)
  c_deep2 : list (loc * option storesr) }. (* ... and after the mutation *)

Definition watch_ok (h : heap) (w : list (loc * option obsr)) : bool :=
  forallb (fun lo => obs_eqb (obs h (fst lo)) (snd lo)) w.
Definition deep_ok (h : heap) (w : list (loc * option storesr)) : bool :=
  forallb (fun lo => stores_eqb (stores h (fst lo)) (snd lo)) w.

(* ------------------------------------------------------------------ copy with keyword overrides *)
(* name / charge / mult of dst(source, ...): a named one takes the value of the keyword argument, every other
   one is the source's.  sc = the source's list, gs = the values of the call (positions not named are ignored). *)
Fixpoint pick_scal (mask : list bool) (sc gs : list Z) {struct sc} : list Z :=
  match sc with
  | [] => []
  | s :: sr =>
      match mask with
      | [] => s :: sr
      | b :: mr => (if b then match gs with g :: _ => g | [] => s end else s) :: pick_scal mr sr (tl gs)
      end
  end.
(* what the call supplies: for a route with overrides the `given` record carries the keyword arguments of
   the call (NOT what was read back from the result): the arrays as passed, the scalars merged by pick_scal *)
Definition given_for (rt : route) (sc : list Z) (g : given) : given :=
  match rt with
  | RCtorWith _ v => mk_given (pick_scal (ovr_mask v) sc (g_scal g)) (g_coords g) (g_charges g) (g_weights g)
  | _ => g
  end.
Definition copy_route (rt : route) (r : row) (g : given) (dcls : Z) (h : heap) (o : loc) : option (heap * loc) :=
  match get h o with
  | CMol _ sc _ _ _ _ _ _ => copy_row r (given_for rt sc g) dcls h o
  | _ => None
  end.

Definition check_case (t : list entry) (c : case) : bool :=
  match lookup_row t (c_kls c) (c_route c) with
  | None => false
  | Some r =>
    match copy_route (c_route c) r (c_given c) (kls_code (dst_of (c_kls c) (c_route c))) (c_h0 c) (c_root c) with
    | None => false
    | Some (h1, o') =>
        heap_eqb h1 (c_h1 c) && watch_ok h1 (c_watch1 c) && deep_ok h1 (c_deep1 c)
        && rankedb h1 && vrankedb h1
        && let h2 := apply_prims h1 (c_prims c) in
           (* a mutation through an object only writes what that object reaches; only an in-place edit of an
              attribute value goes beyond the containers (into the store of the dictionary that holds the value) *)
           (match c_vop c with None => prims_okb (reach h1 (c_mut c)) h1 (c_prims c) | Some _ => true end)
           && vprims_okb (vreach h1 (c_mut c)) h1 (c_prims c)
           && watch_ok h2 (c_watch2 c) && deep_ok h2 (c_deep2 c)
           && match c_vop c with
              | None => true
              | Some e => match compile_vedit h1 (c_mut c) e with
                          | Some ps => heap_eqb (apply_prims h1 ps) h2
                          | None => false
                          end
              end
           && match c_op c with
              | None => true
              | Some x => match compile_op h1 (c_mut c) x with
                          | Some ps => heap_eqb (apply_prims h1 ps) h2
                          | None => false
                          end
              end
    end
  end.
