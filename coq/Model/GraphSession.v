(* C15: a SESSION on one molecular graph object -- queries, edits made in place, queries again.
   The property speaks of "any molecular graph": the graph an object holds NOW, whatever was asked of it before
   and however it got there.  A session keeps ONE host object (and a few pattern objects), edits them in place
   (attribute assignment on an atom / a bond, connect, del_bond, append_atom/add_atom, del_atom) and asks the graph
   queries of Model/Graph.v and the matching of Model/Match.v at any point in between; every answer must be the
   model's answer on the state reached by the edits made so far -- nothing may depend on an earlier query.
   NO proofs in this file. *)
From Coq Require Import Arith List Bool NArith QArith.
From Molli Require Import Model.Graph Model.Match.
Import ListNotations.
Open Scope nat_scope.

(* atoms with the attributes matching looks at; bonds with those attributes and Bond.f_order *)
Record sstate := mk_sstate { ss_atoms : list matom; ss_bonds : list (mbond * Q) }.

Definition ss_mgraph (s : sstate) : mgraph := mk_mgraph (ss_atoms s) (map fst (ss_bonds s)).
Definition ss_graph (s : sstate) : graph := map (fun bf => (mb_a1 (fst bf), mb_a2 (fst bf))) (ss_bonds s).
Definition ss_types (s : sstate) : list (N * Q) := map (fun bf => (mb_btype (fst bf), snd bf)) (ss_bonds s).

Fixpoint remove_nth {A} (i : nat) (l : list A) : list A :=
  match l, i with
  | [], _ => []
  | _ :: r, O => r
  | x :: r, S i' => x :: remove_nth i' r
  end.
Fixpoint upd_nth {A} (i : nat) (f : A -> A) (l : list A) : list A :=
  match l, i with
  | [], _ => []
  | x :: r, O => f x :: r
  | x :: r, S i' => x :: upd_nth i' f r
  end.

(* list.remove(atom): the atoms behind it move one place down *)
Definition shift_down (a x : nat) : nat := if a <? x then pred x else x.
Definition renumber (a : nat) (b : mbond) : mbond :=
  mk_mbond (shift_down a (mb_a1 b)) (shift_down a (mb_a2 b)) (mb_btype b) (mb_stereo b) (mb_label b).
Definition retype (bt st : N) (lab : option N) (b : mbond) : mbond := mk_mbond (mb_a1 b) (mb_a2 b) bt st lab.

Inductive sedit :=
| EConnect (b : mbond) (f : Q)        (* m.connect(a1, a2, btype=, stereo=, label=, f_order=): appended to the bond list *)
| EDelBond (i : nat)                  (* m.del_bond(m.bonds[i]) *)
| EAddAtom (a : matom)                (* m.append_atom(Atom(..)) / Molecule.add_atom(Atom(..), xyz) *)
| EDelAtom (a : nat)                  (* m.del_atom(a): its bonds go, later atoms move down *)
| ESetAtom (i : nat) (a : matom)      (* m.atoms[i].element = ..; .isotope = ..; .stereo = ..; .atype = ..   (in place) *)
| ESetBond (i : nat) (bt st : N) (lab : option N) (f : Q).   (* m.bonds[i].btype = ..; .stereo; .label; .f_order (in place) *)

Definition apply_edit (e : sedit) (s : sstate) : sstate :=
  match e with
  | EConnect b f => mk_sstate (ss_atoms s) (ss_bonds s ++ [(b, f)])
  | EDelBond i => mk_sstate (ss_atoms s) (remove_nth i (ss_bonds s))
  | EAddAtom a => mk_sstate (ss_atoms s ++ [a]) (ss_bonds s)
  | EDelAtom a =>
      mk_sstate (remove_nth a (ss_atoms s))
                (map (fun bf => (renumber a (fst bf), snd bf))
                     (filter (fun bf => negb (bond_has (mb_a1 (fst bf), mb_a2 (fst bf)) a)) (ss_bonds s)))
  | ESetAtom i a => mk_sstate (upd_nth i (fun _ => a) (ss_atoms s)) (ss_bonds s)
  | ESetBond i bt st lab f => mk_sstate (ss_atoms s) (upd_nth i (fun bf => (retype bt st lab (fst bf), f)) (ss_bonds s))
  end.

(* one step of a session: an edit of the host, an edit of pattern number k, a batch of graph queries answered by the
   host as it is now, or list(host.get_substr_indices(pattern k)) as both are now *)
Inductive sstep :=
| SHost (e : sedit)
| SPat (k : nat) (e : sedit)
| SQuery (qs : list query)
| SMatch (k : nat) (obs : list (list nat)).

Definition sworld := (sstate * list sstate)%type.        (* host, patterns *)
Definition empty_state : sstate := mk_sstate [] [].
Definition pat_at (w : sworld) (k : nat) : sstate := nth k (snd w) empty_state.

Definition step_world (w : sworld) (x : sstep) : sworld :=
  match x with
  | SHost e => (apply_edit e (fst w), snd w)
  | SPat k e => (fst w, upd_nth k (apply_edit e) (snd w))
  | SQuery _ | SMatch _ _ => w
  end.
Definition world_after (w : sworld) (steps : list sstep) : sworld := fold_left step_world steps w.

Definition check_step (w : sworld) (x : sstep) : bool :=
  match x with
  | SHost _ | SPat _ _ => true
  | SQuery qs => forallb (check_query (ss_graph (fst w)) (ss_types (fst w))) qs
  | SMatch k obs => check_mcase (mk_mcase (ss_mgraph (fst w)) (ss_mgraph (pat_at w k)) obs)
  end.

Fixpoint run_steps (w : sworld) (steps : list sstep) : bool :=
  match steps with
  | [] => true
  | x :: r => check_step w x && run_steps (step_world w x) r
  end.

Record scase := mk_scase { sc_host : sstate; sc_pats : list sstate; sc_steps : list sstep }.
Definition check_scase (c : scase) : bool := run_steps (sc_host c, sc_pats c) (sc_steps c).

(* the stamp a careless cache would look at *)
Definition counts (s : sstate) : nat * nat := (length (ss_atoms s), length (ss_bonds s)).
