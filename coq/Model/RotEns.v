(* C11, ensemble part: ConformerEnsemble operations as the code performs them on the (n_conformers, n_atoms, 3)
   array, for ensembles of EVERY shape.  NO proofs in this file.  Anchors:
     molli/chem/ensemble.py   ConformerEnsemble.scale / translate / rotate / center_at_atom / center_at_core /
                              optimal_rotation_to_ref_coords / align_to_ref_coords
   An ensemble is a list of conformers, a conformer a list of rows; nothing below looks at the number of rows of a
   conformer, so no operation may behave differently when n_conformers happens to equal n_atoms (or 3, or 1):
   a per-conformer stack (one vector / one matrix per conformer) is consumed along the conformer axis only.
   Builds on Model/Rot.v (translate, transform, ens_translate1/2, ens_rotate(_each), center_at_*, pick_best,
   align_inputs, align_with). *)
From Coq Require Import List ZArith QArith Qabs Bool.
From Molli Require Import Common.Field3 Model.Rot.
Import ListNotations.

Section Model.
Context {F : Type} (o : Fops F).
Local Notation vec := (vec F).
Local Notation mat := (mat F).

(* ConformerEnsemble.scale(factor):  self._coords *= factor *)
Definition ens_scale (f : F) (E : list (list vec)) : list (list vec) := map (map (vscale o f)) E.

(* The reading of an (n, 3) array that ConformerEnsemble.translate must NOT adopt: row j added to atom j of every
   conformer (coords += v[None, :, :]).  Only stated to be refuted (Proofs/RotEns.v: it is not a rigid motion). *)
Definition ens_displace_atoms (vs : list vec) (E : list (list vec)) : list (list vec) :=
  map (fun X => map2 (vadd o) X vs) E.

(* ConformerEnsemble.align_to_ref_coords, statement by statement:
     self.center_at_core(substructure_indices[0])
     rmsds, rot_matrix = self.optimal_rotation_to_ref_coords(...)     per conformer: best (rmsd, rotation) of the
                                                                      callback results, np.array of the rotations
     self.rotate(rot_matrix)                                          an (n_conformers, 3, 3) stack
     if vec is not None: self.translate(vec)
   `results` = what the user-supplied callback returned, conformer by conformer, mapping by mapping. *)
Definition ens_align_steps (E : list (list vec)) (idx0 : list nat) (results : list (list (mat * F))) (v : option vec)
  : option (list (list vec) * list F) :=
  let E1 := center_at_core o idx0 E in
  let picks := map (pick_best o) results in
  match all_some (map snd picks) with
  | Some Ms =>
      let E2 := ens_rotate_each o Ms E1 in
      Some (match v with Some t => ens_translate1 o t E2 | None => E2 end, map fst picks)
  | None => None                             (* a conformer without a candidate below 100.0: rotate(None) raises *)
  end.

(* the coordinate blocks handed to the callback: conformer by conformer (already centred), mapping by mapping *)
Definition ens_align_inputs (E : list (list vec)) (idx0 : list nat) (idxs : list (list nat)) : list (list (list vec)) :=
  map (fun X => align_inputs o X idx0 idxs) E.

Definition ens_align (func : list vec -> list vec -> mat * F) (E : list (list vec)) (idxs : list (list nat))
                     (ref : list vec) (v : option vec) : option (list (list vec) * list F) :=
  match idxs with
  | [] => None                               (* substructure_indices[0] raises IndexError *)
  | idx0 :: _ => ens_align_steps E idx0 (map (map (fun P => func P ref)) (ens_align_inputs E idx0 idxs)) v
  end.
End Model.

(* ======================= correspondence cases (Q instance) ======================= *)
Local Open Scope Q_scope.

Inductive xop :=
| XT1 (v : vecQ)                  (* translate(array of shape (3,)) *)
| XT2 (vs : list vecQ)            (* translate(array of shape (n_conformers, 3)) *)
| XRot (M : matQ)                 (* rotate(array of shape (3, 3)) *)
| XRotEach (Ms : list matQ)       (* rotate(array of shape (n_conformers, 3, 3)) *)
| XCat (k : nat)                  (* center_at_atom(atom k) *)
| XCore (idx : list nat)          (* center_at_core(idx) *)
| XScale (f : Q).                 (* scale(f) *)

Definition rect (na : nat) (E : list (list vecQ)) : bool := forallb (fun X => Nat.eqb (length X) na) E.
Definition n_atoms_of (E : list (list vecQ)) : nat := match E with X :: _ => length X | [] => 0%nat end.

(* None = the call is outside what the harness may submit (numpy raises: stack of the wrong length, index out of
   range, zero factor) *)
Definition apply_xop (op : xop) (E : list (list vecQ)) : option (list (list vecQ)) :=
  match op with
  | XT1 v => Some (ens_translate1 QOps v E)
  | XT2 vs => if Nat.eqb (length vs) (length E) then Some (ens_translate2 QOps vs E) else None
  | XRot M => Some (ens_rotate QOps M E)
  | XRotEach Ms => if Nat.eqb (length Ms) (length E) then Some (ens_rotate_each QOps Ms E) else None
  | XCat k => if Nat.ltb k (n_atoms_of E) then Some (center_at_atom QOps k E) else None
  | XCore idx =>
      if negb (Nat.eqb (length idx) 0) && forallb (fun i => Nat.ltb i (n_atoms_of E)) idx
      then Some (center_at_core QOps idx E) else None
  | XScale f => if Qeq_bool f 0 then None else Some (ens_scale QOps f E)
  end.
Fixpoint apply_xops (ops : list xop) (E : list (list vecQ)) : option (list (list vecQ)) :=
  match ops with
  | [] => Some E
  | op :: r => match apply_xop op E with Some E1 => apply_xops r E1 | None => None end
  end.

Inductive ecase :=
(* a sequence of ensemble operations on E left E' *)
| XEns (E : list (list vecQ)) (ops : list xop) (E' : list (list vecQ))
(* ConformerEnsemble.align_to_ref_coords(callback, idxs, ref, v): blocks the callback was handed and what it returned
   (conformer by conformer, mapping by mapping); coordinates left, values returned *)
| XEnsAlign (E : list (list vecQ)) (idxs : list (list nat)) (inputs : list (list (list vecQ)))
            (results : list (list (matQ * Q))) (v : option vecQ) (E' : list (list vecQ)) (rs : list Q).

Definition echeck (k : ecase) : bool :=
  match k with
  | XEns E ops E' =>
      rect (n_atoms_of E) E &&
      match apply_xops ops E with
      | Some Y => ens_closeQ eps_abs Y E'
      | None => false
      end
  | XEnsAlign E idxs inputs results v E' rs =>
      rect (n_atoms_of E) E &&
      match idxs with
      | [] => false
      | idx0 :: _ =>
          Nat.eqb (length results) (length E) &&
          all2 (all2 (rows_closeQ eps_abs)) (ens_align_inputs QOps E idx0 idxs) inputs &&
          match ens_align_steps QOps E idx0 results v with
          | Some (Y, rs') => ens_closeQ eps_abs Y E' && all2 (Qclose eps_abs) rs' rs
          | None => false
          end
      end
  end.
