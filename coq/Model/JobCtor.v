(* C17 -- the driver CONSTRUCTOR (molli/pipeline/driver.py DriverBase.__init__ / which) in front of the binding model
   of Model/Job.v.  "A JobInput built through a driver reflects THAT driver instance's executable ... irrespective of
   which other drivers exist or were used before": the executable an instance carries is what ITS constructor made of
   ITS arguments -- the name it was given (or the class's default_executable), looked up on PATH / as a path when the
   lookup is on -- and nothing an earlier instance of the same or another class was given.

     def __init__(self, executable=None, nprocs=1, memory=None, envars=None, check_exe=True, find=True):
         self.executable = executable
         if hasattr(self, "default_executable"):
             self.executable = self.executable or self.default_executable
         self.nprocs = nprocs; self.envars = envars; self.memory = memory
         if check_exe and not (which_exe := self.which()):   raise FileNotFoundError
         elif find:                                          self.executable = which_exe
     def which(self): return shutil.which(self.executable)

   The world the lookup sees is explicit: the directories of PATH in order and the set of executable files.
   Histories of constructor calls (`CNew i k args`: d_i = Class_k(args)) and of the events of Model/Job.v are
   ELABORATED into histories of Model/Job.v (a successful constructor call is a BCreate with the settings the
   constructor computed; a refused one leaves no trace), so every theorem about `brun` applies.
   No proofs in this file (Proofs/JobCtor.v). *)
From Coq Require Import List Bool NArith ZArith String Ascii.
Import ListNotations.
From Molli Require Import Model.Job.
Local Open Scope string_scope.

(* ------------------------------------------------------------------ shutil.which over an explicit world *)
Record world := mk_world {
  w_path : list string;         (* os.environ["PATH"].split(":") *)
  w_exes : list string }.       (* absolute paths of the files that exist and are executable *)

Fixpoint has_slash (s : string) : bool :=
  match s with EmptyString => false | String c r => Ascii.eqb c "/"%char || has_slash r end.
Definition is_exe (w : world) (p : string) : bool := existsb (String.eqb p) (w_exes w).
Definition join (d name : string) : string := d ++ "/" ++ name.

(* a name with a directory part is tested as it stands; a bare name is searched along PATH, first hit wins *)
Definition which (w : world) (name : string) : option string :=
  if has_slash name then (if is_exe w name then Some name else None)
  else match find (fun d => is_exe w (join d name)) (w_path w) with
       | Some d => Some (join d name)
       | None => None
       end.

(* ------------------------------------------------------------------ the constructor *)
Record cargs := mk_cargs {
  a_exe : option string;        (* executable= (None: not given) *)
  a_nprocs : option N;          (* nprocs=     (None: argument omitted -> 1) *)
  a_mem : option N;             (* memory= *)
  a_env : option env;           (* envars= *)
  a_check : bool; a_find : bool }.

Inductive cresult :=
| COk (s : settings)            (* the instance's executable / nprocs / memory / envars after __init__ *)
| CRefused                      (* FileNotFoundError *)
| CUnspec.                      (* outside the model: which(None) (TypeError), check_exe=False with find=True (the walrus
                                   variable is unbound: UnboundLocalError) *)

(* the program the instance is asked to wrap: its own argument, else the class default *)
Definition wanted (dflt : option string) (a : cargs) : option string :=
  match dflt with None => a_exe a | Some d => or_s (a_exe a) (Some d) end.

(* `look` is self.which(): the lookup as the constructor performs it *)
Definition construct_with (look : string -> option string) (dflt : option string) (a : cargs) : cresult :=
  let rest e := mk_settings e (Some (match a_nprocs a with Some n => n | None => 1%N end)) (a_mem a) (a_env a) in
  if a_check a then
    match wanted dflt a with
    | None => CUnspec
    | Some e => match look e with
                | None => CRefused
                | Some p => COk (rest (Some (if a_find a then p else e)))
                end
    end
  else if a_find a then CUnspec
  else COk (rest (wanted dflt a)).

Definition construct (w : world) := construct_with (which w).

(* ------------------------------------------------------------------ histories with constructor calls *)
(* a driver class of the case: default_executable (None: the class has no such attribute) and its class-level
   executable / nprocs / envars attributes (the `cls` argument of bind) *)
Notation cdecl := (option string * settings)%type (only parsing).

Inductive cevent :=
| CNew (i k : N) (a : cargs)      (* d_i = Class_k(args a); on FileNotFoundError the variable d_i keeps what it held *)
| CEv (ev : bevent).              (* an event of Model/Job.v *)

Inductive cobs :=
| ONew (r : cresult)              (* what the constructor did: the new instance's attributes read back / refused *)
| OB (o : option bound).          (* the observation of the Model/Job.v event *)

(* how the lookup result reaches an instance.
   LFresh     : which() as written -- every constructor call looks its own name up.
   LMemoClass : the variant that memoises the lookup per driver CLASS ("a driver class wraps one program"): the first
                located executable of a class is handed to every later instance of that class.
   The second is kept only for the refutation lemma and the failing-input search. *)
Inductive lmode := LFresh | LMemoClass.

Definition look_m (m : lmode) (w : world) (memo : list (N * string)) (k : N) (name : string) : option string :=
  match m with
  | LFresh => which w name
  | LMemoClass => match nget k memo with Some p => Some p | None => which w name end
  end.
Definition memo_after (m : lmode) (w : world) (memo : list (N * string)) (k : N) (dflt : option string) (a : cargs)
  : list (N * string) :=
  match m with
  | LFresh => memo
  | LMemoClass =>
      if a_check a then
        match nget k memo, wanted dflt a with
        | None, Some e => match which w e with Some p => nset k p memo | None => memo end
        | _, _ => memo
        end
      else memo
  end.

Record cstate := mk_cstate { cs_memo : list (N * string); cs_b : bstate }.

Definition cstep (m : lmode) (w : world) (classes : list (N * cdecl)) (st : cstate) (ev : cevent) : cstate * cobs :=
  match ev with
  | CEv e => let '(b, o) := bstep MCopy (cs_b st) e in (mk_cstate (cs_memo st) b, OB o)
  | CNew i k a =>
      match nget k classes with
      | None => (st, ONew CUnspec)
      | Some (dflt, cattrs) =>
          let r := construct_with (look_m m w (cs_memo st) k) dflt a in
          let memo := memo_after m w (cs_memo st) k dflt a in
          match r with
          | COk s => (mk_cstate memo (fst (bstep MCopy (cs_b st) (BCreate i cattrs s))), ONew r)
          | _ => (mk_cstate memo (cs_b st), ONew r)
          end
      end
  end.

Fixpoint crun (m : lmode) (w : world) (classes : list (N * cdecl)) (st : cstate) (evs : list cevent)
  : cstate * list cobs :=
  match evs with
  | [] => (st, [])
  | ev :: r => let '(st1, o) := cstep m w classes st ev in
               let '(st2, os) := crun m w classes st1 r in (st2, o :: os)
  end.

Definition cinit (decl : settings) : cstate := mk_cstate [] (binit decl).

(* the history of Model/Job.v a constructor history amounts to (lookup as written) *)
Definition elab1 (w : world) (classes : list (N * cdecl)) (ev : cevent) : list bevent :=
  match ev with
  | CEv e => [e]
  | CNew i k a =>
      match nget k classes with
      | Some (dflt, cattrs) => match construct w dflt a with COk s => [BCreate i cattrs s] | _ => [] end
      | None => []
      end
  end.
Definition elab (w : world) (classes : list (N * cdecl)) (evs : list cevent) : list bevent :=
  flat_map (elab1 w classes) evs.

(* the observations of Model/Job.v events among the observations of a constructor history (a successful constructor
   call is a BCreate, which shows nothing) *)
Definition b_obs (os : list cobs) : list (option bound) :=
  flat_map (fun o => match o with OB b => [b] | ONew (COk _) => [None] | ONew _ => [] end) os.

(* ------------------------------------------------------------------ correspondence *)
Definition settings_eqb (a b : settings) : bool :=
  opt_eqb String.eqb (s_exe a) (s_exe b) && opt_eqb N.eqb (s_nprocs a) (s_nprocs b)
  && opt_eqb N.eqb (s_mem a) (s_mem b) && opt_eqb dict_eqb (s_env a) (s_env b).
Definition cobs_eqb (a b : cobs) : bool :=
  match a, b with
  | OB x, OB y => opt_eqb bound_eqb x y
  | ONew (COk s), ONew (COk t) => settings_eqb s t
  | ONew CRefused, ONew CRefused => true
  | _, _ => false                  (* CUnspec matches nothing: such calls are not generated *)
  end.

(* one case: the world, the driver classes, the Job's declared settings, the history, what every step showed *)
Record ccase := mk_ccase {
  cc_world : world; cc_classes : list (N * cdecl); cc_decl : settings; cc_events : list cevent; cc_obs : list cobs }.
Definition check_ccase (c : ccase) : bool :=
  list_eqb cobs_eqb (snd (crun LFresh (cc_world c) (cc_classes c) (cinit (cc_decl c)) (cc_events c))) (cc_obs c).
