(* C05 -- executable model of the structure-editing API of molli
   (Promolecule / Connectivity / CartesianGeometry / Structure / Molecule).

   Identities of atoms and bonds are positives drawn from a fresh-name supply (next_a, next_b):
   an object created by an operation (the Atom handed to add_atom, the Bond built by connect, ...)
   receives the next name.  Coordinate rows and partial charges are opaque integer tokens: the
   property is about WHICH row belongs to WHICH atom, not about numbers.

   The class chain is kept as layered functions (pm_ / conn_ / geom_ / struct_ / mol_), written
   against the code that exists in /repo, statement by statement, including the order in which
   the containers are touched -- an operation that raises returns [Err s'] where s' is the state
   the code leaves behind (the theorems show s' = s).  NO proofs in this file. *)
From Coq Require Import List Bool Arith ZArith NArith PArith.
Import ListNotations.

(* ------------------------------------------------------------------ data *)
Inductive owner := OThis | OOther | ONone.          (* what obj.parent reports: this molecule / something else / None *)
Inductive charge := CNum (t : Z) | CNone.           (* a numeric partial charge / a None smuggled into the array *)

Record atom := mkAtom { a_id : positive; a_el : N; a_lab : option N; a_par : owner }.
Record bond := mkBond { b_id : positive; b_a1 : positive; b_a2 : positive; b_par : owner }.

Record st := mkSt {
  has_q   : bool;            (* true: Molecule (has atomic_charges); false: Structure *)
  atoms   : list atom;       (* _atoms *)
  coords  : list Z;          (* _coords, one token per row *)
  charges : list charge;     (* _atomic_charges (Molecule only; [] for a Structure) *)
  bonds   : list bond;       (* _bonds *)
  next_a  : positive;        (* fresh-name supply for atoms *)
  next_b  : positive         (* fresh-name supply for bonds *)
}.

Definition set_atoms (s : st) (l : list atom) : st :=
  mkSt (has_q s) l (coords s) (charges s) (bonds s) (next_a s) (next_b s).
Definition set_coords (s : st) (l : list Z) : st :=
  mkSt (has_q s) (atoms s) l (charges s) (bonds s) (next_a s) (next_b s).
Definition set_charges (s : st) (l : list charge) : st :=
  mkSt (has_q s) (atoms s) (coords s) l (bonds s) (next_a s) (next_b s).
Definition set_bonds (s : st) (l : list bond) : st :=
  mkSt (has_q s) (atoms s) (coords s) (charges s) l (next_a s) (next_b s).

Definition ids (s : st) : list positive := map a_id (atoms s).
Definition bids (s : st) : list positive := map b_id (bonds s).

(* How an atom is designated (AtomLike = Atom | int | str | Element). *)
Inductive sel := ByObj (x : positive) | ByIdx (i : Z) | ByLabel (l : N) | ByElem (e : N).

Inductive res :=
| Ok (s : st)            (* returned normally *)
| Err (s : st)           (* raised; s is the state left behind *)
| Unspec                 (* recorded finding: an atom of another molecule handed to append_bond(s) *)
| OutOfFuel.             (* the fuelled BFS ran out (never observed; excluded in the theorems) *)

Definition bind (r : res) (f : st -> res) : res := match r with Ok s => f s | _ => r end.

(* ------------------------------------------------------------------ list helpers *)
Fixpoint find_idx {A} (p : A -> bool) (l : list A) : option nat :=     (* list.index *)
  match l with
  | [] => None
  | x :: r => if p x then Some 0%nat else option_map S (find_idx p r)
  end.

Fixpoint del_nth {A} (n : nat) (l : list A) : option (list A) :=       (* np.delete(arr, n, axis=0) *)
  match l, n with
  | [], _ => None
  | _ :: r, O => Some r
  | x :: r, S k => option_map (cons x) (del_nth k r)
  end.

Fixpoint remove_first {A} (p : A -> bool) (l : list A) : option (list A) :=   (* list.remove; None = ValueError *)
  match l with
  | [] => None
  | x :: r => if p x then Some r else option_map (cons x) (remove_first p r)
  end.

(* seq[i] of Python for a sequence of length n: negative indices wrap once *)
Definition py_index (n : nat) (i : Z) : option nat :=
  let zn := Z.of_nat n in
  if (0 <=? i)%Z then (if (i <? zn)%Z then Some (Z.to_nat i) else None)
  else if (- zn <=? i)%Z then Some (Z.to_nat (zn + i)) else None.

Definition id_is (x : positive) (a : atom) : bool := Pos.eqb (a_id a) x.
Definition el_is (e : N) (a : atom) : bool := N.eqb (a_el a) e.
Definition lab_is (l : N) (a : atom) : bool :=
  match a_lab a with Some l' => N.eqb l' l | None => false end.
Definition is_member (s : st) (x : positive) : bool := existsb (id_is x) (atoms s).

(* ------------------------------------------------------------------ Promolecule *)
(* get_atom: Atom -> membership; Element -> first of that element; int -> self._atoms[i]; str -> first with label *)
Definition get_atom (s : st) (sl : sel) : option atom :=
  match sl with
  | ByObj x => find (id_is x) (atoms s)
  | ByElem e => find (el_is e) (atoms s)
  | ByIdx i => match py_index (length (atoms s)) i with
               | Some k => nth_error (atoms s) k
               | None => None
               end
  | ByLabel l => find (lab_is l) (atoms s)
  end.

(* get_atom_index: Atom -> list.index; Element -> index of the first of that element (as repaired:
   Element is matched before int); int -> range check 0 <= i < n (no wrapping); str -> first with label *)
Definition get_atom_index (s : st) (sl : sel) : option nat :=
  match sl with
  | ByObj x => find_idx (id_is x) (atoms s)
  | ByElem e => find_idx (el_is e) (atoms s)
  | ByIdx i => if ((0 <=? i)%Z && (i <? Z.of_nat (length (atoms s)))%Z)%bool then Some (Z.to_nat i) else None
  | ByLabel l => find_idx (lab_is l) (atoms s)
  end.

(* Promolecule.del_atom: a = get_atom(_a); self._atoms.remove(a) *)
Definition pm_del_atom (s : st) (sl : sel) : res :=
  match get_atom s sl with
  | None => Err s
  | Some a => match remove_first (id_is (a_id a)) (atoms s) with
              | Some l => Ok (set_atoms s l)
              | None => Err s
              end
  end.

(* ------------------------------------------------------------------ Connectivity *)
Definition incident (x : positive) (b : bond) : bool := (Pos.eqb (b_a1 b) x || Pos.eqb (b_a2 b) x)%bool.
(* Bond.__eq__ compares the endpoint SETS *)
Definition same_ends (x y : positive) (b : bond) : bool :=
  ((Pos.eqb (b_a1 b) x && Pos.eqb (b_a2 b) y) || (Pos.eqb (b_a1 b) y && Pos.eqb (b_a2 b) x))%bool.

(* del_bond: self._bonds.remove(b) -- removes the first bond EQUAL to b *)
Definition conn_del_bond (s : st) (x y : positive) : res :=
  match remove_first (same_ends x y) (bonds s) with
  | Some l => Ok (set_bonds s l)
  | None => Err s
  end.

Definition del_bonds_loop (tbd : list bond) (s : st) : res :=
  fold_left (fun r b => bind r (fun s' => conn_del_bond s' (b_a1 b) (b_a2 b))) tbd (Ok s).

(* Connectivity.del_atom: tbd = list(bonds_with_atom(_a)); for b in tbd: del_bond(b); super().del_atom(_a) *)
Definition conn_del_atom (s : st) (sl : sel) : res :=
  match get_atom s sl with
  | None => Err s
  | Some a => bind (del_bonds_loop (filter (incident (a_id a)) (bonds s)) s) (fun s' => pm_del_atom s' sl)
  end.

(* append_bond(Bond(x, y)) with a newly built Bond object; both atoms must belong to the molecule
   (otherwise: recorded finding, left unspecified) *)
Definition conn_append_bond (s : st) (x y : positive) : res :=
  if (is_member s x && is_member s y)%bool then
    Ok (mkSt (has_q s) (atoms s) (coords s) (charges s)
             (bonds s ++ [mkBond (next_b s) x y OThis]) (next_a s) (Pos.succ (next_b s)))
  else Unspec.

(* connect(_a1, _a2): a1, a2 = get_atoms(...); append_bond(Bond(a1, a2)) *)
Definition conn_connect (s : st) (s1 s2 : sel) : res :=
  match get_atom s s1 with
  | None => Err s
  | Some a1 => match get_atom s s2 with
               | None => Err s
               | Some a2 => conn_append_bond s (a_id a1) (a_id a2)
               end
  end.

(* connected_atoms(x): for b in bonds if x in b: yield b % x *)
Definition neighbours (s : st) (x : positive) : list positive :=
  map (fun b => if Pos.eqb (b_a1 b) x then b_a2 b else b_a1 b) (filter (incident x) (bonds s)).

Definition mem (x : positive) (l : list positive) : bool := existsb (Pos.eqb x) l.

(* yield_bfs(start, direction): FIFO queue (pop right / appendleft), `visited` updated at push time.
   state of the inner loop: (visited, queue (head = next to pop), yielded in reverse) *)
Definition bfs_visit (acc : list positive * list positive * list positive) (a : positive) :=
  let '(vis, q, out) := acc in
  if mem a vis then acc else (a :: vis, q ++ [a], a :: out).

Fixpoint bfs_loop (fuel : nat) (s : st) (vis q out : list positive) : option (list positive) :=
  match q with
  | [] => Some (rev out)
  | x :: q' =>
      match fuel with
      | O => None
      | S f => let '(vis', q'', out') := fold_left bfs_visit (neighbours s x) (vis, q', out) in
               bfs_loop f s vis' q'' out'
      end
  end.

Definition bfs_fuel (s : st) : nat := S (S (2 * length (bonds s))).

(* ------------------------------------------------------------------ CartesianGeometry *)
(* add_atom(a, coord): (as repaired) the coordinate is validated first, then the row is stored, then
   append_atom(a) (which sets a.parent).  c = None stands for a malformed coordinate. *)
Definition geom_add_atom (s : st) (e : N) (l : option N) (c : option Z) : res :=
  match c with
  | None => Err s
  | Some c => Ok (mkSt (has_q s) (atoms s ++ [mkAtom (next_a s) e l OThis]) (coords s ++ [c])
                       (charges s) (bonds s) (Pos.succ (next_a s)) (next_b s))
  end.

(* del_atom: ai = get_atom_index(_a); self._coords = np.delete(self._coords, ai, axis=0); super().del_atom(_a) *)
Definition geom_del_atom (s : st) (sl : sel) : res :=
  match get_atom_index s sl with
  | None => Err s
  | Some i => match del_nth i (coords s) with
              | None => Err s
              | Some cs => conn_del_atom (set_coords s cs) sl
              end
  end.

(* ------------------------------------------------------------------ Structure *)
(* del_atom: a = get_atom(_a); super().del_atom(a) *)
Definition struct_del_atom (s : st) (sl : sel) : res :=
  match get_atom s sl with
  | None => Err s
  | Some a => geom_del_atom s (ByObj (a_id a))
  end.

(* ------------------------------------------------------------------ Molecule *)
(* add_atom(a, coord, charge=None): super().add_atom(a, coord); charges.append(0.0 if charge is None else charge) *)
Definition mol_add_atom (s : st) (e : N) (l : option N) (c : option Z) (q : option Z) : res :=
  bind (geom_add_atom s e l c)
       (fun s' => Ok (set_charges s' (charges s' ++ [CNum (match q with Some t => t | None => 0%Z end)]))).

(* del_atom: _i = get_atom_index(_a); super().del_atom(_a); charges = np.delete(charges, _i) *)
Definition mol_del_atom (s : st) (sl : sel) : res :=
  match get_atom_index s sl with
  | None => Err s
  | Some i => bind (struct_del_atom s sl)
                   (fun s' => match del_nth i (charges s') with
                              | Some qs => Ok (set_charges s' qs)
                              | None => Err s'
                              end)
  end.

(* ------------------------------------------------------------------ dispatch on the class *)
Definition add_atom (s : st) (e : N) (l : option N) (c : option Z) (q : option Z) : res :=
  if has_q s then mol_add_atom s e l c q else geom_add_atom s e l c.
Definition del_atom (s : st) (sl : sel) : res :=
  if has_q s then mol_del_atom s sl else struct_del_atom s sl.

(* append_bonds(b1, b2, ...) / extend_bonds(bonds): newly built Bond objects between member atoms *)
Definition append_bonds (s : st) (l : list (positive * positive)) : res :=
  fold_left (fun r p => bind r (fun s' => conn_append_bond s' (fst p) (snd p))) l (Ok s).

Definition el_Unknown : N := 0%N.
Definition el_H : N := 1%N.

(* Structure.remove_substituent(a1, a2, ap_label=l)  (as repaired: both designators are resolved once,
   before anything is deleted):
     a1, a2 = get_atoms(a1, a2)
     c2 = get_atom_coord(a2)
     for a in tuple(yield_bfs(a1, a2)): del_atom(a)
     add_atom(new attachment point, c2); connect(a1, new)                                   *)
Definition remove_substituent (s : st) (s1 s2 : sel) (l : option N) : res :=
  match get_atom s s1, get_atom s s2 with
  | Some a1, Some a2 =>
    match get_atom_index s (ByObj (a_id a2)) with
    | None => Err s
    | Some i2 =>
      match nth_error (coords s) i2 with
      | None => Err s
      | Some c2 =>
          if mem (a_id a2) (neighbours s (a_id a1)) then
            match bfs_loop (bfs_fuel s) s [a_id a2; a_id a1] [a_id a2] [a_id a2] with
            | None => OutOfFuel
            | Some out =>
                (* next_a s' is the name the new attachment point receives *)
                bind (fold_left (fun r x => bind r (fun s' => del_atom s' (ByObj x))) out (Ok s))
                     (fun s' => bind (add_atom s' el_Unknown l (Some c2) None)
                                     (fun s'' => conn_connect s'' (ByObj (a_id a1)) (ByObj (next_a s'))))
            end
          else Err s
      end
    end
  | _, _ => Err s
  end.

(* Structure.add_implicit_hydrogens(atoms...), structural effect only: for every target atom x the
   hydrogens (one per given coordinate row) are added with add_atom and bonded to x with append_bond.
   How many hydrogens and where is C16's business; here the rows are arguments. *)
Definition add_hs_one (s : st) (x : positive) (cs : list Z) : res :=
  if is_member s x then
    fold_left (fun r c => bind r (fun s' => bind (add_atom s' el_H None (Some c) None)
                                                 (fun s'' => conn_append_bond s'' x (next_a s')))) cs (Ok s)
  else Err s.

Definition add_hs (s : st) (l : list (positive * list Z)) : res :=
  fold_left (fun r p => bind r (fun s' => add_hs_one s' (fst p) (snd p))) l (Ok s).

(* ------------------------------------------------------------------ the operation alphabet *)
Inductive op :=
| AddAtom (e : N) (l : option N) (c : option Z) (q : option Z)   (* add_atom(Atom(e, label=l), c[, q]); c=None: bad coordinate *)
| NewAtom (e : N) (l : option N) (c : Z)                         (* new_atom(e, coord=c, label=l) *)
| DelAtom (sl : sel)
| Connect (s1 s2 : sel)
| AppendBond (x y : positive)                                    (* append_bond(Bond(x, y)) *)
| AppendBonds (l : list (positive * positive))                   (* append_bonds(...) / extend_bonds([...]) *)
| DelBond (x y : positive)                                       (* del_bond(b) where b joins x and y *)
| RemoveSubst (s1 s2 : sel) (l : option N)
| AddHs (l : list (positive * list Z)).

Definition step (s : st) (o : op) : res :=
  match o with
  | AddAtom e l c q => add_atom s e l c q
  | NewAtom e l c => add_atom s e l (Some c) None
  | DelAtom sl => del_atom s sl
  | Connect s1 s2 => conn_connect s s1 s2
  | AppendBond x y => conn_append_bond s x y
  | AppendBonds l => append_bonds s l
  | DelBond x y => conn_del_bond s x y
  | RemoveSubst s1 s2 l => remove_substituent s s1 s2 l
  | AddHs l => add_hs s l
  end.

(* A history: a failed operation is followed by the next one on the state it left behind. *)
Fixpoint run (s : st) (h : list op) : option st :=
  match h with
  | [] => Some s
  | o :: r => match step s o with
              | Ok s' | Err s' => run s' r
              | _ => None
              end
  end.

(* ------------------------------------------------------------------ shared Atom objects: views and adoption *)
(* The Atom objects of a molecule can be listed by other containers as well:
     - a Substructure view lists a subset of them (and reads its coordinate rows through the molecule);
       bond operations are defined on it (it is a Connectivity with its own bond list);
     - any container built from / handed the same Atom objects without copying (Promolecule([atoms]),
       other.append_atom(a), other.add_atom(a, c)) ADOPTS them: their parent pointer is re-pointed.
   Whether an atom belongs to a molecule is decided by the molecule's atom LIST; the parent pointer is
   a back-reference that the list owner maintains and that nothing may be decided from. *)
Definition set_par (a : atom) (w : owner) : atom := mkAtom (a_id a) (a_el a) (a_lab a) w.
Definition own (a : atom) : atom := set_par a OThis.
(* the same state with every parent pointer of an atom reset to "this molecule" *)
Definition own_all (s : st) : st := set_atoms s (map own (atoms s)).

(* Substructure(parent, va): _atoms = [parent.get_atom(a) for a in va]; _bonds = the parent's bonds with
   both ends inside, in the parent's order.  None: a designator does not resolve (the constructor raises).
   Only the Connectivity layer is used on a view, so rows and charges are left empty. *)
Fixpoint pick_atoms (ats : list atom) (va : list positive) : option (list atom) :=
  match va with
  | [] => Some []
  | x :: r => match find (id_is x) ats, pick_atoms ats r with
              | Some a, Some l => Some (a :: l)
              | _, _ => None
              end
  end.
Definition sub_view (s : st) (va : list positive) : option st :=
  match pick_atoms (atoms s) va with
  | None => None
  | Some l => Some (mkSt false l [] []
                         (filter (fun b => (mem (b_a1 b) va && mem (b_a2 b) va)%bool) (bonds s))
                         (next_a s) (next_b s))
  end.

(* the bond operations, as performed on a view (designators are resolved against the VIEW) *)
Inductive vop :=
| VConnect (s1 s2 : sel)
| VAppendBond (x y : positive)
| VAppendBonds (l : list (positive * positive))
| VDelBond (x y : positive).

Definition vstep (v : st) (o : vop) : res :=
  match o with
  | VConnect s1 s2 => conn_connect v s1 s2
  | VAppendBond x y => conn_append_bond v x y
  | VAppendBonds l => append_bonds v l
  | VDelBond x y => conn_del_bond v x y
  end.

Inductive xop :=
| Own (o : op)                                   (* an edit of the molecule itself *)
| ViaSub (va : list positive) (o : vop)          (* mol.substructure(va).<bond operation> *)
| Adopt (l : list positive) (w : owner).         (* another container adopts the listed atoms of the molecule:
                                                    afterwards they report w (OOther: that container is alive,
                                                    ONone: it is gone -- parent is a weak reference) *)

Definition adopt (s : st) (l : list positive) (w : owner) : st :=
  set_atoms s (map (fun a => if mem (a_id a) l then set_par a w else a) (atoms s)).

(* What the MOLECULE is left with.  A bond operation through a Substructure touches the view's own bond
   list only (an atom that is not in the view: the recorded finding again, Unspec). *)
Definition xstep (s : st) (x : xop) : res :=
  match x with
  | Own o => step s o
  | ViaSub va o => match sub_view s va with
                   | None => Err s
                   | Some v => match vstep v o with
                               | Ok _ => Ok s
                               | Err _ => Err s
                               | r => r
                               end
                   end
  | Adopt l w => if forallb (is_member s) l then Ok (adopt s l w) else Unspec
  end.

Fixpoint xrun (s : st) (h : list xop) : option st :=
  match h with
  | [] => Some s
  | x :: r => match xstep s x with
              | Ok s' | Err s' => xrun s' r
              | _ => None
              end
  end.

(* the atoms some container adopted during the history *)
Fixpoint adopted (h : list xop) : list positive :=
  match h with
  | [] => []
  | Adopt l _ :: r => l ++ adopted r
  | _ :: r => adopted r
  end.

(* ------------------------------------------------------------------ initial states *)
Definition empty (q : bool) : st := mkSt q [] [] [] [] 1%positive 1%positive.

(* a molecule read from a file: rows = (element, label, coordinate, charge) in file order, bonds by
   0-based atom positions; names are handed out in order *)
Fixpoint load_atoms (n : positive) (rows : list (N * option N * Z * Z)) : list atom :=
  match rows with
  | [] => []
  | (e, l, _, _) :: r => mkAtom n e l OThis :: load_atoms (Pos.succ n) r
  end.
Fixpoint load_bonds (n : positive) (bs : list (positive * positive)) : list bond :=
  match bs with
  | [] => []
  | (x, y) :: r => mkBond n x y OThis :: load_bonds (Pos.succ n) r
  end.
Fixpoint pos_add_nat (p : positive) (n : nat) : positive :=
  match n with O => p | S k => Pos.succ (pos_add_nat p k) end.

Definition load (q : bool) (rows : list (N * option N * Z * Z)) (bs : list (positive * positive)) : st :=
  mkSt q (load_atoms 1 rows) (map (fun r => snd (fst r)) rows)
       (if q then map (fun r => CNum (snd r)) rows else [])
       (load_bonds 1 bs) (pos_add_nat 1 (length rows)) (pos_add_nat 1 (length bs)).

(* Molecule(other) / Structure(other): every atom and bond is a new object (evolve), same order,
   same rows; the new names are the old ones shifted past everything in use *)
Definition clone (k : positive) (s : st) : st :=
  mkSt (has_q s)
       (map (fun a => mkAtom (Pos.add (a_id a) k) (a_el a) (a_lab a) OThis) (atoms s))
       (coords s) (charges s)
       (map (fun b => mkBond (Pos.add (b_id b) k) (Pos.add (b_a1 b) k) (Pos.add (b_a2 b) k) OThis) (bonds s))
       (Pos.add (next_a s) k) (Pos.add (next_b s) k).

(* ------------------------------------------------------------------ the invariant, decidable form *)
Definition owner_eqb (a b : owner) : bool :=
  match a, b with OThis, OThis | OOther, OOther | ONone, ONone => true | _, _ => false end.
Definition charge_eqb (a b : charge) : bool :=
  match a, b with CNum x, CNum y => Z.eqb x y | CNone, CNone => true | _, _ => false end.
Definition is_num (c : charge) : bool := match c with CNum _ => true | CNone => false end.

Fixpoint nodup_b (l : list positive) : bool :=
  match l with [] => true | x :: r => (negb (mem x r) && nodup_b r)%bool end.

Definition inv_b (s : st) : bool :=
  (Nat.eqb (length (coords s)) (length (atoms s))
   && (if has_q s then (Nat.eqb (length (charges s)) (length (atoms s)) && forallb is_num (charges s))%bool
       else match charges s with [] => true | _ => false end)
   && nodup_b (ids s)
   && forallb (fun a => owner_eqb (a_par a) OThis && Pos.ltb (a_id a) (next_a s)) (atoms s)
   && nodup_b (bids s)
   && forallb (fun b => owner_eqb (b_par b) OThis && Pos.ltb (b_id b) (next_b s)
                        && mem (b_a1 b) (ids s) && mem (b_a2 b) (ids s)) (bonds s))%bool.

(* ------------------------------------------------------------------ abstract view: atom name -> (row, charge) *)
Definition row_of (s : st) (x : positive) : option (Z * option charge) :=
  match find_idx (id_is x) (atoms s) with
  | None => None
  | Some i => match nth_error (coords s) i with
              | None => None
              | Some c => Some (c, nth_error (charges s) i)
              end
  end.

(* ------------------------------------------------------------------ observations (correspondence) *)
(* What the harness reads through the public accessors after every step:
     atoms           : (name, parent) in list order
     idx / gai       : a.idx and mol.get_atom_index(a) for every atom of the list (-1 if it raised);
                       a.idx asks the atom's PARENT, so it is read only for atoms that report this
                       molecule as parent (-2 otherwise: the atom was adopted by another container)
     coords          : one token per row of mol.coords
     charges         : mol.atomic_charges (Molecule) / [] (Structure)
     bonds           : (name, a1, a2, parent) in list order                                         *)
Record obs := mkObs {
  o_raised  : bool;
  o_atoms   : list (positive * owner);
  o_idx     : list Z;
  o_gai     : list Z;
  o_coords  : list Z;
  o_charges : list charge;
  o_bonds   : list (positive * (positive * positive) * owner)
}.

Definition idx_of (s : st) (x : positive) : Z :=
  match find_idx (id_is x) (atoms s) with Some i => Z.of_nat i | None => (-1)%Z end.

Definition obs_of (raised : bool) (s : st) : obs :=
  mkObs raised
        (map (fun a => (a_id a, a_par a)) (atoms s))
        (map (fun a => if owner_eqb (a_par a) OThis then idx_of s (a_id a) else (-2)%Z) (atoms s))
        (map (fun a => match get_atom_index s (ByObj (a_id a)) with Some i => Z.of_nat i | None => (-1)%Z end) (atoms s))
        (coords s) (charges s)
        (map (fun b => (b_id b, (b_a1 b, b_a2 b), b_par b)) (bonds s)).

Fixpoint list_eqb {A} (eqb : A -> A -> bool) (l1 l2 : list A) : bool :=
  match l1, l2 with
  | [], [] => true
  | x :: r1, y :: r2 => (eqb x y && list_eqb eqb r1 r2)%bool
  | _, _ => false
  end.

Definition obs_eqb (a b : obs) : bool :=
  (Bool.eqb (o_raised a) (o_raised b)
   && list_eqb (fun x y => Pos.eqb (fst x) (fst y) && owner_eqb (snd x) (snd y)) (o_atoms a) (o_atoms b)
   && list_eqb Z.eqb (o_idx a) (o_idx b)
   && list_eqb Z.eqb (o_gai a) (o_gai b)
   && list_eqb Z.eqb (o_coords a) (o_coords b)
   && list_eqb charge_eqb (o_charges a) (o_charges b)
   && list_eqb (fun x y => Pos.eqb (fst (fst x)) (fst (fst y))
                           && Pos.eqb (fst (snd (fst x))) (fst (snd (fst y)))
                           && Pos.eqb (snd (snd (fst x))) (snd (snd (fst y)))
                           && owner_eqb (snd x) (snd y)) (o_bonds a) (o_bonds b))%bool.

(* one correspondence case: the initial state as observed, then (operation, observation) pairs *)
Definition case := (st * list (xop * obs))%type.

Fixpoint run_check (s : st) (steps : list (xop * obs)) : bool :=
  match steps with
  | [] => true
  | (o, ob) :: r =>
      match xstep s o with
      | Ok s' => (obs_eqb (obs_of false s') ob && run_check s' r)%bool
      | Err s' => (obs_eqb (obs_of true s') ob && run_check s' r)%bool
      | _ => false
      end
  end.

(* the initial state must satisfy the invariant (kernel-evaluated on the loaded / cloned / empty
   molecule as observed), and the model must reproduce every observation of the history *)
Definition check_case (c : case) : bool := (inv_b (fst c) && run_check (fst c) (snd c))%bool.

(* position of the first step the model does not reproduce (diagnostics only) *)
Fixpoint first_bad (n : nat) (s : st) (steps : list (xop * obs)) : option nat :=
  match steps with
  | [] => None
  | (o, ob) :: r =>
      match xstep s o with
      | Ok s' => if obs_eqb (obs_of false s') ob then first_bad (S n) s' r else Some n
      | Err s' => if obs_eqb (obs_of true s') ob then first_bad (S n) s' r else Some n
      | _ => Some n
      end
  end.
