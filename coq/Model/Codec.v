(* C01 -- executable model of the library codec: molli/chem/io.py (_serialize_* / _deserialize_*, v1 and v2)
   composed with the msgpack layer of molli/chem/library.py.  Definitions only; lemmas are in Proofs/Codec.v.

   What is modelled
     * a msgpack-able value `val` (None, bool, int, str, bytes, float, list, tuple, dict, packed float array);
     * `mnorm` = what `msgpack.dumps(.., use_single_float=True)` followed by `msgpack.loads(.., use_list=False)`
       does to a value: lists come back as tuples, a double comes back as the single it rounds to, an IntEnum as
       its int (the harness already writes enum members as ints); everything else is unchanged;
     * atoms / bonds / molecules / ensembles as records of such values; an ensemble is an `obj` with `w_ens = true`;
     * the positional encoding: `encode W o` lays the slots of `o` out in the order `w_oser W`, atoms in the order
       `w_aser W`, bonds in the order `w_bser W`; `decode W t` reads a tuple back by the orders `w_odes/w_ades/w_bdes`,
       fills slots that the encoding does not carry with the constructor defaults, applies python's `x or default`
       where the constructors do, converts endpoints back to atoms (an index must satisfy 0 <= i < n_atoms), checks
       the element number, and reshapes the float arrays (fails when the sizes are inconsistent).
   The ORDERS (position -> slot) and the array dtypes are NOT written here: they are observed by executing the real
   serialisers / deserialisers on a sentinel object and regenerated into Gen/IoWiring.v on every run.

   Granularity: a float is represented by the bit pattern of its single-precision value (`VF32`), or, when it is not
   exactly a single, by `VDbl dbits sbits` (the double and the single it rounds to; computed by numpy in the harness).
   Coordinates, partial charges and weights are lists of single-precision bit patterns. *)
From Coq Require Import Bool Arith NArith ZArith String Ascii List.
Import ListNotations.
Local Open Scope bool_scope.

(* ------------------------------------------------------------------ values *)
Inductive dtype := F2BE | F2LE | F4BE | F4LE | F8BE | F8LE | DtOther.

Definition dtype_eqb (a b : dtype) : bool :=
  match a, b with
  | F2BE, F2BE | F2LE, F2LE | F4BE, F4BE | F4LE, F4LE | F8BE, F8BE | F8LE, F8LE | DtOther, DtOther => true
  | _, _ => false
  end.

(* packing under this dtype and unpacking under the same dtype returns every single-precision value unchanged *)
Definition lossless (d : dtype) : bool :=
  match d with F4BE | F4LE | F8BE | F8LE => true | _ => false end.

Inductive val :=
| VNone
| VBool (b : bool)
| VInt (z : Z)
| VStr (s : string)
| VBytes (b : list N)
| VF32 (bits : Z)
| VDbl (dbits sbits : Z)
| VList (l : list val)
| VTup (l : list val)
| VMap (kv : list (val * val))
| VArr (dt : dtype) (xs : list Z).

Fixpoint mnorm (v : val) : val :=
  match v with
  | VList l => VTup (map mnorm l)
  | VTup l => VTup (map mnorm l)
  | VMap kv => VMap (map (fun p => let '(k, x) := p in (mnorm k, mnorm x)) kv)
  | VDbl _ s => VF32 s
  | _ => v
  end.

Fixpoint list_eqb {A} (eqb : A -> A -> bool) (a b : list A) : bool :=
  match a, b with
  | [], [] => true
  | x :: a', y :: b' => eqb x y && list_eqb eqb a' b'
  | _, _ => false
  end.

Fixpoint val_eqb (a b : val) {struct a} : bool :=
  match a, b with
  | VNone, VNone => true
  | VBool x, VBool y => Bool.eqb x y
  | VInt x, VInt y => Z.eqb x y
  | VStr x, VStr y => String.eqb x y
  | VBytes x, VBytes y => list_eqb N.eqb x y
  | VF32 x, VF32 y => Z.eqb x y
  | VDbl d s, VDbl d' s' => Z.eqb d d' && Z.eqb s s'
  | VList l, VList l' =>
      (fix go (l l' : list val) : bool :=
         match l, l' with
         | [], [] => true
         | x :: r, y :: r' => val_eqb x y && go r r'
         | _, _ => false
         end) l l'
  | VTup l, VTup l' =>
      (fix go (l l' : list val) : bool :=
         match l, l' with
         | [], [] => true
         | x :: r, y :: r' => val_eqb x y && go r r'
         | _, _ => false
         end) l l'
  | VMap l, VMap l' =>
      (fix go (l l' : list (val * val)) : bool :=
         match l, l' with
         | [], [] => true
         | (k, x) :: r, (k', y) :: r' => val_eqb k k' && val_eqb x y && go r r'
         | _, _ => false
         end) l l'
  | VArr d x, VArr d' y => dtype_eqb d d' && list_eqb Z.eqb x y
  | _, _ => false
  end.

(* msgpack.dumps(.., use_single_float=True) refuses (OverflowError) a finite double beyond the single-precision
   range.  (Ints outside 64 bits are not msgpack-able at all and are outside the modelled value language.) *)
Fixpoint storable (v : val) : bool :=
  match v with
  | VDbl _ s => negb (Z.eqb s 2139095040 || Z.eqb s 4286578688)        (* rounds to +inf / -inf *)
  | VList l => forallb storable l
  | VTup l => forallb storable l
  | VMap kv => forallb (fun p => let '(k, x) := p in storable k && storable x) kv
  | _ => true
  end.

(* python truthiness of a value, for `x or default` *)
Definition falsy (v : val) : bool :=
  match v with
  | VNone => true
  | VBool b => negb b
  | VInt z => Z.eqb z 0
  | VStr s => match s with EmptyString => true | _ => false end
  | VBytes [] | VList [] | VTup [] | VMap [] => true
  | VF32 bits => Z.eqb bits 0 || Z.eqb bits 2147483648     (* +0.0, -0.0 *)
  | _ => false
  end.
Definition or_default (x d : val) : val := if falsy x then d else x.

Definition seq_items (v : val) : option (list val) :=
  match v with VList l | VTup l => Some l | _ => None end.

Fixpoint mapM {A B} (f : A -> option B) (l : list A) : option (list B) :=
  match l with
  | [] => Some []
  | x :: r => match f x with
              | None => None
              | Some y => match mapM f r with None => None | Some ys => Some (y :: ys) end
              end
  end.

(* association by slot; `combine` truncates like python's zip *)
Fixpoint lookup {S} (eqb : S -> S -> bool) (s : S) (env : list (S * val)) : option val :=
  match env with
  | [] => None
  | (k, v) :: r => if eqb s k then Some v else lookup eqb s r
  end.
Fixpoint mem {S} (eqb : S -> S -> bool) (s : S) (l : list S) : bool :=
  match l with [] => false | k :: r => eqb s k || mem eqb s r end.
Fixpoint forallb2 {A B} (p : A -> B -> bool) (a : list A) (b : list B) : bool :=
  match a, b with
  | [], [] => true
  | x :: a', y :: b' => p x y && forallb2 p a' b'
  | _, _ => false
  end.

(* ------------------------------------------------------------------ atoms *)
Inductive aslot := AElement | AIsotope | ALabel | AAtype | AStereo | AGeom | AFCharge | AFSpin | AAttrib | AOdd.
Definition aslot_eqb (a b : aslot) : bool :=
  match a, b with
  | AElement, AElement | AIsotope, AIsotope | ALabel, ALabel | AAtype, AAtype | AStereo, AStereo
  | AGeom, AGeom | AFCharge, AFCharge | AFSpin, AFSpin | AAttrib, AAttrib | AOdd, AOdd => true
  | _, _ => false
  end.

Record atom := mk_atom {
  a_element : val; a_isotope : val; a_label : val; a_atype : val; a_stereo : val; a_geom : val;
  a_fcharge : val; a_fspin : val; a_attrib : val }.

Definition aget (a : atom) (s : aslot) : val :=
  match s with
  | AElement => a_element a | AIsotope => a_isotope a | ALabel => a_label a | AAtype => a_atype a
  | AStereo => a_stereo a | AGeom => a_geom a | AFCharge => a_fcharge a | AFSpin => a_fspin a
  | AAttrib => a_attrib a | AOdd => VNone
  end.
Definition abuild (g : aslot -> val) : atom :=
  mk_atom (g AElement) (g AIsotope) (g ALabel) (g AAtype) (g AStereo) (g AGeom) (g AFCharge) (g AFSpin) (g AAttrib).

(* Element.get(int): atomic numbers 0 (Unknown) .. 118 *)
Definition max_element : Z := 118.
Definition valid_element (v : val) : bool :=
  match v with VInt z => (0 <=? z)%Z && (z <=? max_element)%Z | _ => false end.

Definition enc_atom (ser : list aslot) (a : atom) : val := VTup (map (aget a) ser).

(* Atom( ** dict(zip(SCHEMA, t)) ): zip truncates to the shorter side *)
Definition dec_atom (des : list aslot) (dflt : atom) (v : val) : option atom :=
  match seq_items v with
  | None => None
  | Some items =>
      let env := combine des items in
      let g s := match lookup aslot_eqb s env with Some x => x | None => aget dflt s end in
      if valid_element (g AElement) then Some (abuild g) else None
  end.

(* what an atom looks like after one trip through the encoding `des` *)
Definition norm_atom (des : list aslot) (dflt : atom) (a : atom) : atom :=
  abuild (fun s => if mem aslot_eqb s des then mnorm (aget a s) else aget dflt s).

(* ------------------------------------------------------------------ bonds *)
Inductive bslot := BA1 | BA2 | BLabel | BBtype | BStereo | BFOrder | BAttrib | BOdd.
Definition bslot_eqb (a b : bslot) : bool :=
  match a, b with
  | BA1, BA1 | BA2, BA2 | BLabel, BLabel | BBtype, BBtype | BStereo, BStereo | BFOrder, BFOrder
  | BAttrib, BAttrib | BOdd, BOdd => true
  | _, _ => false
  end.

(* endpoints are positions in the atom sequence *)
Record bond := mk_bond {
  b_a1 : N; b_a2 : N; b_label : val; b_btype : val; b_stereo : val; b_forder : val; b_attrib : val }.

Definition bget (b : bond) (s : bslot) : val :=
  match s with
  | BA1 => VInt (Z.of_N (b_a1 b)) | BA2 => VInt (Z.of_N (b_a2 b))
  | BLabel => b_label b | BBtype => b_btype b | BStereo => b_stereo b | BFOrder => b_forder b
  | BAttrib => b_attrib b | BOdd => VNone
  end.

Definition enc_bond (ser : list bslot) (b : bond) : val := VTup (map (bget b) ser).

(* get_atom(int): an atom position; the model rejects anything outside 0 <= i < n *)
Definition as_index (n : nat) (v : val) : option N :=
  match v with
  | VInt z => if (0 <=? z)%Z && (z <? Z.of_nat n)%Z then Some (Z.to_N z) else None
  | _ => None
  end.

(* res.connect(i1, i2, ** dict(zip(SCHEMA[2:], t[2:])) ) *)
Definition dec_bond (des : list bslot) (dflt : bond) (n : nat) (v : val) : option bond :=
  match seq_items v with
  | None => None
  | Some items =>
      let env := combine des items in
      let g s := match lookup bslot_eqb s env with Some x => x | None => bget dflt s end in
      match lookup bslot_eqb BA1 env, lookup bslot_eqb BA2 env with
      | Some v1, Some v2 =>
          match as_index n v1, as_index n v2 with
          | Some i, Some j => Some (mk_bond i j (g BLabel) (g BBtype) (g BStereo) (g BFOrder) (g BAttrib))
          | _, _ => None
          end
      | _, _ => None
      end
  end.

Definition norm_bond (des : list bslot) (dflt : bond) (b : bond) : bond :=
  let g s := if mem bslot_eqb s des then mnorm (bget b s) else bget dflt s in
  mk_bond (b_a1 b) (b_a2 b) (g BLabel) (g BBtype) (g BStereo) (g BFOrder) (g BAttrib).

(* ------------------------------------------------------------------ molecules and ensembles *)
Inductive oslot :=
| OName | ONAtoms | ONBonds | ONConf | OCharge | OMult | OAtoms | OBonds | OCoords | OCharges | OWeights | OAttrib
| OSkip      (* deserialiser side: the position is not used *)
| OOdd.      (* the sentinel run could not classify the position *)
Definition oslot_eqb (a b : oslot) : bool :=
  match a, b with
  | OName, OName | ONAtoms, ONAtoms | ONBonds, ONBonds | ONConf, ONConf | OCharge, OCharge | OMult, OMult
  | OAtoms, OAtoms | OBonds, OBonds | OCoords, OCoords | OCharges, OCharges | OWeights, OWeights
  | OAttrib, OAttrib | OSkip, OSkip | OOdd, OOdd => true
  | _, _ => false
  end.

(* a molecule has o_nconf = 0 and no weights; coords are flattened in C order *)
Record obj := mk_obj {
  o_name : val; o_charge : val; o_mult : val; o_attrib : val;
  o_atoms : list atom; o_bonds : list bond;
  o_nconf : N; o_coords : list Z; o_charges : list Z; o_weights : list Z }.

Record wiring := mk_wiring {
  w_ens : bool;
  w_oser : list oslot; w_odes : list oslot;
  w_aser : list aslot; w_ades : list aslot;
  w_bser : list bslot; w_bdes : list bslot;
  w_sdt : list (oslot * dtype); w_ddt : list (oslot * dtype);
  w_adflt : atom; w_bdflt : bond }.

Fixpoint dt_of (l : list (oslot * dtype)) (s : oslot) : dtype :=
  match l with
  | [] => DtOther
  | (k, d) :: r => if oslot_eqb s k then d else dt_of r s
  end.

Definition oget (W : wiring) (o : obj) (s : oslot) : val :=
  match s with
  | OName => o_name o | OCharge => o_charge o | OMult => o_mult o | OAttrib => o_attrib o
  | ONAtoms => VInt (Z.of_nat (length (o_atoms o)))
  | ONBonds => VInt (Z.of_nat (length (o_bonds o)))
  | ONConf => VInt (Z.of_N (o_nconf o))
  | OAtoms => VList (map (enc_atom (w_aser W)) (o_atoms o))
  | OBonds => VList (map (enc_bond (w_bser W)) (o_bonds o))
  | OCoords => VArr (dt_of (w_sdt W) OCoords) (o_coords o)
  | OCharges => VArr (dt_of (w_sdt W) OCharges) (o_charges o)
  | OWeights => VArr (dt_of (w_sdt W) OWeights) (o_weights o)
  | OSkip | OOdd => VNone
  end.

Definition encode (W : wiring) (o : obj) : val := VTup (map (oget W o) (w_oser W)).

(* np.frombuffer(bytes, dtype): the bytes were packed under `dt`, the reader assumes `dt_of (w_ddt W) s` *)
Definition arr_of (W : wiring) (s : oslot) (v : val) : option (list Z) :=
  match v with
  | VArr dt xs => if dtype_eqb dt (dt_of (w_ddt W) s) && lossless dt then Some xs else None
  | _ => None
  end.

Definition len_is {A} (l : list A) (z : Z) : bool := Z.eqb (Z.of_nat (length l)) z.

Definition natoms_ok (g : option val) (n : nat) : bool :=
  match g with
  | Some (VInt z) => Z.eqb z (Z.of_nat n)
  | Some _ => false
  | None => true
  end.

Definition default_name : val := VStr "unknown".
Definition py_name (x : val) : val := match x with VNone => default_name | _ => x end.

(* the body of a deserialiser once the tuple has been unpacked into named positions (`get`) *)
Definition decode_get (W : wiring) (get : oslot -> option val) : option obj :=
  let name := match get OName with Some x => py_name x | None => default_name end in
  let charge := match get OCharge with Some x => or_default x (VInt 0) | None => VInt 0 end in
  let mult := match get OMult with Some x => or_default x (VInt 1) | None => VInt 1 end in
  let attrib := match get OAttrib with Some x => or_default x (VMap []) | None => VMap [] end in
  match get OAtoms, get OBonds, get OCoords, get OCharges with
  | Some av, Some bv, Some cv, Some qv =>
    match seq_items av, seq_items bv, arr_of W OCoords cv, arr_of W OCharges qv with
    | Some ai, Some bi, Some coords, Some charges =>
      match mapM (dec_atom (w_ades W) (w_adflt W)) ai with
      | None => None
      | Some atoms =>
        let n := length atoms in
        if negb (natoms_ok (get ONAtoms) n) then None else
        match mapM (dec_bond (w_bdes W) (w_bdflt W) n) bi with
        | None => None
        | Some bonds =>
          if w_ens W then
            match get ONConf, get OWeights with
            | Some (VInt k), Some wv =>
              match arr_of W OWeights wv with
              | None => None
              | Some ws =>
                if (0 <=? k)%Z && len_is coords (k * Z.of_nat n * 3) && len_is charges (k * Z.of_nat n)
                   && len_is ws k
                then Some (mk_obj name charge mult attrib atoms bonds (Z.to_N k) coords charges ws)
                else None
              end
            | _, _ => None
            end
          else
            if len_is coords (Z.of_nat n * 3) && len_is charges (Z.of_nat n)
            then Some (mk_obj name charge mult attrib atoms bonds 0%N coords charges [])
            else None
        end
      end
    | _, _, _, _ => None
    end
  | _, _, _, _ => None
  end.

(* `( name, n_atoms, ... ) = mt`: the tuple must have exactly as many positions as the deserialiser unpacks *)
Definition decode (W : wiring) (v : val) : option obj :=
  match seq_items v with
  | None => None
  | Some items =>
    if negb (Nat.eqb (length items) (length (w_odes W))) then None
    else decode_get W (fun s => lookup oslot_eqb s (combine (w_odes W) items))
  end.

(* what is stored, as the model predicts it reads back *)
Definition storable_atom (a : atom) : bool :=
  forallb (fun s => storable (aget a s)) [AElement; AIsotope; ALabel; AAtype; AStereo; AGeom; AFCharge; AFSpin; AAttrib].
Definition storable_bond (b : bond) : bool :=
  forallb (fun s => storable (bget b s)) [BLabel; BBtype; BStereo; BFOrder; BAttrib].
Definition storable_obj (o : obj) : bool :=
  storable (o_name o) && storable (o_charge o) && storable (o_mult o) && storable (o_attrib o)
  && forallb storable_atom (o_atoms o) && forallb storable_bond (o_bonds o).

(* writing raises when a value cannot be packed; otherwise what is read back is the decoding of the packed tuple *)
Definition roundtrip (W : wiring) (o : obj) : option obj :=
  let e := encode W o in if storable e then decode W (mnorm e) else None.

(* the object after one trip: slots the encoding does not carry fall back to the constructor defaults,
   carried values are msgpack-normalised; arrays, conformer count, atom / bond order are untouched *)
Definition norm_obj (W : wiring) (o : obj) : obj :=
  let has s := mem oslot_eqb s (w_odes W) in
  mk_obj (if has OName then mnorm (o_name o) else default_name)
         (if has OCharge then mnorm (o_charge o) else VInt 0)
         (if has OMult then mnorm (o_mult o) else VInt 1)
         (if has OAttrib then mnorm (o_attrib o) else VMap [])
         (map (norm_atom (w_ades W) (w_adflt W)) (o_atoms o))
         (map (norm_bond (w_bdes W) (w_bdflt W)) (o_bonds o))
         (o_nconf o) (o_coords o) (o_charges o) (o_weights o).

(* only the msgpack normalisation, every slot kept *)
Definition mnorm_atom (a : atom) : atom := abuild (fun s => mnorm (aget a s)).
Definition mnorm_bond (b : bond) : bond :=
  mk_bond (b_a1 b) (b_a2 b) (mnorm (b_label b)) (mnorm (b_btype b)) (mnorm (b_stereo b)) (mnorm (b_forder b))
          (mnorm (b_attrib b)).
Definition mnorm_obj (o : obj) : obj :=
  mk_obj (mnorm (o_name o)) (mnorm (o_charge o)) (mnorm (o_mult o)) (mnorm (o_attrib o))
         (map mnorm_atom (o_atoms o)) (map mnorm_bond (o_bonds o))
         (o_nconf o) (o_coords o) (o_charges o) (o_weights o).

(* the legacy (v1) encoding has no slot for these: they come back as the constructor defaults *)
Definition reset_atom_v1 (dflt : atom) (a : atom) : atom :=
  mk_atom (a_element a) (a_isotope a) (a_label a) (a_atype a) (a_stereo a) (a_geom a)
          (a_fcharge dflt) (a_fspin dflt) (a_attrib dflt).
Definition reset_bond_v1 (dflt : bond) (b : bond) : bond :=
  mk_bond (b_a1 b) (b_a2 b) (b_label b) (b_btype b) (b_stereo b) (b_forder b) (b_attrib dflt).
Definition reset_obj_v1 (da : atom) (db : bond) (o : obj) : obj :=
  mk_obj (o_name o) (o_charge o) (o_mult o) (VMap [])
         (map (reset_atom_v1 da) (o_atoms o)) (map (reset_bond_v1 db) (o_bonds o))
         (o_nconf o) (o_coords o) (o_charges o) (o_weights o).

(* ------------------------------------------------------------------ objects the public API can build *)
(* name is a string (the name setter turns None into "unknown"), charge an int, mult a non-zero int (`mult or 1`),
   attrib a dict, every element a valid atomic number, every bond endpoint an atom of the object, and the arrays
   rectangular: (n_atoms,3)/(n_atoms,) for a molecule, (n_conf,n_atoms,3)/(n_conf,n_atoms)/(n_conf,) for an ensemble;
   every value can be packed (`storable`: the recorded finding C01:attrib:double-beyond-single-range-refused is excluded) *)
Definition is_str (v : val) : bool := match v with VStr _ => true | _ => false end.
Definition is_int (v : val) : bool := match v with VInt _ => true | _ => false end.
Definition is_nonzero_int (v : val) : bool := match v with VInt z => negb (Z.eqb z 0) | _ => false end.
Definition is_map (v : val) : bool := match v with VMap _ => true | _ => false end.
Definition wf_atomb (a : atom) : bool := valid_element (a_element a).
Definition wf_bondb (n : nat) (b : bond) : bool :=
  (Z.of_N (b_a1 b) <? Z.of_nat n)%Z && (Z.of_N (b_a2 b) <? Z.of_nat n)%Z.
Definition wf_shapeb (ens : bool) (o : obj) : bool :=
  let n := Z.of_nat (length (o_atoms o)) in
  if ens then
    len_is (o_coords o) (Z.of_N (o_nconf o) * n * 3) && len_is (o_charges o) (Z.of_N (o_nconf o) * n)
    && len_is (o_weights o) (Z.of_N (o_nconf o))
  else
    N.eqb (o_nconf o) 0 && match o_weights o with [] => true | _ => false end
    && len_is (o_coords o) (n * 3) && len_is (o_charges o) n.
Definition wf_objb (ens : bool) (o : obj) : bool :=
  is_str (o_name o) && is_int (o_charge o) && is_nonzero_int (o_mult o) && is_map (o_attrib o)
  && forallb wf_atomb (o_atoms o) && forallb (wf_bondb (length (o_atoms o))) (o_bonds o)
  && wf_shapeb ens o && storable_obj o.
Definition wf_obj (ens : bool) (o : obj) : Prop := wf_objb ens o = true.

(* every attribute value is something msgpack returns unchanged (no list, no double outside single precision) *)
Definition msgpack_stable (o : obj) : Prop := mnorm_obj o = o.

(* "nothing else": conformer count, the three arrays (hence their shapes), number of atoms, and the bond
   sequence with its endpoints *)
Definition frame (o : obj) : N * list Z * list Z * list Z * nat * list (N * N) :=
  (o_nconf o, o_coords o, o_charges o, o_weights o, length (o_atoms o), map (fun b => (b_a1 b, b_a2 b)) (o_bonds o)).

(* ------------------------------------------------------------------ premises decided on the regenerated wiring *)
Definition ocompat (s d : oslot) : bool := oslot_eqb d OSkip || oslot_eqb s d.

Definition arr_ok (W : wiring) (s : oslot) : bool :=
  dtype_eqb (dt_of (w_sdt W) s) (dt_of (w_ddt W) s) && lossless (dt_of (w_sdt W) s).

Definition wiring_ok (W : wiring) : bool :=
  forallb2 ocompat (w_oser W) (w_odes W)
  && negb (mem oslot_eqb OOdd (w_odes W))
  && mem oslot_eqb OAtoms (w_odes W) && mem oslot_eqb OBonds (w_odes W)
  && mem oslot_eqb OCoords (w_odes W) && mem oslot_eqb OCharges (w_odes W)
  && arr_ok W OCoords && arr_ok W OCharges
  && (if w_ens W then mem oslot_eqb ONConf (w_odes W) && mem oslot_eqb OWeights (w_odes W) && arr_ok W OWeights
      else true)
  && list_eqb aslot_eqb (w_aser W) (w_ades W) && negb (mem aslot_eqb AOdd (w_ades W))
  && valid_element (a_element (w_adflt W))
  && list_eqb bslot_eqb (w_bser W) (w_bdes W) && negb (mem bslot_eqb BOdd (w_bdes W))
  && mem bslot_eqb BA1 (w_bdes W) && mem bslot_eqb BA2 (w_bdes W).

(* every slot the property lists is carried (current encoding) *)
Definition covers_all (W : wiring) : bool :=
  mem oslot_eqb OName (w_odes W) && mem oslot_eqb OCharge (w_odes W) && mem oslot_eqb OMult (w_odes W)
  && mem oslot_eqb OAttrib (w_odes W)
  && forallb (fun s => mem aslot_eqb s (w_ades W))
       [AElement; AIsotope; ALabel; AAtype; AStereo; AGeom; AFCharge; AFSpin; AAttrib]
  && forallb (fun s => mem bslot_eqb s (w_bdes W)) [BLabel; BBtype; BStereo; BFOrder; BAttrib].

(* the legacy encoding carries exactly its schema *)
Definition covers_v1 (W : wiring) : bool :=
  mem oslot_eqb OName (w_odes W) && mem oslot_eqb OCharge (w_odes W) && mem oslot_eqb OMult (w_odes W)
  && negb (mem oslot_eqb OAttrib (w_odes W))
  && forallb (fun s => mem aslot_eqb s (w_ades W)) [AElement; AIsotope; ALabel; AAtype; AStereo; AGeom]
  && forallb (fun s => negb (mem aslot_eqb s (w_ades W))) [AFCharge; AFSpin; AAttrib]
  && forallb (fun s => mem bslot_eqb s (w_bdes W)) [BLabel; BBtype; BStereo; BFOrder]
  && negb (mem bslot_eqb BAttrib (w_bdes W)).

(* ------------------------------------------------------------------ equality of objects, correspondence check *)
Definition atom_eqb (a b : atom) : bool :=
  forallb (fun s => val_eqb (aget a s) (aget b s))
    [AElement; AIsotope; ALabel; AAtype; AStereo; AGeom; AFCharge; AFSpin; AAttrib].
Definition bond_eqb (a b : bond) : bool :=
  N.eqb (b_a1 a) (b_a1 b) && N.eqb (b_a2 a) (b_a2 b)
  && forallb (fun s => val_eqb (bget a s) (bget b s)) [BLabel; BBtype; BStereo; BFOrder; BAttrib].
Definition obj_eqb (a b : obj) : bool :=
  val_eqb (o_name a) (o_name b) && val_eqb (o_charge a) (o_charge b) && val_eqb (o_mult a) (o_mult b)
  && val_eqb (o_attrib a) (o_attrib b)
  && list_eqb atom_eqb (o_atoms a) (o_atoms b) && list_eqb bond_eqb (o_bonds a) (o_bonds b)
  && N.eqb (o_nconf a) (o_nconf b)
  && list_eqb Z.eqb (o_coords a) (o_coords b) && list_eqb Z.eqb (o_charges a) (o_charges b)
  && list_eqb Z.eqb (o_weights a) (o_weights b).

(* what the harness saw: the object read back through the library, or an exception *)
Inductive outcome := Back (o : obj) | Raised.

(* Model and implementation agree on one stored object.  The observation is msgpack-normalised too, so that an
   implementation that keeps lists as lists / doubles as doubles (the recorded encoding decision, repaired) agrees;
   for the same reason nothing is demanded where today's encoder refuses the value. *)
Definition check_with (W : wiring) (input : obj) (seen : outcome) : bool :=
  if negb (storable (encode W input)) then true     (* recorded finding (write refused): left unspecified *)
  else match roundtrip W input, seen with
       | Some o', Back ob => obj_eqb o' (mnorm_obj ob)
       | None, Raised => true
       | _, _ => false
       end.
