(* C10 / C08: executable models of molli/parsing/_reader.py, xyz.py, mol2.py and of the block -> molecule
   conversions yield_from_xyz (molli/chem/geometry.py) and yield_from_mol2 (molli/chem/structure.py).

   The readers are written as ONE-LINE-AT-A-TIME state machines folded over the list of lines:
     read ls = finish (fold_left step ls init)
   so termination and "at least one line is consumed per iteration" are part of the definition.
   The nested count-driven loops of the Python code (`for _ in range(n): next(reader)`) become modes that
   remember how many lines are still owed; `LineReader.put_back(line)` followed by a return to the main loop
   becomes re-dispatching the very same line in main mode (at most one line is ever pending in the Python
   code, so the deque never holds two).  EOF inside a mode that still owes lines is the Python
   StopIteration (-> XYZSyntaxError, or RuntimeError inside the mol2 generator).

   Every exception of the implementation is the single outcome `Err` (the property speaks of "an
   exception"); the tag only feeds the measured error distribution.  No proofs in this file. *)
From Coq Require Import List Bool Arith NArith ZArith Ascii String.
From Molli Require Import Common.ParseStr.
Import ListNotations.
Local Open Scope char_scope.
Local Open Scope list_scope.

Inductive etag := ESyntax | EEof | ECounts | EValue | EIndex | EType | EVocab | ENoHeader | EShape.
Inductive res (A : Type) := Ok (a : A) | Err (e : etag).
Arguments Ok {A}. Arguments Err {A}.

(* Python sequence indexing seq[k] for a sequence of length n: valid iff -n <= k < n; the normalised index *)
Definition py_index (n : nat) (k : Z) : option nat :=
  let zn := Z.of_nat n in
  if ((0 <=? k) && (k <? zn))%Z then Some (Z.to_nat k)
  else if ((k <? 0) && (- zn <=? k))%Z then Some (Z.to_nat (zn + k))
  else None.

(* ================================================================= xyz ===== *)
Record xatom := mk_xatom { xa_sym : str; xa_x : fval; xa_y : fval; xa_z : fval }.
Record xblock := mk_xblock { xb_n : Z; xb_comment : str; xb_atoms : list xatom }.

Inductive xmode :=
| XCount                                                      (* top of the while loop *)
| XComment (n : Z)                                            (* next(reader) for the comment *)
| XAtoms (n : Z) (c : str) (todo : N) (acc : list xatom).     (* inside for _ in range(n_atoms); acc reversed *)
Inductive xstate := XRun (m : xmode) (out : list xblock) | XFail (e : etag).

(* a, x, y, z = atom_line.split(); XYZAtom(a, float(x), float(y), float(z)) *)
Definition xyz_atom (l : str) : option xatom :=
  match split l with
  | [a; x; y; z] =>
    match parse_float x, parse_float y, parse_float z with
    | Some fx, Some fy, Some fz => Some (mk_xatom a fx fy fz)
    | _, _, _ => None
    end
  | _ => None
  end.

Definition xstep (st : xstate) (l : str) : xstate :=
  match st with
  | XFail e => XFail e
  | XRun m out =>
    match m with
    | XCount => match parse_int l with Some n => XRun (XComment n) out | None => XFail ESyntax end
    | XComment n =>
        if (n <=? 0)%Z then XRun XCount (mk_xblock n (strip l) [] :: out)
        else XRun (XAtoms n (strip l) (Z.to_N n) []) out
    | XAtoms n c todo acc =>
        match xyz_atom l with
        | None => XFail ESyntax
        | Some a => if (todo <=? 1)%N then XRun XCount (mk_xblock n c (rev (a :: acc)) :: out)
                    else XRun (XAtoms n c (todo - 1) (a :: acc)) out
        end
    end
  end.

Definition xinit : xstate := XRun XCount [].
Definition xfinish (st : xstate) : res (list xblock) :=
  match st with
  | XFail e => Err e
  | XRun XCount out => Ok (rev out)
  | XRun _ _ => Err EEof
  end.
Definition xrun (st : xstate) (ls : list str) : xstate := fold_left xstep ls st.
Definition read_xyz (ls : list str) : res (list xblock) := xfinish (xrun xinit ls).

(* ================================================================= mol2 ===== *)
Record m2atom := mk_m2atom { ma_toks : list str;               (* the >= 5 fields of the record *)
                             ma_attr_charge : option str }.    (* attrib["charge"] from UNITY_ATOM_ATTR *)
Record m2bond := mk_m2bond { mb_toks : list str }.             (* the >= 4 fields *)
Record m2hdr := mk_m2hdr { mh_name : str; mh_natoms : Z; mh_nbonds : option Z; mh_chrg : str }.
Record m2block := mk_m2block { mk_hdr : m2hdr; mk_atoms : list m2atom; mk_bonds : list m2bond }.

(* RE_TRIPOS.match(line): "@<TRIPOS>" followed by at least one of [A-Z_]; group 1 is the maximal run *)
Definition tripos_prefix : str := ["@"; "<"; "T"; "R"; "I"; "P"; "O"; "S"; ">"].
Definition is_secname_char (c : ascii) : bool :=
  let n := N_of_ascii c in (((65 <=? n) && (n <=? 90)) || (n =? 95))%N.
Fixpoint take_while (f : ascii -> bool) (s : str) : str :=
  match s with c :: r => if f c then c :: take_while f r else [] | [] => [] end.
Definition tripos_name (l : str) : option str :=
  match starts_with tripos_prefix l with
  | Some r => match take_while is_secname_char r with [] => None | nm => Some nm end
  | None => None
  end.

Inductive section := SMolecule | SAtom | SBond | SUAtom | SUBond | SOther.
Definition section_of (nm : str) : section :=
  if str_eqb nm (s2l "MOLECULE") then SMolecule
  else if str_eqb nm (s2l "ATOM") then SAtom
  else if str_eqb nm (s2l "BOND") then SBond
  else if str_eqb nm (s2l "UNITY_ATOM_ATTR") then SUAtom
  else if str_eqb nm (s2l "UNITY_BOND_ATTR") then SUBond
  else SOther.

Inductive m2mode :=
| MMain
| MHdr (got : list str)                         (* the five next(reader) after @<TRIPOS>MOLECULE; reversed *)
| MHdrComment (h : m2hdr)                       (* status_bits == "****": comment = next(reader) *)
| MAtoms (todo : N)
| MBonds (todo : N)
| MUAtom                                        (* while True: line = next(reader) *)
| MUAtomAttr (idx : Z) (todo : N)
| MUBond
| MUBondAttr (idx : Z) (todo : N).

Record m2vars := mk_m2vars {
  v_hdr : option m2hdr;                 (* parsed_header (n_atoms / n_bonds locals are always in sync with it) *)
  v_atoms : option (list m2atom);       (* parsed_atoms, None = Python None; stored REVERSED *)
  v_bonds : option (list m2bond);       (* parsed_bonds, reversed *)
  v_skip : bool;
  v_out : list m2block }.               (* yielded so far, reversed *)
Inductive m2state := MRun (m : m2mode) (v : m2vars) | MFail (e : etag).

Fixpoint map_opt {A B} (f : A -> option B) (l : list A) : option (list B) :=
  match l with
  | [] => Some []
  | x :: r => match f x, map_opt f r with Some y, Some ys => Some (y :: ys) | _, _ => None end
  end.

(* `strict` = true models the repaired reader (parsed_atoms/parsed_bonds start empty for every molecule, a second
   ATOM/BOND section inside one molecule is refused, and a block is only yielded when it holds exactly the record
   counts of its own header); `strict` = false is the reader before the repair of finding 22 (kept so that the
   defect stays expressible: C10_counts_refuted). *)
Section Mol2.
Variable strict : bool.

Definition nb_of (h : m2hdr) : Z := match mh_nbonds h with Some b => b | None => 0%Z end.
Definition len_is {A} (l : list A) (z : Z) : bool := (Z.of_nat (List.length l) =? z)%Z.

(* yield MOL2Block(parsed_header, parsed_atoms, parsed_bonds) *)
Definition m2yield (v : m2vars) : res m2vars :=
  match v_hdr v with
  | None => Ok v                      (* nothing to yield yet (first MOLECULE record) *)
  | Some h =>
    if strict then
      match v_atoms v, v_bonds v with
      | Some ra, Some rb =>
        if len_is ra (mh_natoms h) && len_is rb (nb_of h)
        then Ok (mk_m2vars (v_hdr v) (v_atoms v) (v_bonds v) (v_skip v) (mk_m2block h (rev ra) (rev rb) :: v_out v))
        else Err ECounts
      | _, _ => Err ECounts
      end
    else
      (* unrepaired: None atoms/bonds make the conversion raise TypeError, stale lists are passed through *)
      match v_atoms v, v_bonds v with
      | Some ra, Some rb =>
        Ok (mk_m2vars (v_hdr v) (v_atoms v) (v_bonds v) (v_skip v) (mk_m2block h (rev ra) (rev rb) :: v_out v))
      | _, _ => Err EType
      end
  end.

(* the header once its five lines are there: name, record counts, mol_type, charge_type, status_bits *)
Definition m2header (name counts chrg : str) : res m2hdr :=
  match map_opt parse_int (split counts) with
  | None => Err EValue
  | Some [na] => Ok (mk_m2hdr name na None chrg)
  | Some [na; nb] => Ok (mk_m2hdr name na (Some nb) chrg)
  | Some (na :: nb :: _ :: _) => Ok (mk_m2hdr name na (Some nb) chrg)
  | Some [] => Err ESyntax
  end.

Definition set_hdr (v : m2vars) (h : m2hdr) : m2vars :=
  mk_m2vars (Some h) (v_atoms v) (v_bonds v) (v_skip v) (v_out v).

Definition nonempty_opt {A} (o : option (list A)) : bool := match o with Some (_ :: _) => true | _ => false end.

(* main-mode dispatch of one (already stripped) line *)
Definition m2main (v : m2vars) (l : str) : m2state :=
  match l with
  | [] => MRun MMain v
  | c :: _ =>
    if ascii_eqb c "#" then MRun MMain v
    else match tripos_name l with
    | Some nm =>
      let v := mk_m2vars (v_hdr v) (v_atoms v) (v_bonds v) false (v_out v) in
      match section_of nm with
      | SMolecule =>
        match m2yield v with
        | Err e => MFail e
        | Ok v' => MRun (MHdr [])
                     (if strict then mk_m2vars (v_hdr v') (Some []) (Some []) false (v_out v') else v')
        end
      | SAtom =>
        match v_hdr v with
        | None => MFail ENoHeader                                   (* n_atoms unbound *)
        | Some h =>
          if strict && nonempty_opt (v_atoms v) then MFail ESyntax      (* second ATOM section of one molecule *)
          else
          let v' := mk_m2vars (v_hdr v) (Some []) (v_bonds v) false (v_out v) in
          if (mh_natoms h <=? 0)%Z then MRun MMain v' else MRun (MAtoms (Z.to_N (mh_natoms h))) v'
        end
      | SBond =>
        match v_hdr v with
        | None => MFail ENoHeader
        | Some h =>
          match mh_nbonds h with
          | None => MFail EType                                     (* range(None) *)
          | Some nb =>
            if strict && nonempty_opt (v_bonds v) then MFail ESyntax    (* second BOND section *)
            else
            let v' := mk_m2vars (v_hdr v) (v_atoms v) (Some []) false (v_out v) in
            if (nb <=? 0)%Z then MRun MMain v' else MRun (MBonds (Z.to_N nb)) v'
          end
        end
      | SUAtom => MRun MUAtom v
      | SUBond => MRun MUBond v
      | SOther => MRun MMain (mk_m2vars (v_hdr v) (v_atoms v) (v_bonds v) true (v_out v))
      end
    | None => if v_skip v then MRun MMain v else MFail ESyntax
    end
  end.

Fixpoint set_nth {A} (i : nat) (f : A -> A) (l : list A) : list A :=
  match l, i with
  | [], _ => []
  | x :: r, O => f x :: r
  | x :: r, S i' => x :: set_nth i' f r
  end.

(* parsed_atoms[idx - 1].attrib[attr] = value ; lists are stored reversed *)
Definition set_atom_attr (v : m2vars) (idx : Z) (attr value : str) : res m2vars :=
  match v_atoms v with
  | None => Err EType
  | Some ra =>
    match py_index (List.length ra) (idx - 1) with
    | None => Err EIndex
    | Some i =>
      let j := (List.length ra - 1 - i)%nat in
      let upd a := if str_eqb attr (s2l "charge") then mk_m2atom (ma_toks a) (Some value) else a in
      Ok (mk_m2vars (v_hdr v) (Some (set_nth j upd ra)) (v_bonds v) (v_skip v) (v_out v))
    end
  end.
Definition chk_bond_attr (v : m2vars) (idx : Z) : res m2vars :=
  match v_bonds v with
  | None => Err EType
  | Some rb => match py_index (List.length rb) (idx - 1) with None => Err EIndex | Some _ => Ok v end
  end.

Definition two_ints (l : str) : option (Z * Z) :=
  match map_opt parse_int (split l) with Some [a; b] => Some (a, b) | _ => None end.

Definition m2step (st : m2state) (raw : str) : m2state :=
  match st with
  | MFail e => MFail e
  | MRun m v =>
    let l := strip raw in
    match m with
    | MMain => m2main v l
    | MHdr got =>
      match got with
      | [chrg; _mtype; counts; name] =>          (* l is status_bits *)
        match m2header name counts chrg with
        | Err e => MFail e
        | Ok h =>
          match tripos_name l with
          | Some _ => m2main (set_hdr v h) l                       (* put_back + back to the main loop *)
          | None => if str_eqb l (s2l "****") then MRun (MHdrComment h) v else MRun MMain (set_hdr v h)
          end
        end
      | _ => MRun (MHdr (l :: got)) v
      end
    | MHdrComment h => MRun MMain (set_hdr v h)
    | MAtoms todo =>
      let toks := split l in
      if (List.length toks <? 5)%nat then MFail EType              (* MOL2Atom of the fields: missing arguments *)
      else
        let v' := mk_m2vars (v_hdr v) (option_map (cons (mk_m2atom toks None)) (v_atoms v)) (v_bonds v) (v_skip v) (v_out v) in
        if (todo <=? 1)%N then MRun MMain v' else MRun (MAtoms (todo - 1)) v'
    | MBonds todo =>
      let toks := split l in
      if (List.length toks <? 4)%nat then MFail EType
      else
        let v' := mk_m2vars (v_hdr v) (v_atoms v) (option_map (cons (mk_m2bond toks)) (v_bonds v)) (v_skip v) (v_out v) in
        if (todo <=? 1)%N then MRun MMain v' else MRun (MBonds (todo - 1)) v'
    | MUAtom =>
      match tripos_name l with
      | Some _ => m2main v l
      | None => match two_ints l with
                | None => MFail EValue
                | Some (idx, n) => if (n <=? 0)%Z then MRun MUAtom v else MRun (MUAtomAttr idx (Z.to_N n)) v
                end
      end
    | MUAtomAttr idx todo =>
      match split l with
      | [attr; value] =>
        match set_atom_attr v idx attr value with
        | Err e => MFail e
        | Ok v' => if (todo <=? 1)%N then MRun MUAtom v' else MRun (MUAtomAttr idx (todo - 1)) v'
        end
      | _ => MFail EValue
      end
    | MUBond =>
      match tripos_name l with
      | Some _ => m2main v l
      | None => match two_ints l with
                | None => MFail EValue
                | Some (idx, n) => if (n <=? 0)%Z then MRun MUBond v else MRun (MUBondAttr idx (Z.to_N n)) v
                end
      end
    | MUBondAttr idx todo =>
      match split l with
      | [_; _] =>
        match chk_bond_attr v idx with
        | Err e => MFail e
        | Ok v' => if (todo <=? 1)%N then MRun MUBond v' else MRun (MUBondAttr idx (todo - 1)) v'
        end
      | _ => MFail EValue
      end
    end
  end.

Definition m2init : m2state := MRun MMain (mk_m2vars None None None false []).
Definition m2finish (st : m2state) : res (list m2block) :=
  match st with
  | MFail e => Err e
  | MRun MMain v =>
    match v_hdr v with
    | None => Err ENoHeader              (* MOL2Block(None, None, None): block.header.name raises downstream *)
    | Some _ => match m2yield v with Err e => Err e | Ok v' => Ok (rev (v_out v')) end
    end
  | MRun _ _ => Err EEof                 (* StopIteration inside the generator -> RuntimeError *)
  end.
Definition m2run (st : m2state) (ls : list str) : m2state := fold_left m2step ls st.
Definition read_mol2 (ls : list str) : res (list m2block) := m2finish (m2run m2init ls).
End Mol2.

(* ================================================================= molecules ===== *)
(* what the correspondence and the theorems observe of one returned molecule *)
Record mol := mk_mol { m_natoms : Z;                 (* header count *)
                       m_nbonds : Z;
                       m_elems : list Z;             (* atomic numbers *)
                       m_coords : list (fval * fval * fval);
                       m_bonds : list (nat * nat) }. (* 0-based, as stored *)

Fixpoint all_ok {A} (l : list (res A)) : res (list A) :=
  match l with
  | [] => Ok []
  | Err e :: _ => Err e
  | Ok x :: r => match all_ok r with Ok xs => Ok (x :: xs) | Err e => Err e end
  end.

(* --- yield_from_xyz: cls(n_atoms=n, coords=block.coords); "*" is a dummy atom of Element.Unknown,
       anything else goes through Element.get = Element[symbol.capitalize()] *)
Definition star : str := ["*"].
Definition xyz_elem (elem_of_name : str -> option Z) (sym : str) : option Z :=
  if str_eqb sym star then Some 0%Z else elem_of_name (capitalize sym).

(* zero_ok: whether a 0-atom block can be turned into a geometry (finding 33: it could not, numpy refused to
   broadcast shape (0,) into (0,3)); negative counts are refused by the constructor *)
Definition xyz_build (zero_ok : bool) (elem_of_name : str -> option Z) (b : xblock) : res mol :=
  if (xb_n b <? 0)%Z then Err EValue
  else if (xb_n b =? 0)%Z && negb zero_ok then Err EShape
  else match map_opt (fun a => xyz_elem elem_of_name (xa_sym a)) (xb_atoms b) with
       | None => Err EVocab
       | Some es => Ok (mk_mol (xb_n b) 0 es (map (fun a => (xa_x a, xa_y a, xa_z a)) (xb_atoms b)) [])
       end.

Definition res_bind {A B} (r : res A) (f : A -> res B) : res B := match r with Ok a => f a | Err e => Err e end.

Definition load_xyz_lines (zero_ok : bool) (elem_of_name : str -> option Z) (ls : list str) : res (list mol) :=
  res_bind (read_xyz ls) (fun bs => all_ok (map (xyz_build zero_ok elem_of_name) bs)).

(* --- yield_from_mol2 (for Molecule: has atomic_charges).  The two vocabularies are parameters:
       atype tok = Some z  when Atom.set_mol2_type(tok) succeeds and leaves element z,
       btype tok = true    when tok is a key of MOL2_BOND_TYPE_MAP. *)
Definition nth_tok (i : nat) (l : list str) : option str := nth_error l i.

Definition m2_atom_conv (atype : str -> option Z) (need_charge : bool) (a : m2atom)
  : res (Z * (fval * fval * fval)) :=
  let t := ma_toks a in
  match nth_tok 2 t, nth_tok 3 t, nth_tok 4 t with
  | Some x, Some y, Some z =>
    match parse_float x, parse_float y, parse_float z with
    | Some fx, Some fy, Some fz =>
      match nth_tok 5 t with
      | None => Err EType                                  (* set_mol2_type(None) *)
      | Some ty =>
        match atype ty with
        | None => Err EVocab
        | Some e =>
          match (match ma_attr_charge a with None => Some 0%Z | Some c => parse_int c end) with
          | None => Err EValue
          | Some _ =>
            if need_charge then
              match nth_tok 8 t with
              | None => Err EType                          (* float(None) *)
              | Some c => match parse_float c with Some _ => Ok (e, (fx, fy, fz)) | None => Err EValue end
              end
            else Ok (e, (fx, fy, fz))
          end
        end
      end
    | _, _, _ => Err EValue
    end
  | _, _, _ => Err EType
  end.

Definition m2_bond_conv (btype : str -> bool) (n : nat) (b : m2bond) : res (nat * nat) :=
  let t := mb_toks b in
  match nth_tok 1 t, nth_tok 2 t, nth_tok 3 t with
  | Some a1, Some a2, Some ty =>
    match parse_int a1, parse_int a2 with
    | Some i1, Some i2 =>
      match py_index n (i1 - 1), py_index n (i2 - 1) with
      | Some k1, Some k2 => if btype ty then Ok (k1, k2) else Err EVocab
      | _, _ => Err EIndex
      end
    | _, _ => Err EValue
    end
  | _, _, _ => Err EType
  end.

Definition no_charges : str := s2l "NO_CHARGES".

Definition mol2_build (atype : str -> option Z) (btype : str -> bool) (b : m2block) : res mol :=
  let h := mk_hdr b in
  let n := mh_natoms h in
  if (n <? 0)%Z then Err EValue                              (* constructor refuses a negative atom count *)
  else if (n <? Z.of_nat (List.length (mk_atoms b)))%Z then Err EIndex    (* res.coords[i] = ... out of range *)
  else
    let need_charge := negb (str_eqb (mh_chrg h) no_charges) in
    res_bind (all_ok (map (m2_atom_conv atype need_charge) (mk_atoms b))) (fun ats =>
    res_bind (all_ok (map (m2_bond_conv btype (Z.to_nat n)) (mk_bonds b))) (fun bds =>
    if need_charge && negb (len_is (mk_atoms b) n) then Err EShape        (* atomic_charges setter: wrong length *)
    else Ok (mk_mol n (nb_of h) (map fst ats) (map snd ats) bds))).

Definition load_mol2_lines (strict : bool) (atype : str -> option Z) (btype : str -> bool) (ls : list str)
  : res (list mol) :=
  res_bind (read_mol2 strict ls) (fun bs => all_ok (map (mol2_build atype btype) bs)).

(* ================================================================= damage ===== *)
(* the damage operators of the property, on the list of lines of a text *)
Inductive damage :=
| DNone
| DTrunc (k : nat)                      (* keep the first k lines *)
| DCut (k : nat) (b : nat)              (* keep k lines and the first b characters of line k (b = 0: nothing of it) *)
| DDel (i : nat)                        (* delete line i *)
| DDup (i : nat)                        (* duplicate line i *)
| DRepl (i : nat) (l : str).            (* replace line i (token corruption) *)

Fixpoint del_nth {A} (i : nat) (l : list A) : list A :=
  match l, i with [], _ => [] | _ :: r, O => r | x :: r, S i' => x :: del_nth i' r end.
Fixpoint dup_nth {A} (i : nat) (l : list A) : list A :=
  match l, i with [], _ => [] | x :: r, O => x :: x :: r | x :: r, S i' => x :: dup_nth i' r end.
Fixpoint repl_nth {A} (i : nat) (y : A) (l : list A) : list A :=
  match l, i with [], _ => [] | _ :: r, O => y :: r | x :: r, S i' => x :: repl_nth i' y r end.

Definition apply_damage (d : damage) (ls : list str) : list str :=
  match d with
  | DNone => ls
  | DTrunc k => firstn k ls
  | DCut k b => firstn k ls ++ match nth_error ls k with
                               | Some l => match firstn b l with [] => [] | p => [p] end
                               | None => []
                               end
  | DDel i => del_nth i ls
  | DDup i => dup_nth i ls
  | DRepl i l => repl_nth i l ls
  end.
