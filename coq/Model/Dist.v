(* C19 (kernels) -- executable model of molli_xt/distance.cpp: euclidean2 / euclidean and the distance-matrix
   loops cdist22 / cdist32, written once over an abstract record of field operations (Common/Field3.v):
   instantiated with R in Proofs/Dist.v (theorems), with Q here (`check`, run by vm_compute in the correspondence
   shards against the shim build of the C++ source and against the shipped extension).  No proofs in this file.

   An ndarray is modelled as its shape plus its C-order flat buffer, because that is what the C++ writes
   (`_result(i, j)` = buf[i*L2 + j]) and because a nested list cannot tell shape (0,5) from (5,0) or (0,0). *)
From Coq Require Import List ZArith QArith Qabs Bool Arith.
From Molli Require Import Common.Field3.
Import ListNotations.

Record arr (F : Type) := mkArr { shape : list nat; data : list F }.
Arguments mkArr {F}. Arguments shape {F}. Arguments data {F}.

Section Kernels.
Context {F : Type} (o : Fops F).

Definition square (x : F) : F := fmul o x x.

(* `T dist = 0; for (i = 0; i < ND; i++) dist += square(vec1[i] - vec2[i]);` for any ND: the points are the
   ND-element lists; the accumulation runs left to right exactly like the loop *)
Definition euclidean2_nd (a b : list F) : F :=
  fold_left (fun acc p => fadd o acc (square (fsub o (fst p) (snd p)))) (combine a b) (f0 o).

(* the instantiation the module registers: ND = 3 (a row of an (N,3) array) *)
Definition euclidean2 (a b : vec F) : F :=
  let '(a1, a2, a3) := a in let '(b1, b2, b3) := b in euclidean2_nd [a1; a2; a3] [b1; b2; b3].

(* cdist22: result[i][j] = f(arr1[i], arr2[j]), shape (L1, L2) *)
Definition cdist22 (f : vec F -> vec F -> F) (A B : list (vec F)) : arr F :=
  mkArr [length A; length B] (flat_map (fun a => map (f a) B) A).

(* cdist32: arr1 has shape (X, L1, 3) -- a list of X blocks, each of L1 rows (L1 is carried separately because
   it cannot be recovered from the list when X = 0); result[x][i][j] = f(arr1[x][i], arr2[j]), shape (X, L1, L2) *)
Definition cdist32 (f : vec F -> vec F -> F) (L1 : nat) (E : list (list (vec F))) (B : list (vec F)) : arr F :=
  mkArr [length E; L1; length B] (flat_map (fun A => data (cdist22 f A B)) E).

(* `euclidean` is sqrt(euclidean2).  The field record has no square root; over R the theorems use `sqrt`
   (Proofs/Dist.v), and an observed value d is accepted as the root of s when it is non-negative and d*d is
   within s*tol of s.  Proofs/Dist.v: sqrt_close ROps tol d s = true -> |d - sqrt s| <= tol * sqrt s. *)
Definition sqrt_close (tol d s : F) : bool :=
  fleb o (f0 o) d && fleb o (fsub o (fmul o d d) s) (fmul o s tol) && fleb o (fsub o s (fmul o d d)) (fmul o s tol).

(* relative closeness for the squared kernel; tol = 0 means equality *)
Definition rel_close (tol x s : F) : bool :=
  fleb o (fsub o x s) (fmul o s tol) && fleb o (fsub o s x) (fmul o s tol).
End Kernels.

(* ------------------------------------------------------------------ correspondence (over Q) *)
Inductive kernel := K22 | K32.

(* One call of a registered kernel.  `sq` = squared variant (…_eu2); `tol` = 0 on dyadic inputs with few
   mantissa bits (every float operation is then exact, comparison is equality) and a stated relative bound
   otherwise; `l1` = arr1.shape[-2]; the observation is the returned array's shape and C-order contents. *)
Record case := mkCase {
  c_kernel : kernel; c_sq : bool; c_tol : Q;
  c_l1 : nat; c_arr1 : list (list (vec Q)); c_arr2 : list (vec Q);
  c_oshape : list nat; c_odata : list Q }.

Definition model_sq (c : case) : arr Q :=
  match c_kernel c with
  | K22 => cdist22 (euclidean2 QOps) (hd [] (c_arr1 c)) (c_arr2 c)
  | K32 => cdist32 (euclidean2 QOps) (c_l1 c) (c_arr1 c) (c_arr2 c)
  end.

Fixpoint all2 {A B} (p : A -> B -> bool) (l : list A) (m : list B) : bool :=
  match l, m with
  | [], [] => true
  | x :: l', y :: m' => p x y && all2 p l' m'
  | _, _ => false
  end.

Definition check (c : case) : bool :=
  let m := model_sq c in
  all2 Nat.eqb (shape m) (c_oshape c) &&
  all2 (fun s d => if c_sq c then rel_close QOps (c_tol c) d s else sqrt_close QOps (c_tol c) d s) (data m) (c_odata c).
