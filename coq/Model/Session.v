(* C04.  (1) the session contract as a boolean predicate on call traces of reading()/writing();
         (2) a labelled transition system: any number of processes running sessions on handles of one UKV
             file under an inter-process reader/writer lock (assumed semantics of fasteners/fcntl:
             a writer excludes everybody, readers exclude writers).
   Executable; no proofs here. *)
From Coq Require Import NArith List Bool String.
Import ListNotations.
From Molli Require Import Common.Exc Model.UKV.

(* ---------- (1) session contract on traces ---------- *)
Definition is_last (n : string) (t : trace) : bool :=
  match last_call t with Some m => String.eqb m n | None => false end.

Definition sess_ok (acq rel beg fin : string) (flushes : bool) (r : trace * bool) : bool :=
  let '(t, e) := r in
  Bool.eqb e (existsb snd t)                                            (* no exception swallowed or invented *)
  && (if called_ok acq t then is_last rel t else negb (called rel t))   (* lock released, last; never released if not held *)
  && implb (called_ok beg t)                                            (* file opened => closed, before the release *)
           (called fin t && before fin rel t && (negb flushes || called "flush" t))
  && implb (called "body" t)                                            (* the body runs only with the lock and the file *)
           (called_ok acq t && called_ok beg t && before "body" rel t)
  && implb (called beg t || called "update_keys" t || called fin t) (called_ok acq t).

Definition wsess_ok := sess_ok "acquire_write_lock" "release_write_lock" "begin_write" "end_write" true.
Definition rsess_ok := sess_ok "acquire_read_lock" "release_read_lock" "begin_read" "end_read" false.

Definition trace_eqb (a b : trace * bool) : bool :=
  Bool.eqb (snd a) (snd b) &&
  (fix go (x y : trace) : bool :=
     match x, y with
     | [], [] => true
     | p :: x', q :: y' => String.eqb (fst p) (fst q) && Bool.eqb (snd p) (snd q) && go x' y'
     | _, _ => false
     end) (fst a) (fst b).

Definition set_eqs (a b : list string) : bool :=
  forallb (fun x => mem x b) a && forallb (fun x => mem x a) b.

Definition fault_row := (list string * (trace * bool) * bool * bool)%type.
Definition row_set (r : fault_row) : list string := fst (fst (fst r)).
Definition row_obs (r : fault_row) : trace * bool := snd (fst (fst r)).
Definition row_free (r : fault_row) : bool := snd (fst r).
Definition row_closed (r : fault_row) : bool := snd r.

(* the observed table agrees with the skeleton's denotation on every row, covers every fault vector
   (over all calls but the release itself), and shows the lock free and the file closed afterwards *)
Definition table_ok (prog : cmd) (rel : string) (rows : list fault_row) : bool :=
  forallb (fun r => trace_eqb (exec (fun n => mem n (row_set r)) prog) (row_obs r) && row_free r && row_closed r) rows
  && forallb (fun S => existsb (fun r => set_eqs S (row_set r)) rows)
             (filter (fun S => negb (mem rel S)) (subsets (names prog))).

(* ---------- (1b) the constructor's critical section ---------- *)
(* Creating (or re-creating) the library file is a write to shared state: it must happen with the inter-process
   write lock held, and -- unless the caller asked for overwrite -- the decision "the file is not there" must have
   been taken inside the same lock hold (a look before the lock may be stale: another process can create the
   library and complete a writing session in between, which the creation would then destroy). *)
Fixpoint ctor_scan (overwrite held checked : bool) (evs : list string) : bool :=
  match evs with
  | [] => negb held                                   (* the lock is released at the end *)
  | e :: r =>
      if String.eqb e "acquire" then negb held && ctor_scan overwrite true false r
      else if String.eqb e "release" then held && ctor_scan overwrite false false r
      else if String.eqb e "exists" then ctor_scan overwrite held (checked || held) r
      else if String.eqb e "create" then held && (overwrite || checked) && ctor_scan overwrite held checked r
      else false
  end.
Definition ctor_row_ok (r : bool * bool * bool * list string) : bool :=
  let '(ex, ov, ro, evs) := r in
  ctor_scan ov false false evs
  && (if ex then Bool.eqb (existsb (String.eqb "create") evs) ov     (* an existing library is re-created iff overwrite *)
      else existsb (String.eqb "create") evs).                       (* a missing one is created *)
Definition ctor_table_ok (rows : list (bool * bool * bool * list string)) : bool :=
  forallb ctor_row_ok rows
  && forallb (fun c : bool * bool * bool => existsb (fun r => let '(ex, ov, ro, _) := r in let '(a, b, d) := c in
                                              Bool.eqb ex a && Bool.eqb ov b && Bool.eqb ro d) rows)
             [(false, false, false); (false, false, true); (false, true, false); (false, true, true);
              (true, false, false); (true, false, true); (true, true, false); (true, true, true)].

(* ---------- (2) processes, lock, sessions ---------- *)
Inductive lk := LFree | LRead | LWrite.
Record proc := mkp { plock : lk; pcur : option nat }.
Definition p0 : proc := mkp LFree None.

Record lworld := mkl { lw : world; procs : list proc; owner : list nat }.   (* owner: handle index -> process *)

Inductive label :=
| LAcq (p : nat) (w : bool)      (* acquire the read / write lock *)
| LOpen (p : nat) (i : nat)      (* begin_read / begin_write on handle i *)
| LDo (p : nat) (o : op)         (* put / get / keys inside the session *)
| LClose (p : nat)               (* end_read / end_write *)
| LRel (p : nat).                (* release the lock *)

Definition pnth (ps : list proc) (p : nat) : proc := nth p ps p0.

Fixpoint others_ok (ps : list proc) (p : nat) (k : nat) (f : lk -> bool) : bool :=
  match ps with
  | [] => true
  | q :: r => (Nat.eqb k p || f (plock q)) && others_ok r p (S k) f
  end.

Definition lk_eqb (a b : lk) : bool :=
  match a, b with LFree, LFree | LRead, LRead | LWrite, LWrite => true | _, _ => false end.

Definition lstep (s : lworld) (l : label) : option (lworld * res) :=
  let ps := procs s in
  match l with
  | LAcq p w =>
      if Nat.ltb p (List.length ps) && lk_eqb (plock (pnth ps p)) LFree &&
         others_ok ps p 0 (fun k => if w then lk_eqb k LFree else negb (lk_eqb k LWrite))
      then Some (mkl (lw s) (upd ps p (mkp (if w then LWrite else LRead) (pcur (pnth ps p)))) (owner s), ROk)
      else None
  | LOpen p i =>
      match plock (pnth ps p), pcur (pnth ps p) with
      | LFree, _ | _, Some _ => None
      | k, None =>
          if Nat.ltb p (List.length ps) && Nat.ltb i (List.length (snd (lw s))) && Nat.eqb (nth i (owner s) (List.length ps)) p
             && closed (nth i (snd (lw s)) h0)
          then let '(w', r) := step (lw s) (Open i (match k with LWrite => MA | _ => MR end)) in
               Some (mkl w' (upd ps p (mkp k (Some i))) (owner s), r)
          else None
      end
  | LDo p o =>
      match pcur (pnth ps p), o with
      | Some i, (Put j _ _ | Get j _ | Keys j) =>
          if Nat.eqb i j && Nat.ltb i (List.length (snd (lw s))) then
            let '(w', r) := step (lw s) o in Some (mkl w' ps (owner s), r)
          else None
      | _, _ => None
      end
  | LClose p =>
      match pcur (pnth ps p) with
      | Some i => if Nat.ltb p (List.length ps) && Nat.ltb i (List.length (snd (lw s))) then
                    let '(w', r) := step (lw s) (Close i) in
                    Some (mkl w' (upd ps p (mkp (plock (pnth ps p)) None)) (owner s), r)
                  else None
      | None => None
      end
  | LRel p =>
      match plock (pnth ps p), pcur (pnth ps p) with
      | LFree, _ | _, Some _ => None
      | _, None => if Nat.ltb p (List.length ps) then Some (mkl (lw s) (upd ps p p0) (owner s), ROk) else None
      end
  end.

(* a schedule is any list of labels; a label that is not enabled is refused (the process would block / time out)
   and leaves the state unchanged *)
Inductive outcome := Done (r : res) | Refused.
Fixpoint lrun (s : lworld) (ls : list label) : list outcome * lworld :=
  match ls with
  | [] => ([], s)
  | l :: ls' =>
      match lstep s l with
      | Some (s', r) => let '(os, sf) := lrun s' ls' in (Done r :: os, sf)
      | None => let '(os, sf) := lrun s ls' in (Refused :: os, sf)
      end
  end.

(* ---------- session-step granularity, as a real process experiences it ---------- *)
(* __enter__ = acquire + begin (atomic for an observer); __exit__ = end + release *)
Inductive mlabel := MEnter (p i : nat) (w : bool) | MDo (p : nat) (o : op) | MExit (p : nat).

Definition mstep (s : lworld) (m : mlabel) : lworld * outcome :=
  match m with
  | MEnter p i w =>
      match lstep s (LAcq p w) with
      | None => (s, Refused)
      | Some (s1, _) => match lstep s1 (LOpen p i) with Some (s2, r) => (s2, Done r) | None => (s, Refused) end
      end
  | MDo p o => match lstep s (LDo p o) with Some (s', r) => (s', Done r) | None => (s, Refused) end
  | MExit p =>
      match lstep s (LClose p) with
      | Some (s1, _) => match lstep s1 (LRel p) with Some (s2, r) => (s2, Done r) | None => (s1, Refused) end
      | None => (s, Refused)
      end
  end.

Fixpoint mrun (s : lworld) (ms : list mlabel) : list outcome * lworld :=
  match ms with
  | [] => ([], s)
  | m :: ms' => let '(s', o) := mstep s m in let '(os, sf) := mrun s' ms' in (o :: os, sf)
  end.

Definition outcome_eqb (a b : outcome) : bool :=
  match a, b with Done x, Done y => res_eqb x y | Refused, Refused => true | _, _ => false end.

(* case = ((initial file, number of processes (process p owns handle p), macro labels), (observed outcomes, final file)) *)
Definition mcase := ((bytes * nat * list mlabel) * (list outcome * bytes))%type.
Definition check_mcase (c : mcase) : bool :=
  let '((f0, n, ms), (eos, ef)) := c in
  let '(os, sf) := mrun (mkl (f0, repeat h0 n) (repeat p0 n) (seq 0 n)) ms in
  all2 outcome_eqb os eos && beq (fst (lw sf)) ef.
