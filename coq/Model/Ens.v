(* C14 -- executable model of molli/chem/ensemble.py: ConformerEnsemble (constructor branches, append,
   extend, collective transforms, whole-array setters, iteration, slicing (reading the slice and writing through
   its elements), dumps, io round trip) and the Conformer view class.

   Numbers are exact integers or NaN ([num] = option Z): the claim is about SHAPES and about WHICH row
   is read or written, and integer-valued doubles make every transform (scale by an integer, translate by
   an integer vector, multiply by an integer 3x3 matrix) exact, so model and implementation can be
   compared for equality.  NaN propagates as in IEEE arithmetic (np.full(..., nan) of the constructor).

   A [store] holds every ensemble created so far (index = creation order) and every iterator created
   so far.  An operation that raises returns [Err]: the store is unchanged (the correspondence run
   checks that against the implementation after every raising call).  Two regions are left unspecified
   ([Unspec], recorded findings, never generated): append onto the atomless empty ensemble
   ConformerEnsemble() and an explicit n_conformers=0 together with a Molecule.

   Written against the code that exists in /repo, branch by branch.  NO proofs in this file. *)
From Coq Require Import List Bool Arith ZArith.
Import ListNotations.

(* ------------------------------------------------------------------ numbers *)
Definition num := option Z.                     (* None = NaN *)
Definition NaN : num := None.
Definition n (z : Z) : num := Some z.
Definition nadd (a b : num) : num := match a, b with Some x, Some y => Some (x + y)%Z | _, _ => None end.
Definition nmul (a b : num) : num := match a, b with Some x, Some y => Some (x * y)%Z | _, _ => None end.

Definition row3 := (num * num * num)%type.      (* the coordinate of one atom *)
Definition r3 (x y z : Z) : row3 := (Some x, Some y, Some z).
Definition rnan : row3 := (None, None, None).
Definition vec3 := (Z * Z * Z)%type.
Definition mat3 := (vec3 * vec3 * vec3)%type.   (* rows of a 3x3 matrix *)

Definition r_scale (f : Z) (r : row3) : row3 :=
  let '(x, y, z) := r in (nmul x (Some f), nmul y (Some f), nmul z (Some f)).
Definition r_add (v : vec3) (r : row3) : row3 :=
  let '(x, y, z) := r in let '(a, b, c) := v in (nadd x (Some a), nadd y (Some b), nadd z (Some c)).
(* r @ M *)
Definition r_mat (M : mat3) (r : row3) : row3 :=
  let '(x, y, z) := r in
  let '((a, b, c), (d, e, f), (g, h, i)) := M in
  (nadd (nadd (nmul x (Some a)) (nmul y (Some d))) (nmul z (Some g)),
   nadd (nadd (nmul x (Some b)) (nmul y (Some e))) (nmul z (Some h)),
   nadd (nadd (nmul x (Some c)) (nmul y (Some f))) (nmul z (Some i))).

(* ------------------------------------------------------------------ list helpers *)
Fixpoint set_nth {A} (k : nat) (x : A) (l : list A) : list A :=
  match l, k with
  | [], _ => []
  | _ :: r, O => x :: r
  | y :: r, S k' => y :: set_nth k' x r
  end.

Fixpoint zipw {A B C} (f : A -> B -> C) (l1 : list A) (l2 : list B) : list C :=
  match l1, l2 with
  | a :: r1, b :: r2 => f a b :: zipw f r1 r2
  | _, _ => []
  end.

(* seq[i] of Python / numpy for a sequence of length n: negative indices wrap once *)
Definition py_index (len : nat) (i : Z) : option nat :=
  let zn := Z.of_nat len in
  if (0 <=? i)%Z then (if (i <? zn)%Z then Some (Z.to_nat i) else None)
  else if (- zn <=? i)%Z then Some (Z.to_nat (zn + i)) else None.

(* arr[k] on the first axis *)
Definition get_row {A} (k : Z) (l : list (list A)) : option (list A) :=
  match py_index (length l) k with Some j => nth_error l j | None => None end.

(* arr[k] = f(arr[k]) on the first axis; None: IndexError or f refused (shape) *)
Definition upd_row {A} (k : Z) (f : list A -> option (list A)) (l : list (list A)) : option (list (list A)) :=
  match py_index (length l) k with
  | None => None
  | Some j => match nth_error l j with
              | None => None
              | Some r => match f r with Some r' => Some (set_nth j r' l) | None => None end
              end
  end.

(* row[a] = x *)
Definition set_elem {A} (a : Z) (x : A) (r : list A) : option (list A) :=
  match py_index (length r) a with Some j => Some (set_nth j x r) | None => None end.

(* a (k, a) array given as nested lists *)
Definition shape2 {A} (k a : nat) (v : list (list A)) : bool :=
  ((length v =? k) && forallb (fun r => length r =? a) v)%bool.

(* np.frombuffer(...).reshape((k, a[, 3])) *)
Fixpoint chunk {A} (k a : nat) (l : list A) : list (list A) :=
  match k with O => [] | S k' => firstn a l :: chunk k' a (skipn a l) end.
Definition reshape {A} (k a : nat) (l : list A) : option (list (list A)) :=
  if length l =? k * a then Some (chunk k a l) else None.

(* ------------------------------------------------------------------ the ensemble *)
Record ens := mkEns {
  na      : nat;                   (* n_atoms: length of the atom list (never changed by these operations) *)
  coords  : list (list row3);      (* _coords         (nc, na, 3) *)
  charges : list (list num);       (* _atomic_charges (nc, na)    *)
  weights : list num               (* _weights        (nc,)       *)
}.

Definition nc (e : ens) : nat := length (coords e).      (* n_conformers = _coords.shape[0] *)

(* np.full((k, a, 3), nan) / np.zeros((k, a)) / np.ones((k,)) *)
Definition alloc (k a : nat) : ens :=
  mkEns a (repeat (repeat rnan a) k) (repeat (repeat (n 0) a) k) (repeat (n 1) k).

(* whole-array setters: self._X[:] = other  (full-shape arrays only: broadcasting is outside the alphabet) *)
Definition set_all_coords (v : list (list row3)) (e : ens) : option ens :=
  if shape2 (length (coords e)) (na e) v then Some (mkEns (na e) v (charges e) (weights e)) else None.
Definition set_all_charges (v : list (list num)) (e : ens) : option ens :=
  if shape2 (length (charges e)) (na e) v then Some (mkEns (na e) (coords e) v (weights e)) else None.
Definition set_all_weights (v : list num) (e : ens) : option ens :=
  if length v =? length (weights e) then Some (mkEns (na e) (coords e) (charges e) v) else None.

(* ---- collective transformations: maps over every row of every conformer *)
Definition map_coords (f : row3 -> row3) (e : ens) : ens :=
  mkEns (na e) (map (map f) (coords e)) (charges e) (weights e).

(* scale(factor, allow_inversion): ValueError for factor < 0 without allow_inversion, and for factor == 0 *)
Definition scale_ok (f : Z) (inv : bool) : bool := negb (((f <? 0)%Z && negb inv) || (f =? 0)%Z).
Definition e_scale (f : Z) (inv : bool) (e : ens) : option ens :=
  if scale_ok f inv then Some (map_coords (r_scale f) e) else None.

(* one parameter per conformer (shape (nc, ...)), or one parameter broadcast to all (shape (1, ...)) *)
Definition per_conf {B} (g : B -> row3 -> row3) (ps : list B) (e : ens) : option ens :=
  if length ps =? nc e then
    Some (mkEns (na e) (zipw (fun p row => map (g p) row) ps (coords e)) (charges e) (weights e))
  else match ps with
       | [p] => Some (map_coords (g p) e)
       | _ => None
       end.

(* ---- append / extend (as repaired: charges and weights grow with the coordinates, or nothing does).
   gs: the new conformers as (coordinates, charges) -- a geometry without partial charges was given zeros.
   np.append(..., axis=0) needs (m, na, 3) blocks; an empty list gives a 1-d array and raises. *)
Definition e_extend (gs : list (list row3 * list num)) (e : ens) : option ens :=
  match gs with
  | [] => None
  | _ => if forallb (fun g => (length (fst g) =? na e) && (length (snd g) =? na e))%bool gs
         then Some (mkEns (na e) (coords e ++ map fst gs) (charges e ++ map snd gs)
                          (weights e ++ repeat (n 1) (length gs)))
         else None
  end.

(* extend(other ensemble): its coords, atomic_charges and weights are appended *)
Definition e_extend_ens (o : ens) (e : ens) : option ens :=
  if na o =? na e then Some (mkEns (na e) (coords e ++ coords o) (charges e ++ charges o) (weights e ++ weights o))
  else None.

(* ---- the Conformer view: ens[k] reads / writes row k of the parent's arrays *)
Definition c_get_coords (k : Z) (e : ens) : option (list row3) := get_row k (coords e).
Definition c_get_charges (k : Z) (e : ens) : option (list num) := get_row k (charges e).

Definition with_coords (e : ens) (cs : list (list row3)) : ens := mkEns (na e) cs (charges e) (weights e).
Definition with_charges (e : ens) (qs : list (list num)) : ens := mkEns (na e) (coords e) qs (weights e).

(* conformer.coords = v  (v of shape (na, 3)) *)
Definition c_set_coords (k : Z) (v : list row3) (e : ens) : option ens :=
  if length v =? na e then option_map (with_coords e) (upd_row k (fun _ => Some v) (coords e)) else None.
(* conformer.atomic_charges = v  (Molecule's setter checks the shape (n_atoms,), then the row is assigned) *)
Definition c_set_charges (k : Z) (v : list num) (e : ens) : option ens :=
  if length v =? na e then option_map (with_charges e) (upd_row k (fun _ => Some v) (charges e)) else None.
(* conformer.coords[a] = r ; conformer.atomic_charges[a] = q *)
Definition c_set_coord_elem (k a : Z) (r : row3) (e : ens) : option ens :=
  option_map (with_coords e) (upd_row k (set_elem a r) (coords e)).
Definition c_set_charge_elem (k a : Z) (q : num) (e : ens) : option ens :=
  option_map (with_charges e) (upd_row k (set_elem a q) (charges e)).
(* conformer.scale / translate / transform: CartesianGeometry methods acting on the view *)
Definition c_map (k : Z) (f : row3 -> row3) (e : ens) : option ens :=
  option_map (with_coords e) (upd_row k (fun r => Some (map f r)) (coords e)).

(* ---- dumps: for conf in self: conf.dump_xyz / dump_mol2 -- as parsed back: per conformer the atom lines *)
Definition dump_xyz (e : ens) : list (list row3) := coords e.
Fixpoint zip_rows (cs : list (list row3)) (qs : list (list num)) : option (list (list (row3 * num))) :=
  match cs, qs with
  | [], _ => Some []
  | c :: cs', q :: qs' => option_map (cons (combine c q)) (zip_rows cs' qs')
  | _ :: _, [] => None                       (* IndexError: no charge row for this conformer *)
  end.
Definition dump_mol2 (e : ens) : option (list (list (row3 * num))) := zip_rows (coords e) (charges e).

(* ---- iteration: `for c in ens` asks n_conformers before every step; the cursor belongs to the iterator *)
Fixpoint drain (fuel cur len : nat) : list nat :=
  match fuel with
  | O => []
  | S f => if cur <? len then cur :: drain f (S cur) len else []
  end.
Definition for_ids (len : nat) : list nat := drain (S len) 0 len.       (* ids visited by one complete loop *)
Definition nested_ids (len : nat) : list (nat * nat) :=                  (* for a in ens: for b in ens: (a, b) *)
  flat_map (fun a => map (pair a) (for_ids len)) (for_ids len).

(* The iteration protocol as it was before the repair (cursor stored ON the ensemble, __iter__ resets it
   and returns the ensemble itself): kept only for the `..._refuted` lemma of Props/C14.v. *)
Fixpoint shared_inner (fuel cur len a : nat) (acc : list (nat * nat)) : list (nat * nat) * nat :=
  match fuel with
  | O => (acc, cur)
  | S f => if cur <? len then shared_inner f (S cur) len a (acc ++ [(a, cur)]) else (acc, cur)
  end.
Fixpoint shared_outer (fuel cur len : nat) (acc : list (nat * nat)) : list (nat * nat) :=
  match fuel with
  | O => acc
  | S f => if cur <? len
           then let '(acc', cur') := shared_inner (S len) 0 len cur acc in   (* inner iter() resets the cursor *)
                shared_outer f cur' len acc'
           else acc
  end.
Definition nested_ids_shared (len : nat) : list (nat * nat) := shared_outer (S len) 0 len [].

(* ---- slicing: slice.indices(n) of CPython, then range(start, stop, step) *)
Definition adj (len lower upper x : Z) : Z :=
  if (x <? 0)%Z then Z.max (x + len) lower else Z.min x upper.
Definition slice_indices (len : Z) (a b c : option Z) : option (Z * Z * Z) :=
  let step := match c with None => 1%Z | Some s => s end in
  if (step =? 0)%Z then None else
  let neg := (step <? 0)%Z in
  let lower := if neg then (-1)%Z else 0%Z in
  let upper := if neg then (len - 1)%Z else len in
  Some (match a with None => if neg then upper else lower | Some x => adj len lower upper x end,
        match b with None => if neg then lower else upper | Some x => adj len lower upper x end,
        step).
Definition range_len (lo hi step : Z) : Z :=
  if (0 <? step)%Z then (if (lo <? hi)%Z then (hi - lo - 1) / step + 1 else 0)%Z
  else (if (hi <? lo)%Z then (lo - hi - 1) / (- step) + 1 else 0)%Z.
Definition py_range (lo hi step : Z) : list Z :=
  map (fun j => (lo + Z.of_nat j * step)%Z) (seq 0 (Z.to_nat (range_len lo hi step))).
Definition slice_ids (len : nat) (a b c : option Z) : option (list Z) :=
  match slice_indices (Z.of_nat len) a b c with
  | Some (lo, hi, st) => Some (py_range lo hi st)
  | None => None
  end.

(* `for conf in ens[a:b:c]: conf.<transform>` -- every element of the slice is a view of its row, so the rows named
   by the slice are transformed one after the other, IN THE ORDER AND AS OFTEN AS the slice lists them (a slice that
   listed a row twice would transform it twice: Proofs/Ens.v shows that slice_ids never does), every other row stays *)
Fixpoint c_map_all (ks : list Z) (f : row3 -> row3) (e : ens) : option ens :=
  match ks with
  | [] => Some e
  | k :: r => match c_map k f e with Some e' => c_map_all r f e' | None => None end
  end.
Definition slice_map (a b c : option Z) (f : row3 -> row3) (e : ens) : option ens :=
  match slice_ids (nc e) a b c with Some ks => c_map_all ks f e | None => None end.

(* ------------------------------------------------------------------ the store *)
Record store := mkStore {
  enss  : list ens;                 (* every ensemble created so far *)
  iters : list (nat * nat)          (* every iterator created so far: (ensemble, cursor) *)
}.
Definition empty_store : store := mkStore [] [].
Definition push_ens (W : store) (e : ens) : store := mkStore (enss W ++ [e]) (iters W).
Definition set_ens (W : store) (i : nat) (e : ens) : store := mkStore (set_nth i e (enss W)) (iters W).

(* a geometry handed to the constructor / append / extend *)
Inductive geom :=
| GLit (c : list row3) (q : list num)      (* a Molecule with these coordinates and partial charges *)
| GGeom (c : list row3)                    (* a Structure: coordinates, no atomic_charges attribute *)
| GConf (i : nat) (k : Z).                 (* the Conformer view ens_i[k] *)

Definition resolve (W : store) (g : geom) : option (list row3 * option (list num)) :=
  match g with
  | GLit c q => if length c =? length q then Some (c, Some q) else None
  | GGeom c => Some (c, None)
  | GConf i k => match nth_error (enss W) i with
                 | None => None
                 | Some e => match c_get_coords k e, c_get_charges k e with
                             | Some c, Some q => Some (c, Some q)
                             | _, _ => None
                             end
                 end
  end.

Fixpoint all_some {A} (l : list (option A)) : option (list A) :=
  match l with
  | [] => Some []
  | Some x :: r => option_map (cons x) (all_some r)
  | None :: _ => None
  end.

(* getattr(g, "atomic_charges", zeros) *)
Definition with_zeros (g : list row3 * option (list num)) : list row3 * list num :=
  (fst g, match snd g with Some q => q | None => repeat (n 0) (length (fst g)) end).

(* ------------------------------------------------------------------ __init__ *)
Inductive source :=
| SrcNone                          (* ConformerEnsemble(None, nc, na): blank atoms *)
| SrcAtoms (k : nat)               (* a list of k Atom objects (the n_atoms argument is ignored) *)
| SrcList (gs : list geom)         (* a list of structures *)
| SrcEns (j : nat)                 (* another ensemble *)
| SrcMol (g : geom).               (* a Molecule (incl. a Conformer) / a plain Structure *)

Inductive ctor_res := CSome (e : ens) | CRaise | CUnspec.

(* the first if/else of __init__ and the two isinstance blocks after it; nc_arg = None: argument not given (0) *)
Definition init_base (W : store) (src : source) (nc_arg : option nat) (na_arg : nat) : ctor_res :=
  let k := match nc_arg with Some k => k | None => O end in
  match src with
  | SrcList gs =>
      match all_some (map (resolve W) gs) with
      | Some ((c0, q0) :: rest) =>
          let a := length c0 in
          match all_some (map snd ((c0, q0) :: rest)) with          (* c.atomic_charges: AttributeError on a Structure *)
          | None => CRaise
          | Some qs =>
              let e0 := alloc (length gs) a in
              match set_all_charges qs e0 with
              | None => CRaise
              | Some e1 => match set_all_coords (map fst ((c0, q0) :: rest)) e1 with
                           | None => CRaise
                           | Some e2 => CSome e2
                           end
              end
          end
      | Some [] => CSome (alloc k O)                                 (* [] is not taken for a list of structures: no atoms *)
      | None => CRaise
      end
  | SrcNone => CSome (alloc k na_arg)
  | SrcAtoms a => CSome (alloc k a)
  | SrcEns j =>
      match nth_error (enss W) j with
      | Some o => CSome (mkEns (na o) (coords o) (charges o) (weights o))    (* np.array(other.X): copies *)
      | None => CRaise
      end
  | SrcMol g =>
      match resolve W g with
      | None => CRaise
      | Some (c, Some _) =>                                          (* isinstance(other, Molecule): n_conformers or 1 *)
          match nc_arg with
          | Some O => CUnspec                                        (* recorded finding: explicit 0 yields 1 *)
          | _ => CSome (alloc (if k =? 0 then 1 else k) (length c))
          end
      | Some (c, None) => CSome (alloc k (length c))                 (* a Structure is not a Molecule *)
      end
  end.

Definition opt_apply {A} (x : option A) (f : A -> ens -> option ens) (e : ens) : option ens :=
  match x with Some v => f v e | None => Some e end.

Definition init (W : store) (src : source) (nc_arg : option nat) (na_arg : nat)
                (xc : option (list (list row3))) (xq : option (list (list num))) (xw : option (list num)) : ctor_res :=
  match init_base W src nc_arg na_arg with
  | CSome e0 =>
      match opt_apply xc set_all_coords e0 with
      | None => CRaise
      | Some e1 => match opt_apply xq set_all_charges e1 with
                   | None => CRaise
                   | Some e2 => match opt_apply xw set_all_weights e2 with
                                | None => CRaise
                                | Some e3 => CSome e3
                                end
                   end
      end
  | r => r
  end.

(* molli.chem.io: _serialize_ens_v2 then _deserialize_ens_v2 -- flat buffers, reshaped, handed to the
   constructor together with the atom list *)
Definition ser_roundtrip (W : store) (e : ens) : ctor_res :=
  match reshape (nc e) (na e) (concat (coords e)), reshape (nc e) (na e) (concat (charges e)) with
  | Some cs, Some qs => init W (SrcAtoms (na e)) (Some (nc e)) (na e) (Some cs) (Some qs) (Some (weights e))
  | _, _ => CRaise
  end.

(* ------------------------------------------------------------------ operations *)
Inductive op :=
| New (src : source) (nc_arg : option nat) (na_arg : nat)
      (xc : option (list (list row3))) (xq : option (list (list num))) (xw : option (list num))
| Serialise (i : nat)                                   (* push the io round trip of ensemble i *)
| Append (i : nat) (g : geom)
| Extend (i : nat) (gs : list geom)
| ExtendEns (i j : nat)
| Scale (i : nat) (f : Z) (inv : bool)
| Invert (i : nat)
| Translate1 (i : nat) (v : vec3)
| Translate2 (i : nat) (vs : list vec3)
| Rotate1 (i : nat) (M : mat3)
| RotateN (i : nat) (Ms : list mat3)
| SetCoords (i : nat) (v : list (list row3))
| SetCharges (i : nat) (v : list (list num))
| SetWeights (i : nat) (v : list num)
| ConfSetCoords (i : nat) (k : Z) (v : list row3)
| ConfSetCoordElem (i : nat) (k a : Z) (r : row3)
| ConfSetCharges (i : nat) (k : Z) (v : list num)
| ConfSetChargeElem (i : nat) (k a : Z) (q : num)
| ConfScale (i : nat) (k : Z) (f : Z)
| ConfTranslate (i : nat) (k : Z) (v : vec3)
| ConfTransform (i : nat) (k : Z) (M : mat3)
| ConfRead (i : nat) (k : Z)
| ConfStore (i : nat) (k : Z)                           (* the conformer through molli.chem.io's molecule codec (as a library stores it) *)
| IterNew (i : nat)
| IterNext (t : nat)
| Nested (i : nat)
| LoopDump (i : nat)                                    (* for c in ens: ens.dumps_xyz() -- ids visited by the outer loop *)
| Slice (i : nat) (a b c : option Z)
| SliceTranslate (i : nat) (a b c : option Z) (v : vec3)   (* for conf in ens[a:b:c]: conf.translate(v) *)
| DumpXyz (i : nat) | DumpMol2 (i : nat)
| ConfDumpXyz (i : nat) (k : Z) | ConfDumpMol2 (i : nat) (k : Z).

Inductive out :=
| ONone
| OYield (k : option nat)                               (* next(it): Some conf_id / StopIteration *)
| OIds (l : list Z)
| OPairs (l : list (nat * nat))
| OConf (c : list row3) (q : list num)
| OXyz (b : list (list row3))
| OMol2 (b : list (list (row3 * num))).

Inductive res := Ok (W : store) (o : out) | Err | Unspec.

(* the operations that mutate ONE existing ensemble: which one, and how *)
Definition ens_fun (W : store) (o : op) : option (nat * (ens -> option ens)) :=
  match o with
  | Append i g => Some (i, fun e => match resolve W g with
                                    | Some r => e_extend [with_zeros r] e
                                    | None => None
                                    end)
  | Extend i gs => Some (i, fun e => match all_some (map (resolve W) gs) with
                                     | Some rs => e_extend (map with_zeros rs) e
                                     | None => None
                                     end)
  | ExtendEns i j => Some (i, fun e => match nth_error (enss W) j with
                                       | Some o => e_extend_ens o e
                                       | None => None
                                       end)
  | Scale i f inv => Some (i, e_scale f inv)
  | Invert i => Some (i, e_scale (-1) true)
  | Translate1 i v => Some (i, fun e => Some (map_coords (r_add v) e))
  | Translate2 i vs => Some (i, per_conf r_add vs)
  | Rotate1 i M => Some (i, fun e => Some (map_coords (r_mat M) e))
  | RotateN i Ms => Some (i, per_conf r_mat Ms)
  | SetCoords i v => Some (i, set_all_coords v)
  | SetCharges i v => Some (i, set_all_charges v)
  | SetWeights i v => Some (i, set_all_weights v)
  | ConfSetCoords i k v => Some (i, c_set_coords k v)
  | ConfSetCoordElem i k a r => Some (i, c_set_coord_elem k a r)
  | ConfSetCharges i k v => Some (i, c_set_charges k v)
  | ConfSetChargeElem i k a q => Some (i, c_set_charge_elem k a q)
  | ConfScale i k f => Some (i, fun e => if scale_ok f false then c_map k (r_scale f) e else None)
  | ConfTranslate i k v => Some (i, c_map k (r_add v))
  | ConfTransform i k M => Some (i, c_map k (r_mat M))
  | SliceTranslate i a b c v => Some (i, slice_map a b c (r_add v))
  | _ => None
  end.

(* append onto ConformerEnsemble() (no atoms, no conformers): recorded finding, unspecified *)
Definition atomless_empty (e : ens) : bool := ((na e =? 0) && (nc e =? 0))%bool.

(* the operations that only read ensemble i *)
Definition read_fun (o : op) : option (nat * (ens -> option out)) :=
  match o with
  | ConfRead i k => Some (i, fun e => match c_get_coords k e, c_get_charges k e with
                                      | Some c, Some q => Some (OConf c q)
                                      | _, _ => None
                                      end)
  | ConfStore i k => Some (i, fun e => match c_get_coords k e, c_get_charges k e with
                                       | Some c, Some q => Some (OConf c q)
                                       | _, _ => None
                                       end)
  | Nested i => Some (i, fun e => Some (OPairs (nested_ids (nc e))))
  | LoopDump i => Some (i, fun e => Some (OIds (map Z.of_nat (for_ids (nc e)))))
  | Slice i a b c => Some (i, fun e => option_map OIds (slice_ids (nc e) a b c))
  | DumpXyz i => Some (i, fun e => Some (OXyz (dump_xyz e)))
  | DumpMol2 i => Some (i, fun e => option_map OMol2 (dump_mol2 e))
  (* conformer.dumps_xyz() / dumps_mol2(): one line per ATOM, reading coords[a] (and atomic_charges[a]); a view without
     atoms never touches its row, so even an index out of range goes unnoticed *)
  | ConfDumpXyz i k => Some (i, fun e => if na e =? 0 then Some (OXyz [[]])
                                         else option_map (fun c => OXyz [c]) (c_get_coords k e))
  | ConfDumpMol2 i k => Some (i, fun e => if na e =? 0 then Some (OMol2 [[]])
                                          else match c_get_coords k e, c_get_charges k e with
                                               | Some c, Some q => Some (OMol2 [combine c q])
                                               | _, _ => None
                                               end)
  | _ => None
  end.

Definition of_ctor (W : store) (r : ctor_res) : res :=
  match r with CSome e => Ok (push_ens W e) ONone | CRaise => Err | CUnspec => Unspec end.

Definition step (W : store) (o : op) : res :=
  match o with
  | New src k a xc xq xw => of_ctor W (init W src k a xc xq xw)
  | Serialise i => match nth_error (enss W) i with
                   | Some e => of_ctor W (ser_roundtrip W e)
                   | None => Err
                   end
  | IterNew i => match nth_error (enss W) i with
                 | Some _ => Ok (mkStore (enss W) (iters W ++ [(i, O)])) ONone
                 | None => Err
                 end
  | IterNext t => match nth_error (iters W) t with
                  | None => Err
                  | Some (i, c) =>
                      match nth_error (enss W) i with
                      | None => Err
                      | Some e => if c <? nc e
                                  then Ok (mkStore (enss W) (set_nth t (i, S c) (iters W))) (OYield (Some c))
                                  else Ok W (OYield None)
                      end
                  end
  | _ =>
      match ens_fun W o with
      | Some (i, f) =>
          match nth_error (enss W) i with
          | None => Err
          | Some e =>
              if (match o with Append _ _ => atomless_empty e | _ => false end) then Unspec
              else match f e with
                   | Some e' => Ok (set_ens W i e') ONone
                   | None => Err
                   end
          end
      | None =>
          match read_fun o with
          | Some (i, f) => match nth_error (enss W) i with
                           | None => Err
                           | Some e => match f e with Some w => Ok W w | None => Err end
                           end
          | None => Err
          end
      end
  end.

(* A history: a raising call is followed by the next one on the unchanged store. *)
Fixpoint run (W : store) (h : list op) : option store :=
  match h with
  | [] => Some W
  | o :: r => match step W o with
              | Ok W' _ => run W' r
              | Err => run W r
              | Unspec => None
              end
  end.

(* the conformer ids iterator t yields along a history (in the order of its next() calls) *)
Fixpoint iter_yields (t : nat) (W : store) (h : list op) : list nat :=
  match h with
  | [] => []
  | o :: r =>
      match step W o with
      | Ok W' w => (match o, w with
                    | IterNext t', OYield (Some k) => if t' =? t then [k] else []
                    | _, _ => []
                    end) ++ iter_yields t W' r
      | Err => iter_yields t W r
      | Unspec => []
      end
  end.

Definition is_next (t : nat) (o : op) : bool := match o with IterNext t' => t' =? t | _ => false end.
(* the operations that change the number of conformers of an existing ensemble *)
Definition resizing (o : op) : bool :=
  match o with Append _ _ | Extend _ _ | ExtendEns _ _ => true | _ => false end.

(* ------------------------------------------------------------------ the invariant, decidable form *)
Definition rect_b (e : ens) : bool :=
  ((length (charges e) =? length (coords e)) && (length (weights e) =? length (coords e))
   && forallb (fun r => length r =? na e) (coords e)
   && forallb (fun r => length r =? na e) (charges e))%bool.

(* ------------------------------------------------------------------ observations (correspondence) *)
Definition num_eqb (a b : num) : bool :=
  match a, b with Some x, Some y => Z.eqb x y | None, None => true | _, _ => false end.
Definition row3_eqb (a b : row3) : bool :=
  let '(x, y, z) := a in let '(u, v, w) := b in (num_eqb x u && num_eqb y v && num_eqb z w)%bool.
Fixpoint list_eqb {A} (eqb : A -> A -> bool) (l1 l2 : list A) : bool :=
  match l1, l2 with
  | [], [] => true
  | x :: r1, y :: r2 => (eqb x y && list_eqb eqb r1 r2)%bool
  | _, _ => false
  end.
Definition ens_eqb (a b : ens) : bool :=
  ((na a =? na b) && list_eqb (list_eqb row3_eqb) (coords a) (coords b)
   && list_eqb (list_eqb num_eqb) (charges a) (charges b) && list_eqb num_eqb (weights a) (weights b))%bool.
Definition onat_eqb (a b : option nat) : bool :=
  match a, b with Some x, Some y => x =? y | None, None => true | _, _ => false end.
Definition out_eqb (a b : out) : bool :=
  match a, b with
  | ONone, ONone => true
  | OYield x, OYield y => onat_eqb x y
  | OIds x, OIds y => list_eqb Z.eqb x y
  | OPairs x, OPairs y => list_eqb (fun p q => (fst p =? fst q) && (snd p =? snd q))%bool x y
  | OConf c q, OConf c' q' => (list_eqb row3_eqb c c' && list_eqb num_eqb q q')%bool
  | OXyz x, OXyz y => list_eqb (list_eqb row3_eqb) x y
  | OMol2 x, OMol2 y => list_eqb (list_eqb (fun p q => row3_eqb (fst p) (fst q) && num_eqb (snd p) (snd q))%bool) x y
  | _, _ => false
  end.

(* What the harness records after every call: did it raise, what did it return, and EVERY ensemble created so
   far as read through ens.n_atoms / ens.coords / ens.atomic_charges / ens.weights (shapes and contents). *)
Record obs := mkObs { o_raised : bool; o_out : out; o_enss : list ens }.

Definition case := list (op * obs).

Fixpoint run_check (W : store) (steps : list (op * obs)) : bool :=
  match steps with
  | [] => true
  | (o, ob) :: r =>
      match step W o with
      | Ok W' w => (negb (o_raised ob) && out_eqb w (o_out ob) && list_eqb ens_eqb (enss W') (o_enss ob)
                    && run_check W' r)%bool
      | Err => (o_raised ob && list_eqb ens_eqb (enss W) (o_enss ob) && run_check W r)%bool
      | Unspec => false
      end
  end.

Definition check_case (c : case) : bool := run_check empty_store c.

(* position of the first step the model does not reproduce (diagnostics only) *)
Fixpoint first_bad (k : nat) (W : store) (steps : list (op * obs)) : option nat :=
  match steps with
  | [] => None
  | (o, ob) :: r =>
      match step W o with
      | Ok W' w => if (negb (o_raised ob) && out_eqb w (o_out ob) && list_eqb ens_eqb (enss W') (o_enss ob))%bool
                   then first_bad (S k) W' r else Some k
      | Err => if (o_raised ob && list_eqb ens_eqb (enss W) (o_enss ob))%bool then first_bad (S k) W r else Some k
      | Unspec => Some k
      end
  end.

(* ------------------------------------------------------------------ DETACHED views
   A conformer that outlives every other reference to its ensemble -- restored from a pickle (alone, in a slice, as an element
   of a pickled ensemble), deep-copied, returned by a helper whose ensemble was a local -- is still a conformer OF AN ENSEMBLE:
   of a copy where the route copies, of the very ensemble otherwise.  In the model the conformer handle is (ensemble, row), so
   detaching pushes a copy of ensemble i onto the store (nothing else refers to it) and the uses of the conformer are the
   ordinary operations through a conformer on that new ensemble. *)
Definition detach (W : store) (i : nat) : option store := option_map (push_ens W) (nth_error (enss W) i).

Inductive duse :=
| DRead                                                 (* coords / atomic_charges read; also dumps, the molecule codec, Molecule(c), pickle again *)
| DTranslate (v : vec3) | DSetCoords (v : list row3) | DSetChargeElem (a : Z) (q : num) | DScale (f : Z).

Definition duse_op (j : nat) (k : Z) (u : duse) : op :=
  match u with
  | DRead => ConfRead j k
  | DTranslate v => ConfTranslate j k v
  | DSetCoords v => ConfSetCoords j k v
  | DSetChargeElem a q => ConfSetChargeElem j k a q
  | DScale f => ConfScale j k f
  end.

Definition duse_fun (k : Z) (u : duse) (e : ens) : option ens :=
  match u with
  | DRead => match c_get_coords k e, c_get_charges k e with Some _, Some _ => Some e | _, _ => None end
  | DTranslate v => c_map k (r_add v) e
  | DSetCoords v => c_set_coords k v e
  | DSetChargeElem a q => c_set_charge_elem k a q e
  | DScale f => if scale_ok f false then c_map k (r_scale f) e else None
  end.

(* what the conformers of rows ks show *)
Definition dview (ks : list Z) (e : ens) : option (list (list row3 * list num)) :=
  all_some (map (fun k => match c_get_coords k e, c_get_charges k e with Some c, Some q => Some (c, q) | _, _ => None end) ks).

(* use number un goes through the conformer number (un mod m) of the m that were obtained; after every use ALL are read *)
Fixpoint run_detached (ks : list Z) (un : nat) (e : ens) (us : list duse) : option (list (list (list row3 * list num))) :=
  match us with
  | [] => Some []
  | u :: r =>
      match nth_error ks (un mod length ks) with
      | None => None
      | Some k => match duse_fun k u e with
                  | None => None
                  | Some e' => match dview ks e', run_detached ks (S un) e' r with
                               | Some v, Some vs => Some (v :: vs)
                               | _, _ => None
                               end
                  end
      end
  end.

Definition dcase := (ens * list Z * list duse * list (list (list row3 * list num)))%type.
Definition check_detached (c : dcase) : bool :=
  let '(e, ks, us, obs) := c in
  match run_detached ks 0 e us with
  | Some vs => list_eqb (list_eqb (fun a b => (list_eqb row3_eqb (fst a) (fst b) && list_eqb num_eqb (snd a) (snd b))%bool)) vs obs
  | None => false
  end.
