(* C11: executable model of molli's rigid-motion code, parametric in the field operations.
   NO proofs in this file.  Anchors (line numbers of the tree the model was written against):
     molli/math/rotation.py   rotation_matrix_from_vectors (general + antiparallel branch), rotation_matrix_from_axis
     molli/chem/geometry.py   CartesianGeometry.translate / transform / centroid / dihedral
     molli/chem/structure.py  Structure.rotate_dihedral, Substructure.coords getter/setter
     molli/chem/ensemble.py   ConformerEnsemble.translate / rotate / center_at_atom / center_at_core / align_to_ref_coords
     molli/chem/molecule.py   Molecule.align_to_ref_coords
   Square roots (np.linalg.norm) enter the model as an extra argument `n` ("the norm of v"); theorems
   assume n > 0 /\ n*n = v.v, executions check a 2^-60 rational witness (sqrt_witness_ok). *)
From Coq Require Import List ZArith QArith Qabs Bool.
From Molli Require Import Common.Field3.
Import ListNotations.

Section Model.
Context {F : Type} (o : Fops F).
Local Notation "x + y" := (fadd o x y).
Local Notation "x - y" := (fsub o x y).
Local Notation "x * y" := (fmul o x y).
Local Notation "x / y" := (fdiv o x y).
Local Notation "0" := (f0 o).
Local Notation "1" := (f1 o).
Local Notation vec := (vec F).
Local Notation mat := (mat F).

(* ---------------- rotation.py ---------------- *)
(* general branch, a and b already normalised:  I + Ux + Ux@Ux / (1 + c),  Ux = outer(a,b) - outer(b,a) *)
Definition rodrigues (a b : vec) : mat :=
  let c := dot o a b in
  let Ux := msub o (outer o a b) (outer o b a) in
  madd o (madd o (eye o) Ux) (mdivs o (mmul o Ux Ux) (1 + c)).

(* nearly opposite vectors: through a unit vector `ov` orthogonal to b.  In the implementation `ov` is the
   normalised Gram-Schmidt residue of a np.random.rand(3) draw: hidden state.  The model takes it as an
   argument; the theorems hold for EVERY unit ov orthogonal to b. *)
Definition antiparallel (a b ov : vec) : mat := mmul o (rodrigues a ov) (rodrigues ov b).

(* rotation_matrix_from_vectors(v1, v2, tol) with n1 = |v1|, n2 = |v2| *)
Definition rot_from_vectors (tol : F) (v1 : vec) (n1 : F) (v2 : vec) (n2 : F) (ov : vec) : mat :=
  let a := vdiv o v1 n1 in
  let b := vdiv o v2 n2 in
  if fleb o (dot o a b) (fopp o 1 + tol) then antiparallel a b ov else rodrigues a b.

(* rotation_matrix_from_axis(axis, angle) with u = axis/|axis|, s = sin(angle), c = cos(angle) *)
Definition skew (u : vec) : mat :=
  let '(ax, ay, az) := u in ((0, fopp o az, ay), (az, 0, fopp o ax), (fopp o ay, ax, 0)).
Definition axis_rot (u : vec) (s c : F) : mat :=
  let W := skew u in
  madd o (madd o (eye o) (mscale o s W)) (mscale o (1 - c) (mmul o W W)).
Definition rot_from_axis (ax : vec) (n : F) (s c : F) : mat := axis_rot (vdiv o ax n) s c.

(* ---------------- geometry.py ---------------- *)
Definition translate (v : vec) (X : list vec) : list vec := map (fun x => vadd o x v) X.   (* coords += v *)
Definition transform (M : mat) (X : list vec) : list vec := map (fun x => vm o x M) X.     (* coords = coords @ M *)

(* the two arguments of arctan2 in CartesianGeometry.dihedral; n2 = |u2| *)
Definition dihedral_args (p1 p2 p3 p4 : vec) (n2 : F) : F * F :=
  let u1 := vsub o p2 p1 in
  let u2 := vsub o p3 p2 in
  let u3 := vsub o p4 p3 in
  (n2 * dot o u1 (cross o u2 u3), dot o (cross o u1 u2) (cross o u2 u3)).

(* ---------------- structure.py ---------------- *)
(* Substructure.translate / .transform: getter copies the selected rows, setter writes them back *)
Definition sub_translate (sel : nat -> bool) (v : vec) (X : list vec) := update_rows sel (fun x => vadd o x v) X.
Definition sub_transform (sel : nat -> bool) (M : mat) (X : list vec) := update_rows sel (fun x => vm o x M) X.

(* Structure.rotate_dihedral((a1,a2,a3,a4), t).
   sel = the atoms yielded by yield_bfs(a2, a3)  (graph search: C15);
   (st, ct) = (sin t, cos t); n2 = |x3 - x2|; rho = sqrt(arg1^2 + arg2^2) so that the current dihedral d has
   (sin d, cos d) = (arg1, arg2)/rho.  The code builds rotation_matrix_from_axis(ax, -(t - d)), i.e. the
   rotation with sine sin(d - t) and cosine cos(d - t), and applies translate(-origin), transform(R),
   translate(origin) to the substructure. *)
Definition rotate_dihedral (X : list vec) (i1 i2 i3 i4 : nat) (sel : nat -> bool) (st ct n2 rho : F) : list vec :=
  let p k := nth k X (vzero o) in
  let '(g1, g2) := dihedral_args (p i1) (p i2) (p i3) (p i4) n2 in
  let sd := g1 / rho in
  let cd := g2 / rho in
  let s := sd * ct - cd * st in
  let c := cd * ct + sd * st in
  let R := rot_from_axis (vsub o (p i3) (p i2)) n2 s c in
  let origin := p i2 in
  sub_translate sel origin (sub_transform sel R (sub_translate sel (vopp o origin) X)).

(* ---------------- ensemble.py ---------------- *)
Definition ens := list (list vec).
Fixpoint map2 {A B C} (f : A -> B -> C) (l : list A) (m : list B) : list C :=
  match l, m with a :: l', b :: m' => f a b :: map2 f l' m' | _, _ => [] end.
Definition ens_translate1 (v : vec) (E : ens) : ens := map (translate v) E.               (* v.ndim == 1 *)
Definition ens_translate2 (vs : list vec) (E : ens) : ens := map2 translate vs E.          (* v.ndim == 2 *)
Definition ens_rotate (M : mat) (E : ens) : ens := map (transform M) E.
Definition ens_rotate_each (Ms : list mat) (E : ens) : ens := map2 transform Ms E.         (* (n_conf,3,3) stack *)
Definition center_at_atom (k : nat) (E : ens) : ens :=
  ens_translate2 (map (fun X => vopp o (nth k X (vzero o))) E) E.
Definition center_at_core (idx : list nat) (E : ens) : ens :=
  ens_translate2 (map (fun X => vopp o (centroid o (select o idx X))) E) E.

(* ---------------- alignment (molecule.py / ensemble.py) ---------------- *)
(* `results` = what the user-supplied callback returned for each candidate mapping, in order *)
Definition pick_best (results : list (mat * F)) : F * option mat :=
  fold_left (fun best r => if fltb o (snd r) (fst best) then (snd r, Some (fst r)) else best)
            results (fofZ o 100, None).

Definition align_centered (X : list vec) (idx0 : list nat) : list vec :=
  translate (vopp o (centroid o (select o idx0 X))) X.
(* the coordinate blocks handed to the callback *)
Definition align_inputs (X : list vec) (idx0 : list nat) (idxs : list (list nat)) : list (list vec) :=
  map (fun idx => select o idx (align_centered X idx0)) idxs.
Definition align_with (X : list vec) (idx0 : list nat) (results : list (mat * F)) (v : option vec)
  : option (list vec * F) :=
  match pick_best results with
  | (r, Some M) =>
      let X2 := transform M (align_centered X idx0) in
      Some (match v with Some t => translate t X2 | None => X2 end, r)
  | (_, None) => None                      (* no candidate below 100.0: transform(None) raises *)
  end.
(* Molecule.align_to_ref_coords(func, idxs, ref, vec) *)
Definition align (func : list vec -> list vec -> mat * F) (X : list vec) (idxs : list (list nat))
                 (ref : list vec) (v : option vec) : option (list vec * F) :=
  match idxs with
  | [] => None                             (* substructure_indices[0] raises IndexError *)
  | idx0 :: _ => align_with X idx0 (map (fun P => func P ref) (align_inputs X idx0 idxs)) v
  end.

(* ConformerEnsemble.align_to_ref_coords: the same, conformer by conformer *)
Fixpoint all_some {A} (l : list (option A)) : option (list A) :=
  match l with
  | [] => Some []
  | Some x :: r => match all_some r with Some r' => Some (x :: r') | None => None end
  | None :: _ => None
  end.
Definition ens_align_with (E : ens) (idx0 : list nat) (results : list (list (mat * F))) (v : option vec)
  : option (ens * list F) :=
  match all_some (map2 (fun X res => align_with X idx0 res v) E results) with
  | Some l => Some (map fst l, map snd l)
  | None => None
  end.
End Model.

(* ======================= correspondence cases (Q instance) ======================= *)
Local Open Scope Q_scope.
Notation vecQ := (vec Q).
Notation matQ := (mat Q).

Definition eps_abs : Q := 1 # 1000000000.                      (* 1e-9 *)
(* General branch near the antiparallel threshold.  In floats c = a.b carries an absolute error of a few
   ulp (<= 4e-16), so 1/(1+c) carries the relative error 4e-16/(1+c); the entries of Ux@Ux/(1+c) are O(1)
   (they tend to those of a half turn), hence an absolute error <= ~1e-15/(1+c) in R.  With a 10x margin: *)
Definition eps_amp (c : Q) : Q := eps_abs + (1 # 100000000000000) / (1 + c).

(* the property itself, decided on an observed matrix: proper rotation (within eps) taking a to b *)
Definition rot_spec_ok (eps : Q) (a b : vecQ) (M : matQ) : bool :=
  mcloseQ eps (mmul QOps M (mtrans M)) (eye QOps) && Qclose eps (det QOps M) 1 && vcloseQ eps (vm QOps a M) b.

Inductive gop := GTranslate (v : vecQ) | GTransform (M : matQ).
Inductive eop := ETranslate1 (v : vecQ) | ETranslate2 (vs : list vecQ) | ERotate (M : matQ)
               | ERotateEach (Ms : list matQ) | ECenterAtom (k : nat) | ECenterCore (idx : list nat).

Inductive case :=
(* rotation_matrix_from_vectors(v1, v2, tol) returned M; n_i = |v_i|; ov = Some (ort, |ort|) when the harness
   could observe the orthogonal vector the implementation drew, None otherwise *)
| CVec (tol : Q) (v1 : vecQ) (n1 : Q) (v2 : vecQ) (n2 : Q) (ov : option (vecQ * Q)) (M : matQ)
(* rotation_matrix_from_axis(ax, atan2(s, c)) returned M *)
| CAxis (ax : vecQ) (n : Q) (s c : Q) (M : matQ)
(* dihedral(p1..p4) returned an angle whose (sin, cos) is (sd, cd) *)
| CDih (p1 p2 p3 p4 : vecQ) (n2 : Q) (sd cd : Q)
(* rotate_dihedral((i1,i2,i3,i4), atan2(st, ct)) on coordinates X, yield_bfs(i2,i3) = idx, left X' *)
| CRotDih (X : list vecQ) (i1 i2 i3 i4 : nat) (idx : list nat) (st ct n2 rho : Q) (X' : list vecQ)
(* a sequence of translate/transform calls on the whole structure (None) or on substructure(idx) *)
| CGeom (X : list vecQ) (idx : option (list nat)) (ops : list gop) (X' : list vecQ)
(* centroid() *)
| CCentroid (X : list vecQ) (c : vecQ)
(* a sequence of ensemble operations *)
| CEns (E : list (list vecQ)) (ops : list eop) (E' : list (list vecQ))
(* Molecule.align_to_ref_coords: callback inputs seen, callback results, optional vec; coordinates left, value returned *)
| CAlign (X : list vecQ) (idxs : list (list nat)) (inputs : list (list vecQ)) (results : list (matQ * Q))
         (v : option vecQ) (X' : list vecQ) (r : Q)
| CEnsAlign (E : list (list vecQ)) (idx0 : list nat) (results : list (list (matQ * Q)))
         (v : option vecQ) (E' : list (list vecQ)) (rs : list Q).

Definition apply_gop (idx : option (list nat)) (op : gop) (X : list vecQ) : list vecQ :=
  match idx, op with
  | None, GTranslate v => translate QOps v X
  | None, GTransform M => transform QOps M X
  | Some l, GTranslate v => sub_translate QOps (in_idx l) v X
  | Some l, GTransform M => sub_transform QOps (in_idx l) M X
  end.
Definition apply_eop (op : eop) (E : list (list vecQ)) : list (list vecQ) :=
  match op with
  | ETranslate1 v => ens_translate1 QOps v E
  | ETranslate2 vs => ens_translate2 QOps vs E
  | ERotate M => ens_rotate QOps M E
  | ERotateEach Ms => ens_rotate_each QOps Ms E
  | ECenterAtom k => center_at_atom QOps k E
  | ECenterCore idx => center_at_core QOps idx E
  end.
Fixpoint ens_closeQ (eps : Q) (E E' : list (list vecQ)) : bool :=
  match E, E' with
  | [], [] => true
  | X :: r, X' :: r' => rows_closeQ eps X X' && ens_closeQ eps r r'
  | _, _ => false
  end.
Fixpoint all2 {A B} (f : A -> B -> bool) (l : list A) (m : list B) : bool :=
  match l, m with
  | [], [] => true
  | a :: l', b :: m' => f a b && all2 f l' m'
  | _, _ => false
  end.

Definition check (k : case) : bool :=
  match k with
  | CVec tol v1 n1 v2 n2 ov M =>
      let a := vdiv QOps v1 n1 in
      let b := vdiv QOps v2 n2 in
      let c := dot QOps a b in
      sqrt_witness_ok n1 (norm2 QOps v1) && sqrt_witness_ok n2 (norm2 QOps v2) &&
      if Qle_bool c (-(1) + tol)
      then rot_spec_ok eps_abs a b M &&
           match ov with
           | None => true
           | Some (w, nw) =>
               sqrt_witness_ok nw (norm2 QOps w) && Qclose (1 # 1000000000000) (dot QOps (vdiv QOps w nw) b) 0 &&
               mcloseQ eps_abs (rot_from_vectors QOps tol v1 n1 v2 n2 (vdiv QOps w nw)) M
           end
      else mcloseQ (eps_amp c) (rot_from_vectors QOps tol v1 n1 v2 n2 (vzero QOps)) M
  | CAxis ax n s c M =>
      sqrt_witness_ok n (norm2 QOps ax) && Qeq_bool (s * s + c * c) 1 &&
      mcloseQ eps_abs (rot_from_axis QOps ax n s c) M
  | CDih p1 p2 p3 p4 n2 sd cd =>
      let '(g1, g2) := dihedral_args QOps p1 p2 p3 p4 n2 in
      sqrt_witness_ok n2 (norm2 QOps (vsub QOps p3 p2)) &&
      (* (sd, cd) is a positive multiple of (g1, g2), up to a relative 1e-9 *)
      Qle_bool ((g1 * cd - g2 * sd) * (g1 * cd - g2 * sd)) (eps_abs * eps_abs * (g1 * g1 + g2 * g2)) &&
      negb (Qle_bool (g1 * sd + g2 * cd) 0)
  | CRotDih X i1 i2 i3 i4 idx st ct n2 rho X' =>
      let p k := nth k X (vzero QOps) in
      let '(g1, g2) := dihedral_args QOps (p i1) (p i2) (p i3) (p i4) n2 in
      sqrt_witness_ok n2 (norm2 QOps (vsub QOps (p i3) (p i2))) &&
      sqrt_witness_ok rho (g1 * g1 + g2 * g2) && Qeq_bool (st * st + ct * ct) 1 &&
      rows_closeQ eps_abs (rotate_dihedral QOps X i1 i2 i3 i4 (in_idx idx) st ct n2 rho) X'
  | CGeom X idx ops X' =>
      rows_closeQ eps_abs (fold_left (fun Y op => apply_gop idx op Y) ops X) X'
  | CCentroid X c => vcloseQ eps_abs (centroid QOps X) c
  | CEns E ops E' =>
      ens_closeQ eps_abs (fold_left (fun Y op => apply_eop op Y) ops E) E'
  | CAlign X idxs inputs results v X' r =>
      match idxs with
      | [] => false
      | idx0 :: _ =>
          all2 (rows_closeQ eps_abs) (align_inputs QOps X idx0 idxs) inputs &&
          match align_with QOps X idx0 results v with
          | Some (Y, r') => rows_closeQ eps_abs Y X' && Qclose eps_abs r' r
          | None => false
          end
      end
  | CEnsAlign E idx0 results v E' rs =>
      match ens_align_with QOps E idx0 results v with
      | Some (Y, rs') => ens_closeQ eps_abs Y E' && all2 (Qclose eps_abs) rs' rs
      | None => false
      end
  end.
