(* C09: configuration matrix of the public load/dump entry points, and the specification
   written from the property text (NOT from the code). The observed table is regenerated
   into Gen/DispatchTable.v on every run. *)
From Coq Require Import List Bool Arith.
Import ListNotations.

Inductive verb := VLoad | VLoads | VLoadAll | VLoadsAll | VDump | VDumps.
Inductive fmtc := FXyz | FMol2 | FCdxml | FObabel | FUnknown.   (* FObabel: known to openbabel only *)
Inductive fsrc := FsExplicit | FsSuffix.                         (* format given / deduced from the file suffix *)
Inductive otyp := OMol | OEns | OStructCls | OEnsCls.            (* "molecule" | "ensemble" | a class | an ensemble subclass *)
Inductive tgt  := TPath | TPathObj | TStream | TStr.
Inductive prs  := PMolli | PMolliUpper | PUnknown.

Record cell := mk_cell { c_verb : verb; c_fmt : fmtc; c_fsrc : fsrc; c_otype : otyp;
                         c_named : bool; c_tgt : tgt; c_prs : prs;
                         c_dot : bool (* the file name has a dotted stem, e.g. in.put.v2.xyz *) }.

Inductive exn := XUnsupported | XOther.           (* ValueError/NotImplementedError | anything else *)
Inductive kls := KMol | KEns | KStruct | KEnsCls.
Inductive src := SStreamOfPath | SGivenStr | SGivenStream | SOpenedPath | SOtherSrc.
Inductive nm  := NGiven | NNone | NMissing | NWrong.
Definition meth := (verb * fmtc)%type.            (* e.g. (VLoadAll, FMol2) = cls.load_all_mol2 *)

Inductive res :=
| RCall (k : kls) (m : meth) (s : src) (n : nm)   (* exactly what k.m(source, name=n) returned *)
| RCtor (k : kls) (frag : nat) (n : nm)           (* k(parse of fragment #frag of the CDXML file, name=n) *)
| RList (l : list res)
| RDumps (m : meth)                               (* exactly what obj.m() returned *)
| ROdd (code : nat).

Inductive action :=
| ARaise (e : exn)
| ARet (r : res)
| AWrote (m : meth) (s : src) (ok : bool)   (* obj.m(stream) called once; ok: right stream, text arrived,
                                               a given stream left open / an opened file closed *)
| ANothing                                  (* returned None without doing anything *)
| AOdd (code : nat).

Definition kls_of (o : otyp) : kls :=
  match o with OMol => KMol | OEns => KEns | OStructCls => KStruct | OEnsCls => KEnsCls end.
Definition ens_like (o : otyp) : bool := match o with OEns | OEnsCls => true | _ => false end.
Definition nm_of (b : bool) : nm := if b then NGiven else NNone.

(* The specification.  Unsupported = unknown parser, a format molli has no codec for in that
   direction, `*_all` asked to build an ensemble, or no format at all. *)
Definition spec (c : cell) : action :=
  let k := kls_of (c_otype c) in
  let n := nm_of (c_named c) in
  match c_prs c with
  | PUnknown => ARaise XUnsupported
  | _ =>
    match c_verb c, c_fmt c with
    | (VLoadAll | VLoadsAll), _ =>
        if ens_like (c_otype c) then ARaise XUnsupported else
        match c_verb c, c_fmt c with
        | VLoadAll, (FXyz | FMol2) => ARet (RCall k (VLoadAll, c_fmt c) SStreamOfPath n)
        | VLoadsAll, (FXyz | FMol2) => ARet (RCall k (VLoadsAll, c_fmt c) SGivenStr n)
        | VLoadAll, FCdxml => ARet (RList [RCtor k 0 n; RCtor k 1 n; RCtor k 2 n])
        | _, _ => ARaise XUnsupported
        end
    | VLoad, (FXyz | FMol2) => ARet (RCall k (VLoad, c_fmt c) SStreamOfPath n)
    | VLoad, FCdxml => ARet (RCtor k 0 n)
    | VLoads, (FXyz | FMol2) => ARet (RCall k (VLoads, c_fmt c) SGivenStr n)
    | VDump, (FXyz | FMol2) =>
        match c_tgt c, c_fsrc c with
        | TStream, FsSuffix => ARaise XUnsupported            (* a stream has no suffix: no format *)
        | TStream, FsExplicit => AWrote (VDump, c_fmt c) SGivenStream true
        | _, _ => AWrote (VDump, c_fmt c) SOpenedPath true
        end
    | VDumps, (FXyz | FMol2) => ARet (RDumps (VDumps, c_fmt c))
    | _, _ => ARaise XUnsupported
    end
  end.

(* the configuration space *)
Definition valid (c : cell) : bool :=
  (negb (c_dot c) || match c_tgt c with TPath | TPathObj => true | _ => false end) &&
  match c_verb c with
  | VLoad | VLoadAll => match c_tgt c with TPath | TPathObj => true | _ => false end
  | VLoads | VLoadsAll => match c_tgt c, c_fsrc c with TStr, FsExplicit => true | _, _ => false end
  | VDump => match c_otype c with OMol | OEns => negb (c_named c) && match c_tgt c with TStr => false | _ => true end
             | _ => false end
  | VDumps => match c_otype c, c_tgt c, c_fsrc c with
              | (OMol | OEns), TStr, FsExplicit => negb (c_named c) | _, _, _ => false end
  end.

Definition all_verbs := [VLoad; VLoads; VLoadAll; VLoadsAll; VDump; VDumps].
Definition all_fmts := [FXyz; FMol2; FCdxml; FObabel; FUnknown].
Definition all_fsrc := [FsExplicit; FsSuffix].
Definition all_otyp := [OMol; OEns; OStructCls; OEnsCls].
Definition all_tgt := [TPath; TPathObj; TStream; TStr].
Definition all_prs := [PMolli; PMolliUpper; PUnknown].

Definition product : list cell :=
  flat_map (fun v => flat_map (fun f => flat_map (fun s => flat_map (fun o => flat_map (fun n =>
  flat_map (fun t => flat_map (fun p => map (fun d => mk_cell v f s o n t p d) [false; true]) all_prs) all_tgt) [false; true]) all_otyp)
  all_fsrc) all_fmts) all_verbs.
Definition all_cells : list cell := filter valid product.

(* boolean equalities *)
Scheme Equality for verb.  Scheme Equality for fmtc.  Scheme Equality for fsrc.
Scheme Equality for otyp.  Scheme Equality for tgt.   Scheme Equality for prs.
Scheme Equality for exn.   Scheme Equality for kls.   Scheme Equality for src.
Scheme Equality for nm.

Definition cell_eqb (a b : cell) : bool :=
  verb_beq (c_verb a) (c_verb b) && fmtc_beq (c_fmt a) (c_fmt b) && fsrc_beq (c_fsrc a) (c_fsrc b) &&
  otyp_beq (c_otype a) (c_otype b) && Bool.eqb (c_named a) (c_named b) && tgt_beq (c_tgt a) (c_tgt b) &&
  prs_beq (c_prs a) (c_prs b) && Bool.eqb (c_dot a) (c_dot b).
Definition meth_eqb (a b : meth) := verb_beq (fst a) (fst b) && fmtc_beq (snd a) (snd b).

Fixpoint res_eqb (a b : res) {struct a} : bool :=
  match a, b with
  | RCall k m s n, RCall k' m' s' n' => kls_beq k k' && meth_eqb m m' && src_beq s s' && nm_beq n n'
  | RCtor k f n, RCtor k' f' n' => kls_beq k k' && Nat.eqb f f' && nm_beq n n'
  | RList l, RList l' =>
      (fix go (x y : list res) : bool :=
         match x, y with [], [] => true | p :: x', q :: y' => res_eqb p q && go x' y' | _, _ => false end) l l'
  | RDumps m, RDumps m' => meth_eqb m m'
  | ROdd c, ROdd c' => Nat.eqb c c'
  | _, _ => false
  end.
Definition action_eqb (a b : action) : bool :=
  match a, b with
  | ARaise e, ARaise e' => exn_beq e e'
  | ARet r, ARet r' => res_eqb r r'
  | AWrote m s o, AWrote m' s' o' => meth_eqb m m' && src_beq s s' && Bool.eqb o o'
  | ANothing, ANothing => true
  | AOdd c, AOdd c' => Nat.eqb c c'
  | _, _ => false
  end.

Definition lookup (t : list (cell * action)) (c : cell) : option action :=
  option_map snd (find (fun p => cell_eqb (fst p) c) t).
