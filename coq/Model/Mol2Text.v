(* C07 -- executable model of molli's mol2 codec.  No proofs in this file.

   Part 1  type vocabulary: lookups into the regenerated table Gen/Mol2Types.v
           (Atom.get_mol2_type / set_mol2_type, Bond.get_mol2_type / set_mol2_type).
   Part 2  writer: Molecule.dump_mol2 / Structure.dump_mol2 / ConformerEnsemble.dump_mol2 as the list of
           lines the f-strings produce (molli/chem/molecule.py, structure.py, ensemble.py).
   Part 3  reader: read_mol2 (molli/parsing/mol2.py) as a one-line-at-a-time state machine over the
           stripped lines, then yield_from_mol2 (molli/chem/structure.py) turning a block into a molecule,
           then the ConformerEnsemble constructor from a list of molecules.
   Part 4  the well-formedness predicate, the normal form the round trip lands on, and the boolean
           comparisons used by the correspondence run (harness/c07.py).

   Coordinates and charges are decimal fixed-point values (Common/Dec6.v, `fx`): what "%.6f" / "%.3f"
   print.  The step float -> decimal is CPython's correctly rounded `format` (trusted, and checked on every
   run: the harness derives the decimal value with exact rational arithmetic, the model prints it, and
   the text must coincide with what molli wrote).

   Outside the model (the reader returns None): UNITY_*_ATTR sections, numbers that `float()` / `int()`
   accept in another shape than molli writes ("1e3", "+5", "1_0"), a bond endpoint 0 or negative (Python
   wraps negative indices).  Fields 10/11 of an atom line
   (status bit, rest) are never looked at, so `split(maxsplit=10)` and `split()` agree on what is used. *)
From Coq Require Import String Ascii.
From Coq Require Import List Bool NArith ZArith.
From Molli Require Import Common.StrSplit Common.Dec6 Gen.Mol2Types.
Import ListNotations.
Local Open Scope N_scope.

(* ================================================================== Part 1: vocabulary *)
Definition triple := (N * N * N)%type.      (* positions in elt_names, atype_names, geom_names *)
Definition nthN {A} (l : list A) (i : N) : option A := nth_error l (N.to_nat i).
Definition lenN {A} (l : list A) : N := N.of_nat (length l).
Definition n_elt : N := lenN elt_names.
Definition n_atype : N := lenN atype_names.
Definition n_geom : N := lenN geom_names.
Definition n_btype : N := lenN btype_names.

Definition in_dom (a : triple) : bool :=
  let '(e, t, g) := a in (e <? n_elt) && (t <? n_atype) && (g <? n_geom).

Definition get_tokidx (a : triple) : option N :=
  let '(e, t, g) := a in
  if in_dom a then match nthN get_rows e with Some row => nthN row (t * n_geom + g) | None => None end
  else None.

Definition tokens_s : list str := map u8 tokens.
Definition symbols_s : list str := map u8 elt_symbols.
Definition bond_tokens_s : list str := map u8 bond_tokens.

Fixpoint index_of (s : str) (l : list str) (i : N) : option N :=
  match l with [] => None | x :: r => if str_eqb s x then Some i else index_of s r (N.succ i) end.

(* Atom(e, atype=t, geom=g).get_mol2_type() *)
Definition get_tok (a : triple) : str :=
  match get_tokidx a with
  | Some k => match nthN tokens_s k with Some s => s | None => [] end
  | None => []
  end.
(* Atom().set_mol2_type(s): Some (element, atype, geom) afterwards; None when it raises, or when s is not a
   token molli emits (the table only records emitted tokens) *)
Definition set_tok (s : str) : option triple :=
  match index_of s tokens_s 0 with
  | Some k => match nthN set_tbl k with Some r => r | None => None end
  | None => None
  end.
Definition sym (a : triple) : str :=
  match nthN symbols_s (fst (fst a)) with Some s => s | None => [] end.
Definition elt_of (a : triple) : N := fst (fst a).

Definition bget_tok (b : N) : str :=
  match nthN bond_get b with
  | Some k => match nthN bond_tokens_s k with Some s => s | None => [] end
  | None => []
  end.
Definition bset_tok (s : str) : option N :=
  match index_of s bond_tokens_s 0 with
  | Some k => match nthN bond_set k with Some r => r | None => None end
  | None => None
  end.

Definition triple_eqb (a b : triple) : bool :=
  let '(e, t, g) := a in let '(e', t', g') := b in (e =? e') && (t =? t') && (g =? g').

(* position of a name in one of the enumerations (for readable statements) *)
Fixpoint pos_of (n : string) (l : list string) (i : N) : option N :=
  match l with [] => None | x :: r => if String.eqb n x then Some i else pos_of n r (N.succ i) end.
Definition triple_of (e t g : string) : option triple :=
  match pos_of e elt_names 0, pos_of t atype_names 0, pos_of g geom_names 0 with
  | Some a, Some b, Some c => Some (a, b, c)
  | _, _, _ => None
  end.

(* What the Tripos format itself fixes (written from the format, not from the code): the bond types mol2 can
   express, with their tokens ... *)
Definition bond_spec : list (string * string) :=
  [("Single", "1"); ("Double", "2"); ("Triple", "3"); ("Aromatic", "ar"); ("Amide", "am");
   ("Dummy", "du"); ("Unknown", "un"); ("NotConnected", "nc")]%string.
(* ... and the standard SYBYL atom types molli has a counterpart for: (element, atom type, geometry) <-> token *)
Definition sybyl_spec : list (string * string * string * string) :=
  [("C", "sp3", "Unknown", "C.3"); ("C", "sp2", "Unknown", "C.2"); ("C", "sp", "Unknown", "C.1");
   ("C", "Aromatic", "Unknown", "C.ar"); ("C", "C_Guanidinium", "R3_Planar", "C.cat");
   ("N", "sp3", "Unknown", "N.3"); ("N", "sp2", "Unknown", "N.2"); ("N", "sp", "Unknown", "N.1");
   ("N", "Aromatic", "Unknown", "N.ar"); ("N", "N_Amide", "R3_Planar", "N.am");
   ("N", "Regular", "R3_Planar", "N.pl3"); ("N", "N_Ammonium", "R4_Tetrahedral", "N.4");
   ("O", "sp3", "Unknown", "O.3"); ("O", "sp2", "Unknown", "O.2"); ("O", "O_Carboxylate", "R1", "O.co2");
   ("S", "sp3", "Unknown", "S.3"); ("S", "sp2", "Unknown", "S.2");
   ("S", "O_Sulfoxide", "R3_Pyramidal", "S.O"); ("S", "O_Sulfone", "R4_Tetrahedral", "S.O2");
   ("P", "sp3", "Unknown", "P.3");
   ("H", "Regular", "Unknown", "H"); ("F", "Regular", "Unknown", "F"); ("Cl", "Regular", "Unknown", "Cl");
   ("Br", "Regular", "Unknown", "Br"); ("I", "Regular", "Unknown", "I"); ("Si", "Regular", "Unknown", "Si");
   ("Li", "Regular", "Unknown", "Li"); ("Na", "Regular", "Unknown", "Na"); ("Mg", "Regular", "Unknown", "Mg");
   ("Al", "Regular", "Unknown", "Al"); ("K", "Regular", "Unknown", "K"); ("Ca", "Regular", "Unknown", "Ca");
   ("Fe", "Regular", "Unknown", "Fe"); ("Cu", "Regular", "Unknown", "Cu"); ("Zn", "Regular", "Unknown", "Zn");
   ("Se", "Regular", "Unknown", "Se"); ("Mo", "Regular", "Unknown", "Mo"); ("Sn", "Regular", "Unknown", "Sn");
   ("Fe", "Regular", "R6_Octahedral", "Fe.oh"); ("Co", "Regular", "R6_Octahedral", "Co.oh");
   ("C", "Dummy", "Unknown", "Du.C"); ("Unknown", "Dummy", "Unknown", "Du.Unknown")]%string.

(* ---------------------------------------------------------------- boolean checks decided on the table *)
Fixpoint nodupb (l : list str) : bool :=
  match l with [] => true | x :: r => negb (existsb (str_eqb x) r) && nodupb r end.
Definition seqN (n : N) : list N := map N.of_nat (seq 0 (N.to_nat n)).

(* one triple: its token exists, the reader accepts it, gives back the same element, a triple of the domain,
   and writing that triple gives the same token again *)
Definition triple_okb (a : triple) : bool :=
  match get_tokidx a with
  | Some k =>
      (k <? lenN tokens_s) &&
      match nthN set_tbl k with
      | Some (Some a') => (elt_of a' =? elt_of a) && in_dom a' &&
                          match get_tokidx a' with Some k' => k' =? k | None => false end
      | _ => false
      end
  | None => false
  end.
(* the same without the fixed-point clause (kept separate so that the theorems fail independently) *)
Definition triple_accb (a : triple) : bool :=
  match get_tokidx a with
  | Some k => (k <? lenN tokens_s) &&
              match nthN set_tbl k with Some (Some a') => (elt_of a' =? elt_of a) && in_dom a' | _ => false end
  | None => false
  end.
Definition all_triples (chk : triple -> bool) : bool :=
  forallb (fun e => forallb (fun t => forallb (fun g => chk (e, t, g)) (seqN n_geom)) (seqN n_atype)) (seqN n_elt).
Definition vocab_wfb : bool :=
  nodupb tokens_s && forallb (tokb pyws) tokens_s && forallb (tokb pyws) symbols_s
  && nodupb bond_tokens_s && forallb (tokb pyws) bond_tokens_s.
Definition types_accb : bool := vocab_wfb && all_triples triple_accb.
Definition types_okb : bool := vocab_wfb && all_triples triple_okb.

Definition bond_okb (b : N) : bool :=
  match nthN bond_get b with
  | Some k => (k <? lenN bond_tokens_s) &&
              match nthN bond_set k with
              | Some (Some b') => (b' <? n_btype) && match nthN bond_get b' with Some k' => k' =? k | None => false end
              | _ => false
              end
  | None => false
  end.
Definition bonds_okb : bool := vocab_wfb && forallb bond_okb (seqN n_btype).
Definition bond_spec_okb : bool :=
  forallb (fun p => match pos_of (fst p) btype_names 0 with
                    | Some b => str_eqb (bget_tok b) (u8 (snd p)) &&
                                match bset_tok (u8 (snd p)) with Some b' => b' =? b | None => false end
                    | None => false
                    end) bond_spec.
Definition sybyl_spec_okb : bool :=
  forallb (fun p => let '(e, t, g, k) := p in
                    match triple_of e t g with
                    | Some a => str_eqb (get_tok a) (u8 k) &&
                                match set_tok (u8 k) with Some a' => triple_eqb a' a | None => false end
                    | None => false
                    end) sybyl_spec.
(* writer and reader look at the current state only: an atom / bond that already produced a token and is then
   re-assigned answers like a fresh one (no memoisation), and re-typing a bond with a token it was given before acts *)
Fixpoint optN_list_eqb (a b : list (option N)) : bool :=
  match a, b with
  | [], [] => true
  | Some x :: a', Some y :: b' => (x =? y) && optN_list_eqb a' b'
  | None :: a', None :: b' => optN_list_eqb a' b'
  | _, _ => false
  end.
Fixpoint N_list_eqb (a b : list N) : bool :=
  match a, b with [], [] => true | x :: a', y :: b' => (x =? y) && N_list_eqb a' b' | _, _ => false end.
Definition stateless_okb : bool :=
  N_list_eqb get_after (seqN (lenN tokens)) && N_list_eqb bond_get_after bond_get && optN_list_eqb bond_set_after bond_set.

(* a fixed-point failure, for the search when types_okb is false *)
Definition triple_failures (chk : triple -> bool) : list triple :=
  flat_map (fun e => flat_map (fun t => flat_map (fun g => if chk (e, t, g) then [] else [(e, t, g)])
                                                   (seqN n_geom)) (seqN n_atype)) (seqN n_elt).

(* ---------------------------------------------------------------- vocabulary as seen by the text codec *)
Record vocab := mk_vocab {
  V_atom : Type; V_get : V_atom -> str; V_set : str -> option V_atom; V_sym : V_atom -> str;
  V_bond : Type; V_bget : V_bond -> str; V_bset : str -> option V_bond }.
Definition real_vocab : vocab := mk_vocab triple get_tok set_tok sym N bget_tok bset_tok.

(* ================================================================== Part 2: writer *)
Section Codec.
Variable V : vocab.

Record atom := mk_atom { a_ty : V_atom V; a_label : str; a_x : fx; a_y : fx; a_z : fx; a_q : fx }.
Record bond := mk_bond { b_a1 : N; b_a2 : N; b_ty : V_bond V }.         (* 0-based atom indices *)
Record mol := mk_mol { m_name : str; m_atoms : list atom; m_bonds : list bond }.

(* one replacement field of an f-string: {t:<w} or {t:>w} *)
Inductive fld := FL (w : nat) (t : str) | FR (w : nat) (t : str).
Definition fld_tok (f : fld) : str := match f with FL _ t => t | FR _ t => t end.
Definition fld_text (f : fld) : str := match f with FL w t => rpad w t | FR w t => lpad w t end.
Fixpoint join_sp (fs : list fld) : str :=       (* fields separated by the single literal blank *)
  match fs with [] => [] | [f] => fld_text f | f :: r => fld_text f ++ SP :: join_sp r end.

Definition or_sym (s : str) (a : V_atom V) : str := match s with [] => V_sym V a | _ => s end.
Definition label_of (a : atom) : str := or_sym (a_label a) (a_ty a).      (* a.label or a.element.symbol *)
Definition type_of (a : atom) : str := or_sym (V_get V (a_ty a)) (a_ty a). (* a.get_mol2_type() or a.element.symbol *)

(* wq = true: Molecule.dump_mol2 (charges written "%.3f", bond type ">3");
   wq = false: Structure.dump_mol2 (charge literally 0.0, bond type ">10") *)
Definition atom_fields (wq : bool) (i : N) (a : atom) : list fld :=
  [FR 6 (print_nat (i + 1)); FL 3 (label_of a); FR 12 (print_fixed 6 (a_x a)); FR 12 (print_fixed 6 (a_y a));
   FR 12 (print_fixed 6 (a_z a)); FL 10 (type_of a); FL 0 (u8 "1"); FL 0 (u8 "UNL1");
   FL 0 (if wq then print_fixed 3 (a_q a) else u8 "0.0")].
Definition bond_fields (wq : bool) (i : N) (b : bond) : list fld :=
  [FR 6 (print_nat (i + 1)); FR 6 (print_nat (b_a1 b + 1)); FR 6 (print_nat (b_a2 b + 1));
   FR (if wq then 3 else 10)%nat (V_bget V (b_ty b))].

Fixpoint atom_lines (wq : bool) (i : N) (l : list atom) : list str :=
  match l with [] => [] | a :: r => join_sp (atom_fields wq i a) :: atom_lines wq (N.succ i) r end.
Fixpoint bond_lines (wq : bool) (i : N) (l : list bond) : list str :=
  match l with [] => [] | b :: r => join_sp (bond_fields wq i b) :: bond_lines wq (N.succ i) r end.

Definition L_PRODUCED := u8 "# Produced with molli package".
Definition L_MOLECULE := u8 "@<TRIPOS>MOLECULE".
Definition L_ATOM := u8 "@<TRIPOS>ATOM".
Definition L_BOND := u8 "@<TRIPOS>BOND".
Definition counts_line (na nb : N) : str :=
  join_sp [FL 0 (print_nat na); FL 0 (print_nat nb); FL 0 (u8 "0"); FL 0 (u8 "0"); FL 0 (u8 "0")].

Definition header_lines (name : str) (na nb : N) : list str :=
  [L_PRODUCED; L_MOLECULE; name; counts_line na nb; u8 "SMALL"; u8 "USER_CHARGES"; []].
Definition mol_lines (wq : bool) (m : mol) : list str :=
  header_lines (m_name m) (lenN (m_atoms m)) (lenN (m_bonds m))
  ++ L_ATOM :: atom_lines wq 0 (m_atoms m) ++ L_BOND :: bond_lines wq 0 (m_bonds m).

Definition write (wq : bool) (m : mol) : str := text_of (mol_lines wq m).                 (* dumps_mol2 *)
Definition write_all (wq : bool) (ms : list mol) : str := text_of (concat (map (mol_lines wq) ms)).

(* ================================================================== Part 3: reader *)
Record rawhdr := mk_hdr { h_name : str; h_na : N; h_nb : option N; h_chrg : str }.
Definition rawblock := (rawhdr * list (list str) * list (list str))%type.

Inductive mode :=
| Top
| HName | HCounts (nm : str) | HMolType (nm cn : str) | HChrg (nm cn : str) | HStatus (nm cn ch : str) | HComment
| Atoms (k : N) | Bonds (k : N).                 (* k >= 1 lines of the section still to come *)

Record st := mk_st {
  s_mode : mode;
  s_skip : bool;                                 (* inside a section molli does not implement *)
  s_done : list rawblock;                        (* blocks already yielded, latest first *)
  s_hdr : option rawhdr;                         (* parsed_header *)
  s_atoms : list (list str);                     (* parsed_atoms, latest first *)
  s_bonds : list (list str);
  s_na : option N;                               (* the local n_atoms (None: not bound yet) *)
  s_nb : option N }.
Definition init_st : st := mk_st Top false [] None [] [] None None.
Definition set_mode (s : st) (m : mode) : st :=
  mk_st m (s_skip s) (s_done s) (s_hdr s) (s_atoms s) (s_bonds s) (s_na s) (s_nb s).

Definition TRIPOS := u8 "@<TRIPOS>".
Fixpoint strip_prefix (p s : str) : option str :=
  match p, s with
  | [], _ => Some s
  | a :: p', b :: s' => if a =? b then strip_prefix p' s' else None
  | _ :: _, [] => None
  end.
Definition is_tagchar (c : N) : bool := ((65 <=? c) && (c <=? 90)) || (c =? 95).     (* [A-Z_] *)
Fixpoint take_while (f : N -> bool) (s : str) : str :=
  match s with [] => [] | c :: r => if f c then c :: take_while f r else [] end.
(* RE_TRIPOS.match(line)[1] *)
Definition tripos_tag (l : str) : option str :=
  match strip_prefix TRIPOS l with
  | Some r => match take_while is_tagchar r with [] => None | t => Some t end
  | None => None
  end.

Fixpoint all_some {A} (l : list (option A)) : option (list A) :=
  match l with
  | [] => Some []
  | None :: _ => None
  | Some x :: r => match all_some r with Some r' => Some (x :: r') | None => None end
  end.

(* a block is yielded only if it holds exactly the records its header declares *)
Definition complete (h : rawhdr) (atoms bonds : list (list str)) : bool :=
  (lenN atoms =? h_na h) && (lenN bonds =? match h_nb h with Some n => n | None => 0 end).

(* end of the MOLECULE record: counts are parsed, header and the locals n_atoms / n_bonds are (re)bound *)
Definition finish_header (s : st) (nm cn ch : str) : option st :=
  match all_some (map parse_nat (split pyws cn)) with
  | Some [na] => Some (mk_st Top (s_skip s) (s_done s) (Some (mk_hdr nm na None ch)) (s_atoms s) (s_bonds s) (Some na) None)
  | Some (na :: nb :: _) =>
      Some (mk_st Top (s_skip s) (s_done s) (Some (mk_hdr nm na (Some nb) ch)) (s_atoms s) (s_bonds s) (Some na) (Some nb))
  | _ => None
  end.

Definition top_step (s : st) (l : str) : option st :=
  match l with
  | [] => Some s
  | c :: _ =>
    if c =? 35 then Some s                                         (* "#..." comment *)
    else match tripos_tag l with
    | Some tag =>
        if str_eqb tag (u8 "MOLECULE") then
          match s_hdr s with
          | Some h => if complete h (s_atoms s) (s_bonds s)
                      then Some (mk_st HName false ((h, s_atoms s, s_bonds s) :: s_done s) None [] [] (s_na s) (s_nb s))
                      else None                                   (* MOL2SyntaxError: incomplete records *)
          | None => Some (mk_st HName false (s_done s) None [] [] (s_na s) (s_nb s))
          end
        else if str_eqb tag (u8 "ATOM") then
          match s_na s with
          | Some n => Some (mk_st (if n =? 0 then Top else Atoms n) false (s_done s) (s_hdr s) [] (s_bonds s) (s_na s) (s_nb s))
          | None => None
          end
        else if str_eqb tag (u8 "BOND") then
          match s_nb s with
          | Some n => Some (mk_st (if n =? 0 then Top else Bonds n) false (s_done s) (s_hdr s) (s_atoms s) [] (s_na s) (s_nb s))
          | None => None
          end
        else if str_eqb tag (u8 "UNITY_ATOM_ATTR") || str_eqb tag (u8 "UNITY_BOND_ATTR") then None
        else Some (mk_st Top true (s_done s) (s_hdr s) (s_atoms s) (s_bonds s) (s_na s) (s_nb s))
    | None => if s_skip s then Some s else None                    (* MOL2SyntaxError *)
    end
  end.

Definition step (s : st) (raw : str) : option st :=
  let l := strip pyws raw in
  match s_mode s with
  | Top => top_step s l
  | HName => Some (set_mode s (HCounts l))
  | HCounts nm => Some (set_mode s (HMolType nm l))
  | HMolType nm cn => Some (set_mode s (HChrg nm cn))
  | HChrg nm cn => Some (set_mode s (HStatus nm cn l))
  | HStatus nm cn ch =>
      match finish_header s nm cn ch with
      | Some s' =>
          match tripos_tag l with
          | Some _ => top_step s' l                                (* reader.put_back(status_bits) *)
          | None => if str_eqb l (u8 "****") then Some (set_mode s' HComment) else Some s'
          end
      | None => None
      end
  | HComment => Some (set_mode s Top)
  | Atoms k =>
      let toks := split pyws l in
      if (length toks <? 5)%nat then None                          (* MOL2Atom( *fields ): TypeError *)
      else Some (mk_st (if k =? 1 then Top else Atoms (k - 1)) (s_skip s) (s_done s) (s_hdr s)
                       (toks :: s_atoms s) (s_bonds s) (s_na s) (s_nb s))
  | Bonds k =>
      let toks := split pyws l in
      if (length toks <? 4)%nat then None
      else Some (mk_st (if k =? 1 then Top else Bonds (k - 1)) (s_skip s) (s_done s) (s_hdr s)
                       (s_atoms s) (toks :: s_bonds s) (s_na s) (s_nb s))
  end.

Fixpoint run (s : st) (ls : list str) : option st :=
  match ls with [] => Some s | l :: r => match step s l with Some s' => run s' r | None => None end end.

(* end of the stream: inside a record -> the generator dies (StopIteration); otherwise the last block is yielded *)
Definition finish (s : st) : option (list rawblock) :=
  match s_mode s, s_hdr s with
  | Top, Some h => if complete h (s_atoms s) (s_bonds s) then Some (rev ((h, s_atoms s, s_bonds s) :: s_done s)) else None
  | _, _ => None
  end.
Definition read_blocks (text : str) : option (list rawblock) :=
  match run init_st (lines_of text) with Some s => finish s | None => None end.

(* yield_from_mol2 on one block *)
Definition fx0 : fx := mk_fx false 0.
(* A charge is kept as a float and written as `c or 0.0`: a zero that was read from "-0.000" is written
   without its sign.  In decimal terms the reader forgets the sign of a zero charge. *)
Definition canon_q (q : fx) : fx := if fmag q =? 0 then fx0 else q.
Definition conv_atom (wq : bool) (charged : bool) (toks : list str) : option atom :=
  match toks with
  | _ :: lbl :: x :: y :: z :: ty :: rest =>
      match parse_fixed 6 x, parse_fixed 6 y, parse_fixed 6 z, V_set V ty with
      | Some x', Some y', Some z', Some ty' =>
          if wq && charged then
            match rest with
            | _ :: _ :: q :: _ => match parse_fixed 3 q with Some q' => Some (mk_atom ty' lbl x' y' z' (canon_q q')) | None => None end
            | _ => None
            end
          else Some (mk_atom ty' lbl x' y' z' fx0)
      | _, _, _, _ => None
      end
  | _ => None
  end.
Definition conv_bond (na : N) (toks : list str) : option bond :=
  match toks with
  | _ :: a1 :: a2 :: ty :: _ =>
      match parse_nat a1, parse_nat a2, V_bset V ty with
      | Some i, Some j, Some ty' =>
          if (1 <=? i) && (i <=? na) && (1 <=? j) && (j <=? na) then Some (mk_bond (i - 1) (j - 1) ty') else None
      | _, _, _ => None
      end
  | _ => None
  end.
Definition conv_block (wq : bool) (b : rawblock) : option mol :=
  let '(h, ra, rb) := b in
  let charged := negb (str_eqb (h_chrg h) (u8 "NO_CHARGES")) in
  match all_some (map (conv_atom wq charged) (rev ra)), all_some (map (conv_bond (h_na h)) (rev rb)) with
  | Some atoms, Some bonds => Some (mk_mol (h_name h) atoms bonds)
  | _, _ => None
  end.

Definition read_all (wq : bool) (text : str) : option (list mol) :=       (* loads_all_mol2 *)
  match read_blocks text with Some bs => all_some (map (conv_block wq) bs) | None => None end.
Definition read (wq : bool) (text : str) : option mol :=                   (* loads_mol2 *)
  match read_all wq text with Some (m :: _) => Some m | _ => None end.

(* ---------------------------------------------------------------- ensembles *)
Record cpos := mk_cpos { c_x : fx; c_y : fx; c_z : fx; c_q : fx }.       (* one atom of one conformer *)
Record ens := mk_ens { e_name : str; e_atoms : list (V_atom V * str); e_bonds : list bond; e_confs : list (list cpos) }.

Definition conf_atom (al : V_atom V * str) (c : cpos) : atom := mk_atom (fst al) (snd al) (c_x c) (c_y c) (c_z c) (c_q c).
Definition conformer_mol (e : ens) (c : list cpos) : mol :=
  mk_mol (e_name e) (map (fun p => conf_atom (fst p) (snd p)) (combine (e_atoms e) c)) (e_bonds e).
Definition write_ens (e : ens) : str := write_all true (map (conformer_mol e) (e_confs e)).   (* for conf in self: conf.dump_mol2 *)

Definition cpos_of (a : atom) : cpos := mk_cpos (a_x a) (a_y a) (a_z a) (a_q a).
(* ConformerEnsemble(mols): topology and name of the first molecule, coordinates and charges of each;
   numpy refuses conformers of another size *)
Definition ens_of_mols (ms : list mol) : option ens :=
  match ms with
  | [] => None
  | m0 :: _ =>
      if forallb (fun m => Nat.eqb (length (m_atoms m)) (length (m_atoms m0))) ms then
        Some (mk_ens (m_name m0) (map (fun a => (a_ty a, a_label a)) (m_atoms m0)) (m_bonds m0)
                     (map (fun m => map cpos_of (m_atoms m)) ms))
      else None
  end.
Definition read_ens (text : str) : option ens :=
  match read_all true text with Some ms => ens_of_mols ms | None => None end.

(* ---------------------------------------------------------------- views: the written object need not own its atoms
   molli hands out objects whose atoms belong to (and point back at) another container: Substructure views
   (mol.heavy, mol.substructure(sel) -- any subset in any order), Conformer views (ens[k], = conformer_mol above),
   structures whose Atom objects were adopted by a second structure afterwards.  Both writers number the ends of
   a bond by `self.atoms.index(b.a1)`: the position in the atom list of the object BEING WRITTEN (first
   occurrence), whatever the atom's back-reference says. *)
Fixpoint pos_in (i : N) (sel : list N) (k : N) : option N :=          (* k + sel.index(i) *)
  match sel with [] => None | j :: r => if i =? j then Some k else pos_in i r (N.succ k) end.
Fixpoint pick {A} (l : list A) (sel : list N) : list A :=              (* [parent.get_atom(i) for i in sel] *)
  match sel with
  | [] => []
  | i :: r => match nthN l i with Some a => a :: pick l r | None => pick l r end
  end.
(* Substructure.__init__: `for b in parent.bonds: if b.a1 in self.atoms and b.a2 in self.atoms` -- the bond
   objects of the parent, in the parent's order; written with the ends renumbered by position in the view *)
Definition view_bond (sel : list N) (b : bond) : option bond :=
  match pos_in (b_a1 b) sel 0, pos_in (b_a2 b) sel 0 with
  | Some i, Some j => Some (mk_bond i j (b_ty b))
  | _, _ => None
  end.
Fixpoint view_bonds (sel : list N) (bs : list bond) : list bond :=
  match bs with
  | [] => []
  | b :: r => match view_bond sel b with Some b' => b' :: view_bonds sel r | None => view_bonds sel r end
  end.
(* the view of m on the atom positions sel, as the writer sees it; nm: the name it is written under (a
   Substructure has no name of its own) *)
Definition sub_view (nm : str) (m : mol) (sel : list N) : mol :=
  mk_mol nm (pick (m_atoms m) sel) (view_bonds sel (m_bonds m)).
Definition wf_sel (na : N) (sel : list N) : bool := forallb (fun i => i <? na) sel.

(* ================================================================== Part 4: well-formedness, normal form *)
(* the property's side conditions: blank-free labels (an empty one is replaced by the symbol), a name that
   is one line and survives str.strip(), bond endpoints that are atoms of the molecule *)
Definition wf_label (l : str) : bool := match l with [] => true | _ => tokb pyws l end.
Definition wf_name (n : str) : bool :=
  forallb (fun c => negb (c =? NL)) n && str_eqb (strip pyws n) n.
Definition wf_bond (na : N) (b : bond) : bool := (b_a1 b <? na) && (b_a2 b <? na).
Definition wf_mol (m : mol) : bool :=
  wf_name (m_name m) && forallb (fun a => wf_label (a_label a)) (m_atoms m)
  && forallb (wf_bond (lenN (m_atoms m))) (m_bonds m).

(* what a molecule becomes after one write/read cycle: empty labels are filled in, the atom / bond type is
   the one the reader assigns to the written token, a Structure has no charges *)
Definition norm_atom (wq : bool) (a : atom) : atom :=
  mk_atom (match V_set V (type_of a) with Some t => t | None => a_ty a end) (label_of a)
          (a_x a) (a_y a) (a_z a) (if wq then canon_q (a_q a) else fx0).
Definition norm_bond (b : bond) : bond :=
  mk_bond (b_a1 b) (b_a2 b) (match V_bset V (V_bget V (b_ty b)) with Some t => t | None => b_ty b end).
Definition norm (wq : bool) (m : mol) : mol :=
  mk_mol (m_name m) (map (norm_atom wq) (m_atoms m)) (map norm_bond (m_bonds m)).

Definition wf_ens (e : ens) : bool :=
  wf_name (e_name e) && forallb (fun p => wf_label (snd p)) (e_atoms e)
  && forallb (wf_bond (lenN (e_atoms e))) (e_bonds e)
  && match e_confs e with [] => false | _ => true end
  && forallb (fun c => Nat.eqb (length c) (length (e_atoms e))) (e_confs e).
Definition norm_ens (e : ens) : ens :=
  mk_ens (e_name e)
         (map (fun p => let a := mk_atom (fst p) (snd p) fx0 fx0 fx0 fx0 in (a_ty (norm_atom true a), label_of a)) (e_atoms e))
         (map norm_bond (e_bonds e))
         (map (map (fun c => mk_cpos (c_x c) (c_y c) (c_z c) (canon_q (c_q c)))) (e_confs e)).
End Codec.

Arguments mk_atom {V}. Arguments mk_bond {V}. Arguments mk_mol {V}. Arguments mk_ens {V}.
Arguments a_ty {V}. Arguments a_label {V}. Arguments a_x {V}. Arguments a_y {V}. Arguments a_z {V}. Arguments a_q {V}.
Arguments b_a1 {V}. Arguments b_a2 {V}. Arguments b_ty {V}.
Arguments m_name {V}. Arguments m_atoms {V}. Arguments m_bonds {V}.
Arguments e_name {V}. Arguments e_atoms {V}. Arguments e_bonds {V}. Arguments e_confs {V}.

(* ================================================================== correspondence with the implementation *)
(* One generated case: the object handed to molli (as the model sees it), the lines molli wrote, and what
   molli read back from its own text -- values already brought to decimal fixed point by the harness. *)
Definition RV := real_vocab.
Definition ratom (t : triple) (lbl : str) (x y z q : fx) : atom RV := @mk_atom RV t lbl x y z q.
Definition rbond (i j : N) (t : N) : bond RV := @mk_bond RV i j t.
Definition rmol (n : str) (a : list (atom RV)) (b : list (bond RV)) : mol RV := @mk_mol RV n a b.
Definition rens (n : str) (a : list (triple * str)) (b : list (bond RV)) (c : list (list cpos)) : ens RV :=
  @mk_ens RV n a b c.
Definition fxv_eqb (a b : fx) : bool := Z.eqb (fx_val a) (fx_val b).      (* -0.000000 = 0.000000 as numbers *)
Definition atom_obs_eqb (a b : atom RV) : bool :=
  triple_eqb (a_ty a) (a_ty b) && str_eqb (a_label a) (a_label b) && fxv_eqb (a_x a) (a_x b)
  && fxv_eqb (a_y a) (a_y b) && fxv_eqb (a_z a) (a_z b) && fxv_eqb (a_q a) (a_q b).
Definition bond_obs_eqb (a b : bond RV) : bool :=
  (b_a1 a =? b_a1 b) && (b_a2 a =? b_a2 b) && (b_ty a =? b_ty b).
Fixpoint list_eqb {A} (eqb : A -> A -> bool) (a b : list A) : bool :=
  match a, b with
  | [], [] => true
  | x :: a', y :: b' => eqb x y && list_eqb eqb a' b'
  | _, _ => false
  end.
Definition mol_obs_eqb (a b : mol RV) : bool :=
  str_eqb (m_name a) (m_name b) && list_eqb atom_obs_eqb (m_atoms a) (m_atoms b)
  && list_eqb bond_obs_eqb (m_bonds a) (m_bonds b).
Definition cpos_obs_eqb (a b : cpos) : bool :=
  fxv_eqb (c_x a) (c_x b) && fxv_eqb (c_y a) (c_y b) && fxv_eqb (c_z a) (c_z b) && fxv_eqb (c_q a) (c_q b).
Definition ens_obs_eqb (a b : ens RV) : bool :=
  str_eqb (e_name a) (e_name b)
  && list_eqb (fun p q => triple_eqb (fst p) (fst q) && str_eqb (snd p) (snd q)) (e_atoms a) (e_atoms b)
  && list_eqb bond_obs_eqb (e_bonds a) (e_bonds b)
  && list_eqb (list_eqb cpos_obs_eqb) (e_confs a) (e_confs b).

Inductive case :=
| CMol (wq : bool) (input : mol RV) (written : list str) (readback : mol RV)
| CAll (wq : bool) (input : list (mol RV)) (written : list str) (readback : list (mol RV))
| CEns (input : ens RV) (written : list str) (readback : ens RV)
| CView (wq : bool) (nm : str) (parent : mol RV) (sel : list N) (written : list str) (readback : mol RV)
                               (* parent.substructure(sel) / parent.heavy written under the name nm *)
| CConf (input : ens RV) (k : N) (written : list str) (readback : mol RV)      (* ens[k] written on its own *)
| CWs (points : list N).       (* every code point below 12289 for which CPython's str.isspace() holds *)

(* (1) the model writes exactly the lines molli wrote; (2) the model reads molli's text into exactly what
   molli read; (3) that is the normal form the round-trip theorem speaks of *)
Definition check_mol (wq : bool) (m : mol RV) (w : list str) (r : mol RV) : bool :=
  list_eqb str_eqb (mol_lines RV wq m) w
  && match read RV wq (text_of w) with Some r' => mol_obs_eqb r' r && mol_obs_eqb r' (norm RV wq m) | None => false end.
Definition check_case (c : case) : bool :=
  match c with
  | CMol wq m w r => check_mol wq m w r
  | CView wq nm p sel w r => wf_sel (lenN (m_atoms p)) sel && check_mol wq (sub_view RV nm p sel) w r
  | CConf e k w r => match nthN (e_confs e) k with Some c => check_mol true (conformer_mol RV e c) w r | None => false end
  | CAll wq ms w rs =>
      list_eqb str_eqb (concat (map (mol_lines RV wq) ms)) w
      && match read_all RV wq (text_of w) with
         | Some rs' => list_eqb mol_obs_eqb rs' rs && list_eqb mol_obs_eqb rs' (map (norm RV wq) ms)
         | None => false
         end
  | CEns e w r =>
      list_eqb str_eqb (concat (map (fun c => mol_lines RV true (conformer_mol RV e c)) (e_confs e))) w
      && match read_ens RV (text_of w) with Some r' => ens_obs_eqb r' r && ens_obs_eqb r' (norm_ens RV e) | None => false end
  | CWs pts => list_eqb N.eqb (filter pyws (seqN 12289)) pts      (* pyws is false from 12289 on: Proofs, pyws_bound *)
  end.
