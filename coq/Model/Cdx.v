(* C13: executable model of molli's CDXML reader (molli/ftypes/cdxml.py).  NO proofs in this file.

   Anchors (the tree the model was written against):
     CDXMLFile._parse_atom_node      -> parse_atom_node
     CDXMLFile._parse_bond           -> parse_bond_type / order_of_btype (Bond.order)
     CDXMLFile._parse_fragment       -> assemble (nodes, multi-attachments, bonds, hapto centres, charge, mult),
                                        join_sub / expand (nested fragments through Structure.join),
                                        display_action (the `match bd.get("Display")` of the stereo loop)
     _cdxml_3dify_                   -> step_acyclic / step_shift / run_steps  (parametric in the field operations;
                                        the rotations are the C11 models of molli/math/rotation.py, imported)
     CDXMLFile.__getitem__           -> resolve (group sibling, else nearest fragment above) and getitem (the cache)

   What is NOT modelled: the XML text -> element tree step (xml.etree); the model starts from the typed view of
   what `frag.findall("./n")` / `frag.findall("./b")` return, built by the harness with its own ElementTree walk.
   `mean_plane` (numpy SVD) enters the geometric model as the argument `normal`; scipy's KD-tree as "the five
   nearest fragments in the L1 metric, nearest first" (`nearest5`).  *)
From Coq Require Import List ZArith NArith QArith Qabs String Ascii Bool.
From Molli Require Import Common.Field3 Model.Rot.
Import ListNotations.
Local Open Scope string_scope.
Local Open Scope list_scope.

(* ------------------------------------------------------------------ typed view of the drawing *)
Inductive ntype := NTAbsent | NTOther | NTExt | NTFragment | NTNickname | NTGeneric | NTUnspecified | NTMulti.
Inductive radical := RadAbsent | RadDoublet | RadSinglet | RadOther.
Inductive display :=
  DAbsent | DSolid | DDash | DHash | DWedgedHashBegin | DWedgedHashEnd | DBold | DWedgeBegin | DWedgeEnd
| DWavy | DHollowWedgeBegin | DHollowWedgeEnd | DWavyWedgeBegin | DWavyWedgeEnd | DDot | DDashDot | DOther.
(* the Order attribute: absent | accepted by int() | the literal "1.5" | anything else (int() raises) *)
Inductive xorder := OAbsent | OInt (z : Z) | OOneHalf | OBad.

Record xnode := mkNode {
  n_id : string;
  n_type : ntype;
  n_elem : option Z;          (* Element *)
  n_iso : option Z;           (* Isotope *)
  n_charge : option Z;        (* Charge *)
  n_rad : radical;            (* Radical *)
  n_numh : option Z;          (* NumHydrogens *)
  n_anum : option string;     (* AtomNumber *)
  n_extnum : option string;   (* ExternalConnectionNum *)
  n_gnick : option string;    (* GenericNickname *)
  n_text : option string;     (* text of ./t/s ; None = no such child *)
  n_attach : list string      (* Attachments, split *)
}.
Record xbond := mkXBond { xb_B : string; xb_E : string; xb_order : xorder; xb_disp : display }.

(* ------------------------------------------------------------------ what the parser builds *)
Inductive atype := ATRegular | ATAttachment | ATCoord | ATOther.
Record atom := mkAtom {
  a_elem : Z;                 (* atomic number, 0 = Element.Unknown *)
  a_iso : option Z;
  a_label : option string;
  a_atype : atype;
  a_charge : Z;               (* formal_charge *)
  a_spin : Z;                 (* formal_spin: 2S *)
  a_implh : option Z          (* attrib["__implicit_hydrogens"] *)
}.
(* bond: indices into the atom list, BondType value, f_order *)
Record bond := mkBond { b_a1 : nat; b_a2 : nat; b_type : N; b_forder : Q }.
Record mol := mkMol { m_atoms : list atom; m_bonds : list bond; m_charge : Z; m_mult : Z }.

Inductive res (A : Type) := Ok (a : A) | Raise.
Arguments Ok {A}. Arguments Raise {A}.
Definition bind {A B} (r : res A) (f : A -> res B) : res B := match r with Ok a => f a | Raise => Raise end.

(* BondType values *)
Definition BT_Single : N := 1. Definition BT_Aromatic : N := 20. Definition BT_Ligand : N := 98.
Definition bondtype_values : list Z := [0;1;2;3;4;5;6;10;11;20;21;98;99;100;101]%Z.
Definition zmem (z : Z) (l : list Z) : bool := existsb (Z.eqb z) l.

(* ------------------------------------------------------------------ _parse_atom_node *)
Definition rad_code (r : radical) : Z := match r with RadDoublet => 1 | RadSinglet => 2 | _ => 0 end%Z.
Definition odflt {A} (d : A) (o : option A) : A := match o with Some x => x | None => d end.
Definition or_else (o : option string) (d : string) : option string := match o with Some x => Some x | None => Some d end.
Definition is_special (t : ntype) : bool :=
  match t with NTExt | NTFragment | NTNickname | NTGeneric | NTUnspecified => true | _ => false end.
Definition valid_element (z : Z) : bool := ((0 <=? z) && (z <=? 118))%Z.

Definition parse_atom_node (n : xnode) : res atom :=
  let iso := n_iso n in
  let q := odflt 0%Z (n_charge n) in
  let sp := rad_code (n_rad n) in
  let h := n_numh n in
  let special (lbl : option string) := Ok (mkAtom 0 iso lbl ATAttachment q sp h) in
  match n_type n with
  | NTExt => special (or_else (n_anum n) (String.append "AP" (odflt "0" (n_extnum n))))
  | NTFragment | NTNickname => special (Some (n_id n))
  | NTGeneric => special (n_gnick n)
  | NTUnspecified => match n_text n with Some t => special (Some t) | None => Raise end
  | NTAbsent | NTOther | NTMulti =>
      let z := odflt 6%Z (n_elem n) in
      if valid_element z then Ok (mkAtom z iso (n_anum n) ATRegular q sp h) else Raise
  end.

(* ------------------------------------------------------------------ _parse_bond, Bond.order *)
Definition parse_bond_type (o : xorder) (d : display) : res N :=
  match o with
  | OBad => Raise
  | OInt z => if zmem z bondtype_values then Ok (match d with DDash => BT_Ligand | _ => Z.to_N z end) else Raise
  | OAbsent => Ok (match d with DDash => BT_Ligand | _ => BT_Single end)
  | OOneHalf => Ok (match d with DDash => BT_Ligand | _ => BT_Aromatic end)
  end.
(* Bond.order for f_order = 1.0 *)
Definition order_of_btype (t : N) : Q :=
  match t with
  | 0%N => 0 | 1%N => 1 | 2%N => 2 | 3%N => 3 | 4%N => 4 | 5%N => 5 | 6%N => 6
  | 20%N => 3 # 2
  | 99%N => 1          (* FractionalOrder: f_order *)
  | 101%N => 0 | 10%N => 0 | 98%N => 0 | 11%N => 0
  | _ => 1
  end.
(* the bond order a drawing shows *)
Definition drawn_order (o : xorder) : option Q :=
  match o with
  | OAbsent => Some 1
  | OOneHalf => Some (3 # 2)
  | OInt z => if ((1 <=? z) && (z <=? 6))%Z then Some (inject_Z z) else None
  | OBad => None
  end.

(* ------------------------------------------------------------------ the stereo loop: Display -> (a1 is the E end, sign) *)
Definition display_action (d : display) : option (bool * Z) :=
  match d with
  | DWedgeBegin => Some (false, 1)
  | DWedgedHashBegin => Some (false, -1)
  | DWedgeEnd => Some (true, 1)
  | DWedgedHashEnd => Some (true, -1)
  | DBold => Some (false, 2)
  | DHash => Some (false, -2)
  | _ => None
  end%Z.
(* mirroring a drawing through its plane: wedge <-> hash *)
Definition mirror_display (d : display) : display :=
  match d with
  | DWedgeBegin => DWedgedHashBegin | DWedgedHashBegin => DWedgeBegin
  | DWedgeEnd => DWedgedHashEnd | DWedgedHashEnd => DWedgeEnd
  | DBold => DHash | DHash => DBold
  | x => x
  end.
Definition mirror_bond (b : xbond) : xbond := mkXBond (xb_B b) (xb_E b) (xb_order b) (mirror_display (xb_disp b)).
Definition neg_action (a : option (bool * Z)) : option (bool * Z) :=
  match a with Some (sw, s) => Some (sw, (- s)%Z) | None => None end.

Definition all_displays : list display :=
  [DAbsent; DSolid; DDash; DHash; DWedgedHashBegin; DWedgedHashEnd; DBold; DWedgeBegin; DWedgeEnd;
   DWavy; DHollowWedgeBegin; DHollowWedgeEnd; DWavyWedgeBegin; DWavyWedgeEnd; DDot; DDashDot; DOther].

(* What a drawing with ONE marked bond shows after parsing (tie T, Gen/CdxTables.v `display_table`):
   ring probe  : four-membered ring B-E-C-D, bond B-E marked; (sgn z_B, sgn z_E, compare |z_B| |z_E|)
   star probe  : B with neighbours E, C, D, bond B-E marked; which of (B, E, C) left the plane, common sign of z *)
Definition ring_pattern (a : option (bool * Z)) : Z * Z * comparison :=
  match a with
  | None => (0, 0, Eq)
  | Some (sw, s) =>
      if (Z.abs s =? 1) then (Z.sgn s, Z.sgn s, if sw then Gt else Lt)      (* the far end is lifted twice as much *)
      else (Z.sgn s, Z.sgn s, Eq)
  end%Z.
Definition star_pattern (a : option (bool * Z)) : bool * bool * bool * Z :=
  match a with
  | None => (false, false, false, 0)
  | Some (sw, s) =>
      if (Z.abs s =? 1) then (if sw then (true, false, true, Z.sgn s) else (false, true, false, Z.sgn s))
      else (true, true, true, Z.sgn s)                  (* +/-2 outside a ring: the whole fragment is shifted *)
  end%Z.

(* ------------------------------------------------------------------ _parse_fragment: constitution *)
(* python dict built by successive assignment: the LAST binding of a key wins *)
Fixpoint dict_get {A} (k : string) (d : list (string * A)) : option A :=
  match d with
  | [] => None
  | (k', v) :: r => match dict_get k r with Some x => Some x | None => if String.eqb k k' then Some v else None end
  end.

(* first loop: multi-attachment nodes are set aside, every other node gives one atom *)
Fixpoint scan_nodes (ns : list xnode) : res (list (string * list string) * list (string * atom)) :=
  match ns with
  | [] => Ok ([], [])
  | n :: r =>
      match n_type n with
      | NTMulti => bind (scan_nodes r) (fun '(ma, ats) => Ok ((n_id n, n_attach n) :: ma, ats))
      | _ => bind (parse_atom_node n) (fun a => bind (scan_nodes r) (fun '(ma, ats) => Ok (ma, (n_id n, a) :: ats)))
      end
  end.

(* atom_idx[id] as a position in the atom list (ids name atoms; the last node carrying an id owns it) *)
Fixpoint index_last (k : string) (ids : list string) (i : nat) : option nat :=
  match ids with
  | [] => None
  | k' :: r => match index_last k r (S i) with Some j => Some j | None => if String.eqb k k' then Some i else None end
  end.
Definition atom_index (ids : list string) (k : string) : res nat :=
  match index_last k ids 0 with Some i => Ok i | None => Raise end.

Fixpoint mapM {A B} (f : A -> res B) (l : list A) : res (list B) :=
  match l with
  | [] => Ok []
  | x :: r => bind (f x) (fun y => bind (mapM f r) (fun ys => Ok (y :: ys)))
  end.

(* second loop: one drawn bond -> the bonds appended, and the hapto centre it declares (if any) *)
Definition bonds_of (ma : list (string * list string)) (ids : list string) (b : xbond)
  : res (list bond * option nat) :=
  let hapto (center : string) (attached : list string) :=
    match attached with
    | [] => Raise                                          (* 1 / len(attached) *)
    | _ =>
        let fo := 1 / inject_Z (Z.of_nat (List.length attached)) in
        bind (mapM (fun t => bind (atom_index ids center) (fun c => bind (atom_index ids t) (fun j =>
                              Ok (mkBond c j BT_Ligand fo)))) attached)
             (fun bs => bind (atom_index ids center) (fun c => Ok (bs, Some c)))
    end in
  match dict_get (xb_B b) ma with
  | Some att => hapto (xb_E b) att
  | None =>
      match dict_get (xb_E b) ma with
      | Some att => hapto (xb_B b) att
      | None =>
          bind (atom_index ids (xb_B b)) (fun i => bind (atom_index ids (xb_E b)) (fun j =>
          bind (parse_bond_type (xb_order b) (xb_disp b)) (fun t => Ok ([mkBond i j t 1], None))))
      end
  end.

Fixpoint scan_bonds (ma : list (string * list string)) (ids : list string) (bs : list xbond)
  : res (list bond * list nat) :=
  match bs with
  | [] => Ok ([], [])
  | b :: r => bind (bonds_of ma ids b) (fun '(nb, c) => bind (scan_bonds ma ids r) (fun '(rb, rc) =>
              Ok (nb ++ rb, match c with Some i => i :: rc | None => rc end)))
  end.

Definition set_atype (t : atype) (a : atom) : atom :=
  mkAtom (a_elem a) (a_iso a) (a_label a) t (a_charge a) (a_spin a) (a_implh a).
Fixpoint mark_from (cs : list nat) (i : nat) (l : list atom) : list atom :=
  match l with
  | [] => []
  | a :: r => (if existsb (Nat.eqb i) cs then set_atype ATCoord a else a) :: mark_from cs (S i) r
  end.
Definition mark_centers (cs : list nat) (l : list atom) : list atom := mark_from cs 0 l.

Definition zsum (l : list Z) : Z := fold_right Z.add 0%Z l.
Definition total_charge (l : list atom) : Z := zsum (map a_charge l).
Definition total_spin (l : list atom) : Z := zsum (map a_spin l).
Definition finish (ats : list atom) (bs : list bond) : mol := mkMol ats bs (total_charge ats) (total_spin ats + 1).

(* a fragment without expanded (nested) nodes *)
Definition assemble (ns : list xnode) (xbs : list xbond) : res mol :=
  bind (scan_nodes ns) (fun '(ma, ats) =>
  bind (scan_bonds ma (map fst ats) xbs) (fun '(bs, cs) =>
  Ok (finish (mark_centers cs (map snd ats)) bs))).

(* ------------------------------------------------------------------ nested fragments: Structure.join, constitution only *)
(* get_atom(str): the first atom carrying that label *)
Fixpoint find_label (k : string) (l : list atom) (i : nat) : option nat :=
  match l with
  | [] => None
  | a :: r => match a_label a with
              | Some s => if String.eqb s k then Some i else find_label k r (S i)
              | None => find_label k r (S i)
              end
  end.
Fixpoint find_ap (l : list atom) (i : nat) : option nat :=                    (* attachment_points[0] *)
  match l with
  | [] => None
  | a :: r => match a_atype a with ATAttachment => Some i | _ => find_ap r (S i) end
  end.
Definition touches (i : nat) (b : bond) : bool := Nat.eqb (b_a1 b) i || Nat.eqb (b_a2 b) i.
Definition other (i : nat) (b : bond) : nat := if Nat.eqb (b_a1 b) i then b_a2 b else b_a1 b.
Fixpoint remove_nth {A} (i : nat) (l : list A) : list A :=
  match l, i with
  | [], _ => []
  | _ :: r, O => r
  | x :: r, S k => x :: remove_nth k r
  end.
(* index of an atom after atom i was dropped / after being appended behind `off` atoms *)
Definition shift_down (i k : nat) : nat := if Nat.ltb i k then Nat.pred k else k.
Definition rebond (f : nat -> nat) (b : bond) : bond := mkBond (f (b_a1 b)) (f (b_a2 b)) (b_type b) (b_forder b).

(* join(result, sub, ap, sub.attachment_points[0]): both attachment points have exactly one bond; atoms of
   `result` minus ap, then atoms of `sub` minus its attachment point; surviving bonds in order, then the new
   single bond between the two former neighbours *)
Definition join_sub (r : mol) (key : string) (s : mol) : res mol :=
  match find_label key (m_atoms r) 0, find_ap (m_atoms s) 0 with
  | Some i, Some j =>
      match filter (touches i) (m_bonds r), filter (touches j) (m_bonds s) with
      | [bi], [bj] =>
          let n1 := Nat.pred (List.length (m_atoms r)) in
          let f1 k := shift_down i k in
          let f2 k := (n1 + shift_down j k)%nat in
          let ats := remove_nth i (m_atoms r) ++ remove_nth j (m_atoms s) in
          let bs := map (rebond f1) (filter (fun b => negb (touches i b)) (m_bonds r))
                    ++ map (rebond f2) (filter (fun b => negb (touches j b)) (m_bonds s))
                    ++ [mkBond (f1 (other i bi)) (f2 (other j bj)) BT_Single 1] in
          Ok (finish ats bs)
      | _, _ => Raise
      end
  | _, _ => Raise
  end.

(* a fragment with its expanded nodes: (node, Some inner fragment) *)
Inductive xfrag := XFrag (nodes : list (xnode * option xfrag)) (bonds : list xbond).

Fixpoint expand (f : xfrag) : res mol :=
  match f with
  | XFrag nodes xbs =>
      fold_left (fun acc p =>
                   match snd p with
                   | None => acc
                   | Some sub => bind acc (fun r => bind (expand sub) (fun s => join_sub r (n_id (fst p)) s))
                   end)
                nodes (assemble (map fst nodes) xbs)
  end.

(* ------------------------------------------------------------------ correspondence: constitution *)
Definition opt_eqb {A} (e : A -> A -> bool) (x y : option A) : bool :=
  match x, y with Some a, Some b => e a b | None, None => true | _, _ => false end.
Definition atype_eqb (x y : atype) : bool :=
  match x, y with ATRegular, ATRegular | ATAttachment, ATAttachment | ATCoord, ATCoord | ATOther, ATOther => true | _, _ => false end.
Definition atom_eqb (x y : atom) : bool :=
  Z.eqb (a_elem x) (a_elem y) && opt_eqb Z.eqb (a_iso x) (a_iso y) && opt_eqb String.eqb (a_label x) (a_label y)
  && atype_eqb (a_atype x) (a_atype y) && Z.eqb (a_charge x) (a_charge y) && Z.eqb (a_spin x) (a_spin y)
  && opt_eqb Z.eqb (a_implh x) (a_implh y).
Definition bond_eqb (x y : bond) : bool :=
  Nat.eqb (b_a1 x) (b_a1 y) && Nat.eqb (b_a2 x) (b_a2 y) && N.eqb (b_type x) (b_type y)
  && Qclose (1 # 1000000000) (b_forder x) (b_forder y).
Fixpoint list_eqb {A} (e : A -> A -> bool) (l m : list A) : bool :=
  match l, m with
  | [], [] => true
  | x :: l', y :: m' => e x y && list_eqb e l' m'
  | _, _ => false
  end.
Definition mol_eqb (x y : mol) : bool :=
  list_eqb atom_eqb (m_atoms x) (m_atoms y) && list_eqb bond_eqb (m_bonds x) (m_bonds y)
  && Z.eqb (m_charge x) (m_charge y) && Z.eqb (m_mult x) (m_mult y).
Definition res_eqb {A} (e : A -> A -> bool) (x y : res A) : bool :=
  match x, y with Ok a, Ok b => e a b | Raise, Raise => true | _, _ => false end.

(* one parsed fragment: the typed drawing and what CDXMLFile returned for it (Raise = SyntaxError) *)
Definition ccase := (xfrag * res mol)%type.
Definition check_const (c : ccase) : bool := res_eqb mol_eqb (expand (fst c)) (snd c).

(* ------------------------------------------------------------------ tie T: decision tables *)
(* a row of the node table: the attributes given to a probe node, and the atom the parser made of it *)
Definition node_row := (xnode * res atom)%type.
Definition node_row_ok (r : node_row) : bool := res_eqb atom_eqb (parse_atom_node (fst r)) (snd r).
Definition bond_row := (xorder * display * res (N * Q))%type.          (* observed btype and Bond.order *)
Definition bond_row_ok (r : bond_row) : bool :=
  let '(o, d, obs) := r in
  res_eqb (fun x y => N.eqb (fst x) (fst y) && Qeq_bool (snd x) (snd y))
          (bind (parse_bond_type o d) (fun t => Ok (t, order_of_btype t))) obs.
Definition display_row := (display * (Z * Z * comparison) * (bool * bool * bool * Z))%type.
Definition cmp_eqb (x y : comparison) : bool :=
  match x, y with Eq, Eq | Lt, Lt | Gt, Gt => true | _, _ => false end.
Definition display_row_ok (r : display_row) : bool :=
  let '(d, (zb, ze, c), (mb, me, mc, s)) := r in
  let '(zb', ze', c') := ring_pattern (display_action d) in
  let '(mb', me', mc', s') := star_pattern (display_action d) in
  Z.eqb zb zb' && Z.eqb ze ze' && cmp_eqb c c' && Bool.eqb mb mb' && Bool.eqb me me' && Bool.eqb mc mc' && Z.eqb s s'.
Definition display_eqb (x y : display) : bool :=
  match x, y with
  | DAbsent, DAbsent | DSolid, DSolid | DDash, DDash | DHash, DHash | DWedgedHashBegin, DWedgedHashBegin
  | DWedgedHashEnd, DWedgedHashEnd | DBold, DBold | DWedgeBegin, DWedgeBegin | DWedgeEnd, DWedgeEnd
  | DWavy, DWavy | DHollowWedgeBegin, DHollowWedgeBegin | DHollowWedgeEnd, DHollowWedgeEnd
  | DWavyWedgeBegin, DWavyWedgeBegin | DWavyWedgeEnd, DWavyWedgeEnd | DDot, DDot | DDashDot, DDashDot
  | DOther, DOther => true
  | _, _ => false
  end.

(* mirror antisymmetry judged on an observed display table: the row of the mirrored Display is the row of the
   Display with every sign negated and nothing else changed *)
Definition row_of (tbl : list display_row) (d : display) : option display_row :=
  find (fun r => display_eqb (fst (fst r)) d) tbl.
Definition neg_row (r : display_row) : (Z * Z * comparison) * (bool * bool * bool * Z) :=
  let '(_, (zb, ze, c), (mb, me, mc, s)) := r in ((- zb, - ze, c), (mb, me, mc, - s))%Z.
Definition pat_eqb (x y : (Z * Z * comparison) * (bool * bool * bool * Z)) : bool :=
  let '((zb, ze, c), (mb, me, mc, s)) := x in
  let '((zb', ze', c'), (mb', me', mc', s')) := y in
  Z.eqb zb zb' && Z.eqb ze ze' && cmp_eqb c c' && Bool.eqb mb mb' && Bool.eqb me me' && Bool.eqb mc mc' && Z.eqb s s'.
Definition mirror_table_ok (tbl : list display_row) : bool :=
  forallb (fun d => match row_of tbl d, row_of tbl (mirror_display d) with
                    | Some r, Some r' => pat_eqb (neg_row r) (snd (fst r'), snd r')
                    | _, _ => false
                    end) all_displays.

(* the probe domain of the node table, in the order the harness enumerates it *)
Definition dom_types : list ntype := [NTAbsent; NTOther; NTExt; NTFragment; NTNickname; NTGeneric; NTUnspecified].
Definition dom_elem : list (option Z) := [None; Some 8; Some 119]%Z.
Definition dom_iso : list (option Z) := [None; Some 13]%Z.
Definition dom_charge : list (option Z) := [None; Some (-1)]%Z.
Definition dom_rad : list radical := [RadAbsent; RadDoublet; RadSinglet; RadOther].
Definition dom_numh : list (option Z) := [None; Some 0; Some 2]%Z.
Definition dom_anum : list (option string) := [None; Some "7"].
Definition dom_ext : list (option string) := [None; Some "3"].
Definition dom_extra : list (option string * option string) := [(None, None); (Some "R", Some "Ar")].
Definition node_domain : list xnode :=
  flat_map (fun t => flat_map (fun e => flat_map (fun i => flat_map (fun q => flat_map (fun r => flat_map (fun h =>
  flat_map (fun an => flat_map (fun ex => map (fun gx => mkNode "1" t e i q r h an ex (fst gx) (snd gx) [])
  dom_extra) dom_ext) dom_anum) dom_numh) dom_rad) dom_charge) dom_iso) dom_elem) dom_types.
Definition dom_order : list xorder :=
  [OAbsent; OInt 0; OInt 1; OInt 2; OInt 3; OInt 4; OInt 5; OInt 6; OInt 7; OInt 10; OInt 11; OInt 20; OInt 21; OInt 98;
   OInt 99; OInt 100; OInt 101; OInt (-1); OOneHalf; OBad; OBad; OBad]%Z.
Definition bond_domain : list (xorder * display) := flat_map (fun o => map (fun d => (o, d)) all_displays) dom_order.

(* ------------------------------------------------------------------ _cdxml_3dify_ : geometry *)
Section Geometry.
Context {F : Type} (o : Fops F).
Local Notation "x + y" := (fadd o x y).
Local Notation "x - y" := (fsub o x y).
Local Notation "x * y" := (fmul o x y).
Local Notation "x / y" := (fdiv o x y).
Local Notation "0" := (f0 o).
Local Notation "1" := (f1 o).
Local Notation vec := (vec F).
Local Notation mat := (mat F).

Definition ez : vec := (0, 0, 1).
(* reflection through the drawing plane z = 0, and its matrix *)
Definition mirror (p : vec) : vec := let '(x, y, z) := p in (x, y, fopp o z).
Definition Mz : mat := ((1, 0, 0), (0, 1, 0), (0, 0, fopp o 1)).

(* rotate_2dvec_outa_plane(vec, angle, normal) = R @ rotation_matrix_from_axis(cross([0,0,1], vec), angle) @ inv(R),
   R = rotation_matrix_from_vectors(normal, [0,0,1])  (tol 1e-8).  (s, c) = (sin angle, cos angle);
   nn = |normal|, nax = |cross(ez, vec)|; ov = the unit vector orthogonal to ez used when normal ~ -ez.
   inv(R) is modelled by the transpose (R is orthogonal: C11_rotation_matrix_from_vectors). *)
Definition outa_tol : F := fofZ o 1 / fofZ o 100000000.
Definition outa_R (normal : vec) (nn : F) (ov : vec) : mat := rot_from_vectors o outa_tol normal nn ez 1 ov.
Definition outa_plane (v : vec) (nax s c : F) (normal : vec) (nn : F) (ov : vec) : mat :=
  let R := outa_R normal nn ov in
  mmul o (mmul o R (rot_from_axis o (cross o ez v) nax s c)) (mtrans R).

(* one stereo bond.
   SAcyc: the non-ring branch of |sign| = 1:  substructure(yield_bfs(a1, a2)) is rotated about a1 by `rotation`;
          sel = the atoms yield_bfs(a1, a2) gives (graph search: C15), (s, c) = sin/cos of sign * (90 or 60 degrees).
   SShift: every other branch is a sequence of translations of atom selections by constant vectors
          (ring branch: (0, 0.5, sign * 0.75 | 1.5);  Bold / Hash: (sign / 2) * (0, 0, 1)). *)
Inductive step :=
| SAcyc (sel : list nat) (i1 i2 : nat) (s c : F) (normal : vec) (nn : F) (ov : vec) (nax : F)
| SShift (moves : list (list nat * vec)).

Definition step_acyclic (X : list vec) (sel : list nat) (i1 i2 : nat) (s c : F) (normal : vec) (nn : F) (ov : vec) (nax : F)
  : list vec :=
  let p k := nth k X (vzero o) in
  let v := p i1 in
  let rotation := outa_plane (vsub o (p i2) (p i1)) nax s c normal nn ov in
  sub_translate o (in_idx sel) v (sub_transform o (in_idx sel) rotation (sub_translate o (in_idx sel) (vopp o v) X)).
Definition step_shift (X : list vec) (moves : list (list nat * vec)) : list vec :=
  fold_left (fun Y m => sub_translate o (in_idx (fst m)) (snd m) Y) moves X.
Definition run_step (X : list vec) (st : step) : list vec :=
  match st with
  | SAcyc sel i1 i2 s c normal nn ov nax => step_acyclic X sel i1 i2 s c normal nn ov nax
  | SShift moves => step_shift X moves
  end.
Definition run_steps (X : list vec) (sts : list step) : list vec := fold_left run_step sts X.

(* the same stereo bond in the mirrored drawing: sign -> -sign.
   SAcyc: sin changes sign; the plane normal / hidden orthogonal vector may come out differently (n', ov').
   SShift as the code computes it: the whole displacement is multiplied by -1 (`shift_neg`);
   what a mirror image needs: only its z component changes sign (`shift_mirror`). *)
Definition shift_neg (moves : list (list nat * vec)) := map (fun m => (fst m, vopp o (snd m))) moves.
Definition shift_mirror (moves : list (list nat * vec)) := map (fun m => (fst m, mirror (snd m))) moves.
Definition vertical (d : vec) : Prop := let '(x, y, _) := d in x = 0 /\ y = 0.

(* the moves of the code's translation branches *)
Definition ring_moves (sgn : F) (a1 a2 : nat) (side1 side2 : list (list nat)) : list (list nat * vec) :=
  let d1 : vec := (0, 1 / fofZ o 2, sgn * (fofZ o 3 / fofZ o 4)) in
  let d2 : vec := (0, 1 / fofZ o 2, sgn * (fofZ o 3 / fofZ o 2)) in
  ([a1], d1) :: ([a2], d2) :: map (fun l => (l, d1)) side1 ++ map (fun l => (l, d2)) side2.
(* before the repair (fix: commit in /repo) the whole displacement, its in-plane y part included, was multiplied
   by the sign: kept to state what was wrong (Props/C13.v, C13_ring_branch_refuted_before_repair) *)
Definition ring_moves_before_repair (sgn : F) (a1 a2 : nat) (side1 side2 : list (list nat)) : list (list nat * vec) :=
  let d1 := vscale o sgn (0, 1 / fofZ o 2, fofZ o 3 / fofZ o 4) in
  let d2 := vscale o sgn (0, 1 / fofZ o 2, fofZ o 3 / fofZ o 2) in
  ([a1], d1) :: ([a2], d2) :: map (fun l => (l, d1)) side1 ++ map (fun l => (l, d2)) side2.
Definition flat_moves (sgn2 : F) (a1 a2 : nat) (side1 side2 : list (list nat)) : list (list nat * vec) :=
  let d := vscale o (sgn2 / fofZ o 2) ez in
  ([a1; a2], d) :: map (fun l => (l, d)) (side1 ++ side2).

(* one stereo bond as the parser decides it: the branch taken (a function of the CONSTITUTION and of which end is
   a1: unchanged when the drawing is mirrored) and the sign (+1 wedge / bold, -1 hash).
   KAcyc carries (s, c) = (sin, cos) of +90 or +60 degrees; the code uses angle = sign * that. *)
Inductive ckind :=
| KAcyc (sel : list nat) (i1 i2 : nat) (s c : F) (normal : vec) (nn : F) (ov : vec) (nax : F)
| KRing (a1 a2 : nat) (side1 side2 : list (list nat))
| KFlat (a1 a2 : nat) (side1 side2 : list (list nat)).
Definition code_step (sgn : F) (k : ckind) : step :=
  match k with
  | KAcyc sel i1 i2 s c normal nn ov nax => SAcyc sel i1 i2 (sgn * s) c normal nn ov nax
  | KRing a1 a2 s1 s2 => SShift (ring_moves sgn a1 a2 s1 s2)
  | KFlat a1 a2 s1 s2 => SShift (flat_moves (sgn * fofZ o 2) a1 a2 s1 s2)
  end.
Definition plan := list (F * ckind).
Definition run_plan (X : list vec) (p : plan) : list vec := run_steps X (map (fun q => code_step (fst q) (snd q)) p).
(* the same drawing with every wedge <-> hash swapped: display_action negates the sign, nothing else *)
Definition mirror_plan (p : plan) : plan := map (fun q => (fopp o (fst q), snd q)) p.
End Geometry.
Arguments SAcyc {F}. Arguments SShift {F}.
Arguments KAcyc {F}. Arguments KRing {F}. Arguments KFlat {F}.
Arguments step F : clear implicits. Arguments ckind F : clear implicits. Arguments plan F : clear implicits.

(* ------------------------------------------------------------------ label -> fragment, and the cache *)
(* a fragment / a label on the page: its position() *)
Definition qpos := (Q * Q)%type.
Definition l1 (a b : qpos) : Q := Qabs (fst a - fst b) + Qabs (snd a - snd b).
(* insertion of (distance, index) keeping the list sorted by distance; ties keep the earlier index first *)
Fixpoint ins (x : Q * nat) (l : list (Q * nat)) : list (Q * nat) :=
  match l with
  | [] => [x]
  | y :: r => if Qle_bool (fst y) (fst x) then y :: ins x r else x :: l
  end.
Fixpoint index_from {A} (i : nat) (l : list A) : list (nat * A) :=
  match l with [] => [] | x :: r => (i, x) :: index_from (S i) r end.
Definition nearest5 (frags : list qpos) (p : qpos) : list nat :=
  map snd (firstn 5 (fold_left (fun acc x => ins (l1 (snd x) p, fst x) acc) (index_from 0 frags) [])).
(* a label: its text and position().  (The `find("../fragment")` test of __getitem__ never succeeds: ElementTree
   cannot step from an element to its parent, so the group-sibling branch is dead code and every label goes
   through the KD-tree query.  The harness only generates labels for which both rules agree.) *)
Record xlabel := mkLabel { l_key : string; l_pos : qpos }.
Definition above (frags : list qpos) (lp : qpos) (i : nat) : bool :=
  match nth_error frags i with
  | Some fp => negb (Qle_bool (snd lp) (snd fp))           (* fpos[1] < lpos[1] *)
  | None => false
  end.
(* what __getitem__ computes when the key is not cached *)
Definition resolve (frags : list qpos) (labels : list xlabel) (key : string) : option nat :=
  match find (fun l => String.eqb (l_key l) key) labels with
  | None => None
  | Some l => find (above frags (l_pos l)) (nearest5 frags (l_pos l))
  end.
(* __getitem__ with the cache: (fragment chosen, cache afterwards); None = KeyError, cache untouched *)
Definition cache := list (string * nat).
Fixpoint cache_get (k : string) (c : cache) : option nat :=
  match c with [] => None | (k', v) :: r => if String.eqb k k' then Some v else cache_get k r end.
Definition getitem (f : string -> option nat) (c : cache) (key : string) : option nat * cache :=
  match cache_get key c with
  | Some i => (Some i, c)
  | None => match f key with Some i => (Some i, (key, i) :: c) | None => (None, c) end
  end.
(* a history of accesses: the answers given *)
Fixpoint run_gets (f : string -> option nat) (c : cache) (keys : list string) : list (option nat) :=
  match keys with
  | [] => []
  | k :: r => let '(a, c') := getitem f c k in a :: run_gets f c' r
  end.

(* correspondence: label resolution.  ties = the caller saw two candidate fragments at the same distance
   (scipy's order is then unspecified): such labels are not generated. *)
Definition rcase := (list qpos * list xlabel * list (string * option nat))%type.
Definition check_resolve (c : rcase) : bool :=
  let '(frags, labels, obs) := c in
  forallb (fun ko => opt_eqb Nat.eqb (resolve frags labels (fst ko)) (snd ko)) obs.

(* ------------------------------------------------------------------ sessions on CDXMLFile objects *)
(* What a caller can do with CDXMLFile objects of one file: look a label up on object o (through any accessor: f[label],
   f[int], iteration, load(key=...) on a fresh object), parse the i-th drawing directly (load / load_all), EDIT IN PLACE a
   molecule it was handed earlier (h = its allocation number; `after` = what the molecule looks like afterwards), or look
   at such a molecule.  The state of the model: the label -> fragment cache of every object (the ONLY thing __getitem__
   keeps) and the heap of molecules handed out.  Every lookup allocates a NEW molecule, parsed from the drawing. *)
Inductive sev :=
| EGet (o : nat) (key : string) (obs : res mol)
| EParse (i : nat) (obs : res mol)
| EEdit (h : nat) (after : mol)
| ELook (h : nat) (obs : mol).
Record sstate := mkS { s_caches : nat -> cache; s_heap : list mol }.
Fixpoint set_nth {A} (n : nat) (x : A) (l : list A) : list A :=
  match l, n with
  | [], _ => []
  | _ :: r, O => x :: r
  | y :: r, S n' => y :: set_nth n' x r
  end.
Definition alloc (r : res mol) (hp : list mol) : list mol := match r with Ok m => hp ++ [m] | Raise => hp end.
Definition parse_at (frags : list xfrag) (i : option nat) : res mol :=
  match i with
  | Some i => match nth_error frags i with Some fr => expand fr | None => Raise end
  | None => Raise
  end.
(* the molecule a lookup event hands out (None: the event is not a lookup) and the state afterwards *)
Definition sev_answer (f : string -> option nat) (parse : option nat -> res mol) (st : sstate) (e : sev) : option (res mol) :=
  match e with
  | EGet o k _ => Some (parse (fst (getitem f (s_caches st o) k)))
  | EParse i _ => Some (parse (Some i))
  | _ => None
  end.
Definition sev_next (f : string -> option nat) (parse : option nat -> res mol) (st : sstate) (e : sev) : sstate :=
  match e with
  | EGet o k _ => let '(a, c') := getitem f (s_caches st o) k in
                  mkS (fun o' => if Nat.eqb o' o then c' else s_caches st o') (alloc (parse a) (s_heap st))
  | EParse i _ => mkS (s_caches st) (alloc (parse (Some i)) (s_heap st))
  | EEdit h m => mkS (s_caches st) (set_nth h m (s_heap st))
  | ELook _ _ => st
  end.
(* does the observation recorded in the event agree with the model *)
Definition sev_ok (f : string -> option nat) (parse : option nat -> res mol) (st : sstate) (e : sev) : bool :=
  match e with
  | EGet _ _ obs | EParse _ obs => match sev_answer f parse st e with Some a => res_eqb mol_eqb a obs | None => false end
  | EEdit h _ => match nth_error (s_heap st) h with Some _ => true | None => false end
  | ELook h obs => match nth_error (s_heap st) h with Some m => mol_eqb m obs | None => false end
  end.
Fixpoint run_session (f : string -> option nat) (parse : option nat -> res mol) (st : sstate) (evs : list sev) : bool :=
  match evs with
  | [] => true
  | e :: r => sev_ok f parse st e && run_session f parse (sev_next f parse st e) r
  end.
Fixpoint session_answers (f : string -> option nat) (parse : option nat -> res mol) (st : sstate) (evs : list sev) : list (res mol) :=
  match evs with
  | [] => []
  | e :: r => match sev_answer f parse st e with
              | Some a => a :: session_answers f parse (sev_next f parse st e) r
              | None => session_answers f parse (sev_next f parse st e) r
              end
  end.
Definition session_end (f : string -> option nat) (parse : option nat -> res mol) (st : sstate) (evs : list sev) : sstate :=
  fold_left (sev_next f parse) evs st.
Definition s_init : sstate := mkS (fun _ => []) [].
(* correspondence: the typed drawings of the file, label -> drawing, the events observed on the running reader *)
Definition scase := (list xfrag * list (string * nat) * list sev)%type.
Definition check_session (c : scase) : bool :=
  let '(frags, keymap, evs) := c in
  run_session (fun k => cache_get k keymap) (parse_at frags) s_init evs.

(* ------------------------------------------------------------------ correspondence: geometry (Q instance) *)
Local Open Scope Q_scope.
(* planar start coordinates, the stereo steps in the order the parser takes them, the coordinates observed.
   The harness supplies only what the graph decides (sel = yield_bfs(a1, a2), nb = neighbours of a1, the sides of
   the translation branches) and sin / cos of the angle; vectors and norms are computed here.  `normal` is NOT
   supplied: the model takes +ez when the neighbours of a1 lie in one plane z = const, and gives up otherwise
   (`g_covered` = false: accumulated out-of-plane displacements, outside the model).
   Intermediate coordinates are rounded to 2^-80 after every step (the floats themselves round to 2^-53);
   |cross(ez, v)| is the rational 2^70 / m with m = floor (2^70 / sqrt (vx^2 + vy^2)). *)
Inductive gstep :=
| GAcyc (sel nb : list nat) (i1 i2 : nat) (s c : Q)
| GRing (sgn : Q) (a1 a2 : nat) (side1 side2 : list (list nat))
| GFlat (sgn2 : Q) (a1 a2 : nat) (side1 side2 : list (list nat)).
Definition zof (p : vec Q) : Q := let '(_, _, z) := p in z.
Definition same_z (X : list (vec Q)) (nb : list nat) : bool :=
  match nb with
  | [] => true
  | k :: r => forallb (fun j => Qeq_bool (zof (nth j X (vzero QOps))) (zof (nth k X (vzero QOps)))) r
  end.
Definition two70 : Z := 1180591620717411303424.
Definition qsqrt_w (x : Q) : option Q :=
  if Qle_bool x 0 then None
  else let m := Z.sqrt ((two70 * two70 * Zpos (Qden x)) / Qnum x) in
       if (m <=? 0)%Z then None else Some (two70 # Z.to_pos m).
Definition two80 : positive := 1208925819614629174706176.
Definition qround (x : Q) : Q := Qred (((Qnum x * Zpos two80) / Zpos (Qden x)) # two80).
Definition vround (p : vec Q) : vec Q := let '(x, y, z) := p in (qround x, qround y, qround z).
Definition g_run_step (X : option (list (vec Q))) (g : gstep) : option (list (vec Q)) :=
  match X with
  | None => None
  | Some X =>
      match g with
      | GAcyc sel nb i1 i2 s c =>
          let '(vx, vy, _) := vsub QOps (nth i2 X (vzero QOps)) (nth i1 X (vzero QOps)) in
          match qsqrt_w (vx * vx + vy * vy) with
          | Some nax =>
              if same_z X nb
              then Some (map vround (step_acyclic QOps X sel i1 i2 s c (ez QOps) 1 (1, 0, 0) nax))
              else None
          | None => None
          end
      | GRing sgn a1 a2 s1 s2 => Some (step_shift QOps X (ring_moves QOps sgn a1 a2 s1 s2))
      | GFlat sgn2 a1 a2 s1 s2 => Some (step_shift QOps X (flat_moves QOps sgn2 a1 a2 s1 s2))
      end
  end.
Definition g_run (X : list (vec Q)) (gs : list gstep) : option (list (vec Q)) := fold_left g_run_step gs (Some X).
Definition g_angles_ok (gs : list gstep) : bool :=
  forallb (fun g => match g with
                    | GAcyc _ _ _ _ s c => Qclose (1 # 1000000000000) (s * s + c * c) 1
                    | _ => true
                    end) gs.
Inductive gcase := GCase (X : list (vec Q)) (gs : list gstep) (Y : list (vec Q)).
Definition geom_eps : Q := 1 # 10000000.                          (* 1e-7 *)
(* covered: the model applies to every step; check: then it reproduces the parser's coordinates *)
Definition g_covered (k : gcase) : bool :=
  match k with GCase X gs _ => match g_run X gs with Some _ => true | None => false end end.
(* compared up to a common translation (where the parser puts the origin is not the property's business) *)
Definition recenter (X : list (vec Q)) : list (vec Q) :=
  let c := centroid QOps X in map (fun p => vround (vsub QOps p c)) X.
Definition check_geom (k : gcase) : bool :=
  match k with
  | GCase X gs Y =>
      g_angles_ok gs &&
      match g_run X gs with
      | Some Y' => rows_closeQ geom_eps (recenter Y') (recenter Y)
      | None => true
      end
  end.
