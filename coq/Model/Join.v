(* C12: executable model of Structure.join and of the iterated join of `molli combine`.
   NO proofs in this file.  Anchors (the tree the model was written against):
     molli/chem/structure.py   Structure.join   (atoms / bonds / charge / mult / coordinates)
     molli/chem/bond.py        Connectivity.n_bonds_with_atom, connected_atoms, Bond.__contains__, Bond.__mod__,
                               Bond.expected_length
     molli/chem/atom.py        Promolecule.__init__ (`self.mult = mult or 1`), get_atom, attachment_points
     molli/math/rotation.py    rotation_matrix_from_vectors / rotation_matrix_from_axis   (Model/Rot.v, C11)
     molli/math/distance.py    _optimize_rotation: the result is c2 @ rotation_matrix_from_axis(v1, best angle)
     molli/scripts/combine.py  _ml_assemble: join(deriv, sub, ap_i - i, sub.attachment_points[0], optimize_rotation=True)

   Identity.  Every source atom carries a name `a_id` (a positive).  The product's atoms are NEW objects
   (copy_atoms=True, Bond.evolve); the product atom that is the copy of source atom u is again called u, so
   "the copy of u" is a lookup by name.  Names are unique over A and B (two distinct molecules): the theorems
   carry that as the hypothesis NoDup (ids A ++ ids B).  Everything else an atom / a bond carries (element,
   isotope, label, atom type, stereo, geometry, formal charge / spin, attrib; bond label, type, stereo, order,
   attrib) is the opaque payload `a_data` / `b_data`.

   Geometry is written against Common/Field3.v (R for the theorems, Q for execution).  Square roots enter as
   arguments (n1 = |v1|, n2 = |v2|), as in Model/Rot.v.  The two things the implementation decides that are
   not functions of join's arguments in the property's sense are explicit arguments of the model:
     ov     the unit vector orthogonal to v1 used by rotation_matrix_from_vectors when v2 and -v1 are opposite
            (np.random before the repair; `det_ort` below, the repaired deterministic choice);
     twist  the rotation about the new bond chosen by the rotamer scan (optimize_rotation), as (sin, cos). *)
From Coq Require Import List ZArith QArith Qabs Bool PArith.
From Molli Require Import Common.Field3 Model.Rot.
Import ListNotations.

(* ------------------------------------------------------------------ structure *)
Record atom := mkAtom { a_id : positive; a_ap : bool (* atype == AttachmentPoint *); a_data : list Z }.
Record bond := mkBond { b_a1 : positive; b_a2 : positive; b_data : list Z }.
Record frag (F : Type) := mkFrag {
  fr_atoms : list atom; fr_bonds : list bond; fr_coords : list (vec F); fr_charge : Z; fr_mult : Z }.
Arguments mkFrag {F}. Arguments fr_atoms {F}. Arguments fr_bonds {F}. Arguments fr_coords {F}.
Arguments fr_charge {F}. Arguments fr_mult {F}.

Definition ids (l : list atom) : list positive := map a_id l.
Definition pmem (x : positive) (l : list positive) : bool := existsb (Pos.eqb x) l.

(* AtomLike as join receives it: an Atom object or an integer index *)
Inductive asel := ById (x : positive) | ByIdx (i : Z).

(* Promolecule.get_atom: Atom -> must belong to the molecule; int -> self._atoms[i] (negative indices wrap once) *)
Definition get_atom (l : list atom) (s : asel) : option positive :=
  match s with
  | ById x => if pmem x (ids l) then Some x else None
  | ByIdx i =>
      let n := Z.of_nat (length l) in
      let k := if (0 <=? i)%Z then (if (i <? n)%Z then Some (Z.to_nat i) else None)
               else if (- n <=? i)%Z then Some (Z.to_nat (n + i)) else None in
      match k with Some k => option_map a_id (nth_error l k) | None => None end
  end.

Fixpoint find_pos (x : positive) (l : list atom) : option nat :=           (* list.index *)
  match l with
  | [] => None
  | a :: r => if Pos.eqb (a_id a) x then Some 0%nat else option_map S (find_pos x r)
  end.

Definition incident (x : positive) (b : bond) : bool := (Pos.eqb (b_a1 b) x || Pos.eqb (b_a2 b) x)%bool.   (* x in b *)
Definition other_end (x : positive) (b : bond) : positive := if Pos.eqb (b_a1 b) x then b_a2 b else b_a1 b.  (* b % x *)
Definition n_bonds_with (bs : list bond) (x : positive) : nat := length (filter (incident x) bs).
(* next(connected_atoms(x)) *)
Definition first_neighbour (bs : list bond) (x : positive) : option positive :=
  match filter (incident x) bs with b :: _ => Some (other_end x b) | [] => None end.

(* [a for a in chain(A.atoms, B.atoms) if a not in {a1, a2}] *)
Definition keep_atom (a1 a2 : positive) (a : atom) : bool := (negb (Pos.eqb (a_id a) a1) && negb (Pos.eqb (a_id a) a2))%bool.
(* if a1 not in b and a2 not in b *)
Definition keep_bond (a1 a2 : positive) (b : bond) : bool := (negb (incident a1 b) && negb (incident a2 b))%bool.
Definition same_ends (x y : positive) (b : bond) : bool :=
  ((Pos.eqb (b_a1 b) x && Pos.eqb (b_a2 b) y) || (Pos.eqb (b_a1 b) y && Pos.eqb (b_a2 b) x))%bool.

(* coords[mask] with a boolean mask *)
Fixpoint mask_rows {A} (m : list bool) (X : list A) : list A :=
  match m, X with
  | b :: m', x :: X' => if b then x :: mask_rows m' X' else mask_rows m' X'
  | _, _ => []
  end.
(* ~np.array([a == ap for a in struct.atoms]) *)
Definition loc (ap : positive) (l : list atom) : list bool := map (fun a => negb (Pos.eqb (a_id a) ap)) l.

(* charge / multiplicity.  As repaired (finding 24):  `x if x is not None else default`;
   Promolecule.__init__ then stores `charge or 0` and `mult or 1`. *)
Definition override (x : option Z) (dflt : Z) : Z := match x with Some v => v | None => dflt end.
Definition or_int (z dflt : Z) : Z := if Z.eqb z 0 then dflt else z.              (* z or dflt *)
Definition join_charge (q : option Z) (qA qB : Z) : Z := or_int (override q (qA + qB)) 0.
Definition join_mult (m : option Z) (mA mB : Z) : Z := or_int (override m (mA + mB - 1)) 1.
(* the expression before the repair:  `x or default`  (an override of 0 is dropped) *)
Definition override_or (x : option Z) (dflt : Z) : Z :=
  match x with Some v => or_int v dflt | None => dflt end.

(* what join is told besides the two structures and the two atoms *)
Record jopts (F : Type) := mkOpts {
  o_dist : option F;                 (* dist= *)
  o_charge : option Z;               (* charge= *)
  o_mult : option Z;                 (* mult= *)
  o_nb : list Z;                     (* payload of the new bond: btype, bstereo, bforder (label None, attrib {}) *)
  o_rcov1 : option F;                (* cov_radius_1 of the element of A's former neighbour (None: no table entry) *)
  o_rcov2 : option F;                (* ... of B's former neighbour *)
  o_rcovC : F                        (* Element.C.cov_radius_1 *)
}.
Arguments mkOpts {F}. Arguments o_dist {F}. Arguments o_charge {F}. Arguments o_mult {F}. Arguments o_nb {F}.
Arguments o_rcov1 {F}. Arguments o_rcov2 {F}. Arguments o_rcovC {F}.
(* hidden / derived quantities (see the header) *)
Record jwit (F : Type) := mkWit { w_n1 : F; w_n2 : F; w_ov : vec F; w_twist : option (F * F) }.
Arguments mkWit {F}. Arguments w_n1 {F}. Arguments w_n2 {F}. Arguments w_ov {F}. Arguments w_twist {F}.

Section Geometry.
Context {F : Type} (o : Fops F).
Local Notation "x + y" := (fadd o x y).
Local Notation "x - y" := (fsub o x y).
Local Notation "x * y" := (fmul o x y).
Local Notation "x / y" := (fdiv o x y).
Local Notation "0" := (f0 o).
Local Notation "1" := (f1 o).
Local Notation vec := (vec F).

(* Python truthiness of a number: 0.0 is falsy *)
Definition fzero_b (x : F) : bool := (fleb o x 0 && fleb o 0 x)%bool.
Definition f_or (x : option F) (y : F) : F := match x with Some v => if fzero_b v then y else v | None => y end.
(* Bond.expected_length: (r1 or C.cov_radius_1) + (r2 or C.cov_radius_1) *)
Definition expected_length (r1 r2 : option F) (rC : F) : F := f_or r1 rC + f_or r2 rC.
(* dist or nb.expected_length or 1.5 *)
Definition bond_len (op : jopts F) : F :=
  f_or (o_dist op) (f_or (Some (expected_length (o_rcov1 op) (o_rcov2 op) (o_rcovC op))) (fofZ o 3 / fofZ o 2)).

Definition join_tol : F := fofZ o 1 / fofZ o 1000000.          (* tol=1e-6 *)

(* where an atom of B lands:  (x - r2) @ R(v2 -> -v1) + v1 * d / |v1| , then the rotamer rotation about v1 *)
Definition join_rot (v1 : vec) (n1 : F) (v2 : vec) (n2 : F) (ov : vec) : mat F :=
  rot_from_vectors o join_tol v2 n2 (vopp o v1) n1 ov.
Definition join_shift (v1 : vec) (n1 d : F) : vec := vdiv o (vscale o d v1) n1.
Definition join_twist (v1 : vec) (n1 : F) (twist : option (F * F)) : option (mat F) :=
  match twist with None => None | Some (s, c) => Some (rot_from_axis o v1 n1 s c) end.
(* R = join_rot ..., t = join_shift ..., T = join_twist ... (computed once per call, applied to every row) *)
Definition place_B (R : mat F) (t : vec) (T : option (mat F)) (r2 x : vec) : vec :=
  let y := vadd o (vm o (vsub o x r2) R) t in
  match T with
  | None => y
  | Some M => vm o y M
  end.
Definition place_A (r1 x : vec) : vec := vsub o x r1.

(* the repaired choice of the orthogonal vector: Gram-Schmidt residue of the coordinate axis least aligned with b
   (np.argmin(np.abs(b)): the first index of the smallest |component|) *)
Definition fabs (x : F) : F := if fleb o 0 x then x else fopp o x.
Definition least_axis (b : vec) : vec :=
  let '(x, y, z) := b in
  if fleb o (fabs x) (fabs y)
  then (if fleb o (fabs x) (fabs z) then (1, 0, 0) else (0, 0, 1))
  else (if fleb o (fabs y) (fabs z) then (0, 1, 0) else (0, 0, 1)).
Definition det_ort (b : vec) : vec := let e := least_axis b in vsub o e (vscale o (dot o e b) b).
(* b = -v1/|v1| ; nort = |det_ort b| *)
Definition det_ov (v1 : vec) (n1 nort : F) : vec := vdiv o (det_ort (vdiv o (vopp o v1) n1)) nort.

Definition coord_of (f : frag F) (x : positive) : option vec :=
  match find_pos x (fr_atoms f) with Some i => nth_error (fr_coords f) i | None => None end.

(* Structure.join(A, B, _a1, _a2, dist=, optimize_rotation=, charge=, mult=, btype=, bstereo=, bforder=).
   None = the call raises (AssertionError for an atom that does not have exactly one bond, ValueError / KeyError /
   IndexError for structures that are not well formed). *)
Definition join (A B : frag F) (s1 s2 : asel) (op : jopts F) (w : jwit F) : option (frag F) :=
  match get_atom (fr_atoms A) s1, get_atom (fr_atoms B) s2 with
  | Some a1, Some a2 =>
    if (Nat.eqb (n_bonds_with (fr_bonds A) a1) 1 && Nat.eqb (n_bonds_with (fr_bonds B) a2) 1)%bool then
      match first_neighbour (fr_bonds A) a1, first_neighbour (fr_bonds B) a2 with
      | Some a1r, Some a2r =>
        let atoms := filter (keep_atom a1 a2) (fr_atoms A ++ fr_atoms B) in
        let kept := filter (keep_bond a1 a2) (fr_bonds A ++ fr_bonds B) in
        if (forallb (fun b => pmem (b_a1 b) (ids atoms) && pmem (b_a2 b) (ids atoms)) kept    (* atom_map[b.a1] *)
            && pmem a1r (ids atoms) && pmem a2r (ids atoms)                                   (* atoms.index(a1r) *)
            && Nat.eqb (length (fr_coords A)) (length (fr_atoms A))                           (* coords[loc1] *)
            && Nat.eqb (length (fr_coords B)) (length (fr_atoms B)))%bool
        then
          match coord_of A a1r, coord_of A a1, coord_of B a2r, coord_of B a2 with
          | Some r1, Some p1, Some r2, Some p2 =>
            let v1 := vsub o p1 r1 in
            let v2 := vsub o p2 r2 in
            let d := bond_len op in
            let c1 := map (place_A r1) (mask_rows (loc a1 (fr_atoms A)) (fr_coords A)) in
            let R := join_rot v1 (w_n1 w) v2 (w_n2 w) (w_ov w) in
            let t := join_shift v1 (w_n1 w) d in
            let T := join_twist v1 (w_n1 w) (w_twist w) in
            let c2 := map (place_B R t T r2) (mask_rows (loc a2 (fr_atoms B)) (fr_coords B)) in
            Some (mkFrag atoms (kept ++ [mkBond a1r a2r (o_nb op)]) (c1 ++ c2)
                         (join_charge (o_charge op) (fr_charge A) (fr_charge B))
                         (join_mult (o_mult op) (fr_mult A) (fr_mult B)))
          | _, _, _, _ => None
          end
        else None
      | _, _ => None
      end
    else None
  | _, _ => None
  end.

(* molli combine, _ml_assemble (as repaired):
     deriv = Molecule(core)
     for i, (ap_i, sub) in enumerate(zip(core_aps, substituent_combo)):
         shift = sum(1 for ap_j in core_aps[:i] if ap_j < ap_i)
         deriv = Molecule.join(deriv, sub, ap_i - shift, sub.attachment_points[0], optimize_rotation=True)
   one step = (substituent, radii of the two former neighbours, hidden quantities of that join);
   `done` = core_aps[:i] *)
Definition first_ap (l : list atom) : option positive := option_map a_id (find a_ap l).
Definition cstep := (frag F * (option F * option F) * jwit F)%type.
Definition combine_opts (nb : list Z) (rC : F) (rc : option F * option F) : jopts F :=
  mkOpts None None None nb (fst rc) (snd rc) rC.
Definition shift_of (done : list Z) (ap : Z) : Z := Z.of_nat (length (filter (fun j => Z.ltb j ap) done)).
Fixpoint assemble (nb : list Z) (rC : F) (deriv : frag F) (done : list Z) (aps : list Z) (subs : list cstep) : option (frag F) :=
  match aps, subs with
  | [], [] => Some deriv
  | ap :: aps', (sub, rc, w) :: subs' =>
      match first_ap (fr_atoms sub) with
      | Some a2 =>
          match join deriv sub (ByIdx (ap - shift_of done ap)) (ById a2) (combine_opts nb rC rc) w with
          | Some d' => assemble nb rC d' (done ++ [ap]) aps' subs'
          | None => None
          end
      | None => None                                   (* attachment_points[0]: IndexError *)
      end
  | _, _ => None                                       (* assert len(core_aps) == len(substituent_combo) *)
  end.
(* the loop before the repair: index ap_i - i (right only when core_aps is ascending) *)
Fixpoint assemble_minus_i (nb : list Z) (rC : F) (deriv : frag F) (i : nat) (aps : list Z) (subs : list cstep) : option (frag F) :=
  match aps, subs with
  | [], [] => Some deriv
  | ap :: aps', (sub, rc, w) :: subs' =>
      match first_ap (fr_atoms sub) with
      | Some a2 =>
          match join deriv sub (ByIdx (ap - Z.of_nat i)) (ById a2) (combine_opts nb rC rc) w with
          | Some d' => assemble_minus_i nb rC d' (S i) aps' subs'
          | None => None
          end
      | None => None
      end
  | _, _ => None
  end.
(* the same, addressing each attachment point of the core by NAME: what the index arithmetic is meant to do *)
Fixpoint assemble_named (nb : list Z) (rC : F) (deriv : frag F) (aps : list positive) (subs : list cstep) : option (frag F) :=
  match aps, subs with
  | [], [] => Some deriv
  | a1 :: aps', (sub, rc, w) :: subs' =>
      match first_ap (fr_atoms sub) with
      | Some a2 =>
          match join deriv sub (ById a1) (ById a2) (combine_opts nb rC rc) w with
          | Some d' => assemble_named nb rC d' aps' subs'
          | None => None
          end
      | None => None
      end
  | _, _ => None
  end.
End Geometry.

(* ======================= correspondence cases (Q instance) ======================= *)
Local Open Scope Q_scope.
Notation vecQ := (vec Q).

(* what the harness reads off the product: atoms with their row, bonds, charge, multiplicity *)
Record obs := mkObs { ob_atoms : list (atom * vecQ); ob_bonds : list bond; ob_charge : Z; ob_mult : Z }.

Fixpoint zlist_eqb (l m : list Z) : bool :=
  match l, m with
  | [], [] => true
  | x :: l', y :: m' => (Z.eqb x y && zlist_eqb l' m')%bool
  | _, _ => false
  end.
Fixpoint pnodup_b (l : list positive) : bool :=
  match l with [] => true | x :: r => (negb (pmem x r) && pnodup_b r)%bool end.

(* comparison at the granularity of the property: atoms as a set keyed by name (payload equal, row within eps),
   bonds as a multiset of unordered pairs with payload, charge and multiplicity exactly *)
Definition atom_ok (eps : Q) (oa : list (atom * vecQ)) (p : atom * vecQ) : bool :=
  match find (fun q => Pos.eqb (a_id (fst q)) (a_id (fst p))) oa with
  | Some (a', x') => (Bool.eqb (a_ap (fst p)) (a_ap a') && zlist_eqb (a_data (fst p)) (a_data a') && vcloseQ eps (snd p) x')%bool
  | None => false
  end.
Definition bond_like (b b' : bond) : bool := (same_ends (b_a1 b) (b_a2 b) b' && zlist_eqb (b_data b) (b_data b'))%bool.
Definition bond_ok (mb ob : list bond) (b : bond) : bool :=
  Nat.eqb (length (filter (bond_like b) mb)) (length (filter (bond_like b) ob)).
Definition frag_matches (eps : Q) (P : frag Q) (ob : obs) : bool :=
  (Nat.eqb (length (fr_coords P)) (length (fr_atoms P))
   && pnodup_b (ids (fr_atoms P))
   && Nat.eqb (length (ob_atoms ob)) (length (fr_atoms P))
   && forallb (atom_ok eps (ob_atoms ob)) (combine (fr_atoms P) (fr_coords P))
   && Nat.eqb (length (ob_bonds ob)) (length (fr_bonds P))
   && forallb (bond_ok (fr_bonds P) (ob_bonds ob)) (fr_bonds P)
   && Z.eqb (fr_charge P) (ob_charge ob) && Z.eqb (fr_mult P) (ob_mult ob))%bool.
Definition result_matches (eps : Q) (r : option (frag Q)) (ob : option obs) : bool :=
  match r, ob with
  | Some P, Some ob => frag_matches eps P ob
  | None, None => true                     (* the call raised, the model rejects *)
  | _, _ => false
  end.

Definition eps_join : Q := 1 # 100000000.                       (* 1e-8, absolute, on coordinates of size <= ~40 *)

(* the hidden quantities of one join, as the harness supplies them: n1, n2, |det_ort|, and the angle about the
   new bond (sin, cos) by which the observed placement of B differs from the placement with ov = det_ov and no
   rotamer rotation.  The angle is admitted only where the implementation is free: optimize_rotation requested, or
   the antiparallel branch (any valid ov is allowed; two valid choices differ by a rotation about the bond). *)
Record qwit := mkQwit { q_n1 : Q; q_n2 : Q; q_nort : Q; q_sc : option (Q * Q) }.

Definition attach_vectors (A B : frag Q) (s1 s2 : asel) : option (vecQ * vecQ) :=
  match get_atom (fr_atoms A) s1, get_atom (fr_atoms B) s2 with
  | Some a1, Some a2 =>
      match first_neighbour (fr_bonds A) a1, first_neighbour (fr_bonds B) a2 with
      | Some a1r, Some a2r =>
          match coord_of A a1r, coord_of A a1, coord_of B a2r, coord_of B a2 with
          | Some r1, Some p1, Some r2, Some p2 => Some (vsub QOps p1 r1, vsub QOps p2 r2)
          | _, _, _, _ => None
          end
      | _, _ => None
      end
  | _, _ => None
  end.

(* witnesses are acceptable: square roots checked; the free angle is a point of the unit circle (to 1e-12) and is
   present only if the scan was requested or the rotation is in its antiparallel branch *)
Definition wit_ok (scan : bool) (v1 v2 : vecQ) (q : qwit) : bool :=
  let b := vdiv QOps (vopp QOps v1) (q_n1 q) in
  let c := dot QOps (vdiv QOps v2 (q_n2 q)) b in
  let anti := Qle_bool c (-(1) + join_tol QOps) in
  (sqrt_witness_ok (q_n1 q) (norm2 QOps v1) && sqrt_witness_ok (q_n2 q) (norm2 QOps v2)
   && sqrt_witness_ok (q_nort q) (norm2 QOps (det_ort QOps b))
   && match q_sc q with
      | None => true
      | Some (s, c') => (scan || anti) && Qclose (1 # 1000000000000) (s * s + c' * c') 1
      end)%bool.
Definition to_wit (v1 : vecQ) (q : qwit) : jwit Q :=
  mkWit (q_n1 q) (q_n2 q) (det_ov QOps v1 (q_n1 q) (q_nort q)) (q_sc q).

Inductive jcase :=
(* one call join(A, B, s1, s2, ...) ; scan = optimize_rotation ; res = None when the call raised *)
| CJoin (A B : frag Q) (s1 s2 : asel) (op : jopts Q) (scan : bool) (q : qwit) (res : option obs)
(* _ml_assemble(core, core_aps, [subs]) ; per step: substituent, radii, witnesses ; v1s = the attachment vector of
   the core at each step (differences of core rows: unchanged by the earlier joins, which only translate the core) *)
| CCombine (core : frag Q) (aps : list Z) (nb : list Z) (rC : Q)
           (subs : list (frag Q * (option Q * option Q) * qwit)) (res : option obs).

Fixpoint assemble_q (nb : list Z) (rC : Q) (deriv : frag Q) (done : list Z) (aps : list Z)
                    (subs : list (frag Q * (option Q * option Q) * qwit)) : option (frag Q) * bool :=
  match aps, subs with
  | [], [] => (Some deriv, true)
  | ap :: aps', (sub, rc, q) :: subs' =>
      match first_ap (fr_atoms sub) with
      | Some a2 =>
          let s1 := ByIdx (ap - shift_of done ap) in
          match attach_vectors deriv sub s1 (ById a2) with
          | Some (v1, v2) =>
              match join QOps deriv sub s1 (ById a2) (combine_opts nb rC rc) (to_wit v1 q) with
              | Some d' => let '(r, okw) := assemble_q nb rC d' (done ++ [ap]) aps' subs' in (r, (wit_ok true v1 v2 q && okw)%bool)
              | None => (None, true)
              end
          | None => (None, true)
          end
      | None => (None, true)
      end
  | _, _ => (None, true)
  end.

Definition check (k : jcase) : bool :=
  match k with
  | CJoin A B s1 s2 op scan q res =>
      match attach_vectors A B s1 s2 with
      | Some (v1, v2) => (wit_ok scan v1 v2 q && result_matches eps_join (join QOps A B s1 s2 op (to_wit v1 q)) res)%bool
      | None => match res with None => true | Some _ => false end
      end
  | CCombine core aps nb rC subs res =>
      let '(r, okw) := assemble_q nb rC core [] aps subs in (okw && result_matches eps_join r res)%bool
  end.
