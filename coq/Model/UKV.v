(* Model of molli/storage/ukvfile.py (UKVFile): a file is a list of bytes, a handle caches a
   table of contents.  Functions mirror the methods one to one.  Executable; no proofs here. *)
From Coq Require Import NArith List Bool.
Import ListNotations.
Open Scope N_scope.

Definition bytes := list N.                     (* each element 0..255 *)

Fixpoint beq (a b : bytes) : bool :=
  match a, b with
  | [], [] => true
  | x :: a', y :: b' => (x =? y) && beq a' b'
  | _, _ => false
  end.

Definition len (l : bytes) : N := N.of_nat (length l).
Definition sub (f : bytes) (pos n : N) : bytes := firstn (N.to_nat n) (skipn (N.to_nat pos) f).

Definition be32 (v : N) : bytes := [v / 16777216 mod 256; v / 65536 mod 256; v / 256 mod 256; v mod 256].
Definition rd32 (a b c d : N) : N := ((a * 256 + b) * 256 + c) * 256 + d.

(* ---- records and the table of contents (a Python dict: insertion ordered, update in place) ---- *)
Record rec := mkrec { r_pos : N; r_klen : N; r_vlen : N }.
Definition r_end (r : rec) : N := r_pos r + 5 + r_klen r + r_vlen r.
Definition r_posv (r : rec) : N := r_pos r + 5 + r_klen r.

Definition toc_t := list (bytes * rec).

Fixpoint lookup (t : toc_t) (k : bytes) : option rec :=
  match t with
  | [] => None
  | (k', r) :: t' => if beq k k' then Some r else lookup t' k
  end.

Fixpoint update (t : toc_t) (k : bytes) (r : rec) : toc_t :=
  match t with
  | [] => [(k, r)]
  | (k', r') :: t' => if beq k k' then (k', r) :: t' else (k', r') :: update t' k r
  end.

(* ---- block and file-header encoding:  >BI | key | value   and   >16sHI10x | h2 | b0 ---- *)
Definition encb (k v : bytes) : bytes := len k :: be32 (len v) ++ k ++ v.
Definition enc_block (k v : bytes) : option bytes :=          (* struct.pack fails otherwise *)
  if (len k <? 256) && (len v <? 4294967296) then Some (encb k v) else None.

(* first byte after the header, as read_header computes it from the 32 fixed bytes *)
Definition bof_of (f : bytes) : N :=
  match skipn 16 f with
  | a :: b :: c :: d :: e :: g :: _ => 32 + (a * 256 + b) + rd32 c d e g
  | _ => 32
  end.

Definition mk_header (h1 h2 b0 : bytes) : bytes :=           (* h1: 16 bytes, NUL padded *)
  h1 ++ [len h2 / 256 mod 256; len h2 mod 256] ++ be32 (len b0) ++ repeat 0 10 ++ h2 ++ b0.

(* ---- handle ---- *)
Inductive mode := MR | MA.
Record handle := mkh { toc : toc_t; last : option bytes; eof : option N; md : mode; closed : bool }.
Definition h0 : handle := mkh [] None None MR true.            (* a handle object that was never opened *)

(* map_blocks' loop, on the bytes that remain after [pos]: one block per iteration, stops at the
   first block that is not wholly inside the file (torn tail) or when fewer than 5 bytes remain *)
Fixpoint scan (fuel : nat) (rem : bytes) (pos : N) (t : toc_t) (lastk : option bytes)
  : toc_t * option bytes * N :=
  match fuel with
  | O => (t, lastk, pos)
  | S fuel' =>
    match rem with
    | kl :: a :: b :: c :: d :: rest =>
        let vl := rd32 a b c d in
        if kl + vl <=? len rest then
          let k := firstn (N.to_nat kl) rest in
          scan fuel' (skipn (N.to_nat (kl + vl)) rest) (pos + 5 + kl + vl)
               (update t k (mkrec pos kl vl)) (Some k)
        else (t, lastk, pos)
    | _ => (t, lastk, pos)
    end
  end.

Definition shortcut (f : bytes) (h : handle) : bool :=
  match eof h with
  | None => false
  | Some e =>
      (e =? len f) &&
      match last h with
      | None => e =? bof_of f
      | Some k => match lookup (toc h) k with Some r => e =? r_end r | None => false end
      end
  end.

Definition map_blocks (f : bytes) (h : handle) : bytes * handle :=
  if shortcut f h then (f, h) else
  let b := bof_of f in
  let '(t, lk, p) := scan (S (length f)) (skipn (N.to_nat b) f) b (toc h) None in
  let h' := mkh t lk (Some p) (md h) (closed h) in
  match md h with
  | MA => if p <? len f then (firstn (N.to_nat p) f, h') else (f, h')   (* torn tail cut off *)
  | MR => (f, h')
  end.

Definition open_ (f : bytes) (h : handle) (m : mode) : bytes * handle :=
  if closed h then map_blocks f (mkh (toc h) (last h) (eof h) m false) else (f, h).

Definition close_ (h : handle) : handle := mkh (toc h) (last h) (eof h) (md h) true.

Inductive err := EUnsupported | EKey | EStruct.     (* io.UnsupportedOperation | KeyError | struct.error *)
Inductive res := ROk | RVal (v : bytes) | RKeys (ks : list bytes) | RErr (e : err)
  | ROther.   (* an exception class the model never produces; only appears in observations *)

(* seek(e); write(b): overwrites / extends, zero-filling a hole *)
Definition write_at (f : bytes) (e : N) (b : bytes) : bytes :=
  firstn (N.to_nat e) f ++ repeat 0 (N.to_nat e - length f) ++ b ++ skipn (N.to_nat (e + len b)) f.

Definition put (f : bytes) (h : handle) (k v : bytes) : bytes * handle * res :=
  if closed h || match md h with MR => true | MA => false end then (f, h, RErr EUnsupported) else
  match lookup (toc h) k with
  | Some _ => (f, h, RErr EKey)
  | None =>
    match enc_block k v, eof h with
    | Some b, Some e =>
        (write_at f e b,
         mkh (update (toc h) k (mkrec e (len k) (len v))) (last h) (Some (e + len b)) (md h) (closed h),
         ROk)
    | _, _ => (f, h, RErr EStruct)
    end
  end.

Definition get (f : bytes) (h : handle) (k : bytes) : res :=
  if closed h then RErr EUnsupported else
  match lookup (toc h) k with
  | None => RErr EKey
  | Some r => RVal (sub f (r_posv r) (r_vlen r))
  end.

Definition keys (h : handle) : list bytes := map fst (toc h).

(* ---- a world: one file, several handles on it ---- *)
Inductive op :=
| Open (i : nat) (m : mode) | Close (i : nat)
| Put (i : nat) (k v : bytes) | Get (i : nat) (k : bytes) | Keys (i : nat)
| Crash (n : N).                       (* the process dies: the file keeps its first n bytes (if shorter,
                                          nothing is lost) and every handle object is gone *)

Definition world := (bytes * list handle)%type.

Fixpoint upd {A} (l : list A) (i : nat) (x : A) : list A :=
  match l with
  | [] => [x]
  | a :: l' => match i with O => x :: l' | S i' => a :: upd l' i' x end
  end.

Definition step (w : world) (o : op) : world * res :=
  let '(f, hs) := w in
  match o with
  | Open i m => let '(f', h') := open_ f (nth i hs h0) m in ((f', upd hs i h'), ROk)
  | Close i => ((f, upd hs i (close_ (nth i hs h0))), ROk)
  | Put i k v => let '(f', h', r) := put f (nth i hs h0) k v in ((f', upd hs i h'), r)
  | Get i k => ((f, hs), get f (nth i hs h0) k)
  | Keys i => ((f, hs), RKeys (keys (nth i hs h0)))
  | Crash n => ((firstn (N.to_nat n) f, map (fun _ => h0) hs), ROk)
  end.

Fixpoint run (w : world) (ops : list op) : list res * world :=
  match ops with
  | [] => ([], w)
  | o :: ops' => let '(w', r) := step w o in let '(rs, wf) := run w' ops' in (r :: rs, wf)
  end.

(* ---- deterministic value patterns (both sides expand them; no huge literals) ---- *)
Fixpoint patn (n : nat) (i seed : N) : bytes :=
  match n with O => [] | S n' => ((seed + 7 * i) mod 256) :: patn n' (i + 1) seed end.
Definition pat (seed l : N) : bytes := patn (N.to_nat l) 0 seed.
Definition zeros (l : N) : bytes := repeat 0 (N.to_nat l).

(* ---- correspondence: compare a run of the model with what the implementation did ---- *)
Definition set_eqb (a b : list bytes) : bool :=
  Nat.eqb (length a) (length b) && forallb (fun x => existsb (beq x) b) a && forallb (fun x => existsb (beq x) a) b.
Definition err_eqb (a b : err) : bool :=
  match a, b with EUnsupported, EUnsupported | EKey, EKey | EStruct, EStruct => true | _, _ => false end.
Definition res_eqb (a b : res) : bool :=
  match a, b with
  | ROk, ROk => true
  | RVal x, RVal y => beq x y
  | RKeys x, RKeys y => set_eqb x y           (* a key listing is a set *)
  | (RErr _ | ROther), (RErr _ | ROther) => true   (* the property does not fix exception classes: a failure is a failure *)
  | _, _ => false
  end.
Fixpoint all2 {A} (p : A -> A -> bool) (x y : list A) : bool :=
  match x, y with [], [] => true | a :: x', b :: y' => p a b && all2 p x' y' | _, _ => false end.

(* case = ((initial file, number of handle slots, ops), (observed results, observed final file)) *)
Definition case := ((bytes * nat * list op) * (list res * bytes))%type.
Definition check_case (c : case) : bool :=
  let '((f0, nh, ops), (ers, ef)) := c in
  let '(rs, (f, _)) := run (f0, repeat h0 nh) ops in
  all2 res_eqb rs ers && beq f ef.
