(* C04 + C03: the process/lock transition system of Model/Session.v extended with the DEATH of a process at any
   point (kill -9, power cut of one node): the operating system releases its lock (assumed fcntl semantics), its
   handle object is gone, and if it was inside a writing session the file keeps an arbitrary prefix of what the
   session wrote (C03's crash model: an in-order prefix of the byte stream; everything written by completed
   sessions is on disk).  Executable; no proofs here. *)
From Coq Require Import NArith List Bool String.
Import ListNotations.
From Molli Require Import Common.Exc Model.UKV Model.Session.

(* dbase: the length the file had when the writing session now in progress (if any) began *)
Record dworld := mkd { dl : lworld; dbase : option N }.

Inductive dlabel :=
| DL (l : label)              (* a step of a living process: Model/Session.v *)
| DDie (p : nat) (n : N).     (* process p dies; if it is inside a writing session the file keeps max(base, n) bytes *)

Definition is_writer (h : handle) : bool := negb (closed h) && match md h with MA => true | MR => false end.

Definition dstep (s : dworld) (l : dlabel) : option (dworld * res) :=
  match l with
  | DL l0 =>
      match lstep (dl s) l0 with
      | None => None
      | Some (s', r) =>
          let b :=
            match l0 with
            | LOpen _ i => if is_writer (nth i (snd (lw s')) h0) then Some (len (fst (lw s'))) else dbase s
            | LClose p => match pcur (pnth (procs (dl s)) p) with
                          | Some i => if is_writer (nth i (snd (lw (dl s))) h0) then None else dbase s
                          | None => dbase s
                          end
            | _ => dbase s
            end in
          Some (mkd s' b, r)
      end
  | DDie p n =>
      let ps := procs (dl s) in
      if Nat.ltb p (List.length ps) then
        let f := fst (lw (dl s)) in
        let hs := snd (lw (dl s)) in
        match pcur (pnth ps p) with
        | Some i =>
            if Nat.ltb i (List.length hs) then
              if is_writer (nth i hs h0) then
                match dbase s with
                | Some b => Some (mkd (mkl (firstn (N.to_nat (N.max b n)) f, upd hs i h0) (upd ps p p0) (owner (dl s))) None, ROk)
                | None => Some (mkd (mkl (f, upd hs i h0) (upd ps p p0) (owner (dl s))) None, ROk)
                end
              else Some (mkd (mkl (f, upd hs i h0) (upd ps p p0) (owner (dl s))) (dbase s), ROk)
            else None
        | None => Some (mkd (mkl (f, hs) (upd ps p p0) (owner (dl s))) (dbase s), ROk)
        end
      else None
  end.

Fixpoint drun (s : dworld) (ls : list dlabel) : list outcome * dworld :=
  match ls with
  | [] => ([], s)
  | l :: ls' =>
      match dstep s l with
      | Some (s', r) => let '(os, sf) := drun s' ls' in (Done r :: os, sf)
      | None => let '(os, sf) := drun s ls' in (Refused :: os, sf)
      end
  end.

(* ---------- session-step granularity, as the real processes of the harness experience it ---------- *)
Inductive dmlabel := DM (m : mlabel) | DMDie (p : nat) (n : N).

Definition dmstep (s : dworld) (m : dmlabel) : dworld * outcome :=
  let one s l := match dstep s l with Some (s', r) => Some (s', r) | None => None end in
  match m with
  | DM (MEnter p i w) =>
      match one s (DL (LAcq p w)) with
      | None => (s, Refused)
      | Some (s1, _) => match one s1 (DL (LOpen p i)) with Some (s2, r) => (s2, Done r) | None => (s, Refused) end
      end
  | DM (MDo p o) => match one s (DL (LDo p o)) with Some (s', r) => (s', Done r) | None => (s, Refused) end
  | DM (MExit p) =>
      match one s (DL (LClose p)) with
      | Some (s1, _) => match one s1 (DL (LRel p)) with Some (s2, r) => (s2, Done r) | None => (s1, Refused) end
      | None => (s, Refused)
      end
  | DMDie p n => match one s (DDie p n) with Some (s', r) => (s', Done r) | None => (s, Refused) end
  end.

Fixpoint dmrun (s : dworld) (ms : list dmlabel) : list outcome * dworld :=
  match ms with
  | [] => ([], s)
  | m :: ms' => let '(s', o) := dmstep s m in let '(os, sf) := dmrun s' ms' in (o :: os, sf)
  end.

(* case = ((initial file, number of processes (process p owns handle p), labels), (observed outcomes, final file)) *)
Definition dcase := ((bytes * nat * list dmlabel) * (list outcome * bytes))%type.
Definition check_dcase (c : dcase) : bool :=
  let '((f0, n, ms), (eos, ef)) := c in
  let '(os, sf) := dmrun (mkd (mkl (f0, repeat h0 n) (repeat p0 n) (seq 0 n)) None) ms in
  all2 outcome_eqb os eos && beq (fst (lw (dl sf))) ef.
