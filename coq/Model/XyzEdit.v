(* C08, second part of the model (owned by C08 only; Model/XyzText.v is shared with C10).

   1. write / edit / write SESSIONS on one object.  The xyz writer is a function of the CURRENT state of the
      geometry or ensemble: a session is a sequence of in-place edits (element of an atom, two elements
      exchanged, one coordinate row, a whole frame, the name, an atom appended or deleted, a frame appended) and
      writes (the whole object, or one conformer of an ensemble).  `run_session` gives the text of every write;
      the harness records only the INITIAL state, the edits and the texts the implementation wrote, so the
      evolution of the state is the model's own.

   2. the TAIL of the reader loops (`yield_from_xyz`, `yield_from_mol2`) as a control-flow tree over opaque
      conditions (tie S, Gen/ScaleExpr.v): which paths from the construction of a block's object to its `yield`
      pass through the unit scaling, and how often.  `tail_ok` decides, over every valuation of the conditions,
      that each yielded object was scaled exactly once.

   No proofs in this file. *)
From Coq Require Import List Bool Arith NArith ZArith QArith Ascii String.
From Molli Require Import Common.ParseStr Model.Parse Model.XyzText.
Import ListNotations.
Local Open Scope list_scope.

(* ================================================================= sessions *)
Definition trip := (dec * dec * dec)%type.

Fixpoint upd_nth {A} (i : nat) (x : A) (l : list A) : list A :=
  match l, i with
  | [], _ => []
  | _ :: r, O => x :: r
  | y :: r, S i' => y :: upd_nth i' x r
  end.
Fixpoint drop_nth {A} (i : nat) (l : list A) : list A :=
  match l, i with
  | [], _ => []
  | _ :: r, O => r
  | y :: r, S i' => y :: drop_nth i' r
  end.
Definition upd_with {A} (i : nat) (f : A -> A) (l : list A) : list A :=
  match nth_error l i with Some y => upd_nth i (f y) l | None => l end.

Inductive wop :=
| WSetElem (i : nat) (z : Z)                 (* obj.atoms[i].element = Element(z) *)
| WSwapElem (i j : nat)                      (* the elements of atoms i and j exchanged *)
| WSetCoord (k i : nat) (p : trip)           (* coordinate row i of frame k *)
| WSetFrame (k : nat) (f : list trip)        (* the whole frame k *)
| WRename (s : str)                          (* obj.name = s *)
| WAddAtom (z : Z) (p : trip)                (* add_atom: appended to the atom list; row p appended to every frame *)
| WDelAtom (i : nat)                         (* del_atom: atom i and row i of every frame removed *)
| WAppendFrame (f : list trip).              (* ensemble.append(geometry) *)

Inductive wstep :=
| WEdit (o : wop)
| WWriteAll                                  (* dumps_xyz / dump_xyz of the object itself *)
| WWriteFrame (k : nat).                     (* dumps_xyz of conformer k of an ensemble *)

Definition apply_wop (o : wop) (e : wens) : wens :=
  match o with
  | WSetElem i z => mk_wens (we_name e) (upd_nth i z (we_elems e)) (we_frames e)
  | WSwapElem i j =>
    match nth_error (we_elems e) i, nth_error (we_elems e) j with
    | Some a, Some b => mk_wens (we_name e) (upd_nth j a (upd_nth i b (we_elems e))) (we_frames e)
    | _, _ => e
    end
  | WSetCoord k i p => mk_wens (we_name e) (we_elems e) (upd_with k (upd_nth i p) (we_frames e))
  | WSetFrame k f => mk_wens (we_name e) (we_elems e) (upd_nth k f (we_frames e))
  | WRename s => mk_wens s (we_elems e) (we_frames e)
  | WAddAtom z p => mk_wens (we_name e) (we_elems e ++ [z]) (map (fun f => f ++ [p]) (we_frames e))
  | WDelAtom i => mk_wens (we_name e) (drop_nth i (we_elems e)) (map (drop_nth i) (we_frames e))
  | WAppendFrame f => mk_wens (we_name e) (we_elems e) (we_frames e ++ [f])
  end.

(* what is written: one block per frame, each with the elements and the name the object has NOW *)
Definition write_ens (syms : list (Z * str)) (e : wens) : option (list str) := write_xyz syms (ens_geoms e).
Definition write_frame (syms : list (Z * str)) (e : wens) (k : nat) : option (list str) :=
  match nth_error (we_frames e) k with Some f => write_xyz syms [frame_geom e f] | None => None end.

Fixpoint run_session (syms : list (Z * str)) (e : wens) (steps : list wstep) : list (option (list str)) :=
  match steps with
  | [] => []
  | WEdit o :: r => run_session syms (apply_wop o e) r
  | WWriteAll :: r => write_ens syms e :: run_session syms e r
  | WWriteFrame k :: r => write_frame syms e k :: run_session syms e r
  end.

(* what every write of the session must be read back as: the state at the time of THAT write *)
Fixpoint session_expect (e : wens) (steps : list wstep) : list (option (list mol)) :=
  match steps with
  | [] => []
  | WEdit o :: r => session_expect (apply_wop o e) r
  | WWriteAll :: r => Some (map geom_mol (ens_geoms e)) :: session_expect e r
  | WWriteFrame k :: r =>
    option_map (fun f => [geom_mol (frame_geom e f)]) (nth_error (we_frames e) k) :: session_expect e r
  end.

(* correspondence: initial state, steps, the text of every write as produced by the implementation *)
Definition scase := (wens * list wstep * list (list string))%type.
Definition chk_xyz_session (syms : list (Z * string)) (c : scase) : bool :=
  let '(e, steps, outs) := c in
  list_eqb (fun (m : option (list str)) (o : list string) =>
              match m with Some ls => list_eqb str_eqb ls (map s2l o) | None => false end)
           (run_session (conv_syms syms) e steps) outs.

(* ================================================================= reader tail: paths to the yield *)
(* continuation form of the loop body after the object has been built.  Conditions are opaque (numbered);
   the extractor duplicates the rest of the body into both arms of an `if` that contains control flow. *)
Inductive tail :=
| TEnd                                       (* end of the loop body *)
| TScale (k : tail)                          (* the (unit-guarded) scale statement *)
| TYield (k : tail)                          (* yield <object> *)
| TStop                                      (* continue / break / return / raise *)
| TIf (c : nat) (a b : tail).

(* how many times the object had been scaled at each yield of one pass through the body *)
Fixpoint run_tail (env : nat -> bool) (t : tail) (n : nat) : list nat :=
  match t with
  | TEnd | TStop => []
  | TScale k => run_tail env k (S n)
  | TYield k => n :: run_tail env k n
  | TIf c a b => if env c then run_tail env a n else run_tail env b n
  end.

Fixpoint conds_lt (k : nat) (t : tail) : bool :=
  match t with
  | TEnd | TStop => true
  | TScale r | TYield r => conds_lt k r
  | TIf c a b => (c <? k)%nat && conds_lt k a && conds_lt k b
  end.

Fixpoint envs (k : nat) : list (list bool) :=
  match k with
  | O => [[]]
  | S k' => map (cons true) (envs k') ++ map (cons false) (envs k')
  end.
Definition env_of (l : list bool) : nat -> bool := fun c => nth c l false.

(* every yield on every path sees exactly one scaling, and some path does yield *)
Definition tail_ok (k : nat) (t : tail) : bool :=
  conds_lt k t &&
  forallb (fun l => forallb (Nat.eqb 1) (run_tail (env_of l) t 0)) (envs k) &&
  existsb (fun l => match run_tail (env_of l) t 0 with [] => false | _ => true end) (envs k).

Section EvalN.
Context {F : Type} (fmul fdiv : F -> F -> F) (fconst : Q -> F).
(* the coordinate handed to the caller when the scale statement ran n times before the yield *)
Definition read_coord_n (e : sexpr) (ang : bool) (v : F) (n : nat) (c : F) : F :=
  if ang then c else Nat.iter n (fmul (seval fmul fdiv fconst e v)) c.
End EvalN.
