(* C05 -- how the arguments of an edit call were WRITTEN.

   Model/MolEdit.v speaks about operations whose optional arguments are already normalised
   (AddAtom ... (q : option Z): a number or "no charge").  A caller has more ways than that to say
   the same thing: the optional partial charge of Molecule.add_atom can be omitted, passed as an
   explicit None (positionally or by keyword -- the documented "optional" value, e.g. forwarded
   from `table.get(label)`), or passed as a Python float, an int, a numpy scalar or a 0-d array; a
   coordinate can be a list, a tuple, an ndarray of another dtype, a row or a column view of a
   caller-owned buffer; new_atom has a default coordinate; label= / ap_label= / isotope= can be left out
   or given as None.  A `call` records the spelling; `elab` gives it its meaning as an `op`.  The
   correspondence cases of harness/c05.py carry `elab (Call...)` terms, so the kernel evaluates this
   very function on every spelled call that was driven through the implementation.
   NO proofs in this file. *)
From Coq Require Import List Bool ZArith NArith PArith.
Import ListNotations.
From Molli Require Import Model.MolEdit.

(* the forms of a number *)
Inductive numform := NFloat | NInt | NNp64 | NNp32 | NNpInt | NArr0.

(* the optional partial charge of Molecule.add_atom(a, coord, charge=None); kw: passed by keyword *)
Inductive qarg :=
| QOmitted
| QNone (kw : bool)
| QNum (f : numform) (kw : bool) (t : Z).

(* the forms of a coordinate: list / tuple / float64 array / float32 array / list of ints / int64 array /
   list of numpy scalars / row view of a caller-owned 2-D buffer / strided column view of one *)
Inductive cform := CList | CTuple | CArr64 | CArr32 | CInts | CIntArr | CNpList | CView | CCol.

(* the coordinate of add_atom (required): malformed, or a row token in some form *)
Inductive carg := CBad | CGiven (f : cform) (c : Z).
(* the coordinate of new_atom (optional, default [0, 0, 0]) *)
Inductive ncarg := NCOmitted | NCGiven (f : cform) (kw : bool) (c : Z).
(* label= of new_atom, ap_label= of remove_substituent: omitted, or given (None or a string) *)
Inductive larg := LOmitted | LGiven (l : option N).
(* the element of new_atom: Element member / atomic number / symbol *)
Inductive elform := EEnum | EInt | ESym.
(* isotope= of new_atom *)
Inductive isoarg := IOmitted | INone (kw : bool).

(* the row token of the default coordinate [0, 0, 0] of new_atom (the harness hands out 1, 2, ... to all other rows) *)
Definition origin_row : Z := 0%Z.

Definition qval (q : qarg) : option Z := match q with QNum _ _ t => Some t | _ => None end.
Definition cval (c : carg) : option Z := match c with CGiven _ t => Some t | CBad => None end.
Definition ncval (c : ncarg) : Z := match c with NCGiven _ _ t => t | NCOmitted => origin_row end.
Definition lval (l : larg) : option N := match l with LGiven x => x | LOmitted => None end.

Inductive call :=
| CallAddAtom (e : N) (l : option N) (c : carg) (q : qarg)
| CallNewAtom (ef : elform) (e : N) (i : isoarg) (l : larg) (c : ncarg)
| CallRemoveSubst (s1 s2 : sel) (l : larg).

(* what the call means: an omitted optional argument, an explicit None and the documented default are ONE thing;
   the form in which a number or a coordinate arrives does not matter *)
Definition elab (c : call) : op :=
  match c with
  | CallAddAtom e l c q => AddAtom e l (cval c) (qval q)
  | CallNewAtom _ e _ l c => NewAtom e (lval l) (ncval c)
  | CallRemoveSubst s1 s2 l => RemoveSubst s1 s2 (lval l)
  end.

(* What storing the optional charge AS IS does (no `0.0 if charge is None else charge`): `dflt` is the default
   written in the signature -- None in the code as first found, 0.0 in the variant that moves the default into the
   signature and drops the normalisation.  Refuted in Proofs/MolEditCall.v: an explicit None breaks the invariant
   whatever the signature default is. *)
Definition qval_as_is (dflt : option Z) (q : qarg) : option Z :=
  match q with QOmitted => dflt | QNone _ => None | QNum _ _ t => Some t end.
Definition add_atom_charge_as_is (dflt : option Z) (s : st) (e : N) (l : option N) (c : carg) (q : qarg) : res :=
  bind (geom_add_atom s e l (cval c))
       (fun s' => Ok (set_charges s' (charges s' ++ [match qval_as_is dflt q with Some t => CNum t | None => CNone end]))).
