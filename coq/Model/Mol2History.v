(* C07 -- what happens to a ConformerEnsemble BEFORE it is written.  Executable model, no proofs in this file.

   The property speaks of writing ANY ensemble, whatever was done with it beforehand.  Everything the harness does
   before the write only LOOKS at the object: iter(ens) / next(it) (a `for` statement left with break or an exception,
   next(iter(ens)), zip, any, list, loops that are nested, interleaved or still suspended when the write runs), ens[k],
   an earlier write, reads of properties / str() / == / copies.

   molli/chem/ensemble.py: `__iter__` is a generator function, so every iter(ens) gets a cursor of its own, starting
   at conformer 0; `dump_mol2` is `for conf in self: conf.dump_mol2(stream)`, i.e. one more iterator of that kind.
   A history is a list of operations; the model keeps the ensemble and the cursor of every iterator created so far.
   The observation of each operation (which conformer was handed out / that the iterator ended / the text) is
   recorded from the implementation by harness/c07.py and compared with this model by `check_hist`. *)
From Coq Require Import String List Bool NArith.
From Molli Require Import Common.StrSplit Common.Dec6 Gen.Mol2Types Model.Mol2Text.
Import ListNotations.
Local Open Scope N_scope.

Inductive hop :=
| HNew                  (* it_n := iter(ens), n = number of iterators created before *)
| HNext (i : nat)       (* next(it_i) *)
| HIndex (k : N)        (* ens[k] *)
| HWrite                (* a complete write of the ensemble *)
| HLook.                (* properties, str(), ==, copies, slices, a conformer written on its own, a write that failed *)

Inductive hobs :=
| OYield (ks : list N)  (* a conformer was handed out; ks = the conformers of the ensemble it coincides with *)
| OStop                 (* StopIteration *)
| OAny                  (* next() was called by library code (zip); its result was not seen *)
| OText (w : list str)
| ONone.

Record hst := mk_hst { hs_ens : ens RV; hs_its : list N }.      (* the cursor of every iterator, in order of creation *)
Definition h_init (e : ens RV) : hst := mk_hst e [].

Definition ens_lines (e : ens RV) : list str :=
  concat (map (fun c => mol_lines RV true (conformer_mol RV e c)) (e_confs e)).

Fixpoint upd (l : list N) (i : nat) (v : N) : list N :=
  match l, i with
  | [], _ => []
  | _ :: t, O => v :: t
  | x :: t, S j => x :: upd t j v
  end.

(* what the model says an operation hands out *)
Inductive hres := RYield (k : N) | RStop | RText (w : list str) | RNone | RBad.

Definition h_step (s : hst) (o : hop) : hst * hres :=
  match o with
  | HNew => (mk_hst (hs_ens s) (hs_its s ++ [0]), RNone)
  | HNext i =>
      match nth_error (hs_its s) i with
      | Some c => if c <? lenN (e_confs (hs_ens s))
                  then (mk_hst (hs_ens s) (upd (hs_its s) i (c + 1)), RYield c)
                  else (s, RStop)                          (* a generator that ended stays ended *)
      | None => (s, RBad)
      end
  | HIndex k => (s, if k <? lenN (e_confs (hs_ens s)) then RYield k else RBad)
  | HWrite => (s, RText (ens_lines (hs_ens s)))
  | HLook => (s, RNone)
  end.

Fixpoint h_run (s : hst) (ops : list hop) : hst :=
  match ops with [] => s | o :: t => h_run (fst (h_step s o)) t end.

(* ConformerEnsemble.dumps_mol2 after a history *)
Definition write_after (e : ens RV) (ops : list hop) : str := text_of (ens_lines (hs_ens (h_run (h_init e) ops))).

Definition obs_ok (r : hres) (o : hobs) : bool :=
  match r, o with
  | RYield k, OYield ks => existsb (N.eqb k) ks
  | RStop, OStop => true
  | RYield _, OAny => true
  | RStop, OAny => true
  | RText w, OText w' => list_eqb str_eqb w w'
  | RNone, ONone => true
  | _, _ => false
  end.

Fixpoint trace_ok (s : hst) (tr : list (hop * hobs)) : bool :=
  match tr with
  | [] => true
  | (o, b) :: t => let (s', r) := h_step s o in obs_ok r b && trace_ok s' t
  end.

(* one generated case: the ensemble, what its iterations handed out before the write, the text molli wrote then *)
Inductive hcase := CHist (e : ens RV) (trace : list (hop * hobs)) (written : list str).

Definition check_hist (c : hcase) : bool :=
  match c with
  | CHist e tr w => trace_ok (h_init e) tr && list_eqb str_eqb (ens_lines (hs_ens (h_run (h_init e) (map fst tr)))) w
  end.

(* ---------------------------------------------------------------- the design the property excludes: the ensemble is its
   own iterator -- ONE cursor stored on the object, rewound only when an iteration runs to its end; the writer is a
   loop of that kind too, so it starts where the last unfinished loop stopped (and, having run to the end, rewinds). *)
Record sst := mk_sst { ss_ens : ens RV; ss_cur : N }.
Definition s_step (s : sst) (o : hop) : sst :=
  match o with
  | HNext _ => if ss_cur s <? lenN (e_confs (ss_ens s)) then mk_sst (ss_ens s) (ss_cur s + 1) else mk_sst (ss_ens s) 0
  | HWrite => mk_sst (ss_ens s) 0
  | _ => s
  end.
Fixpoint s_run (s : sst) (ops : list hop) : sst :=
  match ops with [] => s | o :: t => s_run (s_step s o) t end.
Definition shared_write_after (e : ens RV) (ops : list hop) : str :=
  let s := s_run (mk_sst e 0) ops in
  write_all RV true (map (conformer_mol RV e) (skipn (N.to_nat (ss_cur s)) (e_confs e))).
