(* Derived views of a UKVFile handle (molli/storage/ukvfile.py): items(), values(), and a pickled copy of a
   handle object (__getstate__/__setstate__: the cached table of contents travels, the stream does not).
   __getitem__/__setitem__/__enter__/__exit__ are other spellings of get/put/open/close and map to the base
   operations.  Layered on Model/UKV.v so that the base operation type stays as it is.  Executable; no proofs. *)
From Coq Require Import NArith List Bool.
Import ListNotations.
From Molli Require Import Model.UKV.
Open Scope N_scope.

Inductive vop :=
| VBase (o : op)
| VItems (i : nat)            (* list(h.items())  : ((key, self.get(key)) for key in self.keys()) *)
| VValues (i : nat)           (* list(h.values()) *)
| VDup (i j : nat)            (* hs[j] = pickle.loads(pickle.dumps(hs[i])) *)
| VHeader (i : nat).          (* (h.h1, h.h2, h.b0) of a handle object that has been opened: what read_header took from the file *)

Inductive vres :=
| VR (r : res)
| VRItems (l : list (bytes * bytes))
| VRVals (l : list bytes)
| VRHdr (h1 h2 b0 : bytes)
| VRFail.                     (* the generator raised while it was consumed *)

(* the generator consumed to the end: the first failing get aborts it *)
Fixpoint gets (f : bytes) (h : handle) (ks : list bytes) : option (list (bytes * bytes)) :=
  match ks with
  | [] => Some []
  | k :: ks' =>
      match get f h k with
      | RVal v => match gets f h ks' with Some l => Some ((k, v) :: l) | None => None end
      | _ => None
      end
  end.

Definition items (f : bytes) (h : handle) : vres :=
  match gets f h (keys h) with Some l => VRItems l | None => VRFail end.
Definition values (f : bytes) (h : handle) : vres :=
  match gets f h (keys h) with Some l => VRVals (map snd l) | None => VRFail end.

(* read_header: >16sHI10x, then h2len bytes of comment, then b0len bytes of descriptor block *)
Definition read_header (f : bytes) : bytes * bytes * bytes :=
  match skipn 16 f with
  | a :: b :: c :: d :: e :: g :: _ =>
      let h2len := a * 256 + b in
      let b0len := rd32 c d e g in
      (firstn 16 f, sub f 32 h2len, sub f (32 + h2len) b0len)
  | _ => (firstn 16 f, [], [])
  end.

Definition vstep (w : world) (o : vop) : world * vres :=
  match o with
  | VBase o' => let '(w', r) := step w o' in (w', VR r)
  | VItems i => (w, items (fst w) (nth i (snd w) h0))
  | VValues i => (w, values (fst w) (nth i (snd w) h0))
  | VDup i j => ((fst w, upd (snd w) j (nth i (snd w) h0)), VR ROk)
  | VHeader _ => (w, let '(a, b, c) := read_header (fst w) in VRHdr a b c)
  end.

Fixpoint vrun (w : world) (ops : list vop) : list vres * world :=
  match ops with
  | [] => ([], w)
  | o :: ops' => let '(w', r) := vstep w o in let '(rs, wf) := vrun w' ops' in (r :: rs, wf)
  end.

(* ---- correspondence ---- *)
Definition pair_eqb (a b : bytes * bytes) : bool := beq (fst a) (fst b) && beq (snd a) (snd b).
(* multiset equality (listing order is not part of the property) *)
Fixpoint remove1 {A} (eqb : A -> A -> bool) (x : A) (l : list A) : option (list A) :=
  match l with
  | [] => None
  | y :: l' => if eqb x y then Some l' else match remove1 eqb x l' with Some r => Some (y :: r) | None => None end
  end.
Fixpoint perm_eqb {A} (eqb : A -> A -> bool) (a b : list A) : bool :=
  match a with
  | [] => match b with [] => true | _ => false end
  | x :: a' => match remove1 eqb x b with Some b' => perm_eqb eqb a' b' | None => false end
  end.

Definition vres_eqb (a b : vres) : bool :=
  match a, b with
  | VR x, VR y => res_eqb x y
  | VRItems x, VRItems y => perm_eqb pair_eqb x y
  | VRVals x, VRVals y => perm_eqb beq x y
  | VRFail, VRFail => true
  | VRHdr a b c, VRHdr a' b' c' => beq a a' && beq b b' && beq c c'
  | VRFail, VR (RErr _ | ROther) | VR (RErr _ | ROther), VRFail => true
  | _, _ => false
  end.

Definition vcase := ((bytes * nat * list vop) * (list vres * bytes))%type.
Definition check_vcase (c : vcase) : bool :=
  let '((f0, nh, ops), (ers, ef)) := c in
  let '(rs, (f, _)) := vrun (f0, repeat h0 nh) ops in
  all2 vres_eqb rs ers && beq f ef.
