(* A small imperative language with exceptions: the fragment of Python in which the methods of
   molli/storage/ukvfile.py (UKVFile) are written, with the file object they work on as a primitive.
   tools: harness/ukv_translate.py turns the method bodies into terms of [stmt] (Gen/UKVCode.v) on every run;
   Proofs/UKVCode.v proves that running those terms IS the hand-written model (Model/UKV.v), for every state.
   This file is the semantics: it is part of the trusted base of that tie and is meant to be read.

   Values are dynamically typed; an ill-typed operation raises XType (Python: TypeError/AttributeError...).
   Integers are naturals (the methods only add and compare lengths and offsets); + also concatenates bytes.  Executable; no proofs here. *)
From Coq Require Import NArith List Bool String.
Import ListNotations.
From Molli Require Import Model.UKV.
Open Scope N_scope.

Inductive val :=
| VNone
| VBool (b : bool)
| VInt (n : N)
| VBytes (b : bytes)
| VRec (r : rec)                       (* UKVRecord(pos, key_len, record_len) *)
| VToc (t : toc_t)                     (* dict[bytes, UKVRecord], insertion ordered *)
| VStr (s : string)
| VTup (l : list val)
| VSelf.                               (* the object itself (`return self`) *)

Inductive exn := XUnsupported | XKey | XStruct | XType | XValue | XOther.

Inductive expr :=
| EConst (v : val)
| ELocal (x : string)
| EAttr (a : string)                   (* self.<a> : a data attribute *)
| ELen (e : expr)
| EAdd (a b : expr)
| EEq (a b : expr) | ELt (a b : expr) | EGt (a b : expr)
| EAnd (a b : expr) | EOr (a b : expr) | ENot (a : expr)      (* short-circuit, on truth values *)
| EIsNone (e : expr) | EIsNotNone (e : expr)
| EIfExp (c a b : expr)                (* a if c else b *)
| EIn (k t : expr)                     (* k in t           (t a dict) *)
| ETocGet (t k : expr)                 (* t[k]             KeyError *)
| ERecNew (p kl rl : expr)             (* UKVRecord(p, kl, rl) *)
| ERecField (f : string) (r : expr)    (* r.pos | r.key_len | r.record_len *)
| EPackBlk (kl rl : expr)              (* Struct(">BI").pack(kl, rl)        struct.error when out of range *)
| ETupGet (i : nat) (e : expr)
| ESelf
| EWritable                            (* self._stream.writable() *)
| ETell.                               (* self._stream.tell() *)

Inductive hdr := HBlock | HFile.       (* Struct(">BI")  |  Struct(">16sHI10x") *)

Inductive stmt :=
| SSkip
| SSeq (a b : stmt)
| SAssign (x : string) (e : expr)
| SSetAttr (a : string) (e : expr)
| STocSet (k v : expr)                 (* self._toc[k] = v *)
| SIf (c : expr) (a b : stmt)
| SWhile (c : stmt) (x : string) (body : stmt)   (* while x := <c> : body      (c assigns x; the loop runs while x is truthy) *)
| SBreak
| SRaise (x : exn)
| SReturn (e : expr)
| SSeek (e : expr)                     (* self._stream.seek(e) *)
| SSeekRel (e : expr)                  (* self._stream.seek(e, 1) *)
| SSeekEnd (x : string)                (* x = self._stream.seek(0, 2) *)
| SRead (x : string) (n : expr)        (* x = self._stream.read(n) *)
| SWrite (e : expr)                    (* self._stream.write(e) *)
| STruncate (e : expr)                 (* self._stream.truncate(e) *)
| SClose                               (* self._stream.close() *)
| SOpenStream (writable : bool)        (* self._stream = self.path.open("r+b" | "rb")     the file exists *)
| SUnpackRead (x : string) (h : hdr) (dflt : val)
| SCall (args : list (string * expr)) (body : stmt)
    (* self.<method>(...) as a statement: the callee's parameters are bound to the argument values in a scope of its own
       (on top of the caller's variables); a `return` inside ends the call only; the caller's variables come back *)
| SCallRet (args : list (string * expr)) (body : stmt)   (* return self.<method>(...): the callee's result (or None) is the caller's *)
| STryElse (body handler els : stmt)   (* try: body  except: handler; raise  else: els *)
| SUnmodelled.                         (* a statement outside the modelled fragment (creating a file): raises XOther here *)
    (* x = self._unpack_read(<struct>, dflt):  try: read(struct.size), unpack  except: dflt *)

(* ---- state ---- *)
Record stream := mks { s_pos : N; s_wr : bool; s_closed : bool }.
Definition env := string -> option val.          (* variable / attribute name -> value; None = unbound *)
Record state := mkst { file : bytes; strm : stream; attrs : env; locals : env }.

Definition lookup_env (e : env) (x : string) : option val := e x.
Definition set_env (e : env) (x : string) (v : val) : env := fun y => if String.eqb x y then Some v else e y.
Definition empty_env : env := fun _ => None.
Fixpoint env_of (l : list (string * val)) : env :=
  match l with [] => empty_env | (x, v) :: l' => set_env (env_of l') x v end.

Definition truthy (v : val) : bool :=
  match v with
  | VNone => false
  | VBool b => b
  | VInt n => negb (n =? 0)
  | VBytes b => match b with [] => false | _ => true end
  | VStr s => match s with EmptyString => false | _ => true end
  | VTup l => match l with [] => false | _ => true end
  | VToc t => match t with [] => false | _ => true end
  | VRec _ => true
  | VSelf => true
  end.

Definition val_eqb (a b : val) : bool :=
  match a, b with
  | VNone, VNone => true
  | VBool x, VBool y => Bool.eqb x y
  | VInt x, VInt y => x =? y
  | VBytes x, VBytes y => beq x y
  | VStr x, VStr y => String.eqb x y
  | _, _ => false                    (* values of different types are unequal (None == 5 is False) *)
  end.

Inductive res (A : Type) := Val (a : A) | Exn (x : exn).
Arguments Val {A} a. Arguments Exn {A} x.

(* struct.pack(">BI", kl, rl) *)
Definition pack_blk (kl rl : N) : res val :=
  if (kl <? 256) && (rl <? 4294967296) then Val (VBytes (kl :: be32 rl)) else Exn XStruct.

Section Eval.
  Variable s : state.

  Fixpoint eval (e : expr) : res val :=
    match e with
    | EConst v => Val v
    | ELocal x => match lookup_env (locals s) x with Some v => Val v | None => Exn XOther end   (* UnboundLocalError *)
    | EAttr a => match lookup_env (attrs s) a with Some v => Val v | None => Exn XType end      (* AttributeError *)
    | ELen e1 => match eval e1 with
                 | Val (VBytes b) => Val (VInt (len b))
                 | Val _ => Exn XType | Exn x => Exn x end
    | EAdd a b => match eval a with
                  | Val (VInt x) => match eval b with Val (VInt y) => Val (VInt (x + y)) | Val _ => Exn XType | Exn z => Exn z end
                  | Val (VBytes x) => match eval b with Val (VBytes y) => Val (VBytes (x ++ y)) | Val _ => Exn XType | Exn z => Exn z end
                  | Val _ => match eval b with Exn z => Exn z | _ => Exn XType end
                  | Exn z => Exn z end
    | EEq a b => match eval a with
                 | Val x => match eval b with Val y => Val (VBool (val_eqb x y)) | Exn z => Exn z end
                 | Exn z => Exn z end
    | ELt a b => match eval a with
                 | Val (VInt x) => match eval b with Val (VInt y) => Val (VBool (x <? y)) | Val _ => Exn XType | Exn z => Exn z end
                 | Val _ => match eval b with Exn z => Exn z | _ => Exn XType end
                 | Exn z => Exn z end
    | EGt a b => match eval a with
                 | Val (VInt x) => match eval b with Val (VInt y) => Val (VBool (y <? x)) | Val _ => Exn XType | Exn z => Exn z end
                 | Val _ => match eval b with Exn z => Exn z | _ => Exn XType end
                 | Exn z => Exn z end
    | EAnd a b => match eval a with
                  | Val x => if truthy x then eval b else Val x
                  | Exn z => Exn z end
    | EOr a b => match eval a with
                 | Val x => if truthy x then Val x else eval b
                 | Exn z => Exn z end
    | ENot a => match eval a with Val x => Val (VBool (negb (truthy x))) | Exn z => Exn z end
    | EIsNone a => match eval a with Val VNone => Val (VBool true) | Val _ => Val (VBool false) | Exn z => Exn z end
    | EIsNotNone a => match eval a with Val VNone => Val (VBool false) | Val _ => Val (VBool true) | Exn z => Exn z end
    | EIfExp c a b => match eval c with
                      | Val x => if truthy x then eval a else eval b
                      | Exn z => Exn z end
    | EIn k t => match eval k with
                 | Val (VBytes kb) => match eval t with
                                      | Val (VToc tb) => Val (VBool (match lookup tb kb with Some _ => true | None => false end))
                                      | Val _ => Exn XType | Exn z => Exn z end
                 | Val _ => match eval t with Exn z => Exn z | _ => Exn XType end
                 | Exn z => Exn z end
    | ETocGet t k => match eval t with
                     | Val (VToc tb) => match eval k with
                                        | Val (VBytes kb) => match lookup tb kb with Some r => Val (VRec r) | None => Exn XKey end
                                        | Val _ => Exn XKey        (* a key of another type is simply absent *)
                                        | Exn z => Exn z end
                     | Val _ => match eval k with Exn z => Exn z | _ => Exn XType end
                     | Exn z => Exn z end
    | ERecNew p kl rl =>
        match eval p with
        | Val (VInt a) =>
            match eval kl with
            | Val (VInt b) => match eval rl with Val (VInt c) => Val (VRec (mkrec a b c)) | Val _ => Exn XType | Exn z => Exn z end
            | Val _ => match eval rl with Exn z => Exn z | _ => Exn XType end
            | Exn z => Exn z end
        | Val _ => match eval kl with Exn z => Exn z | _ => match eval rl with Exn z => Exn z | _ => Exn XType end end
        | Exn z => Exn z end
    | ERecField f r => match eval r with
                       | Val (VRec rr) =>
                           if String.eqb f "pos" then Val (VInt (r_pos rr))
                           else if String.eqb f "key_len" then Val (VInt (r_klen rr))
                           else if String.eqb f "record_len" then Val (VInt (r_vlen rr))
                           else Exn XType
                       | Val _ => Exn XType | Exn z => Exn z end
    | EPackBlk kl rl => match eval kl with
                        | Val (VInt a) => match eval rl with Val (VInt b) => pack_blk a b | Val _ => Exn XStruct | Exn z => Exn z end
                        | Val _ => match eval rl with Exn z => Exn z | _ => Exn XStruct end
                        | Exn z => Exn z end
    | ETupGet i e1 => match eval e1 with
                      | Val (VTup l) => match nth_error l i with Some v => Val v | None => Exn XValue end
                      | Val _ => Exn XType | Exn z => Exn z end
    | ESelf => Val VSelf
    | EWritable => if s_closed (strm s) then Exn XValue else Val (VBool (s_wr (strm s)))
    | ETell => if s_closed (strm s) then Exn XValue else Val (VInt (s_pos (strm s)))
    end.
End Eval.

Inductive outcome := ONormal | OBreak | OReturn (v : val) | ORaise (x : exn).

Definition set_local (s : state) (x : string) (v : val) : state := mkst (file s) (strm s) (attrs s) (set_env (locals s) x v).
Definition set_attr (s : state) (a : string) (v : val) : state := mkst (file s) (strm s) (set_env (attrs s) a v) (locals s).
Definition restore_locals (s : state) (l : env) : state := mkst (file s) (strm s) (attrs s) l.
Definition set_pos (s : state) (p : N) : state := mkst (file s) (mks p (s_wr (strm s)) (s_closed (strm s))) (attrs s) (locals s).

(* read(n) at the current position: up to n bytes, fewer at the end of the file *)
Definition do_read (s : state) (n : N) : bytes * state :=
  let b := sub (file s) (s_pos (strm s)) n in (b, set_pos s (s_pos (strm s) + len b)).

(* struct.unpack on the bytes read; a short read makes it raise (caught by _unpack_read) *)
Definition unpack (h : hdr) (b : bytes) : option val :=
  match h, b with
  | HBlock, [kl; a; b1; c; d] => Some (VTup [VInt kl; VInt (rd32 a b1 c d)])
  | HFile, _ =>
      if Nat.eqb (List.length b) 32 then
        match skipn 16 b with
        | a :: b1 :: c :: d :: e :: g :: _ => Some (VTup [VBytes (firstn 16 b); VInt (a * 256 + b1); VInt (rd32 c d e g)])
        | _ => None
        end
      else None
  | _, _ => None
  end.
Definition hdr_size (h : hdr) : N := match h with HBlock => 5 | HFile => 32 end.

(* the callee's parameters, evaluated in the caller's state [s], set in the state the callee starts from *)
Fixpoint bind_args (s acc : state) (args : list (string * expr)) : res state :=
  match args with
  | [] => Val acc
  | (p, e) :: rest => match eval s e with
                      | Val v => bind_args s (set_local acc p v) rest
                      | Exn z => Exn z end
  end.

(* while x := <cnd> : body   -- at most n iterations (out of fuel = XOther, excluded by every theorem) *)
Fixpoint wloop (ec eb : state -> state * outcome) (x : string) (n : nat) (s : state) {struct n} : state * outcome :=
  match n with
  | O => (s, ORaise XOther)
  | S n' =>
      let '(s1, o) := ec s in
      match o with
      | ONormal =>
          match lookup_env (locals s1) x with
          | Some v =>
              if truthy v then
                let '(s2, o2) := eb s1 in
                match o2 with
                | ONormal => wloop ec eb x n' s2
                | OBreak => (s2, ONormal)
                | _ => (s2, o2)
                end
              else (s1, ONormal)
          | None => (s1, ORaise XOther)
          end
      | _ => (s1, o)
      end
  end.

Fixpoint exec (fuel : nat) (c : stmt) (s : state) {struct c} : state * outcome :=
  match c with
  | SSkip => (s, ONormal)
  | SSeq a b => let '(s1, o) := exec fuel a s in
                match o with ONormal => exec fuel b s1 | _ => (s1, o) end
  | SAssign x e => match eval s e with Val v => (set_local s x v, ONormal) | Exn z => (s, ORaise z) end
  | SSetAttr a e => match eval s e with Val v => (set_attr s a v, ONormal) | Exn z => (s, ORaise z) end
  | STocSet k v =>
      match eval s k with
      | Val (VBytes kb) =>
          match eval s v with
          | Val (VRec r) => match lookup_env (attrs s) "_toc" with
                            | Some (VToc t) => (set_attr s "_toc" (VToc (update t kb r)), ONormal)
                            | _ => (s, ORaise XType) end
          | Val _ => (s, ORaise XType) | Exn z => (s, ORaise z) end
      | Val _ => (s, ORaise XType)
      | Exn z => (s, ORaise z)
      end
  | SIf cnd a b => match eval s cnd with
                   | Val v => if truthy v then exec fuel a s else exec fuel b s
                   | Exn z => (s, ORaise z) end
  | SWhile cnd x body => wloop (exec fuel cnd) (exec fuel body) x fuel s
  | SBreak => (s, OBreak)
  | SRaise z => (s, ORaise z)
  | SReturn e => match eval s e with Val v => (s, OReturn v) | Exn z => (s, ORaise z) end
  | SSeek e => if s_closed (strm s) then (s, ORaise XValue) else
               match eval s e with Val (VInt p) => (set_pos s p, ONormal) | Val _ => (s, ORaise XType) | Exn z => (s, ORaise z) end
  | SSeekRel e => if s_closed (strm s) then (s, ORaise XValue) else
                  match eval s e with Val (VInt d) => (set_pos s (s_pos (strm s) + d), ONormal) | Val _ => (s, ORaise XType) | Exn z => (s, ORaise z) end
  | SSeekEnd x => if s_closed (strm s) then (s, ORaise XValue) else
                  let s1 := set_pos s (len (file s)) in (set_local s1 x (VInt (len (file s))), ONormal)
  | SRead x n => if s_closed (strm s) then (s, ORaise XValue) else
                 match eval s n with
                 | Val (VInt k) => let '(b, s1) := do_read s k in (set_local s1 x (VBytes b), ONormal)
                 | Val _ => (s, ORaise XType) | Exn z => (s, ORaise z) end
  | SWrite e => if s_closed (strm s) then (s, ORaise XValue) else
                match eval s e with
                | Val (VBytes b) =>
                    if s_wr (strm s) then
                      let p := s_pos (strm s) in
                      (mkst (write_at (file s) p b) (mks (p + len b) true false) (attrs s) (locals s), ONormal)
                    else (s, ORaise XUnsupported)
                | Val _ => (s, ORaise XType) | Exn z => (s, ORaise z) end
  | STruncate e => if s_closed (strm s) then (s, ORaise XValue) else
                   match eval s e with
                   | Val (VInt n) =>
                       if s_wr (strm s) then
                         (mkst (firstn (N.to_nat n) (file s) ++ repeat 0 (N.to_nat n - List.length (file s))) (strm s) (attrs s) (locals s), ONormal)
                       else (s, ORaise XUnsupported)
                   | Val _ => (s, ORaise XType) | Exn z => (s, ORaise z) end
  | SClose => (mkst (file s) (mks (s_pos (strm s)) (s_wr (strm s)) true) (attrs s) (locals s), ONormal)
  | SOpenStream w => (mkst (file s) (mks 0 w false) (attrs s) (locals s), ONormal)
  | SUnpackRead x h d =>
      if s_closed (strm s) then (set_local s x d, ONormal)          (* read raises ValueError: caught, default *)
      else let '(b, s1) := do_read s (hdr_size h) in
           match unpack h b with
           | Some v => (set_local s1 x v, ONormal)
           | None => (set_local s1 x d, ONormal)
           end
  | SCall args body =>
      match bind_args s s args with
      | Exn z => (s, ORaise z)
      | Val s0 =>
          let '(s1, o) := exec fuel body s0 in
          (restore_locals s1 (locals s),
           match o with
           | OReturn _ => ONormal
           | OBreak => ORaise XOther
           | _ => o
           end)
      end
  | SCallRet args body =>
      match bind_args s s args with
      | Exn z => (s, ORaise z)
      | Val s0 =>
          let '(s1, o) := exec fuel body s0 in
          (restore_locals s1 (locals s),
           match o with
           | ONormal => OReturn VNone
           | OBreak => ORaise XOther
           | _ => o
           end)
      end
  | STryElse body handler els =>
      let '(s1, o) := exec fuel body s in
      match o with
      | ORaise z => let '(s2, o2) := exec fuel handler s1 in
                    match o2 with ONormal => (s2, ORaise z) | _ => (s2, o2) end
      | ONormal => exec fuel els s1
      | _ => (s1, o)
      end
  | SUnmodelled => (s, ORaise XOther)
  end.

(* ---------------- the effects of a run on the file, in program order ----------------
   [effects fuel c s] lists what running c from s does TO THE FILE: each write with the position it goes to, each
   truncate with the new length.  It follows [exec] step by step (the states in between are exec's), and emits an
   effect exactly where exec changes [file].  Replaying the effects reproduces the file exec ends with
   (Proofs/UKVEffects.v: effects_replay).  The crash images of a run are the file after any number of complete effects
   plus any proper prefix of the bytes of the next write. *)
Inductive effect := EW (pos : N) (b : bytes) | ET (n : N).

Fixpoint wloop_eff (ec eb : state -> state * outcome) (fc fb : state -> list effect) (x : string) (n : nat) (s : state) : list effect :=
  match n with
  | O => []
  | S n' =>
      let '(s1, o) := ec s in
      fc s ++
      match o with
      | ONormal =>
          match lookup_env (locals s1) x with
          | Some v =>
              if truthy v then
                let '(s2, o2) := eb s1 in
                fb s1 ++ match o2 with ONormal => wloop_eff ec eb fc fb x n' s2 | _ => [] end
              else []
          | None => []
          end
      | _ => []
      end
  end.

Fixpoint effects (fuel : nat) (c : stmt) (s : state) {struct c} : list effect :=
  match c with
  | SSeq a b => let '(s1, o) := exec fuel a s in
                effects fuel a s ++ match o with ONormal => effects fuel b s1 | _ => [] end
  | SIf cnd a b => match eval s cnd with
                   | Val v => if truthy v then effects fuel a s else effects fuel b s
                   | Exn _ => [] end
  | SWhile cnd x body => wloop_eff (exec fuel cnd) (exec fuel body) (effects fuel cnd) (effects fuel body) x fuel s
  | SWrite e => if s_closed (strm s) then [] else
                match eval s e with
                | Val (VBytes b) => if s_wr (strm s) then [EW (s_pos (strm s)) b] else []
                | _ => [] end
  | STruncate e => if s_closed (strm s) then [] else
                   match eval s e with
                   | Val (VInt n) => if s_wr (strm s) then [ET n] else []
                   | _ => [] end
  | SCall args body | SCallRet args body => match bind_args s s args with Val s0 => effects fuel body s0 | Exn _ => [] end
  | STryElse body handler els =>
      let '(s1, o) := exec fuel body s in
      effects fuel body s ++
      match o with
      | ORaise _ => effects fuel handler s1
      | ONormal => effects fuel els s1
      | _ => []
      end
  | _ => []
  end.

Definition apply_effect (f : bytes) (e : effect) : bytes :=
  match e with
  | EW p b => write_at f p b
  | ET n => firstn (N.to_nat n) f ++ repeat 0 (N.to_nat n - List.length f)
  end.
Definition replay (f : bytes) (l : list effect) : bytes := fold_left apply_effect l f.

(* the effects are writes only, each at the position where the previous one ended, starting at e: together they append [Some bytes] *)
Fixpoint appended (e : N) (l : list effect) : option bytes :=
  match l with
  | [] => Some []
  | EW p b :: l' => if p =? e then match appended (e + len b) l' with Some r => Some (b ++ r) | None => None end else None
  | ET _ :: _ => None
  end.

(* img is a crash image of running the effects l on f: some effects complete, then possibly a proper prefix of the next write *)
Inductive is_image : bytes -> list effect -> bytes -> Prop :=
| img_here f l : is_image f l f
| img_step f e l img : is_image (apply_effect f e) l img -> is_image f (e :: l) img
| img_torn f p b l j : (j < List.length b)%nat -> is_image f (EW p b :: l) (write_at f p (firstn j b)).
