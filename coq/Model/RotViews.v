(* C11, handles and live arguments.  NO proofs in this file.  Anchors:
     molli/chem/ensemble.py   ConformerEnsemble.__iter__ / __getitem__ (Conformer = (ensemble, k) handle), Conformer._coords
     molli/chem/structure.py  Structure.substructure (Substructure = (parent, atoms) handle), Substructure.coords getter/setter
     molli/chem/geometry.py   CartesianGeometry.get_atom_coord / coords[k] (a VIEW of row k), translate, transform
     molli/math/rotation.py   rotation_matrix_from_vectors / rotation_matrix_from_axis (their arguments may be such views)
   Two things the per-call models (Model/Rot.v, Model/RotEns.v) leave implicit are made explicit here:
   (1) A conformer handed out by `ens[k]`, by iterating over the ensemble (`list(ens)`, `[cf.substructure(idx) for cf in ens]`,
       `zip`, `sorted`, ...) or a substructure of it IS the pair (ensemble, k) [and idx] for the rest of its life: an edit made
       through it, at any later time and in any order with edits through other handles, acts on conformer k.
   (2) A row view passed as an argument is read as the VALUE the row has at the time of the call; computing a rotation matrix
       from it is not an operation on the coordinate table. *)
From Coq Require Import List ZArith QArith Qabs Bool.
From Molli Require Import Common.Field3 Model.Rot Model.RotEns.
Import ListNotations.

Section Model.
Context {F : Type} (o : Fops F).
Local Notation vec := (vec F).
Local Notation mat := (mat F).

(* ---------------- (1) edits through handles ---------------- *)
(* the frame of `ens._coords[k] = f(ens._coords[k])` *)
Definition view_apply (k : nat) (f : list vec -> list vec) (E : list (list vec)) : list (list vec) :=
  update_rows (Nat.eqb k) f E.
(* cf.translate(v) / cf.substructure(idx).translate(v) for the handle of conformer k *)
Definition view_translate (k : nat) (idx : option (list nat)) (v : vec) : list (list vec) -> list (list vec) :=
  view_apply k (match idx with None => translate o v | Some l => sub_translate o (in_idx l) v end).
Definition view_transform (k : nat) (idx : option (list nat)) (M : mat) : list (list vec) -> list (list vec) :=
  view_apply k (match idx with None => transform o M | Some l => sub_transform o (in_idx l) M end).
(* a session: handles are collected first, the edits follow in any order *)
Definition view_edits (edits : list (nat * (list vec -> list vec))) (E : list (list vec)) : list (list vec) :=
  fold_left (fun Y e => view_apply (fst e) (snd e) Y) edits E.
(* what conformer c sees of such a session: the edits whose handle was taken for c, in order *)
Definition edits_on (c : nat) (edits : list (nat * (list vec -> list vec))) : list (list vec -> list vec) :=
  map snd (filter (fun e => Nat.eqb (fst e) c) edits).

(* ---------------- (2) arguments that are live rows ---------------- *)
(*   R = rotation_matrix_from_vectors(m.coords[k], w)   (swap: (w, m.coords[k]));  m.transform(R)     "put atom k along w"
     R = rotation_matrix_from_axis(m.coords[k], t);     m.transform(R)                                "turn about atom k"
     m.translate(m.coords[k])   /   m.substructure(idx).translate(m.coords[k])
   Each workflow returns (the table after the matrix was computed, the table after the motion). *)
Definition row_matrix_vec (tol : F) (X : list vec) (k : nat) (swap : bool) (w : vec) (nk nw : F) (ov : vec) : mat :=
  let xk := nth k X (vzero o) in
  if swap then rot_from_vectors o tol w nw xk nk ov else rot_from_vectors o tol xk nk w nw ov.
Definition orient_row (tol : F) (X : list vec) (k : nat) (swap : bool) (w : vec) (nk nw : F) (ov : vec)
  : list vec * list vec := (X, transform o (row_matrix_vec tol X k swap w nk nw ov) X).
Definition turn_about_row (X : list vec) (k : nat) (nk s c : F) : list vec * list vec :=
  (X, transform o (rot_from_axis o (nth k X (vzero o)) nk s c) X).
Definition shift_by_row (idx : option (list nat)) (X : list vec) (k : nat) : list vec :=
  let v := nth k X (vzero o) in
  match idx with None => translate o v X | Some l => sub_translate o (in_idx l) v X end.
End Model.

(* ======================= correspondence cases (Q instance) ======================= *)
Local Open Scope Q_scope.

(* one edit through the handle taken for conformer k: on the conformer itself (None) or on its substructure(idx) *)
Inductive vedit := VEdit (k : nat) (idx : option (list nat)) (op : gop).
Definition apply_vedit (e : vedit) : list (list vecQ) -> list (list vecQ) :=
  match e with
  | VEdit k idx (GTranslate v) => view_translate QOps k idx v
  | VEdit k idx (GTransform M) => view_transform QOps k idx M
  end.
Definition vedit_ok (nc na : nat) (e : vedit) : bool :=
  let '(VEdit k idx _) := e in
  Nat.ltb k nc && match idx with None => true | Some l => forallb (fun i => Nat.ltb i na) l end.

Inductive vcase :=
(* handles collected from an ensemble E (a molecule = an ensemble of one), then the edits, one after the other; E' is left *)
| VViews (E : list (list vecQ)) (edits : list vedit) (E' : list (list vecQ))
(* the matrix M returned for (row k of X, w) [swap: (w, row k)], the table Xm right after the matrix was computed, the table
   X' after transform(M);  ov as in CVec *)
| VOrient (tol : Q) (X : list vecQ) (k : nat) (swap : bool) (w : vecQ) (nk nw : Q) (ov : option (vecQ * Q))
          (M : matQ) (Xm X' : list vecQ)
(* rotation_matrix_from_axis(row k of X, atan2(s, c)) returned M; Xm, X' as above *)
| VOrientAxis (X : list vecQ) (k : nat) (nk s c : Q) (M : matQ) (Xm X' : list vecQ)
(* translate(row k of X) on the whole structure (None) or on substructure(idx) *)
| VShiftRow (X : list vecQ) (idx : option (list nat)) (k : nat) (X' : list vecQ).

Definition vcheck (c : vcase) : bool :=
  match c with
  | VViews E edits E' =>
      rect (n_atoms_of E) E && forallb (vedit_ok (length E) (n_atoms_of E)) edits &&
      ens_closeQ eps_abs (fold_left (fun Y e => apply_vedit e Y) edits E) E'
  | VOrient tol X k swap w nk nw ov M Xm X' =>
      let xk := nth k X (vzero QOps) in
      Nat.ltb k (length X) &&
      (if swap then check (CVec tol w nw xk nk ov M) else check (CVec tol xk nk w nw ov M)) &&
      rows_closeQ 0 X Xm &&
      rows_closeQ eps_abs (transform QOps M X) X'
  | VOrientAxis X k nk s c M Xm X' =>
      Nat.ltb k (length X) && check (CAxis (nth k X (vzero QOps)) nk s c M) &&
      rows_closeQ 0 X Xm &&
      rows_closeQ eps_abs (snd (turn_about_row QOps X k nk s c)) X'
  | VShiftRow X idx k X' =>
      Nat.ltb k (length X) && rows_closeQ eps_abs (shift_by_row QOps idx X k) X'
  end.
