(* C17 -- "A job runs exactly what was asked and reports exactly what happened".
   Executable model of
     (i)  molli/pipeline/job.py  Job.__get__      : binding of the SHARED Job descriptor to a driver instance
     (ii) molli/pipeline/runner.py run_local      : files materialised, environment overlay, command loop with
                                                    first-failure break, named captures, returned files, exit
                                                    status, scratch directory removed on every path.
   Commands are abstract: what a command does is an oracle `exec` (Section variable) that maps the command,
   the environment it is given and the scratch directory's contents to an exit code, stdout, stderr, the new
   directory contents and its effects outside the directory.  For the correspondence runs the oracle is
   instantiated with `sh_exec`, an interpreter of the tiny script language the harness renders as `sh -c '...'`.
   No proofs in this file (Proofs/Job.v). *)
From Coq Require Import List Bool NArith ZArith String Ascii.
Import ListNotations.
Local Open Scope string_scope.

Definition bytes (l : list N) : string := string_of_list_ascii (map ascii_of_N l).
Definition nl : string := String (ascii_of_N 10) EmptyString.

(* ------------------------------------------------------------------ python dict = insertion-ordered assoc list *)
Section Dict.
  Context {V : Type}.
  Fixpoint dget (k : string) (d : list (string * V)) : option V :=
    match d with
    | [] => None
    | (k', v) :: r => if String.eqb k k' then Some v else dget k r
    end.
  (* d[k] = v : an existing key keeps its position *)
  Fixpoint dset (k : string) (v : V) (d : list (string * V)) : list (string * V) :=
    match d with
    | [] => [(k, v)]
    | (k', v') :: r => if String.eqb k k' then (k, v) :: r else (k', v') :: dset k v r
    end.
  Fixpoint ddel (k : string) (d : list (string * V)) : list (string * V) :=
    match d with
    | [] => []
    | (k', v') :: r => if String.eqb k k' then r else (k', v') :: ddel k r
    end.
  Definition dhas (k : string) (d : list (string * V)) : bool :=
    match dget k d with Some _ => true | None => false end.
  (* a | b *)
  Definition dmerge (a b : list (string * V)) : list (string * V) :=
    fold_left (fun acc kv => dset (fst kv) (snd kv) acc) b a.
End Dict.

Definition env := list (string * string).     (* environment variables *)
Definition fs := list (string * string).      (* a directory: file name -> bytes *)

(* ================================================================== (i) descriptor binding *)
(* Settings as python values: None / str ("" is falsy), None / int (0 is falsy), None / dict. *)
Record settings := mk_settings {
  s_exe : option string; s_nprocs : option N; s_mem : option N; s_env : option env }.
Definition no_settings : settings := mk_settings None None None None.

(* what the prep function sees as `self.executable`, `self.nprocs`, `self.memory`, `self.envars` *)
Record bound := mk_bound { b_exe : option string; b_nprocs : N; b_mem : N; b_env : env }.

Definition or_s (a b : option string) : option string :=       (* python `a or b` *)
  match a with Some s => if String.eqb s "" then b else a | None => b end.
Definition or_n (a b : option N) : option N :=
  match a with Some (Npos _) => a | _ => b end.
Definition n_or (a : option N) (dflt : N) : N :=
  match a with Some (Npos p) => Npos p | _ => dflt end.
Definition env_of (o : option env) : env := match o with Some e => e | None => [] end.

(* Job.__get__(self=job, obj=inst, objtype=cls) *)
Definition bind (job cls inst : settings) : bound :=
  {| b_exe := or_s (s_exe job) (or_s (s_exe cls) (s_exe inst));
     b_nprocs := n_or (or_n (s_nprocs job) (or_n (s_nprocs cls) (s_nprocs inst))) 1;
     b_mem := n_or (or_n (s_mem job) (or_n (s_mem cls) (s_mem inst))) 1000;
     b_env := dmerge (dmerge (env_of (s_env cls)) (env_of (s_env inst))) (env_of (s_env job)) |}.

(* State: the fields of the one Job object shared by all instances (and subclasses) of a driver class,
   the drivers created so far (class-level attributes, instance attributes), and the bound job objects the
   caller is HOLDING (`h = d_i.job`, kept in a variable / handed to jobmap / captured by the lazily evaluated
   generator of a vectorised job) with the settings each of them carries. *)
Record bstate := mk_bstate {
  bs_shared : settings; bs_drivers : list (N * (settings * settings)); bs_held : list (N * bound) }.

Fixpoint nget {V} (i : N) (l : list (N * V)) : option V :=
  match l with [] => None | (j, v) :: r => if N.eqb i j then Some v else nget i r end.
Fixpoint nset {V} (i : N) (v : V) (l : list (N * V)) : list (N * V) :=
  match l with [] => [(i, v)] | (j, w) :: r => if N.eqb i j then (i, v) :: r else (j, w) :: nset i v r end.

Inductive bevent :=
| BCreate (i : N) (cls inst : settings)   (* d_i = Cls_i(settings inst) *)
| BSet (i : N) (inst : settings)          (* attributes of d_i reassigned *)
| BUse (i : N)                            (* d_i.job.prepare(...)   : obtained and used at once *)
| BUseCls (i : N)                         (* type(d_i).job.prepare(...)      (obj = None) *)
| BGet (i h : N)                          (* h = d_i.job            : obtained and KEPT (nothing prepared yet) *)
| BGetCls (i h : N)                       (* h = type(d_i).job *)
| BPrep (h : N).                          (* h.prepare(...)         : a previously obtained bound job is used *)

(* what the descriptor would hold if __get__ stored the resolved values in the shared object *)
Definition absorb (b : bound) : settings :=
  mk_settings (b_exe b) (Some (b_nprocs b)) (Some (b_mem b)) (Some (b_env b)).

(* MCopy  : __get__ as written -- every access binds a FRESH copy, so a bound job is a value fixed when obtained.
   MSticky: the variant that assigns to the shared descriptor (the code before repair bb90cdd).
   MShared: the variant that allocates ONE bound object per descriptor and refreshes it on every access: all the
            objects handed out are the same object, so every access rewrites what every holder sees.
   The last two are kept only for the refutation lemmas and the failing-input search. *)
Inductive bmode := MCopy | MSticky | MShared.

Definition after_access (m : bmode) (st : bstate) (b : bound) (keep : option N) : bstate :=
  let shared := match m with MSticky => absorb b | _ => bs_shared st end in
  let held := match m with MShared => map (fun hv => (fst hv, b)) (bs_held st) | _ => bs_held st end in
  mk_bstate shared (bs_drivers st) (match keep with Some h => nset h b held | None => held end).

Definition bstep (m : bmode) (st : bstate) (ev : bevent) : bstate * option bound :=
  match ev with
  | BCreate i c s => (mk_bstate (bs_shared st) (nset i (c, s) (bs_drivers st)) (bs_held st), None)
  | BSet i s =>
      match nget i (bs_drivers st) with
      | Some (c, _) => (mk_bstate (bs_shared st) (nset i (c, s) (bs_drivers st)) (bs_held st), None)
      | None => (st, None)
      end
  | BUse i =>
      match nget i (bs_drivers st) with
      | Some (c, s) => let b := bind (bs_shared st) c s in (after_access m st b None, Some b)
      | None => (st, None)
      end
  | BUseCls i =>
      match nget i (bs_drivers st) with
      | Some (c, _) => let b := bind (bs_shared st) c no_settings in (after_access m st b None, Some b)
      | None => (st, None)
      end
  | BGet i h =>      (* observed: the attributes of the object just obtained *)
      match nget i (bs_drivers st) with
      | Some (c, s) => let b := bind (bs_shared st) c s in (after_access m st b (Some h), Some b)
      | None => (st, None)
      end
  | BGetCls i h =>
      match nget i (bs_drivers st) with
      | Some (c, _) => let b := bind (bs_shared st) c no_settings in (after_access m st b (Some h), Some b)
      | None => (st, None)
      end
  | BPrep h => (st, nget h (bs_held st))     (* observed: what the prep function sees through the kept object *)
  end.

Fixpoint brun (m : bmode) (st : bstate) (evs : list bevent) : bstate * list (option bound) :=
  match evs with
  | [] => (st, [])
  | ev :: r => let '(st1, o) := bstep m st ev in
               let '(st2, os) := brun m st1 r in (st2, o :: os)
  end.

Definition binit (decl : settings) : bstate := mk_bstate decl [] [].

(* ---- boolean equalities for the correspondence *)
Definition opt_eqb {A} (e : A -> A -> bool) (a b : option A) : bool :=
  match a, b with Some x, Some y => e x y | None, None => true | _, _ => false end.
Fixpoint list_eqb {A} (e : A -> A -> bool) (a b : list A) : bool :=
  match a, b with [] , [] => true | x :: a', y :: b' => e x y && list_eqb e a' b' | _, _ => false end.
Definition pair_eqb (a b : string * string) : bool := String.eqb (fst a) (fst b) && String.eqb (snd a) (snd b).
(* a dict is a mapping: compared as a set of pairs (Python dict equality ignores insertion order) *)
Definition dict_eqb (a b : list (string * string)) : bool :=
  Nat.eqb (List.length a) (List.length b) && forallb (fun x => existsb (pair_eqb x) b) a && forallb (fun x => existsb (pair_eqb x) a) b.
Definition bound_eqb (a b : bound) : bool :=
  opt_eqb String.eqb (b_exe a) (b_exe b) && N.eqb (b_nprocs a) (b_nprocs b) && N.eqb (b_mem a) (b_mem b)
  && dict_eqb (b_env a) (b_env b).

(* one correspondence case: declared settings of the Job, history, what every step showed on the real objects *)
Record bcase := mk_bcase { bc_decl : settings; bc_events : list bevent; bc_obs : list (option bound) }.
Definition check_bcase (c : bcase) : bool :=
  list_eqb (opt_eqb bound_eqb) (snd (brun MCopy (binit (bc_decl c)) (bc_events c))) (bc_obs c).

(* ================================================================== (ii) run_local *)
Record cmd_result := mk_res {
  r_code : Z;             (* proc.returncode *)
  r_out : string; r_err : string;
  r_fs : fs;              (* the scratch directory after the command *)
  r_ext : list string }.  (* effects outside the scratch directory, in order *)

Record joboutput := mk_jo {
  jo_stdouts : list (string * string); jo_stderrs : list (string * string);
  jo_exitcode : Z; jo_files : list (string * string); jo_hash : string }.

(* Crashed: run_local ends with an uncaught exception -- no output file, interpreter exit status 1 *)
Inductive outcome := Done (status : Z) (out : joboutput) | Crashed.

Section RunLocal.
  Variable cmd : Type.
  Variable exec : cmd -> env -> fs -> cmd_result.

  Record jobinput := mk_ji {
    ji_jid : string;
    ji_cmds : list (cmd * option string);     (* (command, name or None) *)
    ji_files : option fs;                      (* files to materialise (None: not a dict) *)
    ji_ret : option (list string);             (* requested files *)
    ji_env : option env }.

  Variable hash : jobinput -> string.         (* JobInput.hash (msgpack + sha3-512; opaque here) *)

  Definition materialise (fl : option fs) : fs :=
    match fl with
    | Some l => fold_left (fun acc kv => dset (fst kv) (snd kv) acc) l []
    | None => []
    end.
  (* environ = os.environ.copy(); environ |= job.envars *)
  Definition overlay (base : env) (o : option env) : env :=
    match o with Some e => dmerge base e | None => base end.

  Record step := mk_step {
    st_cmd : cmd; st_name : option string;
    st_before : fs;            (* directory the command started in (capture files already opened) *)
    st_res : cmd_result;
    st_after : fs }.           (* directory after the command and its captures *)

  Definition open_caps (nm : option string) (f : fs) : fs :=
    match nm with Some n => dset (n ++ ".err") "" (dset (n ++ ".out") "" f) | None => f end.
  Definition close_caps (nm : option string) (r : cmd_result) : fs :=
    match nm with
    | Some n => dset (n ++ ".err") (r_err r) (dset (n ++ ".out") (r_out r) (r_fs r))
    | None => r_fs r
    end.

  (* for i, (cmd, name) in enumerate(job.commands): ... if proc.returncode != 0: break *)
  Fixpoint loop (e : env) (cs : list (cmd * option string)) (f : fs) : list step :=
    match cs with
    | [] => []
    | (c, nm) :: rest =>
        let f0 := open_caps nm f in
        let r := exec c e f0 in
        let f1 := close_caps nm r in
        let s := mk_step c nm f0 r f1 in
        if (r_code r =? 0)%Z then s :: loop e rest f1 else [s]
    end.

  Definition names_of (sts : list step) : list string :=
    flat_map (fun s => match st_name s with Some n => [n] | None => [] end) sts.
  Fixpoint final_fs (f0 : fs) (sts : list step) : fs :=      (* the directory after the last executed command *)
    match sts with [] => f0 | s :: r => final_fs (st_after s) r end.
  Definition last_code (sts : list step) : option Z :=
    match rev sts with s :: _ => Some (r_code (st_res s)) | [] => None end.

  (* for name in names: stdouts[name] = open(name + ext).read()   -- None: FileNotFoundError *)
  Fixpoint read_caps (ext : string) (f : fs) (names : list string) (acc : list (string * string))
    : option (list (string * string)) :=
    match names with
    | [] => Some acc
    | n :: r => match dget (n ++ ext) f with
                | Some v => read_caps ext f r (dset n v acc)
                | None => None
                end
    end.

  (* {str(f): f.read_bytes() for f in return_files if f.is_file()} *)
  Definition collect (f : fs) (req : list string) : list (string * string) :=
    fold_left (fun acc n => match dget n f with Some v => dset n v acc | None => acc end) req [].
  Definition all_present (f : fs) (req : list string) : bool := forallb (fun n => dhas n f) req.
  Definition requested (inp : jobinput) : list string := match ji_ret inp with Some l => l | None => [] end.

  (* the body of `with TemporaryDirectory(...) as td:` *)
  Definition body (base : env) (inp : jobinput) : outcome * list step :=
    let f0 := materialise (ji_files inp) in
    let e := overlay base (ji_env inp) in
    let sts := loop e (ji_cmds inp) f0 in
    let f := final_fs f0 sts in
    let names := names_of sts in
    match read_caps ".out" f names [], read_caps ".err" f names [] with
    | Some so, Some se =>
        let req := requested inp in
        let rf := collect f req in
        match last_code sts with
        | None => (Crashed, sts)                         (* no command at all: `proc` is unbound *)
        | Some c =>
            let ok := all_present f req in
            let code := if (c =? 0)%Z && negb ok then 1%Z else c in
            let status := if negb (c =? 0)%Z || negb ok then 1%Z else c in
            (Done status (mk_jo so se code rf (hash inp)), sts)
        end
    | _, _ => (Crashed, sts)
    end.

  Record run_result := mk_rr {
    rr_outcome : outcome;
    rr_steps : list step;          (* the commands that were executed, in order *)
    rr_ext : list string;          (* their effects outside the scratch directory *)
    rr_scratch : list string }.    (* entries of scratch_dir afterwards *)

  Fixpoint remove_name (n : string) (l : list string) : list string :=
    match l with [] => [] | x :: r => if String.eqb n x then r else x :: remove_name n r end.

  (* `with TemporaryDirectory(dir=scratch_dir, prefix=jid + "__") as td: body` : td is created, the body runs
     (returns, raises or calls exit()), td is removed whichever way the body ended. *)
  Definition run_local (scratch : list string) (td : string) (base : env) (inp : jobinput) : run_result :=
    let scratch1 := td :: scratch in
    let '(o, sts) := body base inp in
    mk_rr o sts (flat_map (fun s => r_ext (st_res s)) sts) (remove_name td scratch1).
End RunLocal.

Arguments mk_ji {cmd}.
Arguments ji_jid {cmd}. Arguments ji_cmds {cmd}. Arguments ji_files {cmd}. Arguments ji_ret {cmd}. Arguments ji_env {cmd}.
Arguments mk_step {cmd}. Arguments st_cmd {cmd}. Arguments st_name {cmd}. Arguments st_before {cmd}.
Arguments st_res {cmd}. Arguments st_after {cmd}.
Arguments names_of {cmd}. Arguments final_fs {cmd}. Arguments last_code {cmd}. Arguments requested {cmd}.
Arguments rr_outcome {cmd}. Arguments rr_steps {cmd}. Arguments rr_ext {cmd}. Arguments rr_scratch {cmd}.

(* ================================================================== scripted commands (the oracle of the tie) *)
(* One command is rendered by the harness as  sh -c 'p1; p2; ...; exit N'.  Primitives never abort the script. *)
Inductive prim :=
| POut (s : string)              (* printf %s "s"            *)
| PErr (s : string)              (* printf %s 's' >&2        *)
| PWrite (f s : string)          (* printf %s 's' > f        *)
| PAppend (f s : string)         (* printf %s 's' >> f       *)
| PCopy (a b : string)           (* cat a > b 2>/dev/null    (b is created empty when a is missing) *)
| PCat (a : string)              (* cat a 2>/dev/null        *)
| PEnv (v : string)              (* printf %s "$v"           *)
| PRm (f : string)               (* rm -f f                  *)
| PExists (f : string)           (* test -e f && printf 1 || printf 0 *)
| PPwd                           (* pwd   (the harness replaces the job's private directory by <cwd>) *)
| PMark (s : string).            (* echo s >> $TRACE   (a file outside the scratch directory) *)

Definition script := (list prim * Z)%type.

Definition prim_step (e : env) (acc : cmd_result) (p : prim) : cmd_result :=
  let '(mk_res c o er f x) := acc in
  match p with
  | POut s => mk_res c (o ++ s) er f x
  | PErr s => mk_res c o (er ++ s) f x
  | PWrite n s => mk_res c o er (dset n s f) x
  | PAppend n s => mk_res c o er (dset n (match dget n f with Some v => v ++ s | None => s end) f) x
  | PCopy a b => mk_res c o er (dset b (match dget a f with Some v => v | None => "" end) f) x
  | PCat a => mk_res c (o ++ match dget a f with Some v => v | None => "" end) er f x
  | PEnv v => mk_res c (o ++ match dget v e with Some s => s | None => "" end) er f x
  | PRm n => mk_res c o er (ddel n f) x
  | PExists n => mk_res c (o ++ if dhas n f then "1" else "0") er f x
  | PPwd => mk_res c (o ++ "<cwd>" ++ nl) er f x
  | PMark s => mk_res c o er f (x ++ [s])
  end.

Definition sh_exec (s : script) (e : env) (f : fs) : cmd_result :=
  let r := fold_left (prim_step e) (fst s) (mk_res 0 "" "" f []) in
  mk_res (snd s) (r_out r) (r_err r) (r_fs r) (r_ext r).

(* ---- correspondence case for run_local *)
Definition jo_eqb (a b : joboutput) : bool :=
  dict_eqb (jo_stdouts a) (jo_stdouts b) && dict_eqb (jo_stderrs a) (jo_stderrs b)
  && Z.eqb (jo_exitcode a) (jo_exitcode b) && dict_eqb (jo_files a) (jo_files b)
  && String.eqb (jo_hash a) (jo_hash b).

Record rcase := mk_rcase {
  rc_base : env;                       (* variables of the calling environment the scripts may read *)
  rc_inp : jobinput script;
  rc_hash : string;                    (* JobInput.hash of the input the harness built *)
  rc_status : Z;                       (* exit status of the _molli_run process *)
  rc_out : option joboutput;           (* the output file, if one was written *)
  rc_ext : list string;                (* lines of the external trace file *)
  rc_residue : list string }.          (* entries left in scratch_dir *)

Definition check_rcase (c : rcase) : bool :=
  let r := run_local script sh_exec (fun _ => rc_hash c) [] "<td>" (rc_base c) (rc_inp c) in
  match rr_outcome r, rc_out c with
  | Done st o, Some o' => Z.eqb st (rc_status c) && jo_eqb o o'
  | Crashed, None => Z.eqb 1 (rc_status c)
  | _, _ => false
  end
  && list_eqb String.eqb (rr_ext r) (rc_ext c)
  && list_eqb String.eqb (rr_scratch r) (rc_residue c).
