(* C15: molecular graph queries of molli/chem/bond.py (class Connectivity), mirrored statement by
   statement.  Atoms are their indices in `atoms`, a bond is the pair (index of a1, index of a2) in
   the order stored in `_bonds`; the bond list may contain parallel bonds and self loops (the code
   accepts them), the theorems say where they need a simple graph.
   NO proofs in this file: everything here is executable and is what the correspondence shards run. *)
From Coq Require Import Arith List Bool NArith QArith.
Import ListNotations.
Open Scope nat_scope.

Definition graph := list (nat * nat).

(* ---- Bond.__contains__ (`a in b`) and Bond.__mod__ (`b % a`) ---- *)
Definition bond_has (b : nat * nat) (a : nat) : bool := (fst b =? a) || (snd b =? a).
Definition bond_other (b : nat * nat) (a : nat) : nat := if fst b =? a then snd b else fst b.

(* ---- bonds_with_atom: `for b in self._bonds: if _a in b: yield b`; bonds are reported by their
        position in the bond list ---- *)
Fixpoint bwa_from (i : nat) (g : graph) (a : nat) : list nat :=
  match g with
  | [] => []
  | b :: r => if bond_has b a then i :: bwa_from (S i) r a else bwa_from (S i) r a
  end.
Definition bonds_with_atom (g : graph) (a : nat) : list nat := bwa_from 0 g a.

(* ---- connected_atoms: `for b in self.bonds_with_atom(_a): yield b % _a` ---- *)
Definition connected_atoms (g : graph) (a : nat) : list nat :=
  map (fun b => bond_other b a) (filter (fun b => bond_has b a) g).

(* ---- n_bonds_with_atom: `sum(1 for _ in self.connected_atoms(a))` ---- *)
Definition n_bonds_with_atom (g : graph) (a : nat) : nat := length (connected_atoms g a).

(* ---- Bond.order as a function of (btype value, f_order); tabulated against the code in
        Gen/MatchPreds.v on every run ---- *)
Definition bond_order (bt : N) (f_order : Q) : Q :=
  match bt with
  | 0%N => 0 | 1%N => 1 | 2%N => 2 | 3%N => 3 | 4%N => 4 | 5%N => 5 | 6%N => 6
  | 20%N => 3 # 2                      (* Aromatic *)
  | 99%N => f_order                    (* FractionalOrder *)
  | 101%N => 0                         (* H_Acceptor *)
  | 10%N | 98%N | 11%N => 0            (* Dummy | Ligand | NotConnected *)
  | _ => 1
  end%Q.

(* ---- bonded_valence: `val = 0.0; for b in self.bonds_with_atom(a): val += b.order` ---- *)
Definition bonded_valence (g : graph) (ord : nat -> Q) (a : nat) : Q :=
  fold_left (fun acc i => acc + ord i)%Q (bonds_with_atom g a) 0%Q.

(* ---- `a in visited` on a set of atoms ---- *)
Definition mem (a : nat) (l : list nat) : bool := existsb (Nat.eqb a) l.

(* ---- collections.deque: the head of the list is the LEFT end ---- *)
Definition dq_append {A} (x : A) (q : list A) : list A := q ++ [x].
Definition dq_appendleft {A} (x : A) (q : list A) : list A := x :: q.
Definition dq_pop {A} (q : list A) : option (A * list A) :=        (* pops the RIGHT end *)
  match rev q with
  | [] => None
  | x :: r => Some (x, rev r)
  end.

(* ---- yield_bfsd -------------------------------------------------------------------------
     while queue:
         start, dist = queue.pop()
         for a in self.connected_atoms(start):
             if a not in visited:
                 yield (a, dist + 1); visited.add(a); queue.appendleft((a, dist + 1))          *)
Fixpoint scan_d (ns : list nat) (d1 : nat) (visited : list nat) (dq : list (nat * nat))
  : list nat * list (nat * nat) * list (nat * nat) :=             (* visited', deque', yielded *)
  match ns with
  | [] => (visited, dq, [])
  | a :: ns' =>
      if mem a visited then scan_d ns' d1 visited dq
      else let '(v', dq', out) := scan_d ns' d1 (a :: visited) (dq_appendleft (a, d1) dq) in
           (v', dq', (a, d1) :: out)
  end.

Fixpoint loop_d (fuel : nat) (g : graph) (visited : list nat) (dq : list (nat * nat)) {struct fuel}
  : option (list (nat * nat)) :=                                   (* None = out of fuel *)
  match dq_pop dq with
  | None => Some []
  | Some ((u, d), dq1) =>
      match fuel with
      | O => None
      | S fuel' =>
          let '(v', dq', out) := scan_d (connected_atoms g u) (S d) visited dq1 in
          match loop_d fuel' g v' dq' with
          | Some rest => Some (out ++ rest)
          | None => None
          end
      end
  end.

Inductive bres (A : Type) := BOk (l : list A) | BAssert | BFuel.
Arguments BOk {A} l. Arguments BAssert {A}. Arguments BFuel {A}.

(* enough for every graph (Proofs/Graph.v: bfs_fuel_enough): each turn pops one deque entry and an
   atom is pushed at most once *)
Definition bfs_fuel (g : graph) : nat := S (2 * length g).

Definition yield_bfsd (g : graph) (start : nat) (dir : option nat) : bres (nat * nat) :=
  match dir with
  | None =>
      match loop_d (bfs_fuel g) g [start] (dq_append (start, 0) []) with
      | Some o => BOk o
      | None => BFuel
      end
  | Some d =>
      if mem d (connected_atoms g start)                (* the `assert direction in set(...)` *)
      then match loop_d (bfs_fuel g) g (d :: [start]) (dq_append (d, 1) []) with
           | Some o => BOk ((d, 1) :: o)
           | None => BFuel
           end
      else BAssert
  end.

(* ---- yield_bfs: the same loop written a second time in the code, without distances ---- *)
Fixpoint scan_n (ns : list nat) (visited : list nat) (dq : list nat) : list nat * list nat * list nat :=
  match ns with
  | [] => (visited, dq, [])
  | a :: ns' =>
      if mem a visited then scan_n ns' visited dq
      else let '(v', dq', out) := scan_n ns' (a :: visited) (dq_appendleft a dq) in (v', dq', a :: out)
  end.

Fixpoint loop_n (fuel : nat) (g : graph) (visited : list nat) (dq : list nat) {struct fuel} : option (list nat) :=
  match dq_pop dq with
  | None => Some []
  | Some (u, dq1) =>
      match fuel with
      | O => None
      | S fuel' =>
          let '(v', dq', out) := scan_n (connected_atoms g u) visited dq1 in
          match loop_n fuel' g v' dq' with
          | Some rest => Some (out ++ rest)
          | None => None
          end
      end
  end.

Definition yield_bfs (g : graph) (start : nat) (dir : option nat) : bres nat :=
  match dir with
  | None =>
      match loop_n (bfs_fuel g) g [start] (dq_append start []) with
      | Some o => BOk o
      | None => BFuel
      end
  | Some d =>
      if mem d (connected_atoms g start)
      then match loop_n (bfs_fuel g) g (d :: [start]) (dq_append d []) with
           | Some o => BOk (d :: o)
           | None => BFuel
           end
      else BAssert
  end.

(* ---- is_bond_in_ring ----------------------------------------------------------------------
     connections = {a for a in self.connected_atoms(_b.a1) if a != _b.a2}
     for a in self.yield_bfs(_b.a1, _b.a2):
         if a in connections: return True
     return False                                                                              *)
Definition is_bond_in_ring (g : graph) (b : nat * nat) : option bool :=   (* None = the call raises / no fuel *)
  let connections := filter (fun a => negb (a =? snd b)) (connected_atoms g (fst b)) in
  match yield_bfs g (fst b) (Some (snd b)) with
  | BOk l => Some (existsb (fun a => mem a connections) l)
  | _ => None
  end.

(* ---- graph surgery used by the specifications ---- *)
Definition remove_vertex (g : graph) (x : nat) : graph := filter (fun b => negb (bond_has b x)) g.
Definition joins (b : nat * nat) (x y : nat) : bool :=
  ((fst b =? x) && (snd b =? y)) || ((fst b =? y) && (snd b =? x)).
Definition remove_bond (g : graph) (x y : nat) : graph := filter (fun b => negb (joins b x y)) g.

(* ================================================================== correspondence cases *)
Definition eqb_pair (p q : nat * nat) : bool := (fst p =? fst q) && (snd p =? snd q).
Fixpoint eqb_list {A} (e : A -> A -> bool) (l1 l2 : list A) : bool :=
  match l1, l2 with
  | [], [] => true
  | x :: r1, y :: r2 => e x y && eqb_list e r1 r2
  | _, _ => false
  end.
Definition eqb_bres {A} (e : A -> A -> bool) (r1 r2 : bres A) : bool :=
  match r1, r2 with
  | BOk l1, BOk l2 => eqb_list e l1 l2
  | BAssert, BAssert => true
  | _, _ => false                    (* the implementation can never report BFuel *)
  end.
Definition eqb_optbool (a b : option bool) : bool :=
  match a, b with Some x, Some y => Bool.eqb x y | None, None => true | _, _ => false end.

(* what was asked of the implementation and what it answered *)
Inductive query :=
| QBfsd (s : nat) (dir : option nat) (obs : bres (nat * nat))   (* list(m.yield_bfsd(s, dir)) as (atom index, distance) *)
| QBfs (s : nat) (dir : option nat) (obs : bres nat)            (* list(m.yield_bfs(s, dir)) *)
| QRing (bi : nat) (obs : option bool)                          (* m.is_bond_in_ring(m.bonds[bi]) *)
| QBonds (a : nat) (obs : list nat)                             (* indices of list(m.bonds_with_atom(a)) *)
| QConn (a : nat) (obs : list nat)                              (* list(m.connected_atoms(a)) *)
| QNb (a : nat) (obs : nat)                                     (* m.n_bonds_with_atom(a) *)
| QVal (a : nat) (obs : Q).                                     (* m.bonded_valence(a), exact *)

Record gcase := mk_gcase { gc_bonds : graph; gc_types : list (N * Q); gc_queries : list query }.

Definition ord_of (types : list (N * Q)) (i : nat) : Q :=
  match nth_error types i with Some (bt, f) => bond_order bt f | None => 0%Q end.

Definition check_query (g : graph) (types : list (N * Q)) (q : query) : bool :=
  match q with
  | QBfsd s dir obs => eqb_bres eqb_pair (yield_bfsd g s dir) obs
  | QBfs s dir obs => eqb_bres Nat.eqb (yield_bfs g s dir) obs
  | QRing bi obs => match nth_error g bi with
                    | Some b => eqb_optbool (is_bond_in_ring g b) obs
                    | None => false
                    end
  | QBonds a obs => eqb_list Nat.eqb (bonds_with_atom g a) obs
  | QConn a obs => eqb_list Nat.eqb (connected_atoms g a) obs
  | QNb a obs => n_bonds_with_atom g a =? obs
  | QVal a obs => Qeq_bool (bonded_valence g (ord_of types) a) obs
  end.

Definition check_gcase (c : gcase) : bool :=
  forallb (check_query (gc_bonds c) (gc_types c)) (gc_queries c).
