(* C06 -- chains of copy routes (a copy of a copy of ...): executable definitions only.
   A step is (alias row of the route, what the call supplies, class code of the result). *)
From Coq Require Import List Bool ZArith.
Import ListNotations.
From Molli Require Import Model.Alias.

Definition step := (row * given * Z)%type.

Fixpoint copy_chain (steps : list step) (h : heap) (o : loc) : option (heap * loc) :=
  match steps with
  | [] => Some (h, o)
  | (r, g, d) :: rest =>
      match copy_row r g d h o with
      | Some (h1, o1) => copy_chain rest h1 o1
      | None => None
      end
  end.

(* what a chain has to reproduce: the fields EVERY step has to *)
Definition full_need : need := mk_need true true true true true true.
Definition need_meet (a b : need) : need :=
  mk_need (n_bonds a && n_bonds b) (n_coords a && n_coords b) (n_charges a && n_charges b)
          (n_weights a && n_weights b) (n_scal a && n_scal b) (n_attrib a && n_attrib b).
Definition meet_all (nds : list need) : need := fold_right need_meet full_need nds.

(* a chain of routes through the classes, looked up in the regenerated table: k0 -r1-> dst_of k0 r1 -r2-> ... *)
Fixpoint route_chain (t : list entry) (known : known_t) (k : kls) (rs : list (route * given)) : option (list step * list need) :=
  match rs with
  | [] => Some ([], [])
  | (r, g) :: rest =>
      match lookup_row t k r, route_chain t known (dst_of k r) rest with
      | Some x, Some (ss, ns) => if lone k then None else Some ((x, g, kls_code (dst_of k r)) :: ss, need_known known k r :: ns)
      | _, _ => None
      end
  end.
