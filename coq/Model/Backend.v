(* Model of molli/storage/backends.py (CollectionBackendBase + UkvCollectionBackend) and of
   Collection's item access, on top of Model/UKV.v: write queue, key set, buffer accounting,
   reading()/writing() sessions.  Executable; no proofs here. *)
From Coq Require Import NArith ZArith List Bool.
Import ListNotations.
From Molli Require Import Model.UKV Model.UKVViews.
Open Scope N_scope.

Inductive sess := SIdle | SReading | SWriting.

Record backend := mkb {
  uk : handle;                       (* the UKVFile object (h0 while it does not exist yet) *)
  has_uk : bool;                     (* hasattr(self, "_ukvfile") *)
  queue : list (bytes * bytes);      (* _write_queue, oldest first *)
  bkeys : list bytes;                (* _keys (a set) *)
  used : Z;                          (* _usedmem *)
  bufsize : Z;
  ro : bool;
  st : sess
}.

Definition b_init (bufsz : Z) (readonly : bool) : backend := mkb h0 false [] [] 0%Z bufsz readonly SIdle.

Definition set_add (s : list bytes) (k : bytes) : list bytes := if existsb (beq k) s then s else s ++ [k].
Definition set_union (s t : list bytes) : list bytes := fold_left set_add t s.

Inductive berr := BUnsupported | BKey | BStruct | BIO | BAttr.   (* UnsupportedOperation | KeyError | struct.error | IOError(OSError) | AttributeError *)
Inductive bres := BOk | BVal (v : bytes) | BKeys (ks : list bytes) | BErr (e : berr) | BOther
  | BBool (x : bool) | BNum (n : N) | BItems (l : list (bytes * bytes)) | BVals (l : list bytes).

Definition berr_of (e : err) : berr :=
  match e with EUnsupported => BUnsupported | EKey => BKey | EStruct => BStruct end.

(* flush(): write the queue out in order; the first failing write stops it, drops that item,
   and repairs the key listing (file keys + still-queued keys) *)
Fixpoint flush_loop (fuel : nat) (f : bytes) (b : backend) : bytes * backend * option berr :=
  match fuel with
  | O => (f, b, None)
  | S fuel' =>
    match queue b with
    | [] => (f, mkb (uk b) (has_uk b) [] (bkeys b) 0%Z (bufsize b) (ro b) (st b), None)
    | (k, v) :: q' =>
        if negb (has_uk b) then
          (* no _ukvfile attribute: _write raises AttributeError, and so does update_keys in the handler *)
          (f, mkb (uk b) (has_uk b) q' (bkeys b) (used b) (bufsize b) (ro b) (st b), Some BAttr)
        else
        let '(f', h', r) := put f (uk b) k v in
        match r with
        | ROk => flush_loop fuel' f' (mkb h' (has_uk b) q' (bkeys b) (used b) (bufsize b) (ro b) (st b))
        | RErr e =>
            (f', mkb h' (has_uk b) q' (set_union (keys h') (map fst q')) (used b) (bufsize b) (ro b) (st b),
             Some (berr_of e))
        | _ => (f', b, Some BAttr)
        end
    end
  end.

Definition flush (f : bytes) (b : backend) : bytes * backend * option berr :=
  flush_loop (S (length (queue b))) f b.

Definition b_put (f : bytes) (b : backend) (k v : bytes) : bytes * backend * bres :=
  if ro b then (f, b, BErr BIO) else
  let b1 := mkb (uk b) (has_uk b) (queue b ++ [(k, v)]) (set_add (bkeys b) k)
                (used b + Z.of_N (len k) + Z.of_N (len v))%Z (bufsize b) (ro b) (st b) in
  if (bufsize b1 <? used b1)%Z then
    let '(f', b2, e) := flush f b1 in
    (f', b2, match e with None => BOk | Some x => BErr x end)
  else (f, b1, BOk).

Definition writing (b : backend) : bool := match st b with SWriting => true | _ => false end.

(* get(): a buffered key is written out first -- inside a writing session only (elsewhere the write could only fail, and a
   failing flush drops the item it fails on) *)
Definition b_get (f : bytes) (b : backend) (k : bytes) : bytes * backend * bres :=
  let '(f1, b1, e) := if writing b && existsb (fun p => beq k (fst p)) (queue b) then flush f b else (f, b, None) in
  match e with
  | Some x => (f1, b1, BErr x)
  | None =>
      if negb (has_uk b1) then (f1, b1, BErr BAttr) else
      match get f1 (uk b1) k with
      | RVal v => (f1, b1, BVal v)
      | RErr x => (f1, b1, BErr (berr_of x))
      | _ => (f1, b1, BOther)
      end
  end.

(* writing().__enter__ : readonly check, (lock), begin_write, update_keys *)
Definition b_begin_w (f : bytes) (b : backend) : bytes * backend * bres :=
  if ro b then (f, b, BErr BUnsupported) else
  let '(f', h') := open_ f (uk b) MA in
  (f', mkb h' true (queue b) (keys h') (used b) (bufsize b) (ro b) SWriting, BOk).

(* writing().__exit__ : flush (may raise), end_write, idle, (lock released in every case) *)
Definition b_end_w (f : bytes) (b : backend) : bytes * backend * bres :=
  let '(f', b1, e) := flush f b in
  (f', mkb (close_ (uk b1)) (has_uk b1) (queue b1) (bkeys b1) (used b1) (bufsize b1) (ro b1) SIdle,
   match e with None => BOk | Some x => BErr x end).

Definition b_begin_r (f : bytes) (b : backend) : bytes * backend * bres :=
  let '(f', h') := open_ f (uk b) MR in
  (f', mkb h' true (queue b) (keys h') (used b) (bufsize b) (ro b) SReading, BOk).

Definition b_end_r (f : bytes) (b : backend) : bytes * backend * bres :=
  (f, mkb (close_ (uk b)) (has_uk b) (queue b) (bkeys b) (used b) (bufsize b) (ro b) SIdle, BOk).

(* items() / values(): ((k, self.get(k)) for k in self.keys()) consumed to the end -- one get per listed key (a get of a
   buffered key flushes the queue first); the first failing get aborts the generator *)
Fixpoint b_items_loop (ks : list bytes) (f : bytes) (b : backend) (acc : list (bytes * bytes)) : bytes * backend * bres :=
  match ks with
  | [] => (f, b, BItems (rev acc))
  | k :: ks' =>
      let '(f1, b1, r) := b_get f b k in
      match r with
      | BVal v => b_items_loop ks' f1 b1 ((k, v) :: acc)
      | _ => (f1, b1, r)
      end
  end.
Definition b_items (f : bytes) (b : backend) : bytes * backend * bres := b_items_loop (bkeys b) f b [].
Definition b_values (f : bytes) (b : backend) : bytes * backend * bres :=
  let '(f', b', r) := b_items f b in (f', b', match r with BItems l => BVals (map snd l) | x => x end).

Inductive bop :=
| BeginW (i : nat) | EndW (i : nat) | BeginR (i : nat) | EndR (i : nat)
| EndWX (i : nat) | EndRX (i : nat)   (* the with-block ends by an exception of its own: the same finalisers run (flush, close, idle, lock
                                         released) and an exception propagates -- the body's, or the flush's if that fails too *)
| CPut (i : nat) (k v : bytes) | CGet (i : nat) (k : bytes) | CKeys (i : nat) | CFlush (i : nat)
| CContains (i : nat) (k : bytes)     (* k in c, k in c._backend *)
| CLen (i : nat)                      (* len(c), c.n_items, len(c._backend) *)
| CItems (i : nat) | CValues (i : nat)
| CDup (i j : nat).                   (* cols[j] = pickle.loads(pickle.dumps(cols[i])) : every field but the lock travels *)

Definition bworld := (bytes * list backend)%type.
Definition b0 : backend := b_init 0%Z true.

Definition bstep (w : bworld) (o : bop) : bworld * bres :=
  let '(f, bs) := w in
  let on i (g : bytes -> backend -> bytes * backend * bres) :=
      let '(f', b', r) := g f (nth i bs b0) in ((f', upd bs i b'), r) in
  match o with
  | BeginW i => on i b_begin_w
  | EndW i => on i b_end_w
  | BeginR i => on i b_begin_r
  | EndR i => on i b_end_r
  | EndWX i => on i (fun f b => let '(f', b', _) := b_end_w f b in (f', b', BErr BAttr))
  | EndRX i => on i (fun f b => let '(f', b', _) := b_end_r f b in (f', b', BErr BAttr))
  | CPut i k v => on i (fun f b => b_put f b k v)
  | CGet i k => on i (fun f b => b_get f b k)
  | CKeys i => ((f, bs), BKeys (bkeys (nth i bs b0)))
  | CFlush i => on i (fun f b => let '(f', b', e) := flush f b in
                                 (f', b', match e with None => BOk | Some x => BErr x end))
  | CContains i k => ((f, bs), BBool (existsb (beq k) (bkeys (nth i bs b0))))
  | CLen i => ((f, bs), BNum (N.of_nat (length (bkeys (nth i bs b0)))))
  | CItems i => on i b_items
  | CValues i => on i b_values
  | CDup i j => ((f, upd bs j (nth i bs b0)), BOk)
  end.

Fixpoint brun (w : bworld) (ops : list bop) : list bres * bworld :=
  match ops with
  | [] => ([], w)
  | o :: ops' => let '(w', r) := bstep w o in let '(rs, wf) := brun w' ops' in (r :: rs, wf)
  end.

Definition berr_eqb (a b : berr) : bool :=
  match a, b with
  | BUnsupported, BUnsupported | BKey, BKey | BStruct, BStruct | BIO, BIO | BAttr, BAttr => true
  | _, _ => false
  end.
Definition bres_eqb (a b : bres) : bool :=
  match a, b with
  | BOk, BOk => true
  | BVal x, BVal y => beq x y
  | BKeys x, BKeys y => set_eqb x y
  | (BErr _ | BOther), (BErr _ | BOther) => true   (* a failure is a failure: exception classes are not part of the property *)
  | BBool x, BBool y => Bool.eqb x y
  | BNum x, BNum y => x =? y
  | BItems x, BItems y => perm_eqb pair_eqb x y      (* a set of keys is iterated in no particular order *)
  | BVals x, BVals y => perm_eqb beq x y
  | _, _ => false
  end.

(* case = ((initial file, [(bufsize, readonly)] per collection handle, ops), (observed results, final file)) *)
Definition bcase := ((bytes * list (Z * bool) * list bop) * (list bres * bytes))%type.
Definition check_bcase (c : bcase) : bool :=
  let '((f0, cfg, ops), (ers, ef)) := c in
  let '(rs, (f, _)) := brun (f0, map (fun p => b_init (fst p) (snd p)) cfg) ops in
  all2 bres_eqb rs ers && beq f ef.
