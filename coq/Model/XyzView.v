(* C08, VIEWS (owned by C08 only).

   A written object need not own its atoms and coordinates: a Substructure is a selection of the atoms of a parent
   structure (a molecule, a structure, a conformer of an ensemble), given as a list of parent indices IN THE ORDER
   IN WHICH THE ATOMS WERE SELECTED -- not necessarily ascending, possibly with an index more than once -- and its
   coordinate block is the parent's rows taken in that same order.  Writing a view pairs atom j of the selection
   with row j of that block.  `select` is that pairing; a view session interleaves writes of the view, writes of the
   parent, edits of the parent (a row, an element) and assignments through the view (row j of the assigned block
   goes to the parent's row sel_j).

   No proofs in this file. *)
From Coq Require Import List Bool Arith NArith ZArith Ascii String.
From Molli Require Import Common.ParseStr Model.Parse Model.XyzText Model.XyzEdit.
Import ListNotations.
Local Open Scope list_scope.

(* the selected items, in the order of the selection; None when an index is outside the parent *)
Fixpoint select {A} (sel : list nat) (l : list A) : option (list A) :=
  match sel with
  | [] => Some []
  | i :: r => match nth_error l i, select r l with
              | Some x, Some xs => Some (x :: xs)
              | _, _ => None
              end
  end.

(* the geometry a view shows: the parent's atoms (element AND coordinate row together) in selection order *)
Definition view_geom (vname : str) (sel : list nat) (g : wgeom) : option wgeom :=
  option_map (mk_wgeom vname) (select sel (wg_atoms g)).

Definition set_xyz (p : trip) (a : watom) : watom := mk_watom (wa_elem a) (fst (fst p)) (snd (fst p)) (snd p).
Definition set_elem (z : Z) (a : watom) : watom := mk_watom z (wa_x a) (wa_y a) (wa_z a).

Inductive vop :=
| VSetRow (i : nat) (p : trip)               (* parent.coords[i] = p *)
| VSetElem (i : nat) (z : Z)                 (* parent.atoms[i].element = Element(z) *)
| VAssign (ps : list trip).                  (* view.coords = ps (also scale / translate of the view): row j -> parent row sel_j *)

Inductive vstep :=
| VEdit (o : vop)
| VWriteView                                 (* dumps_xyz / dump_xyz of the view *)
| VWriteParent.                              (* ... of the parent itself *)

Definition apply_vop (sel : list nat) (o : vop) (g : wgeom) : wgeom :=
  match o with
  | VSetRow i p => mk_wgeom (wg_name g) (upd_with i (set_xyz p) (wg_atoms g))
  | VSetElem i z => mk_wgeom (wg_name g) (upd_with i (set_elem z) (wg_atoms g))
  | VAssign ps => mk_wgeom (wg_name g)
                           (fold_left (fun ats ip => upd_with (fst ip) (set_xyz (snd ip)) ats) (combine sel ps) (wg_atoms g))
  end.

Definition write_view (syms : list (Z * str)) (vname : str) (sel : list nat) (g : wgeom) : option (list str) :=
  match view_geom vname sel g with Some v => write_xyz syms [v] | None => None end.

Fixpoint run_view (syms : list (Z * str)) (vname : str) (sel : list nat) (g : wgeom) (steps : list vstep)
  : list (option (list str)) :=
  match steps with
  | [] => []
  | VEdit o :: r => run_view syms vname sel (apply_vop sel o g) r
  | VWriteView :: r => write_view syms vname sel g :: run_view syms vname sel g r
  | VWriteParent :: r => write_xyz syms [g] :: run_view syms vname sel g r
  end.

(* what every write must be read back as: the selection of the parent's state at the time of THAT write *)
Fixpoint view_expect (vname : str) (sel : list nat) (g : wgeom) (steps : list vstep) : list (option (list mol)) :=
  match steps with
  | [] => []
  | VEdit o :: r => view_expect vname sel (apply_vop sel o g) r
  | VWriteView :: r => option_map (fun v => [geom_mol v]) (view_geom vname sel g) :: view_expect vname sel g r
  | VWriteParent :: r => Some [geom_mol g] :: view_expect vname sel g r
  end.

(* correspondence: the view's comment line, the selection, the parent's INITIAL state, the steps, and the text of every
   write as produced by the implementation *)
Definition vcase := (str * list nat * wgeom * list vstep * list (list string))%type.
Definition chk_xyz_view (syms : list (Z * string)) (c : vcase) : bool :=
  let '(vname, sel, g, steps, outs) := c in
  list_eqb (fun (m : option (list str)) (o : list string) =>
              match m with Some ls => list_eqb str_eqb ls (map s2l o) | None => false end)
           (run_view (conv_syms syms) vname sel g steps) outs.

(* the slip this part of the model excludes: the rows taken in the PARENT's order (a membership mask, a sorted index
   list) under atoms kept in selection order *)
Fixpoint insert_nat (i : nat) (l : list nat) : list nat :=
  match l with [] => [i] | j :: r => if (i <=? j)%nat then i :: l else j :: insert_nat i r end.
Definition sort_nat (l : list nat) : list nat := fold_right insert_nat [] l.
Definition masked_geom (vname : str) (sel : list nat) (g : wgeom) : option wgeom :=
  match select sel (wg_atoms g), select (sort_nat sel) (wg_atoms g) with
  | Some ats, Some rows => Some (mk_wgeom vname (map (fun ar => mk_watom (wa_elem (fst ar)) (wa_x (snd ar)) (wa_y (snd ar)) (wa_z (snd ar)))
                                                     (combine ats rows)))
  | _, _ => None
  end.
