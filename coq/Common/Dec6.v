(* Decimal text of the numbers a mol2 file carries (C07).
   - print_nat / parse_nat : what f"{i}" writes for a non-negative int and a reader for plain digit strings,
     built on the standard library's N.to_uint / N.of_uint (round trip from DecimalN.Unsigned.of_to);
   - print_fixed k / parse_fixed k : the text of "%.kf" for the value  (-1)^neg * mag / 10^k
     (sign, integer part, ".", exactly k fraction digits) and its reader.
   Round-trip theorems hold for EVERY value, any width.  The link float -> (neg, mag) is CPython's
   correctly rounded `format` (trusted, checked by the correspondence run). *)
From Coq Require Import String Ascii.
From Coq Require Import List Bool NArith ZArith Lia Decimal DecimalN DecimalPos.
From Molli Require Import Common.StrSplit.
Import ListNotations.
Local Open Scope N_scope.

Definition is_digit (c : N) : bool := (48 <=? c) && (c <=? 57).
Definition digit (d : N) : N := 48 + d.

Fixpoint of_digits_acc (acc : N) (s : str) : option N :=
  match s with
  | [] => Some acc
  | c :: s' => if is_digit c then of_digits_acc (10 * acc + (c - 48)) s' else None
  end.
(* int("123"); the reader only needs plain digit strings (Python's int() also accepts signs, "_" and blanks) *)
Definition parse_nat (s : str) : option N := match s with [] => None | _ => of_digits_acc 0 s end.

Fixpoint chars_of_uint (u : Decimal.uint) : str :=
  match u with
  | Nil => []
  | D0 u => 48 :: chars_of_uint u | D1 u => 49 :: chars_of_uint u | D2 u => 50 :: chars_of_uint u
  | D3 u => 51 :: chars_of_uint u | D4 u => 52 :: chars_of_uint u | D5 u => 53 :: chars_of_uint u
  | D6 u => 54 :: chars_of_uint u | D7 u => 55 :: chars_of_uint u | D8 u => 56 :: chars_of_uint u
  | D9 u => 57 :: chars_of_uint u
  end.
Definition print_nat (n : N) : str := chars_of_uint (N.to_uint n).

(* exactly k digits, most significant first *)
Fixpoint frac_digits (k : nat) (r : N) : str :=
  match k with O => [] | S k' => frac_digits k' (r / 10) ++ [digit (r mod 10)] end.

Record fx := mk_fx { fneg : bool; fmag : N }.     (* (-1)^fneg * fmag / 10^k *)
Definition fx_eqb (a b : fx) : bool := Bool.eqb (fneg a) (fneg b) && N.eqb (fmag a) (fmag b).
Definition fx_val (a : fx) : Z := if fneg a then Z.opp (Z.of_N (fmag a)) else Z.of_N (fmag a).

Definition MINUS : N := 45.
Definition DOT : N := 46.

Definition print_fixed (k : nat) (x : fx) : str :=
  (if fneg x then [MINUS] else []) ++ print_nat (fmag x / 10 ^ N.of_nat k) ++ [DOT]
  ++ frac_digits k (fmag x mod 10 ^ N.of_nat k).

Fixpoint split_at_dot (s : str) : option (str * str) :=
  match s with
  | [] => None
  | c :: r => if c =? DOT then Some ([], r)
              else match split_at_dot r with Some (a, b) => Some (c :: a, b) | None => None end
  end.

Definition parse_unsigned (k : nat) (neg : bool) (body : str) : option fx :=
  match split_at_dot body with
  | Some (ip, fp) =>
      if Nat.eqb (length fp) k then
        match parse_nat ip, of_digits_acc 0 fp with
        | Some q, Some r => Some (mk_fx neg (q * 10 ^ N.of_nat k + r))
        | _, _ => None
        end
      else None
  | None => None
  end.

(* float("-12.345600") restricted to the shape "%.kf" produces; anything else is outside the model (None) *)
Definition parse_fixed (k : nat) (s : str) : option fx :=
  match s with
  | [] => None
  | c :: r => if c =? MINUS then parse_unsigned k true r else parse_unsigned k false s
  end.

(* ------------------------------------------------------------------ lemmas *)
Definition all_digits (s : str) : Prop := forallb is_digit s = true.

Lemma chars_of_uint_digits u : all_digits (chars_of_uint u).
Proof. unfold all_digits. induction u; simpl; auto. Qed.

Lemma of_digits_acc_step acc c s : is_digit c = true ->
  of_digits_acc acc (c :: s) = of_digits_acc (10 * acc + (c - 48)) s.
Proof. intros H. cbn [of_digits_acc]. now rewrite H. Qed.

Lemma of_digits_acc_uint u : forall p, of_digits_acc (N.pos p) (chars_of_uint u) = Some (N.pos (Pos.of_uint_acc u p)).
Proof.
  induction u; intros p; [reflexivity|..]; cbn [chars_of_uint Pos.of_uint_acc];
  rewrite of_digits_acc_step by reflexivity; rewrite <- IHu; f_equal; lia.
Qed.

Lemma of_digits_uint u : of_digits_acc 0 (chars_of_uint u) = Some (N.of_uint u).
Proof.
  unfold N.of_uint. induction u; [reflexivity|..]; cbn [chars_of_uint Pos.of_uint];
  rewrite of_digits_acc_step by reflexivity;
  [exact IHu | rewrite <- of_digits_acc_uint; f_equal ..].
Qed.

Lemma print_nat_nonempty n : print_nat n <> [].
Proof.
  unfold print_nat. destruct n as [|p]; [discriminate|]. simpl.
  pose proof (Unsigned.to_uint_nonnil p) as H. destruct (Pos.to_uint p); [now elim H|..]; discriminate.
Qed.

Theorem parse_print_nat n : parse_nat (print_nat n) = Some n.
Proof.
  unfold parse_nat. pose proof (print_nat_nonempty n) as H. destruct (print_nat n) eqn:E; [now elim H|].
  rewrite <- E. unfold print_nat. rewrite of_digits_uint. f_equal. apply DecimalN.Unsigned.of_to.
Qed.

Lemma print_nat_digits n : all_digits (print_nat n).
Proof. apply chars_of_uint_digits. Qed.

Lemma of_digits_acc_app a : forall acc b,
  of_digits_acc acc (a ++ b) = match of_digits_acc acc a with Some x => of_digits_acc x b | None => None end.
Proof.
  induction a as [|c a IH]; intros acc b; [reflexivity|]. simpl. destruct (is_digit c); [apply IH|reflexivity].
Qed.

Lemma is_digit_digit d : d < 10 -> is_digit (digit d) = true.
Proof. unfold is_digit, digit. intros H. apply andb_true_intro. split; apply N.leb_le; lia. Qed.

Lemma frac_digits_length k : forall r, length (frac_digits k r) = k.
Proof. induction k; intros r; [reflexivity|]. simpl. rewrite app_length, IHk. simpl. lia. Qed.

Lemma frac_digits_digits k : forall r, all_digits (frac_digits k r).
Proof.
  unfold all_digits. induction k; intros r; [reflexivity|]. simpl. rewrite forallb_app, IHk. simpl.
  rewrite is_digit_digit; [reflexivity|]. apply N.mod_lt. lia.
Qed.

Lemma of_digits_frac k : forall acc r, r < 10 ^ N.of_nat k ->
  of_digits_acc acc (frac_digits k r) = Some (acc * 10 ^ N.of_nat k + r).
Proof.
  induction k; intros acc r H.
  - simpl in *. f_equal. lia.
  - cbn [frac_digits]. rewrite of_digits_acc_app. rewrite Nat2N.inj_succ, N.pow_succ_r' in *.
    assert (Hq : r / 10 < 10 ^ N.of_nat k) by (apply N.div_lt_upper_bound; lia).
    rewrite (IHk acc (r / 10) Hq). cbn [of_digits_acc]. rewrite is_digit_digit by (apply N.mod_lt; lia).
    f_equal. unfold digit. assert (E : r = 10 * (r / 10) + r mod 10) by (apply N.div_mod; lia).
    set (X := 10 ^ N.of_nat k) in *. set (q := r / 10) in *. set (m := r mod 10) in *. clearbody X q m. nia.
Qed.

Lemma split_at_dot_digits a : forall b, all_digits a -> split_at_dot (a ++ DOT :: b) = Some (a, b).
Proof.
  unfold all_digits. induction a as [|c a IH]; intros b H; [reflexivity|]. simpl in H. apply andb_prop in H.
  destruct H as [Hc Ha]. simpl. destruct (c =? DOT) eqn:E.
  - apply N.eqb_eq in E. subst c. discriminate.
  - now rewrite (IH b Ha).
Qed.

Lemma digits_head_not_minus s : all_digits s -> match s with c :: _ => c =? MINUS | [] => false end = false.
Proof.
  unfold all_digits. destruct s as [|c s]; [reflexivity|]. simpl. intros H. apply andb_prop in H. destruct H as [Hc _].
  destruct (c =? MINUS) eqn:E; [|reflexivity]. apply N.eqb_eq in E. subst c. discriminate.
Qed.

Lemma parse_unsigned_print k neg mag :
  parse_unsigned k neg (print_nat (mag / 10 ^ N.of_nat k) ++ DOT :: frac_digits k (mag mod 10 ^ N.of_nat k))
  = Some (mk_fx neg mag).
Proof.
  assert (HP : 10 ^ N.of_nat k <> 0) by (apply N.pow_nonzero; lia).
  unfold parse_unsigned. rewrite split_at_dot_digits by apply print_nat_digits.
  rewrite frac_digits_length, Nat.eqb_refl, parse_print_nat.
  rewrite of_digits_frac by (apply N.mod_lt; exact HP). f_equal. f_equal.
  pose proof (N.div_mod mag _ HP). lia.
Qed.

Theorem parse_print_fixed k x : parse_fixed k (print_fixed k x) = Some x.
Proof.
  destruct x as [neg mag]. unfold print_fixed. cbn [fneg fmag]. destruct neg.
  - change ([MINUS] ++ ?a ++ [DOT] ++ ?b) with (MINUS :: (a ++ DOT :: b)). unfold parse_fixed.
    change (MINUS =? MINUS) with true. cbv iota. apply parse_unsigned_print.
  - change ([] ++ ?a ++ [DOT] ++ ?b) with (a ++ DOT :: b).
    pose proof (parse_unsigned_print k false mag) as Hcore.
    pose proof (digits_head_not_minus _ (print_nat_digits (mag / 10 ^ N.of_nat k))) as Hm.
    pose proof (print_nat_nonempty (mag / 10 ^ N.of_nat k)) as Hne.
    destruct (print_nat (mag / 10 ^ N.of_nat k)) as [|c r]; [now elim Hne|].
    unfold parse_fixed. rewrite <- app_comm_cons. rewrite Hm. rewrite app_comm_cons. exact Hcore.
Qed.

(* the written numbers are blank-free, non-empty tokens *)
Lemma digits_not_ws s : all_digits s -> forallb (fun c => negb (pyws c)) s = true.
Proof.
  unfold all_digits. induction s as [|c s IH]; intros H; [reflexivity|]. simpl in *. apply andb_prop in H.
  destruct H as [Hc Hs]. rewrite IH by exact Hs. rewrite andb_true_r.
  unfold is_digit in Hc. apply andb_prop in Hc. destruct Hc as [H1 H2]. apply N.leb_le in H1, H2.
  unfold pyws. apply negb_true_iff.
  repeat match goal with |- (_ || _) = false => apply orb_false_intro end;
  try (apply andb_false_iff; (left; apply N.leb_gt; lia) || (right; apply N.leb_gt; lia));
  try (apply N.eqb_neq; lia).
Qed.

Lemma print_nat_tok n : tok pyws (print_nat n).
Proof. split; [apply print_nat_nonempty|apply digits_not_ws, print_nat_digits]. Qed.

Lemma print_fixed_tok k x : tok pyws (print_fixed k x).
Proof.
  unfold print_fixed. split.
  - destruct (fneg x); [discriminate|]. simpl. pose proof (print_nat_nonempty (fmag x / 10 ^ N.of_nat k)) as H.
    destruct (print_nat _); [now elim H|discriminate].
  - rewrite !forallb_app. rewrite (digits_not_ws _ (print_nat_digits _)), (digits_not_ws _ (frac_digits_digits _ _)).
    destruct (fneg x); reflexivity.
Qed.
