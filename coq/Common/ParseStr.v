(* Character-level string library shared by the xyz/mol2 text models (C08, C10).
   Executable definitions only; the lemmas are in Proofs/XyzText.v.
   Models (ASCII only; stated as a limit): str.split() without argument, str.strip(), int(str),
   float(str) incl. inf/nan/underscores/exponents, str.capitalize(), str(int), format(x, ".6f") of a value that
   is already a whole number of micro-units, and str.ljust / rjust with blanks. *)
From Coq Require Import List Bool Arith NArith ZArith Ascii String.
Import ListNotations.
Local Open Scope char_scope.
Local Open Scope list_scope.

Definition str := list ascii.
Definition s2l (s : string) : str := list_ascii_of_string s.
Definition l2s (l : str) : string := string_of_list_ascii l.
Definition str_of_bytes (l : list N) : string := l2s (map ascii_of_N l).

Definition ascii_eqb (a b : ascii) : bool := Ascii.eqb a b.
Fixpoint str_eqb (a b : str) : bool :=
  match a, b with
  | [], [] => true
  | x :: a', y :: b' => ascii_eqb x y && str_eqb a' b'
  | _, _ => false
  end.

(* str.isspace for ASCII: \t \n \v \f \r, FS GS RS US, blank *)
Definition is_ws (c : ascii) : bool :=
  let n := N_of_ascii c in (((9 <=? n) && (n <=? 13)) || ((28 <=? n) && (n <=? 32)))%N.

Definition digit_val (c : ascii) : option N :=
  let n := N_of_ascii c in if ((48 <=? n) && (n <=? 57))%N then Some (n - 48)%N else None.
Definition is_digit (c : ascii) : bool := match digit_val c with Some _ => true | None => false end.
Definition digit_char (d : N) : ascii := ascii_of_N (48 + d).

Definition lower (c : ascii) : ascii :=
  let n := N_of_ascii c in if ((65 <=? n) && (n <=? 90))%N then ascii_of_N (n + 32) else c.
Definition upper (c : ascii) : ascii :=
  let n := N_of_ascii c in if ((97 <=? n) && (n <=? 122))%N then ascii_of_N (n - 32) else c.
(* str.capitalize *)
Definition capitalize (s : str) : str := match s with [] => [] | c :: r => upper c :: map lower r end.

(* ---------------------------------------------------------------- split / strip *)
(* Python str.split() with no argument: maximal runs of non-whitespace *)
Fixpoint split_aux (cur : str) (s : str) : list str :=
  match s with
  | [] => match cur with [] => [] | _ => [rev cur] end
  | c :: s' => if is_ws c then match cur with [] => split_aux [] s' | _ => rev cur :: split_aux [] s' end
               else split_aux (c :: cur) s'
  end.
Definition split (s : str) : list str := split_aux [] s.

Fixpoint drop_ws (s : str) : str :=
  match s with [] => [] | c :: r => if is_ws c then drop_ws r else s end.
Definition strip (s : str) : str := rev (drop_ws (rev (drop_ws s))).

Fixpoint starts_with (p s : str) : option str :=      (* Some rest when p is a prefix of s *)
  match p, s with
  | [], _ => Some s
  | x :: p', y :: s' => if ascii_eqb x y then starts_with p' s' else None
  | _ :: _, [] => None
  end.

(* text -> lines: what iterating io.StringIO(text) yields, without the line terminators
   (every consumer strips or splits, so a trailing "\n" is immaterial) *)
Fixpoint lines_aux (cur : str) (s : str) : list str :=
  match s with
  | [] => match cur with [] => [] | _ => [rev cur] end
  | c :: s' => if ascii_eqb c "010" then rev cur :: lines_aux [] s' else lines_aux (c :: cur) s'
  end.
Definition lines_of (text : str) : list str := lines_aux [] text.

(* ---------------------------------------------------------------- int() and float() *)
(* after one digit: ( ["_"] digit )*  ; returns value, number of digits, rest *)
Fixpoint digits_loop (acc : N) (n : nat) (s : str) : N * nat * str :=
  match s with
  | [] => (acc, n, s)
  | c :: r =>
    match digit_val c with
    | Some d => digits_loop (acc * 10 + d) (S n) r
    | None =>
      if ascii_eqb c "_" then
        match r with
        | c2 :: r2 => match digit_val c2 with
                      | Some d => digits_loop (acc * 10 + d) (S n) r2
                      | None => (acc, n, s)
                      end
        | [] => (acc, n, s)
        end
      else (acc, n, s)
    end
  end.
Definition take_digits (s : str) : option (N * nat * str) :=
  match s with
  | [] => None
  | c :: r => match digit_val c with Some d => Some (digits_loop d 1 r) | None => None end
  end.

Definition take_sign (s : str) : bool * str :=
  match s with
  | c :: r => if ascii_eqb c "-" then (true, r) else if ascii_eqb c "+" then (false, r) else (false, s)
  | [] => (false, s)
  end.
Definition signed (neg : bool) (v : N) : Z := if neg then (- Z.of_N v)%Z else Z.of_N v.

(* int(s), base 10 *)
Definition parse_int (s0 : str) : option Z :=
  let (neg, s) := take_sign (strip s0) in
  match take_digits s with
  | Some (v, _, []) => Some (signed neg v)
  | _ => None
  end.

(* value = (if neg then -1 else 1) * m * 10^e *)
Inductive fval := FNum (neg : bool) (m : N) (e : Z) | FInf (neg : bool) | FNan.

Definition parse_exp (s : str) : option Z :=
  match s with
  | [] => Some 0%Z
  | c :: r =>
    if ascii_eqb (lower c) "e" then
      let (neg, r') := take_sign r in
      match take_digits r' with Some (v, _, []) => Some (signed neg v) | _ => None end
    else None
  end.

Definition pow10 (n : nat) : N := (10 ^ N.of_nat n)%N.

Definition parse_number (s : str) : option (N * Z) :=
  match take_digits s with
  | Some (ip, _, r) =>
    match r with
    | c :: r1 =>
      if ascii_eqb c "." then
        match take_digits r1 with
        | Some (fp, nf, r2) => option_map (fun e => ((ip * pow10 nf + fp)%N, (e - Z.of_nat nf)%Z)) (parse_exp r2)
        | None => option_map (fun e => (ip, e)) (parse_exp r1)
        end
      else option_map (fun e => (ip, e)) (parse_exp r)
    | [] => Some (ip, 0%Z)
    end
  | None =>
    match s with
    | c :: r1 =>
      if ascii_eqb c "." then
        match take_digits r1 with
        | Some (fp, nf, r2) => option_map (fun e => (fp, (e - Z.of_nat nf)%Z)) (parse_exp r2)
        | None => None
        end
      else None
    | [] => None
    end
  end.

Definition w_inf : str := ["i"; "n"; "f"].
Definition w_infinity : str := ["i"; "n"; "f"; "i"; "n"; "i"; "t"; "y"].
Definition w_nan : str := ["n"; "a"; "n"].

(* float(s) *)
Definition parse_float (s0 : str) : option fval :=
  let (neg, s) := take_sign (strip s0) in
  let ls := map lower s in
  if str_eqb ls w_inf || str_eqb ls w_infinity then Some (FInf neg)
  else if str_eqb ls w_nan then Some FNan
  else match parse_number s with Some (m, e) => Some (FNum neg m e) | None => None end.

(* ---------------------------------------------------------------- printing *)
(* the w least significant decimal digits of f, most significant first *)
Fixpoint fixed_digits (w : nat) (f : N) : str :=
  match w with O => [] | S w' => fixed_digits w' (f / 10) ++ [digit_char (f mod 10)] end.
Fixpoint drop_zeros (s : str) : str :=
  match s with [] => [] | c :: r => if ascii_eqb c "0" then drop_zeros r else s end.
(* str(n) for n >= 0 *)
Definition print_N (n : N) : str :=
  match drop_zeros (fixed_digits (N.to_nat (N.size n)) n) with [] => ["0"] | l => l end.
Definition print_Z (z : Z) : str :=
  match z with Zneg p => "-" :: print_N (Npos p) | _ => print_N (Z.to_N z) end.

Definition blanks (n : nat) : str := repeat " " n.
Definition ljust (w : nat) (s : str) : str := s ++ blanks (w - List.length s).
Definition rjust (w : nat) (s : str) : str := blanks (w - List.length s) ++ s.

(* format(x, ".6f") where x is (correctly rounded to) neg? * mag micro-units; "-0.000000" is neg=true, mag=0 *)
Definition million : N := 1000000.
Definition print_dec6 (neg : bool) (mag : N) : str :=
  (if neg then ["-"] else []) ++ print_N (mag / million) ++ "." :: fixed_digits 6 (mag mod million).
